//go:build verif

// Package kbatch is the harness-side reference codec for Kafka record batch v2
// (uncompressed), written from the Kafka protocol description and independent
// of /repo's code. Stdlib only.
package kbatch

import (
	"encoding/binary"
	"errors"
	"fmt"
	"hash/crc32"
	"math/rand"
)

var castagnoli = crc32.MakeTable(crc32.Castagnoli)

type Header struct {
	Key   string
	Value []byte // nil = null
}

type Record struct {
	Attributes     int8
	TimestampDelta int64
	OffsetDelta    int32
	Key            []byte // nil = null
	Value          []byte // nil = null
	Headers        []Header
}

type Batch struct {
	BaseOffset           int64
	BatchLength          int32 // as found on the wire when decoding; computed on Encode unless Raw* overrides are set
	PartitionLeaderEpoch int32
	Magic                int8
	CRC                  uint32
	Attributes           int16
	LastOffsetDelta      int32
	FirstTimestamp       int64
	MaxTimestamp         int64
	ProducerID           int64
	ProducerEpoch        int16
	BaseSequence         int32
	NumRecords           int32
	Records              []Record
	RawRecords           []byte // record section bytes as found (decode) or to be used verbatim (encode, if non-nil)
}

func putVarint(b []byte, v int64) []byte {
	u := uint64(v<<1) ^ uint64(v>>63)
	for u >= 0x80 {
		b = append(b, byte(u)|0x80)
		u >>= 7
	}
	return append(b, byte(u))
}

func getVarint(b []byte) (int64, int, error) {
	var u uint64
	var s uint
	for i := 0; i < len(b); i++ {
		if i == 10 {
			return 0, 0, errors.New("varint too long")
		}
		c := b[i]
		u |= uint64(c&0x7f) << s
		if c < 0x80 {
			return int64(u>>1) ^ -int64(u&1), i + 1, nil
		}
		s += 7
	}
	return 0, 0, errors.New("varint truncated")
}

// EncodeRecord renders one record including its length prefix.
func EncodeRecord(r Record) []byte {
	var body []byte
	body = append(body, byte(r.Attributes))
	body = putVarint(body, r.TimestampDelta)
	body = putVarint(body, int64(r.OffsetDelta))
	if r.Key == nil {
		body = putVarint(body, -1)
	} else {
		body = putVarint(body, int64(len(r.Key)))
		body = append(body, r.Key...)
	}
	if r.Value == nil {
		body = putVarint(body, -1)
	} else {
		body = putVarint(body, int64(len(r.Value)))
		body = append(body, r.Value...)
	}
	body = putVarint(body, int64(len(r.Headers)))
	for _, h := range r.Headers {
		body = putVarint(body, int64(len(h.Key)))
		body = append(body, h.Key...)
		if h.Value == nil {
			body = putVarint(body, -1)
		} else {
			body = putVarint(body, int64(len(h.Value)))
			body = append(body, h.Value...)
		}
	}
	out := putVarint(nil, int64(len(body)))
	return append(out, body...)
}

// Encode renders the batch with consistent BatchLength, CRC, NumRecords and
// LastOffsetDelta derived from Records (RawRecords, if set, is used verbatim
// and NumRecords/LastOffsetDelta are taken from the struct).
func Encode(b Batch) []byte {
	recs := b.RawRecords
	if recs == nil {
		for _, r := range b.Records {
			recs = append(recs, EncodeRecord(r)...)
		}
		b.NumRecords = int32(len(b.Records))
		if len(b.Records) > 0 {
			b.LastOffsetDelta = b.Records[len(b.Records)-1].OffsetDelta
		}
	}
	return EncodeRaw(b, recs, true)
}

// EncodeRaw renders header fields exactly as given in b. If fix is true,
// BatchLength and CRC are computed; otherwise b.BatchLength / b.CRC are used
// verbatim (for malformed inputs).
func EncodeRaw(b Batch, recs []byte, fix bool) []byte {
	out := make([]byte, 61, 61+len(recs))
	binary.BigEndian.PutUint64(out[0:], uint64(b.BaseOffset))
	binary.BigEndian.PutUint32(out[12:], uint32(b.PartitionLeaderEpoch))
	magic := b.Magic
	if magic == 0 {
		magic = 2
	}
	out[16] = byte(magic)
	binary.BigEndian.PutUint16(out[21:], uint16(b.Attributes))
	binary.BigEndian.PutUint32(out[23:], uint32(b.LastOffsetDelta))
	binary.BigEndian.PutUint64(out[27:], uint64(b.FirstTimestamp))
	binary.BigEndian.PutUint64(out[35:], uint64(b.MaxTimestamp))
	binary.BigEndian.PutUint64(out[43:], uint64(b.ProducerID))
	binary.BigEndian.PutUint16(out[51:], uint16(b.ProducerEpoch))
	binary.BigEndian.PutUint32(out[53:], uint32(b.BaseSequence))
	binary.BigEndian.PutUint32(out[57:], uint32(b.NumRecords))
	out = append(out, recs...)
	if fix {
		binary.BigEndian.PutUint32(out[8:], uint32(len(out)-12))
		binary.BigEndian.PutUint32(out[17:], crc32.Checksum(out[21:], castagnoli))
	} else {
		binary.BigEndian.PutUint32(out[8:], uint32(b.BatchLength))
		binary.BigEndian.PutUint32(out[17:], b.CRC)
	}
	return out
}

// FrameLen returns the total byte length (12 + batchLength) of the batch
// starting at b[0], or an error when it does not fit.
func FrameLen(b []byte) (int, error) {
	if len(b) < 61 {
		return 0, fmt.Errorf("short batch header: %d bytes", len(b))
	}
	l := int(int32(binary.BigEndian.Uint32(b[8:])))
	if l < 49 {
		return 0, fmt.Errorf("batchLength %d < 49", l)
	}
	if 12+l > len(b) {
		return 0, fmt.Errorf("batchLength %d exceeds %d available bytes", l, len(b)-12)
	}
	return 12 + l, nil
}

// Decode parses exactly one batch from the start of b. It checks the CRC and
// that the record section holds NumRecords well-formed records and nothing else.
func Decode(b []byte) (Batch, int, error) {
	n, err := FrameLen(b)
	if err != nil {
		return Batch{}, 0, err
	}
	var x Batch
	x.BaseOffset = int64(binary.BigEndian.Uint64(b[0:]))
	x.BatchLength = int32(binary.BigEndian.Uint32(b[8:]))
	x.PartitionLeaderEpoch = int32(binary.BigEndian.Uint32(b[12:]))
	x.Magic = int8(b[16])
	x.CRC = binary.BigEndian.Uint32(b[17:])
	x.Attributes = int16(binary.BigEndian.Uint16(b[21:]))
	x.LastOffsetDelta = int32(binary.BigEndian.Uint32(b[23:]))
	x.FirstTimestamp = int64(binary.BigEndian.Uint64(b[27:]))
	x.MaxTimestamp = int64(binary.BigEndian.Uint64(b[35:]))
	x.ProducerID = int64(binary.BigEndian.Uint64(b[43:]))
	x.ProducerEpoch = int16(binary.BigEndian.Uint16(b[51:]))
	x.BaseSequence = int32(binary.BigEndian.Uint32(b[53:]))
	x.NumRecords = int32(binary.BigEndian.Uint32(b[57:]))
	x.RawRecords = b[61:n]
	if x.Magic != 2 {
		return x, n, fmt.Errorf("magic %d", x.Magic)
	}
	if got := crc32.Checksum(b[21:n], castagnoli); got != x.CRC {
		return x, n, fmt.Errorf("crc mismatch: header %08x computed %08x", x.CRC, got)
	}
	if x.Attributes&0x07 != 0 {
		return x, n, nil // compressed: records not parsed here
	}
	recs, err := DecodeRecords(x.RawRecords, int(x.NumRecords))
	if err != nil {
		return x, n, err
	}
	x.Records = recs
	return x, n, nil
}

// DecodeRecords parses count records that must consume data exactly.
func DecodeRecords(data []byte, count int) ([]Record, error) {
	var out []Record
	p := 0
	for i := 0; i < count; i++ {
		l, n, err := getVarint(data[p:])
		if err != nil {
			return out, fmt.Errorf("record %d length: %w", i, err)
		}
		p += n
		if l < 0 || int(l) > len(data)-p {
			return out, fmt.Errorf("record %d length %d out of range", i, l)
		}
		r, err := decodeRecordBody(data[p : p+int(l)])
		if err != nil {
			return out, fmt.Errorf("record %d: %w", i, err)
		}
		out = append(out, r)
		p += int(l)
	}
	if p != len(data) {
		return out, fmt.Errorf("%d trailing bytes after %d records", len(data)-p, count)
	}
	return out, nil
}

func decodeRecordBody(b []byte) (Record, error) {
	var r Record
	if len(b) < 1 {
		return r, errors.New("empty record")
	}
	r.Attributes = int8(b[0])
	p := 1
	next := func() (int64, error) {
		v, n, err := getVarint(b[p:])
		p += n
		return v, err
	}
	bytesField := func() ([]byte, error) {
		l, err := next()
		if err != nil {
			return nil, err
		}
		if l < 0 {
			return nil, nil
		}
		if int(l) > len(b)-p {
			return nil, fmt.Errorf("field length %d out of range", l)
		}
		v := append([]byte{}, b[p:p+int(l)]...)
		p += int(l)
		return v, nil
	}
	var err error
	if r.TimestampDelta, err = next(); err != nil {
		return r, err
	}
	od, err := next()
	if err != nil {
		return r, err
	}
	r.OffsetDelta = int32(od)
	if r.Key, err = bytesField(); err != nil {
		return r, err
	}
	if r.Value, err = bytesField(); err != nil {
		return r, err
	}
	hc, err := next()
	if err != nil {
		return r, err
	}
	if hc < 0 || hc > int64(len(b)) {
		return r, fmt.Errorf("header count %d", hc)
	}
	for i := int64(0); i < hc; i++ {
		k, err := bytesField()
		if err != nil {
			return r, err
		}
		v, err := bytesField()
		if err != nil {
			return r, err
		}
		r.Headers = append(r.Headers, Header{Key: string(k), Value: v})
	}
	if p != len(b) {
		return r, fmt.Errorf("%d trailing bytes in record", len(b)-p)
	}
	return r, nil
}

// DecodeAll parses a concatenation of whole batches.
func DecodeAll(b []byte) ([]Batch, error) {
	var out []Batch
	for len(b) > 0 {
		x, n, err := Decode(b)
		if err != nil {
			return out, fmt.Errorf("batch %d: %w", len(out), err)
		}
		out = append(out, x)
		b = b[n:]
	}
	return out, nil
}

// GenOpts bounds the generator.
type GenOpts struct {
	MaxRecords  int
	MaxValue    int
	HostileTS   bool // negative and >2^31 timestamp deltas
	NullsEmpty  bool // null / empty keys and values
	MaxHeaders  int
	BaseTS      int64
	ProducerTag string // prefix of every value, so that a read identifies the write
}

// Gen produces a well-formed batch with records whose values are unique when
// (tag, seq) is unique: value = "<tag>/<seq>/<i>:<payload>".
func Gen(rng *rand.Rand, o GenOpts, seq int) Batch {
	if o.MaxRecords <= 0 {
		o.MaxRecords = 5
	}
	n := 1 + rng.Intn(o.MaxRecords)
	b := Batch{Magic: 2, FirstTimestamp: o.BaseTS, MaxTimestamp: o.BaseTS, ProducerID: -1, ProducerEpoch: -1, BaseSequence: -1}
	for i := 0; i < n; i++ {
		r := Record{OffsetDelta: int32(i)}
		payload := make([]byte, rng.Intn(o.MaxValue+1))
		rng.Read(payload)
		r.Value = append([]byte(fmt.Sprintf("%s/%d/%d:", o.ProducerTag, seq, i)), payload...)
		r.Key = []byte(fmt.Sprintf("k%d", rng.Intn(4)))
		if o.NullsEmpty {
			switch rng.Intn(5) {
			case 0:
				r.Key = nil
			case 1:
				r.Key = []byte{}
			}
		}
		switch {
		case o.HostileTS && rng.Intn(4) == 0:
			r.TimestampDelta = []int64{-1, -1000, 1 << 31, 1<<31 + 7, 1 << 40, -(1 << 33), 0}[rng.Intn(7)]
		default:
			r.TimestampDelta = int64(i) * int64(rng.Intn(10))
		}
		if b.FirstTimestamp+r.TimestampDelta > b.MaxTimestamp {
			b.MaxTimestamp = b.FirstTimestamp + r.TimestampDelta
		}
		for h := 0; h < o.MaxHeaders && rng.Intn(2) == 0; h++ {
			hd := Header{Key: fmt.Sprintf("h%d", rng.Intn(3)), Value: []byte(fmt.Sprintf("v%d", rng.Intn(100)))}
			switch rng.Intn(6) {
			case 0:
				hd.Value = nil
			case 1:
				hd.Value = []byte{}
			case 2:
				hd.Key = ""
			}
			r.Headers = append(r.Headers, hd)
		}
		b.Records = append(b.Records, r)
	}
	b.NumRecords = int32(n)
	b.LastOffsetDelta = int32(n - 1)
	return b
}
