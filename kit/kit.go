//go:build verif

// Package verifkit is the monitor-side runtime shared by every /verif harness.
// It is overlaid into each module of /repo at <module>/internal/verifkit (never
// written to /repo). Stdlib only, so every module can compile it.
//
// A harness test does:
//
//	r := verifkit.Start(t, "C09", "leg-name")
//	defer r.Finish("rule text", "assumption", ...)
//	for i := 0; i < r.N(200, 5000); i++ { rng := r.Rand(i); ...; r.Case(sig, nontrivial) }
//	r.Violation("class", "one line", replayObject)
//
// Finish writes $VERIF_OUT/<id>.<leg>.json; bin/check merges the legs,
// classifies violations against known_findings.json and writes the evidence.
// A harness never calls t.Fatal for a property violation: a failing go test
// means "broken check" (exit 3), not "violated".
package verifkit

import (
	"crypto/sha256"
	"encoding/hex"
	"encoding/json"
	"fmt"
	"math/rand"
	"os"
	"path/filepath"
	"sort"
	"strconv"
	"sync"
	"testing"
	"time"
)

type violation struct {
	Class   string `json:"class"`
	Summary string `json:"summary"`
	Replay  any    `json:"replay"`
}

// Run accumulates what one leg of one check observed. All methods are safe
// for concurrent use.
type Run struct {
	t     testing.TB
	ID    string
	Leg   string
	Tier  string
	Seed  int64
	start time.Time

	mu           sync.Mutex
	evals        int
	sigs         map[string]struct{}
	samples      []any
	maxSamples   int
	counters     map[string]int64
	sets         map[string]map[string]struct{}
	notes        map[string]any
	violations   []violation
	violCount    map[string]int
	inconclusive []string
	exhaustive   *bool
	floors       map[string]int64
	finished     bool
}

// Start reads VERIF_SEED / VERIF_TIER / VERIF_OUT.
func Start(t testing.TB, id, leg string) *Run {
	seed := int64(1)
	if s := os.Getenv("VERIF_SEED"); s != "" {
		if v, err := strconv.ParseInt(s, 10, 64); err == nil {
			seed = v
		}
	}
	tier := os.Getenv("VERIF_TIER")
	if tier != "thorough" {
		tier = "quick"
	}
	return &Run{t: t, ID: id, Leg: leg, Tier: tier, Seed: seed, start: time.Now(),
		sigs: map[string]struct{}{}, maxSamples: 4, counters: map[string]int64{},
		sets: map[string]map[string]struct{}{}, notes: map[string]any{},
		violCount: map[string]int{}, floors: map[string]int64{}}
}

func (r *Run) Quick() bool    { return r.Tier != "thorough" }
func (r *Run) Thorough() bool { return r.Tier == "thorough" }

// N picks the case-list length for the tier.
func (r *Run) N(quick, thorough int) int {
	if r.Thorough() {
		return thorough
	}
	return quick
}

// Rand returns the PRNG of case i: a pure function of (seed, leg, i).
func (r *Run) Rand(i int) *rand.Rand {
	h := sha256.Sum256([]byte(fmt.Sprintf("%s/%s/%d/%d", r.ID, r.Leg, r.Seed, i)))
	var s int64
	for k := 0; k < 8; k++ {
		s = s<<8 | int64(h[k])
	}
	return rand.New(rand.NewSource(s))
}

// Case records one executed case. sig identifies it for distinct counting;
// nontrivial says whether it reached the behaviour the property is about.
func (r *Run) Case(sig string, nontrivial bool) {
	r.mu.Lock()
	r.evals++
	if nontrivial {
		r.sigs[short(sig)] = struct{}{}
	}
	r.mu.Unlock()
}

// Evals adds executed cases that carry no signature of their own.
func (r *Run) Evals(n int) { r.mu.Lock(); r.evals += n; r.mu.Unlock() }

// Sample keeps the first few cases verbatim for the evidence file.
func (r *Run) Sample(v any) {
	r.mu.Lock()
	if len(r.samples) < r.maxSamples {
		r.samples = append(r.samples, v)
	}
	r.mu.Unlock()
}

// Count adds to a named coverage counter (events by kind, paths taken …).
func (r *Run) Count(name string, n int64) { r.mu.Lock(); r.counters[name] += n; r.mu.Unlock() }

// Seen adds a member to a named set; the evidence reports the set's size
// (distinct schedules, distinct states …).
func (r *Run) Seen(set, member string) {
	r.mu.Lock()
	m := r.sets[set]
	if m == nil {
		m = map[string]struct{}{}
		r.sets[set] = m
	}
	m[short(member)] = struct{}{}
	r.mu.Unlock()
}

// Note stores an arbitrary value under coverage.<key>.
func (r *Run) Note(key string, v any) { r.mu.Lock(); r.notes[key] = v; r.mu.Unlock() }

// Exhaustive marks that the leg enumerated its finite space completely.
func (r *Run) Exhaustive(b bool) { r.mu.Lock(); r.exhaustive = &b; r.mu.Unlock() }

// Floor declares that counter/set `name` must reach at least min, else the
// run is inconclusive (a monitor that saw nothing decides nothing).
func (r *Run) Floor(name string, min int64) { r.mu.Lock(); r.floors[name] = min; r.mu.Unlock() }

// Violation records a refutation of the property. class is a deterministic
// classification of the witness (used to match known_findings.json), summary
// one line, replay everything needed to reproduce.
func (r *Run) Violation(class, summary string, replay any) {
	r.mu.Lock()
	r.violCount[class]++
	if r.violCount[class] <= 3 {
		r.violations = append(r.violations, violation{class, summary, replay})
	}
	r.mu.Unlock()
}

// Violated reports whether any violation has been recorded.
func (r *Run) Violated() bool { r.mu.Lock(); defer r.mu.Unlock(); return len(r.violCount) > 0 }

// Inconclusive records that part of the run decided nothing (watchdog,
// checker timeout, floor not met).
func (r *Run) Inconclusive(reason string) {
	r.mu.Lock()
	if len(r.inconclusive) < 20 {
		r.inconclusive = append(r.inconclusive, reason)
	}
	r.mu.Unlock()
}

// Finish writes the leg result. Safe to defer.
func (r *Run) Finish(rule string, assumptions ...string) {
	r.mu.Lock()
	defer r.mu.Unlock()
	if r.finished {
		return
	}
	r.finished = true
	if p := recover(); p != nil {
		// a harness panic is a broken check, re-raise after noting it
		r.inconclusive = append(r.inconclusive, fmt.Sprintf("harness panic: %v", p))
		defer panic(p)
	}
	sets := map[string]int{}
	for k, m := range r.sets {
		sets[k] = len(m)
	}
	for name, min := range r.floors {
		got, ok := r.counters[name]
		if !ok {
			got = int64(sets[name])
		}
		if got < min {
			r.inconclusive = append(r.inconclusive, fmt.Sprintf("floor %s: observed %d < %d", name, got, min))
		}
	}
	if r.evals == 0 {
		r.inconclusive = append(r.inconclusive, "no case executed")
	}
	out := map[string]any{
		"property_id": r.ID, "leg": r.Leg, "tier": r.Tier, "seed": r.Seed,
		"evaluations": r.evals, "distinct_nontrivial": len(r.sigs), "rule": rule,
		"samples": r.samples, "counters": r.counters, "sets": sets, "notes": r.notes,
		"violations": r.violations, "violation_counts": r.violCount,
		"inconclusive": r.inconclusive, "assumptions": assumptions,
		"wall_s": time.Since(r.start).Seconds(),
	}
	if r.exhaustive != nil {
		out["exhaustive"] = *r.exhaustive
	}
	dir := os.Getenv("VERIF_OUT")
	if dir == "" {
		dir = os.TempDir()
	}
	b, err := json.MarshalIndent(out, "", " ")
	if err != nil {
		r.t.Fatalf("verifkit: marshal result: %v", err)
	}
	path := filepath.Join(dir, r.ID+"."+r.Leg+".json")
	if err := os.WriteFile(path, b, 0o644); err != nil {
		r.t.Fatalf("verifkit: write %s: %v", path, err)
	}
	classes := make([]string, 0, len(r.violCount))
	for c := range r.violCount {
		classes = append(classes, fmt.Sprintf("%s×%d", c, r.violCount[c]))
	}
	sort.Strings(classes)
	r.t.Logf("verifkit %s/%s: evals=%d distinct=%d violations=%v inconclusive=%d", r.ID, r.Leg, r.evals, len(r.sigs), classes, len(r.inconclusive))
}

func short(s string) string {
	if len(s) <= 64 {
		return s
	}
	h := sha256.Sum256([]byte(s))
	return hex.EncodeToString(h[:12])
}

// Hash is a short stable digest for signatures.
func Hash(parts ...any) string {
	h := sha256.New()
	for _, p := range parts {
		fmt.Fprintf(h, "%v|", p)
	}
	return hex.EncodeToString(h.Sum(nil)[:8])
}

// Replay returns the replay object given through VERIF_REPLAY (a path to a
// witness JSON), or nil.
func Replay() map[string]any {
	p := os.Getenv("VERIF_REPLAY")
	if p == "" {
		return nil
	}
	b, err := os.ReadFile(p)
	if err != nil {
		return nil
	}
	var m map[string]any
	if json.Unmarshal(b, &m) != nil {
		return nil
	}
	return m
}
