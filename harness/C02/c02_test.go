//go:build verif

package main

import (
	"encoding/binary"
	"fmt"
	"math"
	"math/rand"
	"sort"
	"strings"
	"testing"
	"testing/synctest"

	"github.com/KafScale/platform/internal/verifkit"
	"github.com/KafScale/platform/internal/verifkit/kbatch"
)

// c02Frame is one Kafka batch frame inside a produced blob, as generated.
type c02Frame struct {
	Len      int   // true byte length of the frame
	MaxDelta int32 // largest record offset delta actually present
	NRec     int
}

type c02Blob struct {
	ID     string
	Kind   string // wellformed | lod_overstated | lod_understated | lod_negative | count_off | length_off | concat | truncated
	Bytes  []byte
	Frames []c02Frame
}

func c02Gen(rng *rand.Rand, id string) c02Blob {
	n := 1 + rng.Intn(8)
	if rng.Intn(10) == 0 {
		n = 20 + rng.Intn(31)
	}
	good := mkBatch(rng, id, n, rng.Intn(12))
	blob := c02Blob{ID: id, Kind: "wellformed", Bytes: good, Frames: []c02Frame{{len(good), int32(n - 1), n}}}
	if rng.Intn(100) < 55 {
		return blob
	}
	setLOD := func(v int32) { binary.BigEndian.PutUint32(blob.Bytes[23:27], uint32(v)) } // CRC is not checked by the broker
	switch rng.Intn(8) {
	case 0:
		blob.Kind = "lod_overstated"
		setLOD(int32(n-1) + 1 + int32(rng.Intn(5)))
	case 1:
		if n == 1 {
			blob.Kind = "lod_negative"
			setLOD(-1 - int32(rng.Intn(3)))
		} else {
			blob.Kind = "lod_understated"
			setLOD(int32(rng.Intn(n - 1)))
		}
	case 2:
		blob.Kind = "lod_negative"
		setLOD(-1 - int32(rng.Intn(1000)))
	case 3:
		blob.Kind = "lod_overstated"
		setLOD(math.MaxInt32)
	case 4:
		blob.Kind = "count_off"
		binary.BigEndian.PutUint32(blob.Bytes[57:61], uint32(int32(n)+int32(rng.Intn(7))-3))
	case 5:
		blob.Kind = "length_off"
		binary.BigEndian.PutUint32(blob.Bytes[8:12], uint32(int32(len(good)-12)+int32(rng.Intn(41))-20))
	case 6:
		blob.Kind = "concat"
		k := 2 + rng.Intn(2)
		for j := 1; j < k; j++ {
			m := 1 + rng.Intn(4)
			extra := mkBatch(rng, fmt.Sprintf("%s+%d", id, j), m, 4)
			blob.Bytes = append(blob.Bytes, extra...)
			blob.Frames = append(blob.Frames, c02Frame{len(extra), int32(m - 1), m})
		}
	case 7:
		blob.Kind = "truncated"
		cut := 61 + rng.Intn(len(good)-61)
		blob.Bytes = append([]byte(nil), good[:cut]...)
		blob.Frames = []c02Frame{{cut, -1, 0}} // record section incomplete: offsets defined by the header only
	}
	return blob
}

type c02Accepted struct {
	Blob  c02Blob
	Base  int64 // from the produce response; -1 for acks=0
	Acked bool
	Step  int
}

// c02Stored walks the partition's segment objects (by base offset) and matches
// the stored bytes against the accepted blobs, returning for each stored blob
// the record-offset ranges of its frames as found in the stored bytes.
type c02StoredBlob struct {
	ID     string
	Kind   string
	Ranges [][2]int64 // per frame: first and last record offset in the stored log
	SegKey string
}

func c02Walk(s *scenario, topic string, part int32, accepted []c02Accepted) ([]c02StoredBlob, string) {
	segs := s.committedSegments(topic, part, true)
	sort.Slice(segs, func(i, j int) bool { return segs[i].Base < segs[j].Base })
	byContent := map[string]int{}
	for i, a := range accepted {
		if len(a.Blob.Bytes) >= 8 {
			byContent[string(a.Blob.Bytes[8:])] = i
		}
	}
	var out []c02StoredBlob
	for _, seg := range segs {
		raw, _ := s.s3.get(seg.Key)
		if len(raw) < 48 {
			return out, "segment object too short: " + seg.Key
		}
		body := raw[32 : len(raw)-16]
		p := 0
		for p < len(body) {
			matched := -1
			for _, a := range accepted { // blobs have distinct lengths/contents; find the one that sits here
				l := len(a.Blob.Bytes)
				if p+l <= len(body) && l >= 8 {
					if idx, ok := byContent[string(body[p+8:p+l])]; ok && len(accepted[idx].Blob.Bytes) == l {
						matched = idx
						break
					}
				}
			}
			if matched < 0 {
				return out, fmt.Sprintf("segment %s: bytes at position %d are not any accepted produce blob", seg.Key, 32+p)
			}
			a := accepted[matched]
			sb := c02StoredBlob{ID: a.Blob.ID, Kind: a.Blob.Kind, SegKey: seg.Key}
			q := p
			for _, f := range a.Blob.Frames {
				base := int64(binary.BigEndian.Uint64(body[q : q+8]))
				// a frame covers [base, base+max(true largest record delta, declared lastOffsetDelta)]: a header
				// that claims MORE offsets than it has records (legal on disk for compacted batches) is read as
				// reserving them, not as a gap — the lenient reading of "no gaps"; one that claims FEWER makes
				// the next batch collide with this frame's records.
				declared := int64(int32(binary.BigEndian.Uint32(body[q+23 : q+27])))
				last := base + int64(f.MaxDelta)
				if declared > int64(f.MaxDelta) {
					last = base + declared
				}
				sb.Ranges = append(sb.Ranges, [2]int64{base, last})
				q += f.Len
			}
			out = append(out, sb)
			p += len(a.Blob.Bytes)
		}
	}
	return out, ""
}

type c02Witness struct {
	History []string        `json:"history"`
	Stored  []c02StoredBlob `json:"stored_log"`
	Why     string          `json:"why"`
}

// c02Check applies the offset invariants to one partition.
func c02Check(s *scenario, topic string, part int32, accepted []c02Accepted) (cls, why string, stored []c02StoredBlob) {
	stored, werr := c02Walk(s, topic, part, accepted)
	kindOf := map[string]string{}
	for _, a := range accepted {
		kindOf[a.Blob.ID] = a.Blob.Kind
	}
	// cause names the batch whose header decided the broken step: for a break between stored frame X and
	// the next frame Y, that is Y's own blob when Y is a later frame of a concatenated blob, else X's blob
	// (its lastOffsetDelta set the next offset). Restarts in between are named too.
	cause := func(prevID, curID string, frameIdx int) string {
		if frameIdx > 0 {
			return "within_" + kindOf[curID] + "_blob"
		}
		if prevID == "" {
			return "first_batch"
		}
		return "after_" + kindOf[prevID] + "_batch"
	}
	if werr != "" {
		return "stored_log_unparseable", werr, stored
	}
	prevLast := int64(-1)
	prevID := ""
	first := true
	for _, sb := range stored {
		for fi, rg := range sb.Ranges {
			if rg[0] < 0 {
				return "negative_offset:" + cause(prevID, sb.ID, fi), fmt.Sprintf("stored frame %d of %s has offset %d", fi, sb.ID, rg[0]), stored
			}
			if rg[1] < rg[0] {
				return "frame_last_before_first:" + kindOf[sb.ID], fmt.Sprintf("stored frame %d of %s covers [%d,%d]", fi, sb.ID, rg[0], rg[1]), stored
			}
			if !first && rg[0] <= prevLast {
				return "offset_reused_or_not_increasing:" + cause(prevID, sb.ID, fi), fmt.Sprintf("stored frame %d of %s (%s) starts at offset %d but offset %d was already assigned (previous blob %s, %s)", fi, sb.ID, kindOf[sb.ID], rg[0], prevLast, prevID, kindOf[prevID]), stored
			}
			if !first && rg[0] != prevLast+1 {
				return "offset_gap:" + cause(prevID, sb.ID, fi), fmt.Sprintf("stored frame %d of %s (%s) starts at offset %d, previous record offset was %d (previous blob %s, %s)", fi, sb.ID, kindOf[sb.ID], rg[0], prevLast, prevID, kindOf[prevID]), stored
			}
			prevLast = rg[1]
			first = false
		}
		prevID = sb.ID
	}
	// acknowledged base == stored first offset; every acked batch must be stored
	pos := map[string]c02StoredBlob{}
	for _, sb := range stored {
		pos[sb.ID] = sb
	}
	for _, a := range accepted {
		sb, ok := pos[a.Blob.ID]
		if !ok {
			if a.Acked {
				return "acked_batch_missing_from_stored_log:" + a.Blob.Kind, "acked batch " + a.Blob.ID + " is not in the stored log", stored
			}
			continue
		}
		if a.Acked && sb.Ranges[0][0] != a.Base {
			return "acked_base_differs_from_stored:" + a.Blob.Kind, fmt.Sprintf("batch %s acknowledged with base offset %d but stored at %d", a.Blob.ID, a.Base, sb.Ranges[0][0]), stored
		}
	}
	// append order == offset order for acknowledged batches
	last := int64(-1)
	for _, a := range accepted {
		if !a.Acked {
			continue
		}
		if a.Base <= last {
			return "acked_bases_not_increasing:" + a.Blob.Kind, fmt.Sprintf("batch %s acknowledged at %d after a batch acknowledged at %d", a.Blob.ID, a.Base, last), stored
		}
		last = a.Base
	}
	return "", "", stored
}

func TestVerifC02Seq(t *testing.T) {
	r := verifkit.Start(t, "C02", "seq")
	defer r.Finish("PRNG histories of 4-14 produce requests on 2 partitions (45% malformed: lastOffsetDelta +k/-k/negative/MaxInt32, messageCount off, batchLength off, 2-3 concatenated batches, truncated), acks -1/1/0, broker restarts between requests; afterwards the S3 segment objects are re-parsed and offsets checked (unique, increasing, contiguous, acked base == stored first offset); distinct = history signature; non-trivial = history with >=1 accepted malformed batch followed by another accepted batch, or a restart between accepted batches",
		"a produce answered with an error code is not an acknowledged batch", "acks=0 produces are appended without an acknowledgement; they take part in the contiguity check through the stored log only")
	n := r.N(500, 40000)
	for ci := 0; ci < n; ci++ {
		rng := r.Rand(ci)
		var hist []string
		nontrivial := false
		synctest.Test(t, func(t *testing.T) {
			cfg := plogCfg{Topics: map[string]int32{"t": 2}, FlushOnAck: true, IndexInterval: []int32{1, 100}[rng.Intn(2)], BufferMaxBytes: 1 << 30, CacheBytes: 1 << 20}
			s := newScenario(t, cfg)
			accepted := map[int32][]c02Accepted{}
			nops := 4 + rng.Intn(11)
			malformedThenMore, restartBetween := false, false
			sawMalformed := map[int32]bool{}
			for oi := 0; oi < nops; oi++ {
				if oi > 0 && rng.Intn(6) == 0 {
					// restart: flush-on-ack means nothing acknowledged is only in memory
					s.insts[s.cur].kill()
					s.newInstance()
					hist = append(hist, "restart")
					restartBetween = true
					r.Count("restarts", 1)
					continue
				}
				part := int32(rng.Intn(2))
				blob := c02Gen(rng, fmt.Sprintf("b%d", oi))
				acks := []int16{-1, -1, -1, 1, 0}[rng.Intn(5)]
				res := plogExec(s.hs[s.cur], s.insts[s.cur], 0, oi, plogReq{Kind: "produce", Topic: "t", Partition: part, Acks: acks, Batch: blob.Bytes})
				r.Count("produce_"+blob.Kind, 1)
				switch {
				case res.Err != "":
					hist = append(hist, fmt.Sprintf("produce p%d %s %s acks=%d -> error %s", part, blob.ID, blob.Kind, acks, res.Err))
					if strings.HasPrefix(res.Err, "panic") {
						r.Violation("produce_panics:"+blob.Kind, "handler panicked on a "+blob.Kind+" batch: "+res.Err, map[string]any{"history": hist})
					}
				case res.NoReply:
					hist = append(hist, fmt.Sprintf("produce p%d %s %s acks=0", part, blob.ID, blob.Kind))
					accepted[part] = append(accepted[part], c02Accepted{Blob: blob, Base: -1, Step: oi})
				case res.Code != 0:
					hist = append(hist, fmt.Sprintf("produce p%d %s %s acks=%d -> code %d", part, blob.ID, blob.Kind, acks, res.Code))
					r.Count("rejected_"+blob.Kind, 1)
				default:
					hist = append(hist, fmt.Sprintf("produce p%d %s %s acks=%d -> base %d", part, blob.ID, blob.Kind, acks, res.Base))
					accepted[part] = append(accepted[part], c02Accepted{Blob: blob, Base: res.Base, Acked: true, Step: oi})
					r.Count("acked_"+blob.Kind, 1)
					if sawMalformed[part] {
						malformedThenMore = true
					}
				}
				if blob.Kind != "wellformed" && (res.NoReply || (res.Err == "" && res.Code == 0)) {
					sawMalformed[part] = true
				}
			}
			// make everything appended durable so that the stored log is complete (acks=0 tail)
			for part := int32(0); part < 2; part++ {
				fl := mkBatch(rng, fmt.Sprintf("final%d", part), 1, 0)
				res := plogExec(s.hs[s.cur], s.insts[s.cur], 0, 1000+int(part), plogReq{Kind: "produce", Topic: "t", Partition: part, Acks: -1, Batch: fl})
				if res.Err == "" && res.Code == 0 {
					accepted[part] = append(accepted[part], c02Accepted{Blob: c02Blob{ID: fmt.Sprintf("final%d", part), Kind: "wellformed", Bytes: fl, Frames: []c02Frame{{len(fl), 0, 1}}}, Base: res.Base, Acked: true, Step: 1000})
					hist = append(hist, fmt.Sprintf("produce p%d final -> base %d", part, res.Base))
				} else {
					hist = append(hist, fmt.Sprintf("produce p%d final -> code %d err %q", part, res.Code, res.Err))
				}
			}
			for part := int32(0); part < 2; part++ {
				if cls, why, stored := c02Check(s, "t", part, accepted[part]); cls != "" {
					r.Violation(cls, fmt.Sprintf("partition %d: %s", part, why), c02Witness{History: hist, Stored: stored, Why: why})
				}
				r.Count("partitions_checked", 1)
			}
			nontrivial = malformedThenMore || restartBetween
			s.teardown()
		})
		r.Case(strings.Join(hist, ";"), nontrivial)
		if ci < 2 {
			r.Sample(hist)
		}
	}
	r.Floor("partitions_checked", 100)
	r.Floor("restarts", 20)
}

// TestVerifC02Conc: concurrent producers of WELL-FORMED batches under the
// deterministic scheduler (interleavings at S3/store boundaries, upload faults
// excluded: not in this property's quantifier).
func TestVerifC02Conc(t *testing.T) {
	r := verifkit.Start(t, "C02", "conc")
	defer r.Finish("2-3 concurrent producers x 1-3 well-formed batches on 1 partition under the deterministic scheduler (gated uploads and offset updates); two thirds of the cases also inject <=2 upload faults (fail / fail-after-effect) and <=1 broker crash (before / after the effect of an upload or offset update) followed by a restart; afterwards the stored log (segments that have their index) is walked with every SENT batch as a candidate and checked for unique, increasing, contiguous offsets and ack-base == stored-first-offset; distinct = schedule signature; non-trivial = >=2 producers overlapped (>=2 in flight at some step)",
		"a batch whose produce was answered with an error or never answered may or may not be in the stored log; if it is, it must still respect the offset invariants")
	n := r.N(400, 30000)
	for ci := 0; ci < n; ci++ {
		rng := r.Rand(ci)
		cfg := c01Cfg(rng, 2+rng.Intn(2), 1+rng.Intn(3), 1)
		cfg.FaultBudget = 0
		cfg.FaultKinds = nil
		if ci%3 != 0 {
			cfg.FaultKinds = []outcome{outFailBefore, outFailAfter, outCrashBefore, outCrashAfter}
			cfg.FaultOn = []string{"upload_segment", "upload_index", "update_offsets"}
			cfg.FaultBudget = rng.Intn(3)
			cfg.CrashBudget = rng.Intn(2)
		}
		var sig string
		overlapped := false
		synctest.Test(t, func(t *testing.T) {
			s := newScenario(t, cfg)
			byID := map[string]*c02Accepted{}
			var order []string
			for _, reqs := range cfg.Actors {
				for _, rq := range reqs {
					byID[rq.BatchID] = &c02Accepted{Blob: c02Blob{ID: rq.BatchID, Kind: "wellformed", Bytes: rq.Batch, Frames: []c02Frame{{len(rq.Batch), int32(rq.NRecords - 1), rq.NRecords}}}, Base: -1}
					order = append(order, rq.BatchID)
				}
			}
			nacks := 0
			s.onReply = func(s *scenario, res plogRes) {
				if res.Req.Kind == "produce" && res.Err == "" && !res.NoReply && res.Code == 0 {
					a := byID[res.Req.BatchID]
					a.Base, a.Acked, a.Step = res.Base, true, res.Step
					nacks++
				}
			}
			s.onQuiescent = func(s *scenario) {
				busy := 0
				for _, a := range s.actors {
					if a.busy {
						busy++
					}
				}
				if busy >= 2 {
					overlapped = true
				}
			}
			s.run(&rngChooser{rng: rng, faultProb: 0.2})
			// acks are observed in completion order; offsets must be increasing in APPEND order, which for
			// concurrent producers is only observable through the stored log: sort by acknowledged base.
			var accepted []c02Accepted
			for _, id := range order {
				accepted = append(accepted, *byID[id])
			}
			sort.SliceStable(accepted, func(i, j int) bool {
				if accepted[i].Acked != accepted[j].Acked {
					return accepted[i].Acked
				}
				return accepted[i].Base < accepted[j].Base
			})
			for i := 1; i < len(accepted); i++ {
				if accepted[i].Acked && accepted[i-1].Acked && accepted[i].Base == accepted[i-1].Base {
					r.Violation("two_acks_same_base_offset:wellformed_only", fmt.Sprintf("%s and %s both acknowledged at base offset %d", accepted[i-1].Blob.ID, accepted[i].Blob.ID, accepted[i].Base), map[string]any{"schedule": s.trace})
				}
			}
			if cls, why, stored := c02Check(s, "t", 0, accepted); cls != "" {
				if s.faults > 0 || s.crashes > 0 {
					cls += ":after_s3_fault_or_crash"
				}
				r.Violation(cls, why, map[string]any{"config": c01CfgSummary(cfg), "schedule": s.trace, "stored_log": stored})
			}
			r.Count("acks", int64(nacks))
			if s.faults > 0 {
				r.Count("cases_with_upload_fault", 1)
			}
			if s.crashes > 0 {
				r.Count("cases_with_crash", 1)
			}
			s.teardown()
			sig = traceSig(s.trace)
		})
		r.Case(fmt.Sprint(ci, sig), overlapped)
		r.Seen("schedules", sig)
		if ci == 0 {
			r.Sample(map[string]any{"config": c01CfgSummary(cfg), "schedule": strings.Split(sig, " ")})
		}
	}
	r.Floor("acks", 100)
	r.Floor("cases_with_upload_fault", 20)
	r.Floor("cases_with_crash", 20)
}

var _ = kbatch.Decode
