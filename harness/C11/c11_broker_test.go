//go:build verif

package main

// C11, broker leg: the real handler from cmd/broker (in-memory metadata store,
// storage.NewMemoryS3Client) behind the real broker.Server connection loop on
// loopback; the client side and the oracle are in _shared/c11.

import (
	"context"
	"fmt"
	"io"
	"log"
	"log/slog"
	"net"
	"testing"

	"github.com/KafScale/platform/internal/verifkit"
	"github.com/KafScale/platform/pkg/broker"
	"github.com/KafScale/platform/pkg/metadata"
	"github.com/KafScale/platform/pkg/protocol"
	"github.com/KafScale/platform/pkg/storage"
)

// c11UnavailableStore makes handler.etcdAvailable() false: every API takes its "metadata unavailable" reply path.
type c11UnavailableStore struct{ metadata.Store }

func (c11UnavailableStore) Available() bool { return false }

func c11FreeAddr(t *testing.T) (string, int) {
	ln, err := net.Listen("tcp", "127.0.0.1:0")
	if err != nil {
		t.Fatalf("listen: %v", err)
	}
	addr := ln.Addr().(*net.TCPAddr)
	ln.Close()
	return fmt.Sprintf("127.0.0.1:%d", addr.Port), addr.Port
}

// c11StartBroker wires the broker the way main() does, minus the process-level servers.
func c11StartBroker(t *testing.T, wrap func(metadata.Store) metadata.Store) (string, func()) {
	addr, port := c11FreeAddr(t)
	logger := slog.New(slog.NewTextHandler(io.Discard, &slog.HandlerOptions{}))
	info := protocol.MetadataBroker{NodeID: 1, Host: "127.0.0.1", Port: int32(port)}
	var store metadata.Store = metadata.NewInMemoryStore(metadataForBroker(info))
	if wrap != nil {
		store = wrap(store)
	}
	h := newHandler(store, storage.NewMemoryS3Client(), info, logger)
	srv := &broker.Server{Addr: addr, Handler: h, ConnContextFunc: buildConnContextFunc(logger)}
	ctx, cancel := context.WithCancel(context.Background())
	done := make(chan error, 1)
	go func() { done <- srv.ListenAndServe(ctx) }()
	return addr, func() {
		cancel()
		<-done
		h.coordinator.Stop()
	}
}

func TestVerifC11Broker(t *testing.T) {
	log.SetOutput(io.Discard) // broker.Server logs every dropped connection
	r := verifkit.Start(t, "C11", "broker")
	defer r.Finish("real cmd/broker handler behind the real broker.Server loop on loopback, three configurations (default; ACL enabled with default-deny; metadata store unavailable). The advertised table is parsed from the live ApiVersions v0 reply. For every advertised (key, version) x PRNG bodies (tame field values, existing and unknown topics/groups/member ids, valid/garbled/truncated/null record batches, null/empty/unicode client ids, boundary correlation ids) the request is sent followed by a sentinel request on the same connection: a reply frame must arrive before the sentinel's (acks=0 produce excepted), its first 4 bytes must be the correlation id, the header must have the tagged-field section iff the response version is flexible (never for ApiVersions), and kmsg.ResponseForKey(key) at that version must decode the body and re-encode it to the same bytes. Then every other version in [0, codec max+2] of every key the codec knows: no reply / closed connection is accepted, but a reply must decode at that version (KIP-511: ApiVersions may answer in v0 with UNSUPPORTED_VERSION). non-trivial = a reply with a body was received and decoded",
		"read deadline 60 s is a watchdog only (=> inconclusive)",
		"a connection that ends while the pipelined sentinel is unread is re-asked once without pipelining before it is judged",
		"acks=0 produce requests always carry at least one topic (an acks=0 produce with no topics is never sent)")
	configs := []struct {
		name string
		env  map[string]string
		wrap func(metadata.Store) metadata.Store
	}{
		{"broker", nil, nil},
		{"broker_acl_deny", map[string]string{"KAFSCALE_ACL_ENABLED": "true"}, nil},
		{"broker_meta_unavailable", nil, func(s metadata.Store) metadata.Store { return c11UnavailableStore{s} }},
	}
	for i, cfg := range configs {
		for k, v := range cfg.env {
			t.Setenv(k, v)
		}
		addr, stop := c11StartBroker(t, cfg.wrap)
		c11RunMatrix(r, cfg.name, addr, i*1000000)
		stop()
		for k := range cfg.env {
			t.Setenv(k, "")
		}
	}
	r.Floor("advertised_pairs", 150)
	r.Floor("replies_decoded", 1000)
	r.Floor("replies_flexible_header", 100)
	r.Floor("unadvertised_pairs", 300)
}
