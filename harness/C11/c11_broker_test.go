//go:build verif

package main

// C11, broker leg: the real handler from cmd/broker (in-memory metadata store,
// storage.NewMemoryS3Client) behind the real broker.Server connection loop on
// loopback; the client side and the oracle are in _shared/c11.

import (
	"context"
	"errors"
	"fmt"
	"io"
	"log"
	"log/slog"
	"net"
	"sync"
	"testing"

	"github.com/KafScale/platform/internal/verifkit"
	"github.com/KafScale/platform/pkg/broker"
	"github.com/KafScale/platform/pkg/metadata"
	"github.com/KafScale/platform/pkg/protocol"
	"github.com/KafScale/platform/pkg/storage"
)

// c11LoopGuard decorates the real in-memory metadata store and watches, per client request, the calls the handler
// makes. The server handles one request at a time on the harness' single connection, so "calls since the request was
// sent" is exact. A request during which the handler receives the same two answers from the store over and over
// (NextOffset(topic,p) -> unknown, CreateTopic(topic) -> exists) can never finish: nothing else changes the store.
// After c11LoopLimit repetitions the guard records the livelock and cuts it (CreateTopic returns a different
// error), so that the run can go on; the violation is "this request would never have been answered".
type c11LoopGuard struct {
	metadata.Store
	mu      sync.Mutex
	lastNO  string // args of the last NextOffset that answered "unknown"
	runNO   int    // how many times in a row with those args
	lastCT  string // name of the last CreateTopic that answered "exists"
	runCT   int
	tripped []string
}

const c11LoopLimit = 2000

var errC11LoopCut = errors.New("verif: livelock cut by the harness")

func (g *c11LoopGuard) reset() {
	g.mu.Lock()
	g.lastNO, g.runNO, g.lastCT, g.runCT = "", 0, "", 0
	g.mu.Unlock()
}

func (g *c11LoopGuard) takeTrips() []string {
	g.mu.Lock()
	defer g.mu.Unlock()
	t := g.tripped
	g.tripped = nil
	return t
}

func (g *c11LoopGuard) NextOffset(ctx context.Context, topic string, partition int32) (int64, error) {
	off, err := g.Store.NextOffset(ctx, topic, partition)
	g.mu.Lock()
	if errors.Is(err, metadata.ErrUnknownTopic) {
		key := fmt.Sprintf("%q/%d", topic, partition)
		if key == g.lastNO {
			g.runNO++
		} else {
			g.lastNO, g.runNO = key, 1
		}
	} else {
		g.lastNO, g.runNO = "", 0
	}
	g.mu.Unlock()
	return off, err
}

func (g *c11LoopGuard) CreateTopic(ctx context.Context, spec metadata.TopicSpec) (*protocol.MetadataTopic, error) {
	t, err := g.Store.CreateTopic(ctx, spec)
	cut := false
	g.mu.Lock()
	if errors.Is(err, metadata.ErrTopicExists) {
		if spec.Name == g.lastCT {
			g.runCT++
		} else {
			g.lastCT, g.runCT = spec.Name, 1
		}
		if g.runCT >= c11LoopLimit && g.runNO >= c11LoopLimit {
			cut = true
			g.tripped = append(g.tripped, fmt.Sprintf("%d consecutive identical answer pairs [NextOffset(%s) -> unknown topic/partition, CreateTopic(%q) -> topic exists] within one request", g.runCT, g.lastNO, spec.Name))
			g.lastNO, g.runNO, g.lastCT, g.runCT = "", 0, "", 0
		}
	} else {
		g.lastCT, g.runCT = "", 0
	}
	g.mu.Unlock()
	if cut {
		return nil, errC11LoopCut
	}
	return t, err
}

// c11UnavailableStore makes handler.etcdAvailable() false: every API takes its "metadata unavailable" reply path.
type c11UnavailableStore struct{ metadata.Store }

func (c11UnavailableStore) Available() bool { return false }

func c11FreeAddr(t *testing.T) (string, int) {
	ln, err := net.Listen("tcp", "127.0.0.1:0")
	if err != nil {
		t.Fatalf("listen: %v", err)
	}
	addr := ln.Addr().(*net.TCPAddr)
	ln.Close()
	return fmt.Sprintf("127.0.0.1:%d", addr.Port), addr.Port
}

// c11StartBroker wires the broker the way main() does, minus the process-level servers.
func c11StartBroker(t *testing.T, wrap func(metadata.Store) metadata.Store) (string, *c11LoopGuard, func()) {
	addr, port := c11FreeAddr(t)
	logger := slog.New(slog.NewTextHandler(io.Discard, &slog.HandlerOptions{}))
	info := protocol.MetadataBroker{NodeID: 1, Host: "127.0.0.1", Port: int32(port)}
	guard := &c11LoopGuard{Store: metadata.NewInMemoryStore(metadataForBroker(info))}
	var store metadata.Store = guard
	if wrap != nil {
		store = wrap(store)
	}
	h := newHandler(store, storage.NewMemoryS3Client(), info, logger)
	srv := &broker.Server{Addr: addr, Handler: h, ConnContextFunc: buildConnContextFunc(logger)}
	ctx, cancel := context.WithCancel(context.Background())
	done := make(chan error, 1)
	go func() { done <- srv.ListenAndServe(ctx) }()
	return addr, guard, func() {
		cancel()
		<-done
		h.coordinator.Stop()
	}
}

func TestVerifC11Broker(t *testing.T) {
	log.SetOutput(io.Discard) // broker.Server logs every dropped connection
	r := verifkit.Start(t, "C11", "broker")
	defer r.Finish("real cmd/broker handler behind the real broker.Server loop on loopback, three configurations (default; ACL enabled with default-deny; metadata store unavailable). The advertised table is parsed from the live ApiVersions v0 reply. For every advertised (key, version) x PRNG bodies (tame field values, existing and unknown topics/groups/member ids, valid/garbled/truncated/null record batches, null/empty/unicode client ids, boundary correlation ids) the request is sent followed by a sentinel request on the same connection: a reply frame must arrive before the sentinel's (acks=0 produce excepted), its first 4 bytes must be the correlation id, the header must have the tagged-field section iff the response version is flexible (never for ApiVersions), and kmsg.ResponseForKey(key) at that version must decode the body and re-encode it to the same bytes. Then every other version in [0, codec max+2] of every key the codec knows: no reply / closed connection is accepted, but a reply must decode at that version (KIP-511: ApiVersions may answer in v0 with UNSUPPORTED_VERSION). Reply-size sweep, same oracle: advertised requests whose reply echoes a client-chosen string (DescribeGroups v5 group id, DeleteGroups v0/v2 group id, Metadata v1/v5/v9/v12 unknown topic name, CreateTopics v0/v2 illegal topic name, OffsetFetch v5 topic) are sent with every string length 0..1100 (quick: the first two templates - one flexible, one not - in the default configuration; thorough: all templates there and two in the other configurations) and with lengths placed so that the reply payload lands on 2^k-8..2^k+8 for k=5..16 (quick: k=9..16 for the templates without the full length range; up to 2^12 and two templates in the ACL / metadata-unavailable configurations), 2-8 requests plus a sentinel pipelined per connection; every reply must start with its own correlation id right where the previous reply's announced length ends and must pass the same header/decode/re-encode checks; when a pipelined stream stops being the sequence of due replies, each request of the batch is asked again alone (request + sentinel on a fresh connection), and a reply that is itself fine but is not followed by the sentinel's reply frame is reported once the sentinel alone on a fresh connection is answered intact; the reply payload sizes reached are recorded (every size 32..1100 and 2^k±4 for k=11..16 in the default configuration, else inconclusive). Request streams with requests that have no reply by protocol, same oracle plus order: on one connection 2-7 slots, each either a Produce with acks=0 at a PRNG-chosen advertised version (1-3 topics x 1-2 partitions, drawn per partition: existing / new legal / illegal topic name; partition 0 or an index the topic may not have (1,2,3,7,-1); record set valid, shorter than a record-batch header, random bytes, truncated batch, null, or a valid batch with batchLength / magic / lastOffsetDelta / record count overwritten), in half of the cases followed by its acked twin (the same topics, partitions and record sets with acks=1/-1, whose reply shows which of them the server accepts and which it rejects), or an advertised request of any API (JoinGroup/SyncGroup excepted; 30% acked Produce), at least one reply-expecting request after the last acks=0 produce, then the sentinel; correlation ids are unique within the stream; the stream is written pipelined or with one request in flight (an acks=0 produce is followed at once by the next request), several streams per connection. The connection is read the way a client does: one frame per reply-expecting request, in order. Each frame must begin with the correlation id of the request whose reply is due and pass the header/decode/re-encode checks above; a frame that carries the correlation id of an earlier acks=0 produce of the stream is a violation (the client takes it for the reply to the next request: foreign correlation id and body, every later reply shifted by one); any other foreign frame: the unanswered requests are asked again alone, and if all are fine there the stream itself is reported; a connection that ends mid-stream is not judged as such, the unanswered requests are judged alone. The matrix applies the same rule to its own acks=0 produce cases: a frame before the sentinel's reply is a violation (advertised versions). non-trivial = a reply with a body was received and decoded; for a stream: it ran to the sentinel's reply and at least one reply read after an acks=0 produce was decoded",
		"read deadline 60 s is a watchdog only (=> inconclusive), with one exception that implements 'a request at that version gets a reply' for lost replies: when an advertised request (not acks=0) gets no complete reply within the watchdog although the connection stays open (neither its reply nor the pipelined sentinel's reply arrives), the same request is sent once more alone on a fresh connection with the same 60 s watchdog; a complete reply there is judged as usual, a second watchdog on an open connection is reported as advertised_version_not_served",
		"a connection that ends while the pipelined sentinel is unread is re-asked once without pipelining before it is judged",
		"acks=0 produce requests always carry at least one topic (an acks=0 produce with no topics is never sent)",
		"a Produce request with acks=0 has no reply (Kafka protocol): a standard client does not read a frame for it, so the next frame on the connection is what it decodes as the reply to its next request; 'the reply carries the request's correlation id' is judged on that reading",
		"a server that closes the connection after an acks=0 produce (as Apache Kafka does when such a produce fails) is not objected to",
		"the metadata store is the real InMemoryStore behind a counting decorator: 2000 identical (NextOffset -> unknown, CreateTopic -> exists) answer pairs within one request prove a handler livelock (nothing else mutates the store); the decorator then cuts the loop so the run continues, and the request is reported as never answered")
	configs := []struct {
		name string
		env  map[string]string
		wrap func(metadata.Store) metadata.Store
	}{
		{"broker", nil, nil},
		{"broker_acl_deny", map[string]string{"KAFSCALE_ACL_ENABLED": "true"}, nil},
		{"broker_meta_unavailable", nil, func(s metadata.Store) metadata.Store { return c11UnavailableStore{s} }},
	}
	replay := c11ReplayCase("broker")
	sreplay := c11ReplayStream("broker")
	for i, cfg := range configs {
		if replay != nil && replay.Target != cfg.name {
			continue
		}
		if sreplay != nil && sreplay.Target != cfg.name {
			continue
		}
		for k, v := range cfg.env {
			t.Setenv(k, v)
		}
		addr, guard, stop := c11StartBroker(t, cfg.wrap)
		hooks := &c11Hooks{
			before: guard.reset,
			after: func(cs c11Case) {
				for _, trip := range guard.takeTrips() {
					cs.Detail = trip
					r.Count("handler_livelocks_cut", 1)
					r.Violation("no_reply_livelock_missing_partition", fmt.Sprintf("%s: %s v%d (advertised=%v) would never be answered: the handler loops forever (%s)", cs.Target, cs.API, cs.Version, cs.Advertised, trip), cs)
				}
			},
		}
		if sreplay == nil {
			c11RunMatrix(r, c11Matrix{target: cfg.name, addr: addr, salt: i * 1000000, requireReply: true, scale: []float64{1, 0.4, 0.4}[i], hooks: hooks, replay: replay})
		}
		if replay == nil && sreplay == nil {
			c11RunSweep(r, c11Matrix{target: cfg.name, addr: addr, salt: i * 1000000, requireReply: true, hooks: hooks}, []int{r.N(2, 100), r.N(0, 2), r.N(0, 2)}[i], i == 0)
		}
		if replay == nil {
			c11RunStreams(r, c11Matrix{target: cfg.name, addr: addr, salt: i * 1000000, requireReply: true, hooks: hooks}, []int{r.N(150, 3000), r.N(75, 1000), r.N(75, 1000)}[i], sreplay)
		}
		stop()
		for k := range cfg.env {
			t.Setenv(k, "")
		}
	}
	if replay == nil && sreplay == nil {
		r.Floor("streams_completed", 200)
		r.Floor("stream_replies_after_acks0", 400)
		r.Floor("stream_reply_pairs_after_acks0", 100)
		r.Floor("stream_acks0_partition_kinds", 20)
		r.Floor("stream_acks0_twin_partitions_rejected", 40)
		r.Floor("stream_acks0_twin_partitions_accepted", 10)
		r.Floor("advertised_pairs", 150)
		r.Floor("replies_decoded", 1000)
		r.Floor("replies_flexible_header", 100)
		r.Floor("unadvertised_pairs", 300)
		r.Floor("content_produce_partition_ok", 20)
		r.Floor("content_fetch_partition_with_records", 3)
		r.Floor("content_join_group_ok", 1)
	}
}
