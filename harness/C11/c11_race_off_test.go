//go:build verif && !race

package main

const c11pRaceEnabled = false
