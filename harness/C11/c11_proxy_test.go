//go:build verif

package main

// C11, proxy leg: the real cmd/proxy connection handler (handleConnection) on a
// loopback listener, backend = the real broker. cmd/broker is `package main`
// and cannot be linked into this test, so the broker is built from the tree
// under test (VERIF_REPO, same -modfile, nothing written to the repo) and run
// as a child process with in-memory metadata and in-memory S3
// (KAFSCALE_USE_MEMORY_S3=1, no etcd endpoints), exactly its main().

import (
	"context"
	"fmt"
	"io"
	"log/slog"
	"net"
	"os"
	"os/exec"
	"path/filepath"
	"sync"
	"testing"
	"time"

	"github.com/twmb/franz-go/pkg/kmsg"

	"github.com/KafScale/platform/internal/verifkit"
	"github.com/KafScale/platform/pkg/metadata"
	"github.com/KafScale/platform/pkg/protocol"
)

func c11pFreeAddr(t *testing.T) (string, int) {
	ln, err := net.Listen("tcp", "127.0.0.1:0")
	if err != nil {
		t.Fatalf("listen: %v", err)
	}
	addr := ln.Addr().(*net.TCPAddr)
	ln.Close()
	return fmt.Sprintf("127.0.0.1:%d", addr.Port), addr.Port
}

// c11pBuildBroker compiles cmd/broker of the tree under test into the scratch dir.
func c11pBuildBroker(t *testing.T, scratch string) (string, error) {
	repo := os.Getenv("VERIF_REPO")
	if repo == "" {
		repo = "/repo"
	}
	gobin := os.Getenv("VERIF_GO")
	if gobin == "" {
		gobin = "go1.26"
	}
	out := filepath.Join(scratch, "kafscale-broker")
	args := []string{"build", "-o", out}
	if mf := os.Getenv("VERIF_MODFILE"); mf != "" {
		args = append(args, "-modfile", mf)
	}
	if c11pRaceEnabled {
		args = append(args, "-race") // same flags as the test build of the broker leg: its dependency objects are reused from the build cache
	}
	args = append(args, "./cmd/broker")
	cmd := exec.Command(gobin, args...)
	cmd.Dir = repo
	b, err := cmd.CombinedOutput()
	if err != nil {
		return "", fmt.Errorf("%s %v: %v\n%s", gobin, args, err, b)
	}
	return out, nil
}

type c11pBroker struct {
	addr string
	cmd  *exec.Cmd
	log  string
}

func c11pStartBroker(t *testing.T, bin, scratch string) (*c11pBroker, error) {
	addr, _ := c11pFreeAddr(t)
	maddr, _ := c11pFreeAddr(t)
	caddr, _ := c11pFreeAddr(t)
	logPath := filepath.Join(scratch, "broker-child.log")
	lf, err := os.Create(logPath)
	if err != nil {
		return nil, err
	}
	cmd := exec.Command(bin)
	env := []string{}
	for _, kv := range os.Environ() {
		if len(kv) >= 9 && kv[:9] == "KAFSCALE_" {
			continue
		}
		if len(kv) >= 7 && kv[:7] == "GORACE=" {
			continue
		}
		env = append(env, kv)
	}
	cmd.Env = append(env,
		"KAFSCALE_USE_MEMORY_S3=1", "KAFSCALE_BROKER_ADDR="+addr, "KAFSCALE_METRICS_ADDR="+maddr, "KAFSCALE_CONTROL_ADDR="+caddr,
		"KAFSCALE_BROKER_ID=1", "KAFSCALE_LOG_LEVEL=error",
		"GORACE=halt_on_error=0 log_path="+filepath.Join(scratch, "childrace-broker"))
	cmd.Stdout, cmd.Stderr = lf, lf
	if err := cmd.Start(); err != nil {
		lf.Close()
		return nil, err
	}
	lf.Close()
	// sentinel: the Kafka listener accepts a connection
	var lastErr error
	for i := 0; i < 1200; i++ {
		c, err := net.DialTimeout("tcp", addr, time.Second)
		if err == nil {
			c.Close()
			return &c11pBroker{addr: addr, cmd: cmd, log: logPath}, nil
		}
		lastErr = err
		time.Sleep(50 * time.Millisecond)
	}
	_ = cmd.Process.Kill()
	_ = cmd.Wait()
	b, _ := os.ReadFile(logPath)
	return nil, fmt.Errorf("broker child never listened on %s: %v\n%s", addr, lastErr, b)
}

func (b *c11pBroker) stop() {
	if b == nil || b.cmd == nil {
		return
	}
	_ = b.cmd.Process.Kill()
	_ = b.cmd.Wait()
}

// c11pStartProxy builds the proxy value the way main() does and serves handleConnection on a loopback listener.
func c11pStartProxy(t *testing.T, backends []string, ready bool, brokerHostPort string) (string, func()) {
	logger := slog.New(slog.NewTextHandler(io.Discard, &slog.HandlerOptions{}))
	host, portStr, _ := net.SplitHostPort(brokerHostPort)
	var port int
	fmt.Sscan(portStr, &port)
	info := protocol.MetadataBroker{NodeID: 1, Host: host, Port: int32(port)}
	clusterID := "kafscale-cluster"
	meta := metadata.ClusterMetadata{
		ControllerID: 1, ClusterID: &clusterID, Brokers: []protocol.MetadataBroker{info},
		Topics: []protocol.MetadataTopic{
			{Topic: kmsg.StringPtr("orders"), TopicID: metadata.TopicIDForName("orders"), Partitions: []protocol.MetadataPartition{{Partition: 0, Leader: 1, Replicas: []int32{1}, ISR: []int32{1}}}},
			{Topic: kmsg.StringPtr("t-alpha"), TopicID: metadata.TopicIDForName("t-alpha"), Partitions: []protocol.MetadataPartition{{Partition: 0, Leader: 1, Replicas: []int32{1}, ISR: []int32{1}}, {Partition: 1, Leader: 1, Replicas: []int32{1}, ISR: []int32{1}}}},
		},
	}
	ln, err := net.Listen("tcp", "127.0.0.1:0")
	if err != nil {
		t.Fatalf("listen: %v", err)
	}
	p := &proxy{
		addr:           ln.Addr().String(),
		advertisedHost: "127.0.0.1",
		advertisedPort: int32(ln.Addr().(*net.TCPAddr).Port),
		store:          metadata.NewInMemoryStore(meta),
		backends:       backends,
		logger:         logger,
		dialTimeout:    2 * time.Second,
		cacheTTL:       60 * time.Second,
		apiVersions:    generateProxyApiVersions(),
		brokerAddrs:    make(map[string]string),
		topicNames:     make(map[[16]byte]string),
		backendRetries: 1,
		backendBackoff: time.Millisecond,
	}
	if ready {
		// main(): with configured backends the proxy starts ready and warms its caches from the store
		p.setCachedBackends(backends)
		p.touchHealthy()
		p.setReady(true)
		p.updateBrokerAddrs(meta.Brokers)
		p.updateTopicNames(meta.Topics)
	}
	ctx, cancel := context.WithCancel(context.Background())
	var wg sync.WaitGroup
	var mu sync.Mutex
	conns := map[net.Conn]struct{}{}
	go func() {
		for {
			c, err := ln.Accept()
			if err != nil {
				return
			}
			mu.Lock()
			conns[c] = struct{}{}
			mu.Unlock()
			wg.Add(1)
			go func() {
				defer wg.Done()
				p.handleConnection(ctx, c)
			}()
		}
	}()
	return ln.Addr().String(), func() {
		cancel()
		ln.Close()
		mu.Lock()
		for c := range conns {
			c.Close()
		}
		mu.Unlock()
		done := make(chan struct{})
		go func() { wg.Wait(); close(done) }()
		select {
		case <-done:
		case <-time.After(5 * time.Second): // a handler still waiting on a backend read; the process ends with the test
		}
	}
}

func TestVerifC11Proxy(t *testing.T) {
	r := verifkit.Start(t, "C11", "proxy")
	defer r.Finish("real cmd/proxy handleConnection on loopback; backend = the real broker binary built from the tree under test, run as a child process with in-memory metadata and in-memory S3. Same client, sentinel technique and oracle as the broker leg, for the proxy's own advertised table (parsed from its live ApiVersions reply): reply required for every advertised (key, version) (acks=0 produce excepted), correlation id, header shape per flexibility, body decodes with kmsg at that version and re-encodes to the same bytes; every other version in [0, codec max+2] of every key: a reply, if any, must decode at that version. Two degraded configurations (proxy not ready: no backend known; backend down: connection refused) exercise the proxy's locally built error replies; there only the replies that do arrive are judged. Against the ready proxy the reply-size sweep of the broker leg runs as well (same templates as far as the proxy advertises them, string lengths 0..1100 for the first two templates in quick / all in thorough, reply sizes 2^k-8..2^k+8 for k=5..16 (quick: k=9..16 for the other templates), 2-8 requests plus sentinel pipelined per connection, broken batches re-asked alone, a reply not followed by the sentinel's reply frame reported after a control). Request streams with requests that have no reply by protocol, same oracle plus order: on one connection 2-7 slots, each either a Produce with acks=0 at a PRNG-chosen advertised version (1-3 topics x 1-2 partitions, drawn per partition: existing / new legal / illegal topic name; partition 0 or (through the proxy) always 0; record set valid, shorter than a record-batch header, random bytes, truncated batch, null, or a valid batch with batchLength / magic / lastOffsetDelta / record count overwritten), in half of the cases followed by its acked twin (the same topics, partitions and record sets with acks=1/-1, whose reply shows which of them the server accepts and which it rejects), or an advertised request of any API (JoinGroup/SyncGroup excepted; 30% acked Produce), at least one reply-expecting request after the last acks=0 produce, then the sentinel; correlation ids are unique within the stream; the stream is written pipelined or with one request in flight (an acks=0 produce is followed at once by the next request), several streams per connection. The connection is read the way a client does: one frame per reply-expecting request, in order. Each frame must begin with the correlation id of the request whose reply is due and pass the header/decode/re-encode checks above; a frame that carries the correlation id of an earlier acks=0 produce of the stream is a violation (the client takes it for the reply to the next request: foreign correlation id and body, every later reply shifted by one); any other foreign frame: the unanswered requests are asked again alone, and if all are fine there the stream itself is reported; a connection that ends mid-stream is not judged as such, the unanswered requests are judged alone. The matrix applies the same rule to its own acks=0 produce cases: a frame before the sentinel's reply is a violation (advertised versions; ready proxy only: the degraded configurations answer one request and close the connection, so no later reply exists there). non-trivial = a reply with a body was received and decoded; for a stream: it ran to the sentinel's reply and at least one reply read after an acks=0 produce was decoded",
		"read deadline 60 s is a watchdog only (=> inconclusive), except: an advertised request (not acks=0, ready proxy) that gets no complete reply within the watchdog on an open connection is sent once more alone on a fresh connection; a second watchdog on an open connection is reported as advertised_version_not_served",
		"proxy and broker each have their own in-memory metadata store (no etcd): the partition/group routers are nil, every request goes to the single backend",
		"in the degraded configurations (not ready, backend down) a missing reply is counted, not judged (read watchdog 10 s there), and only the keys the proxy lists are driven",
		"acks=0 produce requests always carry at least one topic",
		"a Produce request with acks=0 has no reply (Kafka protocol): a standard client does not read a frame for it, so the next frame on the connection is what it decodes as the reply to its next request; 'the reply carries the request's correlation id' is judged on that reading (ready proxy only; a not-ready proxy answers an acks=0 produce and closes the connection: counted, not judged)",
		"without etcd the proxy's routers are nil, so it dials a new backend connection for every produce/fetch/group request and never reuses the pooled one: a frame a broker wrongly writes for an acks=0 produce stays unread on a backend connection that is closed, and cannot reach the client in this leg",
		"every partition index sent is 0: the broker child cannot be instrumented, and a partition index the topic does not have makes its handler spin forever (found and reported by the broker leg)")
	scratch := os.Getenv("VERIF_SCRATCH")
	if scratch == "" {
		scratch = t.TempDir()
	}
	scratch = filepath.Join(scratch, "c11proxy")
	if err := os.MkdirAll(scratch, 0o755); err != nil {
		t.Fatal(err)
	}
	bin, err := c11pBuildBroker(t, scratch)
	if err != nil {
		t.Fatalf("cannot build the broker for the proxy leg: %v", err)
	}
	bk, err := c11pStartBroker(t, bin, scratch)
	if err != nil {
		t.Fatalf("cannot start the broker child: %v", err)
	}
	defer bk.stop()

	replay := c11ReplayCase("proxy")
	sreplay := c11ReplayStream("proxy")
	want := func(target string) bool {
		if sreplay != nil {
			return sreplay.Target == target
		}
		return replay == nil || replay.Target == target
	}
	var addr string
	var stop func()
	// 1. ready proxy in front of the live broker
	if want("proxy") {
		addr, stop = c11pStartProxy(t, []string{bk.addr}, true, bk.addr)
		if sreplay == nil {
			c11RunMatrix(r, c11Matrix{target: "proxy", addr: addr, salt: 5000000, requireReply: true, scale: 1, partitionZeroOnly: true, replay: replay})
		}
		if replay == nil && sreplay == nil {
			c11RunSweep(r, c11Matrix{target: "proxy", addr: addr, salt: 5000000, requireReply: true}, r.N(2, 100), true)
		}
		if replay == nil {
			c11RunStreams(r, c11Matrix{target: "proxy", addr: addr, salt: 5000000, requireReply: true, partitionZeroOnly: true}, r.N(200, 3000), sreplay)
		}
		stop()
	}
	// the broker must have survived (a dead backend would turn every later reply into a proxy-made error reply)
	if c, err := net.DialTimeout("tcp", bk.addr, 2*time.Second); err != nil {
		b, _ := os.ReadFile(bk.log)
		if len(b) > 2000 {
			b = b[len(b)-2000:]
		}
		r.Inconclusive(fmt.Sprintf("broker child no longer accepts connections after the proxy matrix: %v; log tail: %s", err, b))
	} else {
		c.Close()
	}
	// 2. proxy that has no backend yet (not ready): locally built replies for every API
	if want("proxy_not_ready") {
		addr, stop = c11pStartProxy(t, nil, false, bk.addr)
		c11RunMatrix(r, c11Matrix{target: "proxy_not_ready", addr: addr, salt: 6000000, scale: 0.4, partitionZeroOnly: true, onlyListedKeys: true, replay: replay})
		stop()
	}
	// 3. backend configured but down
	if want("proxy_backend_down") {
		dead, _ := c11pFreeAddr(t)
		addr, stop = c11pStartProxy(t, []string{dead}, true, dead)
		// only the APIs for which the proxy builds the error reply from the request it parsed itself (Produce, Fetch) or answers
		// locally (Metadata, FindCoordinator, ApiVersions). For the others respondBackendError hands the whole frame payload
		// (header included) to the body decoder, whose tag loop then spins on the garbage for minutes (observation).
		c11RunMatrix(r, c11Matrix{target: "proxy_backend_down", addr: addr, salt: 7000000, scale: 0.5, partitionZeroOnly: true, onlyKeys: map[int16]bool{0: true, 1: true, 3: true, 10: true, 18: true}, replay: replay})
		stop()
	}

	if replay == nil && sreplay == nil {
		r.Floor("streams_completed", 120)
		r.Floor("stream_replies_after_acks0", 250)
		r.Floor("stream_reply_pairs_after_acks0", 40)
		r.Floor("stream_acks0_partition_kinds", 10)
		r.Floor("stream_acks0_twin_partitions_rejected", 15)
		r.Floor("stream_acks0_twin_partitions_accepted", 10)
		r.Floor("advertised_pairs", 120)
		r.Floor("replies_decoded", 800)
		r.Floor("replies_flexible_header", 80)
		r.Floor("unadvertised_pairs", 300)
		r.Floor("content_produce_partition_ok", 10)
		r.Floor("content_fetch_partition_with_records", 1)
	}
}
