//go:build verif

package main

import (
	"bytes"
	"context"
	"crypto/sha256"
	"encoding/base64"
	"encoding/hex"
	"encoding/json"
	"errors"
	"fmt"
	"io"
	"log/slog"
	"math/rand"
	"net"
	"net/http"
	"net/http/httptest"
	"os"
	"os/exec"
	"path/filepath"
	"reflect"
	"regexp"
	"sort"
	"strings"
	"sync"
	"sync/atomic"
	"testing"
	"time"
	"unicode/utf8"

	"github.com/KafScale/platform/internal/verifkit"
	"github.com/KafScale/platform/pkg/lfs"
	"github.com/KafScale/platform/pkg/protocol"
	"github.com/aws/aws-sdk-go-v2/aws"
	"github.com/aws/aws-sdk-go-v2/service/s3"
	"github.com/twmb/franz-go/pkg/kmsg"
)

// =====================================================================
// The three libraries under observation
// =====================================================================

// c29Verdict is what one library said about one byte string.
type c29Verdict struct {
	Is    *bool          `json:"is"`
	IsErr string         `json:"is_err"`
	Env   map[string]any `json:"env"`
	Err   string         `json:"err"`
}

func c29Repo() string {
	if v := os.Getenv("VERIF_REPO"); v != "" {
		return v
	}
	return "/repo"
}

func c29Scratch(t *testing.T, leg string) string {
	base := os.Getenv("VERIF_SCRATCH")
	if base == "" {
		base = t.TempDir()
	}
	d := filepath.Join(base, "c29-"+leg)
	if err := os.MkdirAll(d, 0o755); err != nil {
		t.Fatalf("scratch: %v", err)
	}
	return d
}

func c29Go(inputs [][]byte) []c29Verdict {
	out := make([]c29Verdict, len(inputs))
	for i, in := range inputs {
		func() {
			defer func() {
				if p := recover(); p != nil {
					out[i].IsErr = fmt.Sprintf("panic: %v", p)
				}
			}()
			is := lfs.IsLfsEnvelope(in)
			out[i].Is = &is
			env, err := lfs.DecodeEnvelope(in)
			if err != nil {
				out[i].Err = err.Error()
				return
			}
			out[i].Env = c29EnvMap(env)
		}()
	}
	return out
}

// c29EnvMap renders an Envelope through its own JSON tags into a generic map (numbers as json.Number).
func c29EnvMap(env lfs.Envelope) map[string]any {
	b, err := json.Marshal(env)
	if err != nil {
		return map[string]any{"marshal_error": err.Error()}
	}
	return c29ParseMap(b)
}

func c29ParseMap(b []byte) map[string]any {
	dec := json.NewDecoder(bytes.NewReader(b))
	dec.UseNumber()
	var m map[string]any
	if err := dec.Decode(&m); err != nil {
		return map[string]any{"parse_error": err.Error()}
	}
	return m
}

var c29Optional = []string{"checksum", "checksum_alg", "content_type", "original_headers", "created_at", "proxy_id"}

// c29Norm makes the three languages' renderings of "field absent" comparable: an optional field that is
// absent, null, "" or an empty object is dropped. Required fields are kept verbatim.
func c29Norm(m map[string]any) map[string]any {
	if m == nil {
		return nil
	}
	out := map[string]any{}
	for k, v := range m {
		out[k] = v
	}
	for _, k := range c29Optional {
		v, ok := out[k]
		if !ok {
			continue
		}
		switch x := v.(type) {
		case nil:
			delete(out, k)
		case string:
			if x == "" {
				delete(out, k)
			}
		case map[string]any:
			if len(x) == 0 {
				delete(out, k)
			}
		}
	}
	return out
}

func c29WriteInputs(dir string, inputs [][]byte) (string, error) {
	// a JSON array of hex strings, written directly (hex digits need no JSON escaping)
	n := 2
	for _, in := range inputs {
		n += 2*len(in) + 3
	}
	b := make([]byte, 0, n)
	b = append(b, '[')
	for i, in := range inputs {
		if i > 0 {
			b = append(b, ',')
		}
		b = append(b, '"')
		b = hex.AppendEncode(b, in)
		b = append(b, '"')
	}
	b = append(b, ']')
	p := filepath.Join(dir, "inputs.json")
	return p, os.WriteFile(p, b, 0o644)
}

const c29PyDriver = `import sys, json, os, dataclasses, importlib
sys.dont_write_bytecode = True
repo_py = sys.argv[1]; inp = sys.argv[2]; outp = sys.argv[3]
try:
    sys.path.insert(0, repo_py)
    mod = importlib.import_module("lfs_sdk.envelope")
    route = "package import lfs_sdk.envelope"
except Exception as e:
    pkg_err = "%s: %s" % (type(e).__name__, e)
    for k in [k for k in sys.modules if k == "lfs_sdk" or k.startswith("lfs_sdk.")]:
        del sys.modules[k]
    sys.path.pop(0)
    sys.path.insert(0, os.path.join(repo_py, "lfs_sdk"))
    mod = importlib.import_module("envelope")
    route = "unmodified lfs_sdk/envelope.py imported as a top-level module (package __init__ failed: %s)" % pkg_err
items = json.load(open(inp))
out = []
for h in items:
    b = bytes.fromhex(h)
    rec = {}
    try:
        rec["is"] = bool(mod.is_lfs_envelope(b))
    except Exception as e:
        rec["is_err"] = "%s: %s" % (type(e).__name__, e)
    try:
        rec["env"] = dataclasses.asdict(mod.decode_envelope(b))
        json.dumps(rec["env"], allow_nan=False)
    except Exception as e:
        rec.pop("env", None)
        rec["err"] = "%s: %s" % (type(e).__name__, e)
    out.append(rec)
with open(outp, "w") as f:
    json.dump({"route": route, "file": mod.__file__, "version": sys.version.split()[0], "results": out}, f, ensure_ascii=True, allow_nan=False)
`

const c29NodeDriver = `import { readFileSync, writeFileSync } from 'node:fs';
import { pathToFileURL } from 'node:url';
const mod = await import(pathToFileURL(process.argv[2]).href);
const items = JSON.parse(readFileSync(process.argv[3], 'utf8'));
const out = [];
for (const h of items) {
  const b = Uint8Array.from(Buffer.from(h, 'hex'));
  const rec = {};
  try { rec.is = !!mod.isLfsEnvelope(b); } catch (e) { rec.is_err = String(e); }
  try { rec.env = mod.decodeEnvelope(b); } catch (e) { rec.err = String(e); }
  out.push(rec);
}
writeFileSync(process.argv[4], JSON.stringify({ version: process.version, results: out }));
`

type c29LangRun struct {
	Results []c29Verdict
	Meta    map[string]any
	Why     string // non-empty: this language leg decided nothing
}

func c29ReadResults(path string, n int) ([]c29Verdict, map[string]any, error) {
	b, err := os.ReadFile(path)
	if err != nil {
		return nil, nil, err
	}
	dec := json.NewDecoder(bytes.NewReader(b))
	dec.UseNumber()
	var raw struct {
		Route   string       `json:"route"`
		File    string       `json:"file"`
		Version string       `json:"version"`
		Results []c29Verdict `json:"results"`
	}
	if err := dec.Decode(&raw); err != nil {
		return nil, nil, err
	}
	if len(raw.Results) != n {
		return nil, nil, fmt.Errorf("got %d results for %d inputs", len(raw.Results), n)
	}
	return raw.Results, map[string]any{"route": raw.Route, "file": raw.File, "version": raw.Version}, nil
}

func c29Exec(dir string, name string, args ...string) (string, error) {
	ctx, cancel := context.WithTimeout(context.Background(), 5*time.Minute)
	defer cancel()
	cmd := exec.CommandContext(ctx, name, args...)
	cmd.Dir = dir
	cmd.Env = append(os.Environ(), "PYTHONDONTWRITEBYTECODE=1", "PYTHONHASHSEED=0", "NODE_OPTIONS=")
	out, err := cmd.CombinedOutput()
	if ctx.Err() != nil {
		return string(out), fmt.Errorf("watchdog: %s did not finish in 5 min", name)
	}
	return string(out), err
}

func c29RunPython(dir, inputs string, n int) c29LangRun {
	py, err := exec.LookPath("python3")
	if err != nil {
		return c29LangRun{Why: "python3 not found on PATH"}
	}
	py = c29RealPython(py)
	src := filepath.Join(c29Repo(), "lfs-client-sdk", "python")
	if _, err := os.Stat(filepath.Join(src, "lfs_sdk", "envelope.py")); err != nil {
		return c29LangRun{Why: "lfs_sdk/envelope.py not found: " + err.Error()}
	}
	drv := filepath.Join(dir, "c29_driver.py")
	if err := os.WriteFile(drv, []byte(c29PyDriver), 0o644); err != nil {
		return c29LangRun{Why: err.Error()}
	}
	outp := filepath.Join(dir, "py_out.json")
	if out, err := c29Exec(dir, py, "-B", drv, src, inputs, outp); err != nil {
		return c29LangRun{Why: fmt.Sprintf("python driver failed: %v: %s", err, c29Tail(out))}
	}
	res, meta, err := c29ReadResults(outp, n)
	if err != nil {
		return c29LangRun{Why: "python output unreadable: " + err.Error()}
	}
	return c29LangRun{Results: res, Meta: meta}
}

// c29RealPython skips a pyenv shim (a shell script that costs seconds on a busy machine) when the
// interpreter it would select can be named directly; otherwise the PATH entry is used as is.
func c29RealPython(p string) string {
	if v := os.Getenv("VERIF_PYTHON"); v != "" {
		return v
	}
	if filepath.Base(filepath.Dir(p)) != "shims" {
		return p
	}
	root := filepath.Dir(filepath.Dir(p))
	b, err := os.ReadFile(filepath.Join(root, "version"))
	if err != nil || os.Getenv("PYENV_VERSION") != "" {
		return p
	}
	ver := strings.TrimSpace(strings.SplitN(string(b), "\n", 2)[0])
	cand := filepath.Join(root, "versions", ver, "bin", "python3")
	if st, err := os.Stat(cand); err == nil && !st.IsDir() {
		return cand
	}
	return p
}

func c29Tail(s string) string {
	if len(s) > 600 {
		return "..." + s[len(s)-600:]
	}
	return s
}

func c29RunNode(dir, inputs string, n int) c29LangRun {
	node, err := exec.LookPath("node")
	if err != nil {
		return c29LangRun{Why: "node not found on PATH: the JavaScript leg is out of reach"}
	}
	ts, err := os.ReadFile(filepath.Join(c29Repo(), "lfs-client-sdk", "js", "src", "envelope.ts"))
	if err != nil {
		return c29LangRun{Why: "envelope.ts not found: " + err.Error()}
	}
	js, removed, err := c29EraseTS(string(ts))
	if err != nil {
		return c29LangRun{Why: "type erasure refused envelope.ts: " + err.Error()}
	}
	mod := filepath.Join(dir, "envelope_erased.mjs")
	if err := os.WriteFile(mod, []byte(js), 0o644); err != nil {
		return c29LangRun{Why: err.Error()}
	}
	if out, err := c29Exec(dir, node, "--check", mod); err != nil {
		return c29LangRun{Why: fmt.Sprintf("node rejects the type-erased envelope.ts (erasure too weak, not a verdict on the SDK): %v: %s", err, c29Tail(out))}
	}
	drv := filepath.Join(dir, "c29_driver.mjs")
	if err := os.WriteFile(drv, []byte(c29NodeDriver), 0o644); err != nil {
		return c29LangRun{Why: err.Error()}
	}
	outp := filepath.Join(dir, "js_out.json")
	if out, err := c29Exec(dir, node, drv, mod, inputs, outp); err != nil {
		return c29LangRun{Why: fmt.Sprintf("node driver failed: %v: %s", err, c29Tail(out))}
	}
	res, meta, err := c29ReadResults(outp, n)
	if err != nil {
		return c29LangRun{Why: "node output unreadable: " + err.Error()}
	}
	meta["erased_constructs"] = removed
	meta["erased_sha256"] = verifkit.Hash(js)
	return c29LangRun{Results: res, Meta: meta}
}

// =====================================================================
// Conservative TypeScript type erasure (only what envelope.ts-like files use)
// =====================================================================

var (
	c29ReIface  = regexp.MustCompile(`^\s*(export\s+)?interface\s+\w+[^{]*\{\s*$`)
	c29ReAlias  = regexp.MustCompile(`^\s*(export\s+)?type\s+\w+(<[^=]*>)?\s*=.*;\s*$`)
	c29ReImpT   = regexp.MustCompile(`^\s*import\s+type\s`)
	c29ReFunc   = regexp.MustCompile(`^(\s*(?:export\s+)?(?:async\s+)?function\s+\w+\s*)\((.*)\)\s*(?::\s*[^{]+?)?\s*\{\s*$`)
	c29ReAs     = regexp.MustCompile(`\s+as\s+[A-Za-z_][\w.]*(?:<[^<>]*>)?(?:\[\])*`)
	c29ReVarAnn = regexp.MustCompile(`\b(const|let|var)\s+(\w+)\s*:\s*[^=;]+=`)
	c29ReLeft   = regexp.MustCompile(`\binterface\s+\w+|\)\s*:\s*[A-Za-z]|\w\??\s*:\s*(Uint8Array|string|number|boolean|Record<)`)
)

// c29CodeSegments applies f to the parts of a line that are outside string literals and // comments.
func c29CodeSegments(line string, f func(string) string) (string, error) {
	var out strings.Builder
	i, start := 0, 0
	for i < len(line) {
		ch := line[i]
		switch {
		case ch == '`':
			return "", errors.New("template literal: not handled by the conservative eraser")
		case ch == '/' && i+1 < len(line) && line[i+1] == '/':
			out.WriteString(f(line[start:i]))
			out.WriteString(line[i:])
			return out.String(), nil
		case ch == '/' && i+1 < len(line) && line[i+1] == '*':
			return "", errors.New("block comment: not handled by the conservative eraser")
		case ch == '\'' || ch == '"':
			out.WriteString(f(line[start:i]))
			j := i + 1
			for j < len(line) && line[j] != ch {
				if line[j] == '\\' {
					j++
				}
				j++
			}
			if j >= len(line) {
				return "", errors.New("unterminated string literal")
			}
			out.WriteString(line[i : j+1])
			i, start = j+1, j+1
			continue
		}
		i++
	}
	out.WriteString(f(line[start:]))
	return out.String(), nil
}

func c29EraseParams(params string) (string, error) {
	if strings.ContainsAny(params, "'\"`{") {
		return "", errors.New("parameter list with literals/destructuring: not handled")
	}
	var parts []string
	depth, start := 0, 0
	for i, ch := range params {
		switch ch {
		case '<', '(', '[':
			depth++
		case '>', ')', ']':
			depth--
		case ',':
			if depth == 0 {
				parts = append(parts, params[start:i])
				start = i + 1
			}
		}
	}
	if strings.TrimSpace(params[start:]) != "" {
		parts = append(parts, params[start:])
	}
	for i, p := range parts {
		p = strings.TrimSpace(p)
		def := ""
		if k := strings.Index(p, "="); k >= 0 && !strings.Contains(p[:k], "=>") {
			def = " " + strings.TrimSpace(p[k:])
			p = p[:k]
		}
		if k := strings.Index(p, ":"); k >= 0 {
			p = p[:k]
		}
		p = strings.TrimSuffix(strings.TrimSpace(p), "?")
		if !regexp.MustCompile(`^(\.\.\.)?[A-Za-z_$][\w$]*$`).MatchString(p) {
			return "", fmt.Errorf("parameter %q: not a plain identifier", p)
		}
		parts[i] = p + def
	}
	return strings.Join(parts, ", "), nil
}

// c29EraseTS removes interface blocks, type aliases, `import type`, parameter/return/variable type
// annotations and `as T` casts. It never touches string literals. Anything it does not understand is
// an error (=> the JS leg is inconclusive).
func c29EraseTS(src string) (string, []string, error) {
	var out []string
	var removed []string
	lines := strings.Split(src, "\n")
	for i := 0; i < len(lines); i++ {
		ln := lines[i]
		if c29ReIface.MatchString(ln) {
			j := i + 1
			for j < len(lines) && strings.TrimRight(lines[j], " \t\r") != "}" {
				j++
			}
			if j >= len(lines) {
				return "", nil, errors.New("interface block without a closing brace line")
			}
			removed = append(removed, fmt.Sprintf("interface block lines %d-%d", i+1, j+1))
			i = j
			continue
		}
		if c29ReAlias.MatchString(ln) || c29ReImpT.MatchString(ln) {
			removed = append(removed, fmt.Sprintf("type-only line %d", i+1))
			continue
		}
		if m := c29ReFunc.FindStringSubmatch(ln); m != nil {
			ps, err := c29EraseParams(m[2])
			if err != nil {
				return "", nil, fmt.Errorf("line %d: %v", i+1, err)
			}
			nl := m[1] + "(" + ps + ") {"
			if nl != ln {
				removed = append(removed, fmt.Sprintf("signature annotations line %d", i+1))
			}
			out = append(out, nl)
			continue
		}
		nl, err := c29CodeSegments(ln, func(code string) string {
			code = c29ReVarAnn.ReplaceAllString(code, "$1 $2 =")
			return c29ReAs.ReplaceAllString(code, "")
		})
		if err != nil {
			return "", nil, fmt.Errorf("line %d: %v", i+1, err)
		}
		if nl != ln {
			removed = append(removed, fmt.Sprintf("cast/annotation line %d", i+1))
		}
		out = append(out, nl)
	}
	for i, ln := range out {
		left := false
		if _, err := c29CodeSegments(ln, func(code string) string {
			if c29ReLeft.MatchString(code) && !strings.Contains(code, "?") { // a ternary may legitimately contain ": x"
				left = true
			}
			return code
		}); err != nil {
			return "", nil, err
		}
		if left {
			return "", nil, fmt.Errorf("TypeScript-only syntax left after erasure (output line %d: %q)", i+1, ln)
		}
	}
	return strings.Join(out, "\n"), removed, nil
}

// =====================================================================
// Cross-language judging
// =====================================================================

type c29Item struct {
	Name     string
	Bytes    []byte
	Real     bool          // produced by the Go encoder / the proxy: decoded fields must agree too
	Expected *lfs.Envelope // field assignment the producer used, when known
}

// c29StripInvalidUTF8 mimics a decoder that silently drops undecodable bytes.
func c29StripInvalidUTF8(b []byte) []byte {
	var out []byte
	for len(b) > 0 {
		r, n := utf8.DecodeRune(b)
		if r == utf8.RuneError && n <= 1 {
			b = b[1:]
			continue
		}
		out = append(out, b[:n]...)
		b = b[n:]
	}
	return out
}

func c29Prefix(b []byte) []byte {
	if len(b) > 50 {
		return b[:50]
	}
	return b
}

func c29B(p *bool) string {
	if p == nil {
		return "err"
	}
	if *p {
		return "T"
	}
	return "F"
}

// c29Judge compares the libraries on every item. Language legs that could not run are skipped
// (and reported by the caller as inconclusive).
func c29Judge(r *verifkit.Run, items []c29Item, gov []c29Verdict, py, js c29LangRun) {
	marker := []byte(`"kfs_lfs"`)
	for i, it := range items {
		g := gov[i]
		var p, j *c29Verdict
		if py.Why == "" {
			p = &py.Results[i]
		}
		if js.Why == "" {
			j = &js.Results[i]
		}
		replay := &c29Lazy{it: it, g: g, p: p, j: j}
		for name, v := range map[string]*c29Verdict{"go": &g, "python": p, "js": j} {
			if v != nil && v.Is == nil {
				r.Violation("is_envelope_check_throws_"+name, fmt.Sprintf("%s: the is-envelope check raised instead of answering: %s", name, v.IsErr), replay)
			}
		}
		gi := g.Is != nil && *g.Is
		// --- verdict agreement (every byte string)
		if p != nil && p.Is != nil && *p.Is != gi {
			cls := fmt.Sprintf("is_envelope_disagreement_go%s_py%s", c29B(g.Is), c29B(p.Is))
			pre := c29Prefix(it.Bytes)
			if *p.Is && !gi && len(it.Bytes) >= 15 && !bytes.Contains(pre, marker) && bytes.Contains(c29StripInvalidUTF8(pre), marker) {
				cls = "python_accepts_marker_split_by_invalid_utf8"
			}
			r.Violation(cls, fmt.Sprintf("Go IsLfsEnvelope=%v but Python is_lfs_envelope=%v on %d bytes %q", gi, *p.Is, len(it.Bytes), c29Show(it.Bytes)), replay)
			r.Count("disagreements_go_python", 1)
		}
		if j != nil && j.Is != nil && *j.Is != gi {
			cls := fmt.Sprintf("is_envelope_disagreement_go%s_js%s", c29B(g.Is), c29B(j.Is))
			if *j.Is && !gi && len(it.Bytes) < 15 && len(it.Bytes) > 0 && it.Bytes[0] == '{' && bytes.Contains(it.Bytes, marker) {
				cls = "js_accepts_value_shorter_than_15_bytes"
			}
			r.Violation(cls, fmt.Sprintf("Go IsLfsEnvelope=%v but JS isLfsEnvelope=%v on %d bytes %q", gi, *j.Is, len(it.Bytes), c29Show(it.Bytes)), replay)
			r.Count("disagreements_go_js", 1)
		}
		if p != nil && j != nil && p.Is != nil && j.Is != nil && *p.Is == *j.Is && *p.Is == gi {
			if gi {
				r.Count("all_three_say_envelope", 1)
			} else {
				r.Count("all_three_say_not_envelope", 1)
			}
		}
		// --- real envelopes: recognised and decoded to the same fields everywhere
		if !it.Real {
			continue
		}
		if !gi {
			r.Violation("produced_envelope_not_recognised_go", "Go IsLfsEnvelope is false for an envelope the encoder/proxy produced", replay)
		}
		if g.Env == nil {
			r.Violation("produced_envelope_not_decodable_go", "Go DecodeEnvelope fails on a produced envelope: "+g.Err, replay)
			continue
		}
		gn := c29Norm(g.Env)
		for name, v := range map[string]*c29Verdict{"python": p, "js": j} {
			if v == nil {
				continue
			}
			if v.Is != nil && !*v.Is {
				r.Violation("produced_envelope_not_recognised_"+name, name+" does not recognise a produced envelope", replay)
			}
			if v.Env == nil {
				r.Violation("produced_envelope_not_decodable_"+name, name+" cannot decode a produced envelope: "+v.Err, replay)
				continue
			}
			if vn := c29Norm(v.Env); !reflect.DeepEqual(gn, vn) {
				r.Violation("decoded_fields_differ_go_"+name, fmt.Sprintf("decoded fields differ between Go and %s: %s", name, c29Diff(gn, vn)), replay)
			} else {
				r.Count("decoded_equal_go_"+name, 1)
			}
		}
	}
}

// c29Lazy renders the witness only when a violation is actually recorded (it is marshalled by the kit).
type c29Lazy struct {
	it   c29Item
	g    c29Verdict
	p, j *c29Verdict
}

func (l *c29Lazy) MarshalJSON() ([]byte, error) {
	m := map[string]any{"name": l.it.Name, "hex": hex.EncodeToString(l.it.Bytes), "text": string(bytes.ToValidUTF8(l.it.Bytes, []byte("\ufffd"))), "len": len(l.it.Bytes), "go": l.g}
	if l.p != nil {
		m["python"] = *l.p
	}
	if l.j != nil {
		m["js"] = *l.j
	}
	return json.Marshal(m)
}

func c29Show(b []byte) string {
	if len(b) > 80 {
		b = b[:80]
	}
	return string(bytes.ToValidUTF8(b, []byte("\\x??")))
}

func c29Q(v any) string {
	var out string
	if s, ok := v.(string); ok {
		out = fmt.Sprintf("%+q", s)
	} else {
		b, _ := json.Marshal(v)
		out = string(b)
	}
	if len(out) > 240 { // display only: the full value is in the witness
		out = fmt.Sprintf("%s...(%d bytes)...%s", out[:120], len(out), out[len(out)-60:])
	}
	return out
}

func c29Diff(a, b map[string]any) string {
	keys := map[string]struct{}{}
	for k := range a {
		keys[k] = struct{}{}
	}
	for k := range b {
		keys[k] = struct{}{}
	}
	var ks []string
	for k := range keys {
		ks = append(ks, k)
	}
	sort.Strings(ks)
	var d []string
	for _, k := range ks {
		if !reflect.DeepEqual(a[k], b[k]) {
			d = append(d, fmt.Sprintf("%s: %s vs %s", k, c29Q(a[k]), c29Q(b[k])))
		}
	}
	return strings.Join(d, "; ")
}

// c29Cross runs the two foreign libraries on items and judges; language legs that cannot run make the
// run inconclusive.
func c29Cross(t *testing.T, r *verifkit.Run, leg string, items []c29Item) {
	if len(items) == 0 {
		return
	}
	dir := c29Scratch(t, leg)
	raw := make([][]byte, len(items))
	for i := range items {
		raw[i] = items[i].Bytes
	}
	wall := map[string]float64{} // information only, no oracle reads it
	t0 := time.Now()
	inp, err := c29WriteInputs(dir, raw)
	if err != nil {
		t.Fatalf("write inputs: %v", err)
	}
	wall["write_inputs"] = time.Since(t0).Seconds()
	t0 = time.Now()
	gov := c29Go(raw)
	wall["go"] = time.Since(t0).Seconds()
	var py, js c29LangRun
	var wg sync.WaitGroup
	wg.Add(2)
	var pyS, jsS float64
	go func() { defer wg.Done(); t := time.Now(); py = c29RunPython(dir, inp, len(raw)); pyS = time.Since(t).Seconds() }()
	go func() { defer wg.Done(); t := time.Now(); js = c29RunNode(dir, inp, len(raw)); jsS = time.Since(t).Seconds() }()
	wg.Wait()
	wall["python"], wall["node"] = pyS, jsS
	wall["runners"] = time.Since(t0).Seconds()
	defer func() { wall["total"] = time.Since(t0).Seconds(); r.Note("three_libraries_wall_seconds", wall) }()
	if py.Why != "" {
		r.Inconclusive("python leg: " + py.Why)
	} else {
		r.Note("python", py.Meta)
		r.Count("inputs_judged_by_python", int64(len(raw)))
	}
	if js.Why != "" {
		r.Inconclusive("js leg: " + js.Why)
	} else {
		r.Note("node", js.Meta)
		r.Count("inputs_judged_by_js", int64(len(raw)))
	}
	r.Count("inputs_judged_by_go", int64(len(raw)))
	c29Judge(r, items, gov, py, js)
}

// =====================================================================
// Generators
// =====================================================================

var c29Atoms = []string{
	"a", "topic", "\u00e9", "\u00fc", "\u65e5\u672c\u8a9e", "\U0001F600", "\U0001F469\u200d\U0001F469\u200d\U0001F467", "\u05e9\u05dc\u05d5\u05dd", "e\u0301", "\u00a0", "\u2028", "\ufffd", "\u2029", "\ufeff",
	`"`, `\`, "/", "\n", "\t", "\r", "\x00", "\x1f", "\x7f", "<", ">", "&", "'", " ", "  ", "{", "}", ":", ",",
	"kfs_lfs", `"kfs_lfs"`, `{"kfs_lfs":1}`, "null", "true", "0", "-1", "1e9", "__proto__", "constructor", "\U0010FFFF", "\u0800", "\u07ff",
}

func c29Str(rng *rand.Rand, minBytes int) string {
	var b strings.Builder
	n := 1 + rng.Intn(6)
	for i := 0; i < n || b.Len() < minBytes; i++ {
		if rng.Intn(3) == 0 {
			b.WriteString(c29Atoms[rng.Intn(len(c29Atoms))])
		} else {
			const al = "abcdefghijklmnopqrstuvwxyzABCDEFGHIJKLMNOPQRSTUVWXYZ0123456789-_./"
			for k := 0; k < 1+rng.Intn(12); k++ {
				b.WriteByte(al[rng.Intn(len(al))])
			}
		}
	}
	return b.String()
}

func c29Hex(rng *rand.Rand, n int) string {
	b := make([]byte, n)
	rng.Read(b)
	return hex.EncodeToString(b)
}

// c29GenEnvelope draws one field assignment. All strings are valid UTF-8 (JSON text cannot carry
// anything else); sizes stay within 2^53-1 so that every JSON library represents them exactly.
func c29GenEnvelope(rng *rand.Rand) lfs.Envelope {
	e := lfs.Envelope{Version: 1}
	if rng.Intn(5) == 0 {
		e.Version = []int{2, 7, -1, 1<<31 - 1, 1000000}[rng.Intn(5)]
	}
	long := 0
	if rng.Intn(3) == 0 {
		long = 50 + rng.Intn(250)
	}
	e.Bucket = c29Str(rng, []int{0, 0, 63, 120}[rng.Intn(4)])
	e.Key = c29Str(rng, long)
	switch rng.Intn(6) {
	case 0:
		e.Size = 0
	case 1:
		e.Size = 1<<53 - 1
	case 2:
		e.Size = rng.Int63n(1 << 53)
	default:
		e.Size = rng.Int63n(1 << 31)
	}
	if rng.Intn(6) == 0 {
		e.SHA256 = c29Str(rng, 0)
	} else {
		e.SHA256 = c29Hex(rng, 32)
	}
	opt := func() bool { return rng.Intn(2) == 0 }
	all, none := rng.Intn(8) == 0, rng.Intn(8) == 1
	if (opt() || all) && !none {
		e.Checksum = c29Hex(rng, []int{4, 16, 32}[rng.Intn(3)])
	}
	if (opt() || all) && !none {
		e.ChecksumAlg = []string{"sha256", "md5", "crc32", "none", "SHA256", c29Str(rng, 0)}[rng.Intn(6)]
	}
	if (opt() || all) && !none {
		e.ContentType = []string{"application/octet-stream", "text/plain; charset=utf-8", "image/png", c29Str(rng, 0)}[rng.Intn(4)]
	}
	if (opt() || all) && !none {
		e.OriginalHeaders = map[string]string{}
		for k := rng.Intn(5); k > 0; k-- {
			key := []string{"content-type", "Content-Type", "traceparent", "x-request-id", "__proto__", "constructor", "", c29Str(rng, 0)}[rng.Intn(8)]
			e.OriginalHeaders[key] = []string{"", "v", c29Str(rng, 0)}[rng.Intn(3)]
		}
	}
	if (opt() || all) && !none {
		e.CreatedAt = []string{"2026-01-02T03:04:05Z", time.Unix(rng.Int63n(4e9), 0).UTC().Format(time.RFC3339), c29Str(rng, 0)}[rng.Intn(3)]
	}
	if (opt() || all) && !none {
		e.ProxyID = c29Str(rng, 0)
	}
	return e
}

func c29EnvEqual(a, b lfs.Envelope) bool {
	if len(a.OriginalHeaders) == 0 {
		a.OriginalHeaders = nil
	}
	if len(b.OriginalHeaders) == 0 {
		b.OriginalHeaders = nil
	}
	return reflect.DeepEqual(a, b)
}

// c29CheckGoRoundTrip: Encode -> Decode gives back the assignment, the bytes are recognised, and
// re-encoding the decoded fields reproduces the same bytes.
func c29CheckGoRoundTrip(r *verifkit.Run, name string, want *lfs.Envelope, encoded []byte) {
	replay := map[string]any{"name": name, "hex": hex.EncodeToString(encoded), "text": string(encoded), "assigned": want}
	if !lfs.IsLfsEnvelope(encoded) {
		r.Violation("produced_envelope_not_recognised_go", "IsLfsEnvelope is false for a produced envelope", replay)
	}
	got, err := lfs.DecodeEnvelope(encoded)
	if err != nil {
		r.Violation("produced_envelope_not_decodable_go", "DecodeEnvelope fails on a produced envelope: "+err.Error(), replay)
		return
	}
	if want != nil && !c29EnvEqual(*want, got) {
		r.Violation("go_round_trip_changes_fields", fmt.Sprintf("Decode(Encode(e)) != e: %s", c29Diff(c29EnvMap(*want), c29EnvMap(got))), replay)
	}
	again, err := lfs.EncodeEnvelope(got)
	if err != nil || !bytes.Equal(again, encoded) {
		r.Violation("go_reencode_differs", fmt.Sprintf("Encode(Decode(bytes)) != bytes (err=%v)", err), replay)
	}
}

// =====================================================================
// Leg 1: generated field assignments through the Go codec, then all three decoders
// =====================================================================

const c29RuleRoundTrip = "[generated] PRNG envelope field assignments (unicode of every UTF-8 width, JSON-hostile characters, control characters, the marker text inside values, bucket/key of 50-300 bytes, each optional field present/absent, all/none, header maps with __proto__/empty keys, sizes up to 2^53-1) -> lfs.EncodeEnvelope (the function every proxy producer calls) -> (a) Go: DecodeEnvelope returns the assignment, IsLfsEnvelope is true, re-encoding the decoded fields reproduces the bytes; (b) the same bytes are given to python3 running the tree's lfs_sdk/envelope.py and to node running the type-erased envelope.ts: each must recognise the value and decode it to the same fields as Go (absent/null/empty optional fields are identified); non-trivial = an assignment with a non-ASCII or JSON-escaped character or a key >= 50 bytes"

func c29PhaseRoundTrip(r *verifkit.Run) []c29Item {
	n := r.N(1500, 50000)
	nx := r.N(1500, 25000) // how many of them also go to python/node
	var items []c29Item
	for ci := 0; ci < n; ci++ {
		rng := r.Rand(ci)
		e := c29GenEnvelope(rng)
		enc, err := lfs.EncodeEnvelope(e)
		if err != nil {
			r.Count("encode_refused", 1)
			r.Case(verifkit.Hash("refused", ci), false)
			continue
		}
		ec := e
		c29CheckGoRoundTrip(r, fmt.Sprintf("gen-%d", ci), &ec, enc)
		hostile := len(e.Key) >= 50 || len(enc) != len(c29Plain(enc))
		if len(e.Key) >= 50 {
			r.Count("keys_50_bytes_or_more", 1)
		}
		if bytes.IndexFunc(enc, func(c rune) bool { return c > 127 }) >= 0 {
			r.Count("envelopes_with_non_ascii", 1)
		}
		r.Case(verifkit.Hash(string(enc)), hostile)
		if ci < nx {
			items = append(items, c29Item{Name: fmt.Sprintf("gen-%d", ci), Bytes: enc, Real: true, Expected: &ec})
		}
		if ci < 1 {
			r.Sample(map[string]any{"assigned": e, "encoded": string(enc)})
		}
	}
	r.Floor("keys_50_bytes_or_more", 50)
	r.Floor("envelopes_with_non_ascii", 50)
	return items
}

// c29Plain drops backslashes and non-ASCII bytes; used only to decide whether a case was "hostile".
func c29Plain(b []byte) []byte {
	var out []byte
	for _, c := range b {
		if c != '\\' && c < 128 {
			out = append(out, c)
		}
	}
	return out
}

// =====================================================================
// Leg 1b: size and escaping extremes of every client-controlled field
// =====================================================================

// c29FillClass is one kind of text a client can put into a key, header, content type ...: Units are
// repeated/mixed up to an exact byte length. The classes differ in how the three JSON libraries have
// to write/read them (1..4-byte UTF-8, characters that encoding/json turns into 6-byte \uXXXX escapes,
// 2-byte escapes, control characters, the two JavaScript line separators).
type c29FillClass struct {
	Name  string
	Units []string
}

var c29FillClasses = []c29FillClass{
	{"ascii", []string{"a", "b", "Z", "0", "9", "-", "_", ".", "/", "obj-", "2026/02/01/"}},
	{"html_escaped", []string{"&", "<", ">"}},
	{"quote_backslash", []string{`"`, `\`, "/", `\"`, `\u0041`, `\\u0041`, `\n`}},
	{"control", []string{"\x00", "\x01", "\x08", "\t", "\n", "\x0c", "\r", "\x1b", "\x1f", "\x7f"}},
	{"line_separators", []string{"\u2028", "\u2029"}},
	{"two_byte", []string{"\u00e9", "\u00fc", "\u00a0", "\u07ff", "\u0080", "\u043f"}},
	{"cjk", []string{"\u65e5", "\u672c", "\u8a9e", "\u0800", "\uffef", "\ufffd"}},
	{"four_byte", []string{"\U0001F600", "\U00010000", "\U0010FFFF", "\U0001F469\u200d\U0001F467"}},
	{"tracestate", []string{"vendor=opaque-value-0123456789abcdef,", "rojo=00f067aa0ba902b7,", "congo=t61rcWkgMzE,"}},
	{"mime_params", []string{"; charset=utf-8", "; boundary=\"----=_Part_0123456789\"", "; profile=\"https://example.org/a?b=1&c=<2>\"", "application/vnd.example+json"}},
	{"mixed", nil}, // every unit above plus the small-string atoms
}

func init() {
	var all []string
	for _, c := range c29FillClasses {
		all = append(all, c.Units...)
	}
	all = append(all, c29Atoms...)
	c29FillClasses[len(c29FillClasses)-1].Units = all
}

// c29Fill returns exactly size bytes of valid UTF-8 drawn from the class (homogeneous: one unit repeated;
// otherwise a PRNG mix), padded with 'x' where the next unit would not fit.
func c29Fill(rng *rand.Rand, cls c29FillClass, size int) string {
	var b strings.Builder
	b.Grow(size)
	one := ""
	if rng.Intn(3) == 0 {
		one = cls.Units[rng.Intn(len(cls.Units))]
	}
	for b.Len() < size {
		u := one
		if u == "" {
			u = cls.Units[rng.Intn(len(cls.Units))]
		}
		if b.Len()+len(u) > size {
			b.WriteByte('x')
			continue
		}
		b.WriteString(u)
	}
	return b.String()
}

// c29ExtSize draws a field length in bytes: log-uniform over 16 B .. 64 KiB, a quarter of the draws on a
// power of two +-1 (64 B .. 64 KiB: 255/256/257, 1023/1024/1025, 4095/4096/4097 ...), one in twenty-four
// beyond 64 KiB (log-uniform up to 2^bigExp).
func c29ExtSize(rng *rand.Rand, bigExp int) int {
	switch x := rng.Intn(48); {
	case x < 2:
		return int(65536 * c29Pow2(rng.Float64()*float64(bigExp-16)))
	case x < 14:
		return 1<<uint(6+rng.Intn(11)) + rng.Intn(3) - 1
	default:
		return int(16 * c29Pow2(12*rng.Float64())) // 16 .. 65535
	}
}

// c29Pow2 is a piecewise-linear 2^e for e >= 0 (no math import needed; only the spread matters).
func c29Pow2(e float64) float64 {
	n := 1.0
	for ; e >= 1; e-- {
		n *= 2
	}
	return n * (1 + e)
}

var c29ExtFields = []string{"key", "bucket", "content_type", "header_value", "header_many", "header_key", "proxy_id", "checksum_alg", "created_at", "checksum", "sha256"}

// c29SetExtreme overwrites one client-controlled field of e with size bytes of the class.
func c29SetExtreme(rng *rand.Rand, e *lfs.Envelope, field string, cls c29FillClass, size int) {
	switch field {
	case "key":
		e.Key = c29Fill(rng, cls, size)
	case "bucket":
		e.Bucket = c29Fill(rng, cls, size)
	case "content_type":
		e.ContentType = c29Fill(rng, cls, size)
	case "proxy_id":
		e.ProxyID = c29Fill(rng, cls, size)
	case "checksum_alg":
		e.ChecksumAlg = c29Fill(rng, cls, size)
	case "created_at":
		e.CreatedAt = c29Fill(rng, cls, size)
	case "checksum":
		e.Checksum = c29Fill(rng, cls, size)
	case "sha256":
		e.SHA256 = c29Fill(rng, cls, size)
	case "header_value", "header_key", "header_many":
		if e.OriginalHeaders == nil {
			e.OriginalHeaders = map[string]string{}
		}
		switch field {
		case "header_value":
			k := []string{"tracestate", "content-type", "correlation-id", "x-request-id", "traceparent"}[rng.Intn(5)]
			e.OriginalHeaders[k] = c29Fill(rng, cls, size)
		case "header_key":
			e.OriginalHeaders[c29Fill(rng, cls, size)] = "v"
		default: // many small entries adding up to about size bytes
			for i := 0; i*48 < size; i++ {
				e.OriginalHeaders[fmt.Sprintf("h%d-%s", i, c29Fill(rng, cls, 8))] = c29Fill(rng, cls, 32)
			}
		}
	}
}

// c29GenExtreme draws a field assignment whose size/escaping is extreme in one or two fields (one case in
// twenty: in every field, at a smaller size each). The rest is either what the proxy usually writes or a
// c29GenEnvelope draw.
func c29GenExtreme(rng *rand.Rand, bigExp int) (lfs.Envelope, string) {
	var e lfs.Envelope
	if rng.Intn(2) == 0 {
		e = lfs.Envelope{Version: 1, Bucket: "kafscale-lfs", Key: "default/topic/lfs/2026/02/01/obj-" + c29Hex(rng, 16), Size: rng.Int63n(1 << 31),
			SHA256: c29Hex(rng, 32), ChecksumAlg: "sha256", ContentType: "application/octet-stream", CreatedAt: "2026-02-01T12:00:00Z", ProxyID: "lfs-proxy-0"}
		e.Checksum = e.SHA256
	} else {
		e = c29GenEnvelope(rng)
	}
	var desc []string
	set := func(field string, size int) {
		cls := c29FillClasses[rng.Intn(len(c29FillClasses))]
		c29SetExtreme(rng, &e, field, cls, size)
		desc = append(desc, fmt.Sprintf("%s/%s/%d", field, cls.Name, size))
	}
	switch x := rng.Intn(20); {
	case x == 0:
		for _, f := range c29ExtFields {
			set(f, 1+c29ExtSize(rng, 16)/8)
		}
	case x < 6:
		set(c29ExtFields[rng.Intn(len(c29ExtFields))], c29ExtSize(rng, bigExp))
		set(c29ExtFields[rng.Intn(len(c29ExtFields))], c29ExtSize(rng, 16))
	default:
		set(c29ExtFields[rng.Intn(len(c29ExtFields))], c29ExtSize(rng, bigExp))
	}
	return e, strings.Join(desc, " + ")
}

func c29CountSize(r *verifkit.Run, prefix string, n int) {
	for _, lim := range []int{1, 4, 16, 64} {
		if n > lim<<10 {
			r.Count(fmt.Sprintf("%s_over_%dKiB", prefix, lim), 1)
		}
	}
}

func c29Head(b []byte, n int) string {
	if len(b) > n {
		return string(bytes.ToValidUTF8(b[:n], nil)) + fmt.Sprintf("...(%d bytes)", len(b))
	}
	return string(b)
}

const c29RuleExtremes = "[extremes] PRNG field assignments whose SIZE and ESCAPING are extreme in the fields a client controls: one or two (1 case in 20: all) of key, bucket, content_type, one original_headers value (tracestate/content-type/...), many original_headers entries, an original_headers key, proxy_id, checksum_alg, created_at, checksum, sha256 are set to exactly L bytes, L log-uniform over 16 B..64 KiB, a quarter of the draws on 2^k-1/2^k/2^k+1 for k=6..16 (so exact 1024-byte keys), one in twenty-four between 64 KiB and 256 KiB (thorough: 512 KiB), filled from one of 11 text classes (plain ASCII; & < > which encoding/json writes as 6-byte escapes; quotes and backslashes; control characters; U+2028/U+2029; 2-byte, CJK and 4-byte UTF-8; W3C tracestate lists; MIME parameter lists; a mix of everything), either one unit repeated or a PRNG mix; the other fields are what the proxy usually writes or a [generated] draw. Encoded envelopes range from ~300 bytes to several hundred KiB. Same oracle as [generated]: Go Decode(Encode(e)) = e, IsLfsEnvelope true, re-encode identity, python/node recognise the bytes and decode the same fields; non-trivial = encoded envelope longer than 1 KiB"

func c29PhaseExtremes(r *verifkit.Run) []c29Item {
	n := r.N(240, 1000)
	bigExp := r.N(18, 19)
	var items []c29Item
	for ci := 0; ci < n; ci++ {
		rng := r.Rand(3000000 + ci)
		e, desc := c29GenExtreme(rng, bigExp)
		enc, err := lfs.EncodeEnvelope(e)
		if err != nil {
			r.Count("encode_refused", 1)
			r.Case(verifkit.Hash("refused-x", ci), false)
			continue
		}
		ec := e
		name := fmt.Sprintf("gen-x-%d", ci)
		c29CheckGoRoundTrip(r, name, &ec, enc)
		r.Count("extreme_envelopes", 1)
		c29CountSize(r, "extreme_envelopes", len(enc))
		if len(enc) != len(c29Plain(enc)) {
			r.Count("extreme_envelopes_with_escapes_or_non_ascii", 1)
		}
		for _, d := range strings.Split(desc, " + ") {
			p := strings.Split(d, "/")
			r.Seen("extreme_field_x_text_class", p[0]+"/"+p[1])
		}
		r.Case(verifkit.Hash(string(enc)), len(enc) > 1024)
		items = append(items, c29Item{Name: name, Bytes: enc, Real: true, Expected: &ec})
		if ci < 2 {
			r.Sample(map[string]any{"extreme": desc, "encoded_len": len(enc), "encoded_head": c29Head(enc, 300)})
		}
	}
	r.Floor("extreme_envelopes_over_1KiB", int64(n/3))
	r.Floor("extreme_envelopes_over_4KiB", int64(n/5))
	r.Floor("extreme_envelopes_over_16KiB", int64(n/12))
	r.Floor("extreme_envelopes_over_64KiB", int64(n/60))
	r.Floor("extreme_envelopes_with_escapes_or_non_ascii", int64(n/3))
	return items
}

// =====================================================================
// Leg 2: envelopes made by the proxy's real producers
// =====================================================================

type c29S3 struct {
	mu      sync.Mutex
	objects map[string][]byte
	order   []string
}

func (f *c29S3) PutObject(_ context.Context, in *s3.PutObjectInput, _ ...func(*s3.Options)) (*s3.PutObjectOutput, error) {
	b, _ := io.ReadAll(in.Body)
	f.mu.Lock()
	f.objects[*in.Key] = b
	f.order = append(f.order, *in.Key)
	f.mu.Unlock()
	return &s3.PutObjectOutput{}, nil
}
func (f *c29S3) GetObject(context.Context, *s3.GetObjectInput, ...func(*s3.Options)) (*s3.GetObjectOutput, error) {
	return nil, errors.New("not scripted")
}
func (f *c29S3) CreateMultipartUpload(context.Context, *s3.CreateMultipartUploadInput, ...func(*s3.Options)) (*s3.CreateMultipartUploadOutput, error) {
	return &s3.CreateMultipartUploadOutput{UploadId: aws.String("u")}, nil
}
func (f *c29S3) UploadPart(context.Context, *s3.UploadPartInput, ...func(*s3.Options)) (*s3.UploadPartOutput, error) {
	return &s3.UploadPartOutput{ETag: aws.String("e")}, nil
}
func (f *c29S3) CompleteMultipartUpload(context.Context, *s3.CompleteMultipartUploadInput, ...func(*s3.Options)) (*s3.CompleteMultipartUploadOutput, error) {
	return &s3.CompleteMultipartUploadOutput{}, nil
}
func (f *c29S3) AbortMultipartUpload(context.Context, *s3.AbortMultipartUploadInput, ...func(*s3.Options)) (*s3.AbortMultipartUploadOutput, error) {
	return &s3.AbortMultipartUploadOutput{}, nil
}
func (f *c29S3) DeleteObject(context.Context, *s3.DeleteObjectInput, ...func(*s3.Options)) (*s3.DeleteObjectOutput, error) {
	return &s3.DeleteObjectOutput{}, nil
}
func (f *c29S3) HeadBucket(context.Context, *s3.HeadBucketInput, ...func(*s3.Options)) (*s3.HeadBucketOutput, error) {
	return &s3.HeadBucketOutput{}, nil
}
func (f *c29S3) CreateBucket(context.Context, *s3.CreateBucketInput, ...func(*s3.Options)) (*s3.CreateBucketOutput, error) {
	return &s3.CreateBucketOutput{}, nil
}

func (f *c29S3) keyOf(payload []byte) (string, bool) {
	f.mu.Lock()
	defer f.mu.Unlock()
	for k, v := range f.objects {
		if bytes.Equal(v, payload) {
			return k, true
		}
	}
	return "", false
}

func c29Module(api s3API, bucket, ns, proxyID, alg string) *lfsModule {
	logger := slog.New(slog.NewTextHandler(io.Discard, nil))
	m := &lfsModule{
		logger:           logger,
		s3Uploader:       &s3Uploader{bucket: bucket, region: "us-east-1", chunkSize: 5 << 20, api: api},
		s3Bucket:         bucket,
		s3Namespace:      ns,
		maxBlob:          5 << 30,
		chunkSize:        5 << 20,
		checksumAlg:      alg,
		proxyID:          proxyID,
		metrics:          newLfsMetrics(),
		tracker:          &LfsOpsTracker{config: TrackerConfig{}, logger: logger},
		topicMaxLength:   249,
		downloadTTLMax:   2 * time.Minute,
		uploadSessionTTL: time.Hour,
		uploadSessions:   make(map[string]*uploadSession),
		dialTimeout:      5 * time.Second,
		backendRetries:   2,
		backendBackoff:   time.Millisecond,
	}
	atomic.StoreUint32(&m.s3Healthy, 1)
	return m
}

// c29Backend is a loopback Kafka stand-in: it records every request frame and answers a produce with a success acknowledgement for every partition.
type c29Backend struct {
	ln     net.Listener
	mu     sync.Mutex
	frames [][]byte
}

func c29StartBackend(t *testing.T) *c29Backend {
	ln, err := net.Listen("tcp", "127.0.0.1:0")
	if err != nil {
		t.Fatalf("listen: %v", err)
	}
	b := &c29Backend{ln: ln}
	go func() {
		for {
			conn, err := ln.Accept()
			if err != nil {
				return
			}
			go func(c net.Conn) {
				defer c.Close()
				for {
					fr, err := protocol.ReadFrame(c)
					if err != nil {
						return
					}
					b.mu.Lock()
					b.frames = append(b.frames, fr.Payload)
					b.mu.Unlock()
					// acknowledge every partition of the produce with error code 0 (the proxy checks the acknowledgement)
					reply := []byte{0, 0, 0, 0, 0, 0, 0, 0}
					if hdr, req, perr := protocol.ParseRequest(fr.Payload); perr == nil {
						if pr, ok := req.(*kmsg.ProduceRequest); ok {
							resp := kmsg.NewPtrProduceResponse()
							for _, tp := range pr.Topics {
								rt := kmsg.NewProduceResponseTopic()
								rt.Topic = tp.Topic
								for _, pp := range tp.Partitions {
									rp := kmsg.NewProduceResponseTopicPartition()
									rp.Partition = pp.Partition
									rt.Partitions = append(rt.Partitions, rp)
								}
								resp.Topics = append(resp.Topics, rt)
							}
							reply = protocol.EncodeResponse(hdr.CorrelationID, hdr.APIVersion, resp)
						}
					}
					if err := protocol.WriteFrame(c, reply); err != nil {
						return
					}
				}
			}(conn)
		}
	}()
	return b
}

func (b *c29Backend) take() [][]byte {
	b.mu.Lock()
	defer b.mu.Unlock()
	f := b.frames
	b.frames = nil
	return f
}

// c29RecordValues extracts all record values of a produce request's partitions using the proxy's own decoders.
func c29RecordValues(req *kmsg.ProduceRequest) ([][]byte, error) {
	var vals [][]byte
	for _, tp := range req.Topics {
		for _, p := range tp.Partitions {
			batches, err := lfsDecodeRecordBatches(p.Records)
			if err != nil {
				return nil, err
			}
			for bi := range batches {
				recs, _, err := lfsDecodeBatchRecords(&batches[bi], nil)
				if err != nil {
					return nil, err
				}
				for _, rec := range recs {
					vals = append(vals, rec.Value)
				}
			}
		}
	}
	return vals, nil
}

func c29Digest(alg string, b []byte) string {
	s, _ := lfs.ComputeChecksum(lfs.ChecksumAlg(alg), b)
	return s
}

const c29RuleProxy = "[proxy] envelopes produced by the proxy itself: (a) rewriteProduceRecords on generated Kafka produce requests (records flagged LFS_BLOB with generated payloads, unicode/long topic names, allow-listed and other headers with unicode values, LFS_BLOB_ALG in {absent, sha256, md5, crc32, none}, module bucket/namespace/proxy-id with unicode), value read back from the rewritten batch; (b) handleHTTPProduce with a loopback Kafka stand-in that records the produce frame (value read from the frame) plus the JSON the handler returns. Oracle: each produced value is recognised by IsLfsEnvelope, DecodeEnvelope succeeds and yields bucket = configured bucket, key = the key the object was stored under, size = payload length, sha256 = SHA-256(payload), proxy_id/content_type/original_headers as assigned, re-encoding the decoded fields reproduces the value byte for byte; python/node recognise it and decode the same fields; non-trivial = produced envelope carrying non-ASCII or escaped text or original_headers"

func c29PhaseProxy(t *testing.T, r *verifkit.Run, longOnly bool) []c29Item {
	ctx := context.Background()
	var items []c29Item
	topicsAtoms := []string{"orders", "t", "日本語", "topic-with-a-very-long-name-that-goes-beyond-fifty-bytes-easily-0123456789", "a/b", "q\"uote", "sp ace", "é", "😀", "x.y_z-1"}
	hdrKeys := []string{"content-type", "Content-Type", "content-encoding", "correlation-id", "message-id", "x-correlation-id", "X-Request-ID", "traceparent", "tracestate", "authorization", "x-secret", "custom"}
	n := r.N(150, 4000)
	nl := r.N(60, 300) // further cases whose client-controlled inputs (record headers, topic) are long / escape-heavy: leg "extremes"
	first, last := 0, n
	if longOnly {
		first, last = n, n+nl
	}
	for ci := first; ci < last; ci++ {
		rng := r.Rand(500000 + ci)
		long := ci >= n
		if long {
			rng = r.Rand(600000 + ci - n)
		}
		fs := &c29S3{objects: map[string][]byte{}}
		bucket := []string{"verif-bucket", "b", "bücket", "bucket-" + strings.Repeat("x", 56)}[rng.Intn(4)]
		ns := []string{"ns", "", "tenant/一", "  spaced  ", strings.Repeat("n", 60)}[rng.Intn(5)]
		proxyID := []string{"proxy-1", "", "прокси", "p\"x\\y", "😀"}[rng.Intn(5)]
		defAlg := []string{"sha256", "md5", "crc32", "none", ""}[rng.Intn(5)]
		m := c29Module(fs, bucket, ns, proxyID, defAlg)
		topic := topicsAtoms[rng.Intn(len(topicsAtoms))]
		if long && rng.Intn(2) == 0 {
			topic = c29Fill(rng, c29FillClasses[rng.Intn(len(c29FillClasses))], 100+rng.Intn(150)) // Kafka caps topic names at 249
		}
		nrec := 1 + rng.Intn(3)
		type sent struct {
			payload []byte
			headers []kmsg.Header
			alg     string
		}
		var sents []sent
		var recs []kmsg.Record
		for k := 0; k < nrec; k++ {
			payload := make([]byte, 1+rng.Intn(200))
			rng.Read(payload)
			payload = append(payload, []byte(fmt.Sprintf("#%d/%d", ci, k))...) // unique
			var hs []kmsg.Header
			for h := rng.Intn(5); h > 0; h-- {
				hs = append(hs, kmsg.Header{Key: hdrKeys[rng.Intn(len(hdrKeys))], Value: []byte(c29Str(rng, 0))})
			}
			if long { // 1-3 allow-listed headers of 256 B .. 16 KiB (a tracestate list, a long content type, an opaque correlation id ...)
				for h := 1 + rng.Intn(3); h > 0; h-- {
					cls := c29FillClasses[rng.Intn(len(c29FillClasses))]
					hs = append(hs, kmsg.Header{Key: hdrKeys[rng.Intn(9)], Value: []byte(c29Fill(rng, cls, int(256*c29Pow2(6*rng.Float64()))))})
					r.Seen("rewrite_long_header_text_class", cls.Name)
				}
			}
			alg := []string{"", "", "sha256", "md5", "crc32", "none", "MD5"}[rng.Intn(7)]
			eff := strings.ToLower(alg)
			if eff == "" {
				eff = defAlg
			}
			if eff == "" {
				eff = "sha256"
			}
			ck := ""
			if eff != "none" && rng.Intn(2) == 0 {
				ck = c29Digest(eff, payload)
				if rng.Intn(2) == 0 {
					ck = strings.ToUpper(ck)
				}
			}
			pos := rng.Intn(len(hs) + 1)
			hs = append(hs[:pos], append([]kmsg.Header{{Key: "LFS_BLOB", Value: []byte(ck)}}, hs[pos:]...)...)
			if alg != "" {
				hs = append(hs, kmsg.Header{Key: "LFS_BLOB_ALG", Value: []byte(alg)})
			}
			sents = append(sents, sent{payload, hs, eff})
			recs = append(recs, kmsg.Record{Key: []byte(fmt.Sprintf("k%d", k)), Value: payload, Headers: hs, OffsetDelta: int32(k)})
		}
		req := &kmsg.ProduceRequest{Acks: 1, TimeoutMillis: 5000, Topics: []kmsg.ProduceRequestTopic{{Topic: topic,
			Partitions: []kmsg.ProduceRequestTopicPartition{{Partition: 0, Records: lfsBuildRecordBatch(recs)}}}}}
		hdr := &protocol.RequestHeader{APIKey: protocol.APIKeyProduce, APIVersion: 9, CorrelationID: int32(ci)}
		var res lfsRewriteResult
		var err error
		func() {
			defer func() {
				if p := recover(); p != nil {
					err = fmt.Errorf("panic: %v", p)
				}
			}()
			res, err = m.rewriteProduceRecords(ctx, hdr, req)
		}()
		if err != nil || !res.modified {
			r.Count("rewrite_not_performed", 1)
			r.Case(verifkit.Hash("rewrite-skip", ci), false)
			continue
		}
		vals, err := c29RecordValues(req)
		if err != nil || len(vals) != len(sents) {
			r.Count("rewritten_batch_unreadable", 1)
			r.Case(verifkit.Hash("rewrite-unreadable", ci), false)
			continue
		}
		for k, v := range vals {
			s := sents[k]
			key, stored := fs.keyOf(s.payload)
			if !stored {
				r.Count("payload_not_found_in_store", 1)
				continue
			}
			sum := sha256.Sum256(s.payload)
			want := lfs.Envelope{Version: 1, Bucket: bucket, Key: key, Size: int64(len(s.payload)), SHA256: hex.EncodeToString(sum[:]),
				ContentType: lfsHeaderValue(s.headers, "content-type"), OriginalHeaders: lfsHeadersToMap(s.headers), ProxyID: proxyID}
			name := fmt.Sprintf("rewrite-%d-%d", ci, k)
			c29CheckProduced(r, name, want, v)
			items = append(items, c29Item{Name: name, Bytes: v, Real: true})
			got, _ := lfs.DecodeEnvelope(v)
			hostile := len(got.OriginalHeaders) > 0 || len(v) != len(c29Plain(v))
			r.Count("envelopes_from_rewrite", 1)
			c29CountSize(r, "envelopes_from_rewrite", len(v))
			if len(got.OriginalHeaders) > 0 {
				r.Count("envelopes_with_original_headers", 1)
			}
			r.Case(verifkit.Hash(string(v)), hostile)
			if ci == first && k == 0 {
				r.Sample(map[string]any{"producer": "rewriteProduceRecords", "topic": topic, "envelope": c29Head(v, 600)})
			}
		}
	}

	// (b) HTTP produce
	be := c29StartBackend(t)
	defer be.ln.Close()
	nh := r.N(40, 600)
	nhl := r.N(40, 150) // further cases with a long / escape-heavy Content-Type and a 249-byte topic: leg "extremes"
	first, last = 0, nh
	if longOnly {
		first, last = nh, nh+nhl
	}
	for ci := first; ci < last; ci++ {
		rng := r.Rand(1000000 + ci)
		long := ci >= nh
		if long {
			rng = r.Rand(1100000 + ci - nh)
		}
		fs := &c29S3{objects: map[string][]byte{}}
		bucket := []string{"verif-bucket", "bücket"}[rng.Intn(2)]
		proxyID := []string{"proxy-1", "прокси", ""}[rng.Intn(3)]
		defAlg := []string{"sha256", "md5", "crc32", "none"}[rng.Intn(4)]
		m := c29Module(fs, bucket, []string{"ns", "", "tenant/一"}[rng.Intn(3)], proxyID, defAlg)
		m.backends = []string{be.ln.Addr().String()}
		payload := make([]byte, 1+rng.Intn(3000))
		rng.Read(payload)
		payload = append(payload, []byte(fmt.Sprintf("#http%d", ci))...)
		hreq := httptest.NewRequest(http.MethodPost, "/lfs/produce", bytes.NewReader(payload))
		topic := []string{"orders", "x.y_z-1", strings.Repeat("t", 200)}[rng.Intn(3)]
		hreq.Header.Set(lfsHeaderTopic, topic)
		ct := []string{"", "application/octet-stream", "text/plain; charset=utf-8", "x/" + c29Str(rng, 0)}[rng.Intn(4)]
		if long {
			cls := c29FillClasses[rng.Intn(len(c29FillClasses))]
			ct = "x/" + c29Fill(rng, cls, int(1024*c29Pow2(5*rng.Float64()))) // 1 .. 32 KiB
			r.Seen("http_long_content_type_text_class", cls.Name)
			if rng.Intn(2) == 0 {
				topic = strings.Repeat("a.b_c-", 42)[:249]
				hreq.Header.Set(lfsHeaderTopic, topic)
			}
		}
		if ct != "" {
			hreq.Header["Content-Type"] = []string{ct}
		}
		if rng.Intn(2) == 0 {
			hreq.Header.Set(lfsHeaderKey, base64.StdEncoding.EncodeToString([]byte(c29Str(rng, 0))))
		}
		if a := []string{"", "sha256", "md5", "crc32", "none"}[rng.Intn(5)]; a != "" {
			hreq.Header.Set(lfsHeaderChecksumAlg, a)
		}
		rr := httptest.NewRecorder()
		func() {
			defer func() {
				if p := recover(); p != nil {
					rr.Code = -1
				}
			}()
			m.handleHTTPProduce(rr, hreq)
		}()
		frames := be.take()
		if rr.Code != http.StatusOK || len(frames) != 1 {
			r.Count("http_produce_not_completed", 1)
			r.Case(verifkit.Hash("http-skip", ci), false)
			continue
		}
		_, kreq, err := protocol.ParseRequest(frames[0])
		preq, ok := kreq.(*kmsg.ProduceRequest)
		if err != nil || !ok {
			r.Count("http_produce_frame_unparsed", 1)
			r.Case(verifkit.Hash("http-unparsed", ci), false)
			continue
		}
		vals, err := c29RecordValues(preq)
		if err != nil || len(vals) != 1 {
			r.Count("http_produce_frame_unparsed", 1)
			r.Case(verifkit.Hash("http-unparsed", ci), false)
			continue
		}
		key, stored := fs.keyOf(payload)
		if !stored {
			r.Count("payload_not_found_in_store", 1)
			continue
		}
		sum := sha256.Sum256(payload)
		want := lfs.Envelope{Version: 1, Bucket: bucket, Key: key, Size: int64(len(payload)), SHA256: hex.EncodeToString(sum[:]), ContentType: ct, ProxyID: proxyID}
		name := fmt.Sprintf("http-%d", ci)
		c29CheckProduced(r, name, want, vals[0])
		items = append(items, c29Item{Name: name, Bytes: vals[0], Real: true})
		// the JSON handed back to the HTTP caller is an envelope too
		body := bytes.TrimRight(rr.Body.Bytes(), "\n")
		c29CheckProduced(r, name+"-response", want, body)
		items = append(items, c29Item{Name: name + "-response", Bytes: body, Real: true})
		r.Count("envelopes_from_http_produce", 1)
		c29CountSize(r, "envelopes_from_http_produce", len(vals[0]))
		r.Case(verifkit.Hash(string(vals[0])), true)
		if ci == first {
			r.Sample(map[string]any{"producer": "handleHTTPProduce", "topic": topic, "envelope": c29Head(vals[0], 600)})
		}
	}
	if longOnly {
		r.Floor("envelopes_from_rewrite", 40)
		r.Floor("envelopes_from_rewrite_over_4KiB", 15)
		r.Floor("envelopes_from_rewrite_over_16KiB", 3)
		r.Floor("envelopes_from_http_produce", 20)
		r.Floor("envelopes_from_http_produce_over_4KiB", 8)
		return items
	}
	r.Floor("envelopes_from_rewrite", 100)
	r.Floor("envelopes_with_original_headers", 20)
	r.Floor("envelopes_from_http_produce", 20)
	return items
}

// c29CheckProduced judges one proxy-produced value against the assignment the producer must have used.
// checksum/checksum_alg/created_at are whatever the proxy chose; they are covered by the re-encode identity.
func c29CheckProduced(r *verifkit.Run, name string, want lfs.Envelope, value []byte) {
	c29CheckGoRoundTrip(r, name, nil, value)
	got, err := lfs.DecodeEnvelope(value)
	if err != nil {
		return
	}
	replay := map[string]any{"name": name, "text": string(value), "hex": hex.EncodeToString(value), "assigned": want}
	cmp := got
	cmp.Checksum, cmp.ChecksumAlg, cmp.CreatedAt = "", "", ""
	if !c29EnvEqual(want, cmp) {
		r.Violation("proxy_envelope_decodes_to_other_fields", "decoded fields differ from what the producer assigned: "+c29Diff(c29EnvMap(want), c29EnvMap(cmp)), replay)
	}
	if got.CreatedAt != "" {
		if _, err := time.Parse(time.RFC3339, got.CreatedAt); err != nil {
			r.Count("created_at_not_rfc3339", 1)
		}
	}
}

// =====================================================================
// Leg 3: every byte string gets the same verdict in the three libraries
// =====================================================================

func c29Fixed() []c29Item {
	var it []c29Item
	add := func(name string, b []byte) { it = append(it, c29Item{Name: name, Bytes: b}) }
	real := []byte(`{"kfs_lfs":1,"bucket":"b","key":"ns/t/lfs/2026/01/01/obj-1","size":3,"sha256":"ab"}`)
	add("real", real)
	add("empty", []byte{})
	for _, s := range []string{"{", "{}", `{"`, `{"kfs_lfs"`, `{"kfs_lfs"}`, `{"kfs_lfs":1}`, `{"kfs_lfs":1 }`, `{"kfs_lfs":12}`, `{"kfs_lfs":123}`, `{"kfs_lfs":1,"a":1}`,
		"hello", "null", `"kfs_lfs"`, `["kfs_lfs"]`, `[{"kfs_lfs":1,"bucket":"b"}]`, `{kfs_lfs:1,"bucket":"b","key":"k"}`, `{'kfs_lfs':1,"bucket":"b","key":"k"}`,
		`{"KFS_LFS":1,"bucket":"b","key":"k","size":1,"sha256":"a"}`, `{"kfs_lfs":1,"bucket":"b","key":"k","sha256":"a"}`, `{"a":"kfs_lfs","bucket":"b","key":"k"}`,
		`{"a":"\"kfs_lfs\"","bucket":"b","key":"k"}`, `{ "kfs_lfs" : 1, "bucket":"b","key":"k","sha256":"a"}`, `{"kfs_lfs" :1,"bucket":"b","key":"k"}`, `{"kfs_lfs":null,"bucket":"b"}`} {
		add("short:"+s, []byte(s))
	}
	// exactly around the 15-byte floor
	for n := 10; n <= 17; n++ {
		b := []byte(`{"kfs_lfs"`)
		for len(b) < n {
			b = append(b, ' ')
		}
		add(fmt.Sprintf("floor-%d", n), b)
	}
	// leading bytes
	for _, pre := range []string{" ", "\n", "\t", "\r\n", "\xef\xbb\xbf", "\x00", "[", "x"} {
		add("lead:"+pre, append([]byte(pre), real...))
	}
	// marker position sweep: the marker starts at byte 1+p, pads of 1..4-byte characters
	for _, unit := range []string{" ", "é", "€", "😀"} {
		for p := 28; p <= 56; p++ {
			pad := strings.Repeat(unit, p/len(unit)) + strings.Repeat(" ", p%len(unit))
			add(fmt.Sprintf("sweep:%q:%d", unit, p), []byte("{"+pad+`"kfs_lfs":1,"bucket":"b","key":"k","size":1,"sha256":"a"}`))
			// the pad inside a JSON string so that the whole thing is valid JSON
			add(fmt.Sprintf("sweepjson:%q:%d", unit, p), []byte(`{"p":"`+pad+`","kfs_lfs":1,"bucket":"b","key":"k","size":1,"sha256":"a"}`))
		}
	}
	// a multi-byte character cut by the 50-byte boundary, marker before it
	for _, unit := range []string{"é", "€", "😀"} {
		for cut := 1; cut < len(unit); cut++ {
			head := `{"kfs_lfs":1,"k":"`
			pad := strings.Repeat("a", 50-len(head)-cut)
			add(fmt.Sprintf("cut:%q:%d", unit, cut), []byte(head+pad+unit+`"}`))
		}
	}
	// invalid UTF-8 in and around the marker
	bad := []string{"\xff", "\xfe", "\x80", "\xc3", "\xe2\x82", "\xf0\x9f\x98", "\xc0\xaf", "\xed\xa0\x80", "\xf4\x90\x80\x80", "\xc3\x28"}
	for _, x := range bad {
		for pos := 0; pos <= 9; pos++ {
			mk := `"kfs_lfs"`
			add(fmt.Sprintf("badutf8-in:%x:%d", x, pos), []byte(`{`+mk[:pos]+x+mk[pos:]+`:1,"bucket":"b","key":"k","size":1,"sha256":"a"}`))
		}
		add(fmt.Sprintf("badutf8-before:%x", x), []byte(`{"a`+x+`":1,"kfs_lfs":1,"bucket":"b","key":"k","size":1,"sha256":"a"}`))
		add(fmt.Sprintf("badutf8-after:%x", x), []byte(`{"kfs_lfs":1,"bucket":"b`+x+`","key":"k","size":1,"sha256":"a"}`))
		add(fmt.Sprintf("badutf8-short:%x", x), []byte(`{"kfs`+x+`_lfs"}`))
		add(fmt.Sprintf("badutf8-far:%x", x), []byte(`{"kfs_lfs":1,"bucket":"b","key":"`+strings.Repeat("k", 60)+x+`","size":1,"sha256":"a"}`))
	}
	// NUL and control bytes inside the marker
	for _, x := range []string{"\x00", "\x01", "\x1b", "\x7f"} {
		add(fmt.Sprintf("ctl-in:%x", x), []byte(`{"kfs_`+x+`lfs":1,"bucket":"b","key":"k","size":1,"sha256":"a"}`))
	}
	// long non-envelopes
	add("long-json-no-marker", []byte(`{"bucket":"b","key":"`+strings.Repeat("k", 100)+`","kfs_lfs":1}`))
	add("long-text", bytes.Repeat([]byte("kfs_lfs "), 20))
	add("brace-binary", append([]byte{'{'}, bytes.Repeat([]byte{0xff, 0x00, 0x80}, 30)...))
	return it
}

// c29Systematic enumerates small neighbourhoods of a real envelope completely: every prefix, and every
// byte value (thorough: all 256; quick: the UTF-8 class boundaries) inserted at every position of the
// first 13 bytes; thorough also inserts every ordered pair of class-boundary bytes.
func c29Systematic(thorough bool) []c29Item {
	var it []c29Item
	base := []byte(`{"kfs_lfs":1,"bucket":"b","key":"k","size":1,"sha256":"a"}`)
	for n := 0; n <= len(base); n++ {
		it = append(it, c29Item{Name: fmt.Sprintf("prefix-%d", n), Bytes: append([]byte(nil), base[:n]...)})
	}
	classes := []byte{0x00, 0x09, 0x20, 0x22, 0x5c, 0x7b, 0x7f, 0x80, 0xa0, 0xbf, 0xc0, 0xc1, 0xc2, 0xdf, 0xe0, 0xe2, 0xed, 0xef, 0xf0, 0xf4, 0xf5, 0xf8, 0xfe, 0xff}
	vals := classes
	if thorough {
		vals = make([]byte, 256)
		for i := range vals {
			vals[i] = byte(i)
		}
	}
	for pos := 0; pos <= 12; pos++ {
		for _, v := range vals {
			b := append(append(append([]byte(nil), base[:pos]...), v), base[pos:]...)
			it = append(it, c29Item{Name: fmt.Sprintf("ins1-%d-%02x", pos, v), Bytes: b})
		}
		if thorough {
			for _, v := range classes {
				for _, w := range classes {
					b := append(append(append([]byte(nil), base[:pos]...), v, w), base[pos:]...)
					it = append(it, c29Item{Name: fmt.Sprintf("ins2-%d-%02x%02x", pos, v, w), Bytes: b})
				}
			}
		}
	}
	// the same insertions into the 13-byte short form (below the floor before, at/above it after)
	short := []byte(`{"kfs_lfs":1}`)
	for pos := 0; pos <= len(short); pos++ {
		for _, v := range classes {
			b := append(append(append([]byte(nil), short[:pos]...), v), short[pos:]...)
			it = append(it, c29Item{Name: fmt.Sprintf("short-ins1-%d-%02x", pos, v), Bytes: b})
			b2 := append(append(append([]byte(nil), short[:pos]...), v, v), short[pos:]...)
			it = append(it, c29Item{Name: fmt.Sprintf("short-ins2-%d-%02x", pos, v), Bytes: b2})
		}
	}
	return it
}

func c29Mutate(rng *rand.Rand, base []byte) []byte {
	b := append([]byte(nil), base...)
	for k := 1 + rng.Intn(3); k > 0; k-- {
		lim := len(b)
		if lim > 64 {
			lim = 64
		}
		switch rng.Intn(7) {
		case 0: // insert a random byte near the front
			pos := rng.Intn(lim + 1)
			b = append(b[:pos], append([]byte{byte(rng.Intn(256))}, b[pos:]...)...)
		case 1: // insert a high byte inside the first 12 bytes (where the marker lives)
			pos := rng.Intn(12)
			if pos > len(b) {
				pos = len(b)
			}
			b = append(b[:pos], append([]byte{byte(0x80 + rng.Intn(128))}, b[pos:]...)...)
		case 2: // delete
			if lim > 0 {
				pos := rng.Intn(lim)
				b = append(b[:pos], b[pos+1:]...)
			}
		case 3: // truncate
			b = b[:rng.Intn(len(b)+1)]
			if len(b) > 70 && rng.Intn(2) == 0 {
				b = b[:rng.Intn(30)]
			}
		case 4: // overwrite
			if lim > 0 {
				b[rng.Intn(lim)] = byte(rng.Intn(256))
			}
		case 5: // push the marker right by a pad of random width characters
			unit := []string{" ", "é", "€", "😀", "\xff"}[rng.Intn(5)]
			pad := strings.Repeat(unit, rng.Intn(60)/len(unit))
			if len(b) > 0 {
				b = append([]byte{b[0]}, append([]byte(pad), b[1:]...)...)
			}
		case 6: // prepend
			b = append([]byte{byte(rng.Intn(256))}, b...)
		}
	}
	return b
}

const c29RuleAgreement = "[agreement] byte strings given to the three is-envelope functions (Go lfs.IsLfsEnvelope in-process, python3 running the tree's lfs_sdk/envelope.py, node running the type-erased envelope.ts), all fed from the same file: a fixed list (short forms around the 15-byte floor, marker start swept over bytes 29..57 behind 1/2/3/4-byte characters, multi-byte characters cut by the 50-byte boundary, 10 kinds of invalid UTF-8 at each of the 10 positions inside the marker and around it, leading whitespace/BOM/NUL, case/escape/quote variants of the marker, control bytes) plus complete small neighbourhoods (every prefix of a real envelope; every UTF-8 class-boundary byte - thorough: every byte value and every pair of boundary bytes - inserted at each of the first 13 positions, also into the 13-byte short form) plus PRNG mutations of real envelopes (insert/delete/overwrite/truncate/pad/prepend) and random '{'-prefixed binary. Oracle: the three verdicts are equal for every byte string; non-trivial = a near-miss (contains the text kfs_lfs or starts with '{') rather than plain noise"

func c29PhaseAgreement(r *verifkit.Run) []c29Item {
	items := c29Fixed()
	items = append(items, c29Systematic(r.Thorough())...)
	r.Count("fixed_inputs", int64(len(items)))
	n := r.N(2500, 60000)
	for ci := 0; ci < n; ci++ {
		rng := r.Rand(2000000 + ci)
		var b []byte
		switch rng.Intn(10) {
		case 0: // random binary starting with '{'
			b = make([]byte, rng.Intn(70))
			rng.Read(b)
			b = append([]byte{'{'}, b...)
		case 1: // real envelope untouched
			b, _ = lfs.EncodeEnvelope(c29GenEnvelope(rng))
		default:
			base, _ := lfs.EncodeEnvelope(c29GenEnvelope(rng))
			b = c29Mutate(rng, base)
		}
		items = append(items, c29Item{Name: fmt.Sprintf("mut-%d", ci), Bytes: b})
	}
	for i, it := range items {
		near := bytes.Contains(it.Bytes, []byte("kfs_lfs")) || (len(it.Bytes) > 0 && it.Bytes[0] == '{')
		r.Case(verifkit.Hash(hex.EncodeToString(it.Bytes)), near)
		if !utf8.Valid(c29Prefix(it.Bytes)) {
			r.Count("inputs_with_invalid_utf8_in_prefix", 1)
		}
		if len(it.Bytes) < 15 {
			r.Count("inputs_shorter_than_15", 1)
		}
		if i == 6 {
			r.Sample(map[string]any{"name": it.Name, "text": c29Show(it.Bytes), "hex": hex.EncodeToString(it.Bytes)})
		}
	}
	r.Floor("inputs_with_invalid_utf8_in_prefix", 100)
	r.Floor("inputs_shorter_than_15", 30)
	return items
}

// c29PhaseBigAgreement: the near-miss mutations applied to LARGE envelopes (a verdict must not depend on
// how much follows the 50-byte prefix).
func c29PhaseBigAgreement(r *verifkit.Run) []c29Item {
	var items []c29Item
	nb := r.N(100, 800)
	for ci := 0; ci < nb; ci++ {
		rng := r.Rand(2500000 + ci)
		e, _ := c29GenExtreme(rng, 17)
		base, err := lfs.EncodeEnvelope(e)
		if err != nil {
			continue
		}
		if len(base) > 1<<14 && rng.Intn(4) != 0 { // keep the volume down: most of the very large ones are cut (which is a mutation too)
			base = base[:1<<14]
		}
		b := base
		if rng.Intn(8) != 0 {
			b = c29Mutate(rng, base)
		}
		if len(b) > 4096 {
			r.Count("large_inputs_over_4KiB", 1)
		}
		items = append(items, c29Item{Name: fmt.Sprintf("mut-big-%d", ci), Bytes: b})
	}
	r.Floor("large_inputs_over_4KiB", int64(nb/10))
	for _, it := range items {
		near := bytes.Contains(it.Bytes, []byte("kfs_lfs")) || (len(it.Bytes) > 0 && it.Bytes[0] == '{')
		r.Case(verifkit.Hash(hex.EncodeToString(it.Bytes)), near)
	}
	return items
}

// c29Replay judges the one witness given through VERIF_REPLAY ({"replay": {"hex": ...}} as written by the
// driver) with the three libraries; false when no replay was requested.
func c29Replay(t *testing.T, r *verifkit.Run, dir string) bool {
	rp := verifkit.Replay()
	if rp == nil {
		return false
	}
	inner, _ := rp["replay"].(map[string]any)
	hx, _ := inner["hex"].(string)
	b, err := hex.DecodeString(hx)
	if err != nil || inner == nil {
		t.Fatalf("VERIF_REPLAY: no replay.hex in witness")
	}
	it := c29Item{Name: "replay", Bytes: b, Real: strings.HasPrefix(fmt.Sprint(inner["name"]), "gen-") || strings.HasPrefix(fmt.Sprint(inner["name"]), "rewrite-") || strings.HasPrefix(fmt.Sprint(inner["name"]), "http-")}
	r.Case("replay", true)
	r.Case("replay-2", true)
	r.Sample(map[string]any{"replayed": c29Head([]byte(hx), 400)})
	c29Cross(t, r, dir, []c29Item{it})
	return true
}

func TestVerifC29(t *testing.T) {
	r := verifkit.Start(t, "C29", "envelopes")
	defer r.Finish(c29RuleRoundTrip+" ;; "+c29RuleProxy+" ;; "+c29RuleAgreement,
		"field strings are valid UTF-8 (JSON cannot carry other strings; Go's encoder would substitute U+FFFD); header values that are not valid UTF-8 are therefore outside the statement's domain and are not generated",
		"size <= 2^53-1 so that JavaScript numbers are exact; the proxy caps blobs far below that",
		"python: the unmodified envelope.py is imported as a top-level module when the package __init__ cannot be imported offline (boto3/requests missing); nothing is stubbed",
		"js: envelope.ts is run after conservative type erasure (interface block, signature annotations, `as T`); a file node rejects is inconclusive, never a violation",
		"a language whose runner cannot start makes the run inconclusive",
		"the multipart upload-complete producer (third call site of EncodeEnvelope, same struct) is not driven")
	if c29Replay(t, r, "replay") {
		return
	}
	var items []c29Item
	t0 := time.Now()
	phase := map[string]float64{}
	items = append(items, c29PhaseRoundTrip(r)...)
	phase["generated"] = time.Since(t0).Seconds()
	t1 := time.Now()
	items = append(items, c29PhaseProxy(t, r, false)...)
	phase["proxy"] = time.Since(t1).Seconds()
	t1 = time.Now()
	items = append(items, c29PhaseAgreement(r)...)
	phase["agreement_inputs"] = time.Since(t1).Seconds()
	t1 = time.Now()
	c29Cross(t, r, "envelopes", items)
	phase["three_libraries"] = time.Since(t1).Seconds()
	r.Note("phase_wall_seconds", phase) // information only, no oracle reads it
	r.Floor("decoded_equal_go_python", 200)
	r.Floor("decoded_equal_go_js", 200)
	r.Floor("all_three_say_envelope", 100)
	r.Floor("all_three_say_not_envelope", 100)
}

// =====================================================================
// Leg "extremes": size and escaping extremes of the client-controlled fields, through the codec, through
// the proxy's producers, and as near-misses. Runs without the race detector (it moves tens of MiB of
// text through three JSON libraries; nothing in it is concurrent apart from the loopback stand-in).
// =====================================================================

const c29RuleExtremesProxy = "[extremes/proxy] the proxy's own producers with long client input: rewriteProduceRecords on produce requests whose LFS_BLOB records carry 1-3 allow-listed headers (content-type, content-encoding, correlation-id, message-id, x-correlation-id, X-Request-ID, traceparent, tracestate) of 256 B..16 KiB each from the same text classes and, half of the time, a 100-249 byte topic from those classes (produced envelopes reach tens of KiB); handleHTTPProduce with a Content-Type of 1..32 KiB from those classes and, half of the time, a 249-byte topic. Same oracle as [proxy] of leg envelopes (recognised, decodes to bucket/key/size/sha256/content_type/original_headers/proxy_id the producer assigned, re-encode identity, python/node agree)"

const c29RuleExtremesAgreement = "[extremes/agreement] the near-miss mutations of leg envelopes (insert/delete/overwrite/truncate/pad/prepend in the first 64 bytes) applied to [extremes] envelopes of up to 128 KiB (cut at 16 KiB three times out of four; one in eight left intact): the three is-envelope verdicts must be equal whatever follows the 50-byte prefix"

func TestVerifC29Extremes(t *testing.T) {
	r := verifkit.Start(t, "C29", "extremes")
	defer r.Finish(c29RuleExtremes+" ;; "+c29RuleExtremesProxy+" ;; "+c29RuleExtremesAgreement,
		"field strings are valid UTF-8 (JSON cannot carry other strings; Go's encoder would substitute U+FFFD)",
		"no field length is outside the statement's domain: the statement quantifies over every field assignment 'including unicode and long keys' and names no limit; S3's own 1024-byte key limit is reached exactly by the 2^10 draws, longer keys and the other fields (headers, content type) are limited only by the Kafka message size, which every generated envelope stays far below",
		"python/js runners, type erasure and optional-field normalisation exactly as in leg envelopes",
		"a language whose runner cannot start makes the run inconclusive")
	if c29Replay(t, r, "replay-extremes") {
		return
	}
	var items []c29Item
	phase := map[string]float64{}
	t1 := time.Now()
	items = append(items, c29PhaseExtremes(r)...)
	phase["extremes"] = time.Since(t1).Seconds()
	t1 = time.Now()
	items = append(items, c29PhaseProxy(t, r, true)...)
	phase["proxy_long"] = time.Since(t1).Seconds()
	t1 = time.Now()
	items = append(items, c29PhaseBigAgreement(r)...)
	phase["agreement_inputs"] = time.Since(t1).Seconds()
	t1 = time.Now()
	var total int64
	for _, it := range items {
		total += int64(len(it.Bytes))
	}
	r.Count("input_bytes_total", total)
	c29Cross(t, r, "extremes", items)
	phase["three_libraries"] = time.Since(t1).Seconds()
	r.Note("phase_wall_seconds", phase) // information only, no oracle reads it
	r.Floor("decoded_equal_go_python", 300)
	r.Floor("decoded_equal_go_js", 300)
	r.Floor("all_three_say_envelope", 300)
	r.Floor("all_three_say_not_envelope", 20)
}
