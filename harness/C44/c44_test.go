//go:build verif

package main

import (
	"bytes"
	"context"
	"errors"
	"fmt"
	"sort"
	"strings"
	"sync"
	"testing"

	"github.com/KafScale/platform/internal/verifkit"
	"github.com/KafScale/platform/pkg/storage"
)

type c44Store struct {
	name    string
	mu      sync.Mutex
	objects map[string][]byte
	failN   map[string]int // key -> remaining forced read failures (-1 = forever)
	failOp  map[string]int // non-read op -> remaining forced failures (transient bucket error, no effect)
	log     []string
}

// failing reports (and consumes) a forced failure of a non-read operation. Caller holds s.mu.
func (s *c44Store) failing(op string) bool {
	if s.failOp[op] > 0 {
		s.failOp[op]--
		return true
	}
	return false
}

func newC44Store(name string) *c44Store {
	return &c44Store{name: name, objects: map[string][]byte{}, failN: map[string]int{}, failOp: map[string]int{}}
}
func (s *c44Store) rec(op, key string) { s.log = append(s.log, op+" "+key) }
func (s *c44Store) UploadSegment(ctx context.Context, key string, body []byte) error {
	s.mu.Lock()
	defer s.mu.Unlock()
	s.rec("upload_segment", key)
	if s.failing("upload_segment") {
		return errors.New("verif: transient bucket failure")
	}
	s.objects[key] = append([]byte(nil), body...)
	return nil
}
func (s *c44Store) UploadIndex(ctx context.Context, key string, body []byte) error {
	s.mu.Lock()
	defer s.mu.Unlock()
	s.rec("upload_index", key)
	if s.failing("upload_index") {
		return errors.New("verif: transient bucket failure")
	}
	s.objects[key] = append([]byte(nil), body...)
	return nil
}
func (s *c44Store) DeleteSegment(ctx context.Context, key string) error {
	s.mu.Lock()
	defer s.mu.Unlock()
	s.rec("delete_segment", key)
	if s.failing("delete_segment") {
		return errors.New("verif: transient bucket failure")
	}
	delete(s.objects, key)
	return nil
}
func (s *c44Store) DeleteIndex(ctx context.Context, key string) error {
	s.mu.Lock()
	defer s.mu.Unlock()
	s.rec("delete_index", key)
	if s.failing("delete_index") {
		return errors.New("verif: transient bucket failure")
	}
	delete(s.objects, key)
	return nil
}
func (s *c44Store) read(op, key string, rng *storage.ByteRange) ([]byte, error) {
	s.mu.Lock()
	defer s.mu.Unlock()
	s.rec(op, key)
	if n := s.failN[key]; n != 0 {
		if n > 0 {
			s.failN[key] = n - 1
		}
		return nil, errors.New("verif: replica read failure")
	}
	b, ok := s.objects[key]
	if !ok {
		return nil, storage.ErrNotFound
	}
	if rng != nil {
		if rng.Start < 0 || rng.Start >= int64(len(b)) || rng.End < rng.Start {
			return nil, fmt.Errorf("verif: range not satisfiable")
		}
		end := rng.End
		if end >= int64(len(b)) {
			end = int64(len(b)) - 1
		}
		b = b[rng.Start : end+1]
	}
	return append([]byte(nil), b...), nil
}
func (s *c44Store) DownloadSegment(ctx context.Context, key string, rng *storage.ByteRange) ([]byte, error) {
	return s.read("download_segment", key, rng)
}
func (s *c44Store) DownloadIndex(ctx context.Context, key string) ([]byte, error) {
	return s.read("download_index", key, nil)
}
func (s *c44Store) ListSegments(ctx context.Context, prefix string) ([]storage.S3Object, error) {
	s.mu.Lock()
	defer s.mu.Unlock()
	s.rec("list", prefix)
	if s.failing("list") {
		return nil, errors.New("verif: transient bucket failure")
	}
	var out []storage.S3Object
	for k, v := range s.objects {
		if strings.HasPrefix(k, prefix) {
			out = append(out, storage.S3Object{Key: k, Size: int64(len(v))})
		}
	}
	sort.Slice(out, func(i, j int) bool { return out[i].Key < out[j].Key })
	return out, nil
}
func (s *c44Store) EnsureBucket(ctx context.Context) error {
	s.mu.Lock()
	defer s.mu.Unlock()
	s.rec("ensure_bucket", "")
	return nil
}
func (s *c44Store) writesAndLists() []string {
	s.mu.Lock()
	defer s.mu.Unlock()
	var out []string
	for _, l := range s.log {
		if !strings.HasPrefix(l, "download_") {
			out = append(out, l)
		}
	}
	return out
}

var c44ReplicaStates = []string{"identical", "missing", "failing", "fail_once", "stale_same_len", "stale_shorter", "empty"}

func c44Body(tag string, n int) []byte {
	b := make([]byte, n)
	for i := range b {
		b[i] = byte(int(tag[0])*7 + i*13 + len(tag))
	}
	copy(b, tag)
	return b
}

func c44Apply(replica *c44Store, key string, primary []byte, state string) {
	delete(replica.objects, key)
	delete(replica.failN, key)
	switch state {
	case "identical":
		replica.objects[key] = append([]byte(nil), primary...)
	case "missing":
	case "failing":
		replica.objects[key] = append([]byte(nil), primary...)
		replica.failN[key] = -1
	case "fail_once":
		replica.objects[key] = append([]byte(nil), primary...)
		replica.failN[key] = 1
	case "stale_same_len":
		old := append([]byte(nil), primary...)
		for i := range old {
			old[i] ^= 0x5a
		}
		replica.objects[key] = old
	case "stale_shorter":
		old := append([]byte(nil), primary[:len(primary)/2]...)
		for i := range old {
			old[i] ^= 0x33
		}
		replica.objects[key] = old
	case "empty":
		replica.objects[key] = []byte{}
	}
}

func TestVerifC44Dual(t *testing.T) {
	r := verifkit.Start(t, "C44", "dual")
	defer r.Finish("exhaustive: 3 objects (segment A 200 B, index of A 40 B, segment B 90 B), every assignment of replica state in {identical, missing, failing, fail_once, stale_same_len, stale_shorter, empty} to the 3 objects (343) x primary has/has not object B x 9 reads per object (full, ranges 0-31, 10-60, last 16 bytes, 150-10^6 clamped, beyond end, single byte, index read); then PRNG op sequences mixing uploads/deletes/lists/ensure-bucket with reads while the replica lags (holds only some of the uploads); a quarter of the writes / deletes / listings meet a transient failure of the primary bucket: such an operation may fail or be retried on the primary, but the replica must see nothing of it, a listing that is answered must equal the primary's content, and an upload reported as stored must be in the primary. distinct = (state assignment, read); non-trivial = the replica did not hold an identical copy of the object read",
		"both buckets are in-memory fakes with S3 range semantics; the dual client under test is the real cmd/broker dualS3Client")
	ctx := context.Background()
	type obj struct {
		key   string
		body  []byte
		index bool
	}
	objs := []obj{
		{"default/t/0/segment-00000000000000000000.kfs", c44Body("segA", 200), false},
		{"default/t/0/segment-00000000000000000000.index", c44Body("idxA", 40), true},
		{"default/t/0/segment-00000000000000000007.kfs", c44Body("segB", 90), false},
	}
	ranges := []*storage.ByteRange{nil, {Start: 0, End: 31}, {Start: 10, End: 60}, {Start: -16, End: -1}, {Start: 150, End: 1000000}, {Start: 5000, End: 6000}, {Start: 7, End: 7}}
	reported := map[string]bool{}
	var states [3]string
	for a := 0; a < 7; a++ {
		for b := 0; b < 7; b++ {
			for c := 0; c < 7; c++ {
				states = [3]string{c44ReplicaStates[a], c44ReplicaStates[b], c44ReplicaStates[c]}
				for _, primaryHasB := range []bool{true, false} {
					for oi, o := range objs {
						for ri, rg := range ranges {
							if o.index && ri > 0 {
								continue
							}
							primary, replica := newC44Store("primary"), newC44Store("replica")
							for oj, p := range objs {
								if oj == 2 && !primaryHasB {
									c44Apply(replica, p.key, p.body, states[oj]) // replica may still hold a copy of a deleted object
									continue
								}
								primary.objects[p.key] = p.body
								c44Apply(replica, p.key, p.body, states[oj])
							}
							var rr *storage.ByteRange
							if rg != nil {
								rr = &storage.ByteRange{Start: rg.Start, End: rg.End}
								if rg.Start < 0 { // "last 16 bytes" as the broker computes it from the listed size
									rr = &storage.ByteRange{Start: int64(len(o.body)) + rg.Start, End: int64(len(o.body)) - 1}
								}
							}
							dual := newDualS3Client(primary, replica)
							var got, want []byte
							var gerr, werr error
							ref := newC44Store("ref")
							for k, v := range primary.objects {
								ref.objects[k] = v
							}
							if o.index {
								got, gerr = dual.DownloadIndex(ctx, o.key)
								want, werr = ref.DownloadIndex(ctx, o.key)
							} else {
								got, gerr = dual.DownloadSegment(ctx, o.key, rr)
								want, werr = ref.DownloadSegment(ctx, o.key, rr)
							}
							r.Count("reads_judged", 1)
							st := states[oi]
							r.Case(fmt.Sprint(states, primaryHasB, oi, ri), st != "identical")
							r.Seen("replica_state_x_read", fmt.Sprint(st, ri, o.index, primaryHasB || oi != 2))
							why := ""
							switch {
							case werr == nil && gerr != nil:
								why = fmt.Sprintf("primary would return %d bytes but the read failed: %v", len(want), gerr)
							case werr == nil && !bytes.Equal(got, want):
								why = fmt.Sprintf("read returned %d bytes that differ from the primary's %d bytes", len(got), len(want))
							case werr != nil && gerr == nil:
								why = fmt.Sprintf("primary has no answer (%v) but the read returned %d bytes", werr, len(got))
							}
							if why != "" {
								// classes: a read that FAILS although the primary has the object, or returns wrong bytes while the
								// replica copy is identical/missing/failing, is never excused; the two listed mechanisms are
								// "replica holds an older version of the key" and "replica still holds a key the primary no longer has".
								cls := "read_differs_from_primary:replica_" + st
								stale := st == "stale_same_len" || st == "stale_shorter" || st == "empty"
								switch {
								case werr == nil && gerr == nil && stale:
									cls = "replica_older_version_served_instead_of_primary"
								case werr != nil && gerr == nil && errors.Is(werr, storage.ErrNotFound):
									cls = "replica_copy_served_for_object_absent_from_primary"
								case werr != nil && gerr == nil:
									cls = "read_succeeds_where_primary_fails:replica_" + st
								}
								if !reported[cls] {
									reported[cls] = true
								}
								r.Violation(cls, fmt.Sprintf("object %d (%s) range %v replica=%s: %s", oi, o.key, rg, st, why),
									map[string]any{"replica_states": states, "primary_has_object_B": primaryHasB, "object": o.key, "range": rg, "primary_log": primary.log, "replica_log": replica.log})
							}
							primary.failOp = map[string]int{}
		if w := replica.writesAndLists(); len(w) > 0 {
								r.Violation("non_read_op_on_replica", "replica received "+strings.Join(w, ","), nil)
							}
						}
					}
				}
			}
		}
	}
	// op sequences: writes / deletes / listings must only ever touch the primary
	n := r.N(300, 50000)
	for ci := 0; ci < n; ci++ {
		rng := r.Rand(ci)
		primary, replica := newC44Store("primary"), newC44Store("replica")
		dual := newDualS3Client(primary, replica)
		model := map[string][]byte{}
		var ops []string
		// the model is what the PRIMARY holds (a write that met a failing primary may or may not have been retried)
		syncModel := func(k string) {
			primary.mu.Lock()
			b, ok := primary.objects[k]
			primary.mu.Unlock()
			if ok {
				model[k] = append([]byte(nil), b...)
			} else {
				delete(model, k)
			}
		}
		for oi := 0; oi < 12; oi++ {
			key := fmt.Sprintf("default/t/%d/segment-%020d", rng.Intn(2), rng.Intn(3))
			op := rng.Intn(7)
			// a transient failure of the PRIMARY bucket on this very operation (writes, deletes, listings): the
			// operation may fail or be retried on the primary, but nothing of it may go to / come from the replica
			primaryFails := false
			if op <= 4 && rng.Intn(4) == 0 {
				primaryFails = true
				primary.failOp[[]string{"upload_segment", "upload_index", "delete_segment", "delete_index", "list"}[op]] = 1
				r.Count("non_read_ops_with_a_failing_primary", 1)
			}
			switch op {
			case 0:
				body := c44Body(fmt.Sprintf("c%do%d", ci, oi), 20+rng.Intn(100))
				uerr := dual.UploadSegment(ctx, key+".kfs", body)
				ops = append(ops, fmt.Sprintf("upload_segment %s primary_fails=%v -> %v", key, primaryFails, uerr))
				if got, has := primary.objects[key+".kfs"]; uerr == nil && (!has || !bytes.Equal(got, body)) {
					r.Violation("upload_reported_ok_but_primary_lacks_object", fmt.Sprintf("upload of %s.kfs reported success but the primary does not hold these bytes", key), map[string]any{"ops": ops})
				}
				syncModel(key + ".kfs")
				if uerr != nil {
					continue
				}
				if rng.Intn(2) == 0 { // replication catches up for some objects only
					replica.objects[key+".kfs"] = append([]byte(nil), body...)
				}
			case 1:
				body := c44Body(fmt.Sprintf("i%do%d", ci, oi), 16+rng.Intn(40))
				ierr := dual.UploadIndex(ctx, key+".index", body)
				ops = append(ops, fmt.Sprintf("upload_index %s primary_fails=%v -> %v", key, primaryFails, ierr))
				if got, has := primary.objects[key+".index"]; ierr == nil && (!has || !bytes.Equal(got, body)) {
					r.Violation("upload_reported_ok_but_primary_lacks_object", fmt.Sprintf("upload of %s.index reported success but the primary does not hold these bytes", key), map[string]any{"ops": ops})
				}
				syncModel(key + ".index")
			case 2:
				derr := dual.DeleteSegment(ctx, key+".kfs")
				ops = append(ops, fmt.Sprintf("delete_segment %s primary_fails=%v -> %v", key, primaryFails, derr))
				if _, has := primary.objects[key+".kfs"]; derr == nil && has {
					r.Violation("delete_reported_ok_but_primary_keeps_object", fmt.Sprintf("delete of %s.kfs reported success but the primary still holds it", key), map[string]any{"ops": ops})
				}
				syncModel(key + ".kfs")
			case 3:
				derr := dual.DeleteIndex(ctx, key+".index")
				ops = append(ops, fmt.Sprintf("delete_index %s primary_fails=%v -> %v", key, primaryFails, derr))
				if _, has := primary.objects[key+".index"]; derr == nil && has {
					r.Violation("delete_reported_ok_but_primary_keeps_object", fmt.Sprintf("delete of %s.index reported success but the primary still holds it", key), map[string]any{"ops": ops})
				}
				syncModel(key + ".index")
			case 4:
				// the replica lags: a listing answered by it would miss the newest object / show a deleted one
				got, err := dual.ListSegments(ctx, "default/t/")
				ops = append(ops, fmt.Sprintf("list primary_fails=%v -> %d objects, err %v", primaryFails, len(got), err))
				r.Count("listings_judged", 1)
				same := err == nil && len(got) == len(model)
				if same {
					for _, o := range got {
						if b, ok := model[o.Key]; !ok || int64(len(b)) != o.Size {
							same = false
						}
					}
				}
				if err != nil && primaryFails {
					r.Count("listings_failed_with_the_primary", 1)
				} else if !same {
					cls := "listing_differs_from_primary"
					if primaryFails {
						cls = "listing_answered_while_primary_listing_failed"
					}
					r.Violation(cls, fmt.Sprintf("listing returned %d objects (err %v), primary holds %d", len(got), err, len(model)), map[string]any{"ops": ops})
				}
			case 5:
				_ = dual.EnsureBucket(ctx)
				ops = append(ops, "ensure_bucket")
			case 6:
				got, err := dual.DownloadSegment(ctx, key+".kfs", nil)
				want, ok := model[key+".kfs"]
				ops = append(ops, "download "+key)
				r.Count("reads_judged", 1)
				if rep, has := replica.objects[key+".kfs"]; ok && err == nil && !bytes.Equal(got, want) && has && bytes.Equal(got, rep) {
					r.Violation("replica_older_version_served_instead_of_primary", fmt.Sprintf("read of %s.kfs returned the replica's older version", key), map[string]any{"ops": ops})
				} else if ok && (err != nil || !bytes.Equal(got, want)) {
					r.Violation("read_differs_from_primary:sequence_unexpected", fmt.Sprintf("read of %s.kfs: err=%v, %d bytes vs primary %d", key, err, len(got), len(want)), map[string]any{"ops": ops})
				}
				if !ok && err == nil {
					r.Violation("replica_copy_served_for_object_absent_from_primary", fmt.Sprintf("read of deleted/never written %s.kfs returned %d bytes", key, len(got)), map[string]any{"ops": ops})
				}
			}
		}
		if w := replica.writesAndLists(); len(w) > 0 {
			r.Violation("non_read_op_on_replica", "replica received "+strings.Join(w, ","), map[string]any{"ops": ops})
		}
		r.Case(fmt.Sprint("seq", ci, ops), true)
		r.Count("non_read_ops_on_primary", int64(len(primary.writesAndLists())))
		if ci == 0 {
			r.Sample(map[string]any{"ops": ops, "primary_log": primary.log, "replica_log": replica.log})
		}
	}
	r.Exhaustive(true)
	r.Floor("reads_judged", 5000)
	r.Floor("non_read_ops_with_a_failing_primary", 100)
	r.Floor("listings_judged", 100)
}
