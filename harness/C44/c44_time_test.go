//go:build verif

package main

import (
	"bytes"
	"context"
	"fmt"
	"sync"
	"testing"
	"testing/synctest"
	"time"

	"github.com/KafScale/platform/internal/verifkit"
	"github.com/KafScale/platform/pkg/storage"
)

// c44TimedStore is a bucket whose reads take (virtual) time and honour context cancellation like a real S3 client.
type c44TimedStore struct {
	*c44Store
	readDelay time.Duration   // every read sleeps this long (virtual) before answering
	hang      map[string]bool // reads of these keys never answer: they end only when the context ends, or after hangFor
	hangFor   time.Duration
}

func (s *c44TimedStore) wait(ctx context.Context, key string) error {
	if err := ctx.Err(); err != nil {
		return err
	}
	d := s.readDelay
	if s.hang[key] {
		d = s.hangFor
	}
	if d > 0 {
		t := time.NewTimer(d)
		defer t.Stop()
		select {
		case <-ctx.Done():
			return ctx.Err()
		case <-t.C:
		}
	}
	if s.hang[key] {
		return fmt.Errorf("verif: replica read stalled for %s and was given up", d)
	}
	return nil
}
func (s *c44TimedStore) DownloadSegment(ctx context.Context, key string, rng *storage.ByteRange) ([]byte, error) {
	if err := s.wait(ctx, key); err != nil {
		return nil, err
	}
	return s.c44Store.DownloadSegment(ctx, key, rng)
}
func (s *c44TimedStore) DownloadIndex(ctx context.Context, key string) ([]byte, error) {
	if err := s.wait(ctx, key); err != nil {
		return nil, err
	}
	return s.c44Store.DownloadIndex(ctx, key)
}

// TestVerifC44Timed: replica states that need time — a replica that stalls (for seconds, minutes) instead of
// failing fast, and reads of one object that overlap in time with different byte ranges.
func TestVerifC44Timed(t *testing.T) {
	r := verifkit.Start(t, "C44", "timed")
	defer r.Finish("virtual time (testing/synctest): (a) the replica stalls for 1s..10min on an object and then gives up, both buckets honour context cancellation like an SDK client, the caller's context has no deadline or a generous one; the read through the dual client must still return the primary's bytes; (b) 2-6 reads of the SAME object with different byte ranges (and full reads) are in flight at once because the replica answers after a delay; each must return the primary's answer for ITS OWN range and a buffer of its own; distinct = (stall, ranges); non-trivial = all",
		"buckets are in-memory fakes; time is virtual, so stall lengths are exact")
	n := r.N(300, 6000)
	for ci := 0; ci < n; ci++ {
		rng := r.Rand(ci)
		body := c44Body(fmt.Sprintf("obj%d", ci), 4096+rng.Intn(4096))
		key := "default/t/0/segment-00000000000000000000.kfs"
		ikey := "default/t/0/segment-00000000000000000000.index"
		ibody := c44Body(fmt.Sprintf("idx%d", ci), 64)
		mode := []string{"stall", "overlap"}[rng.Intn(2)]
		synctest.Test(t, func(t *testing.T) {
			primary := &c44TimedStore{c44Store: newC44Store("primary"), readDelay: time.Duration(rng.Intn(30)) * time.Millisecond}
			replica := &c44TimedStore{c44Store: newC44Store("replica"), hang: map[string]bool{}}
			primary.objects[key], primary.objects[ikey] = body, ibody
			replica.objects[key], replica.objects[ikey] = append([]byte(nil), body...), append([]byte(nil), ibody...)
			dual := newDualS3Client(primary, replica)
			ctx := context.Background()
			if mode == "stall" {
				replica.hang[key], replica.hang[ikey] = true, true
				replica.hangFor = []time.Duration{time.Second, 3 * time.Second, 30 * time.Second, 10 * time.Minute}[rng.Intn(4)]
				var cancel context.CancelFunc = func() {}
				if rng.Intn(2) == 0 {
					ctx, cancel = context.WithTimeout(ctx, replica.hangFor+time.Hour)
				}
				defer cancel()
				rg := &storage.ByteRange{Start: int64(rng.Intn(1000)), End: int64(1000 + rng.Intn(3000))}
				got, err := dual.DownloadSegment(ctx, key, rg)
				want := body[rg.Start : rg.End+1]
				r.Count("stalled_replica_reads", 1)
				if err != nil || !bytes.Equal(got, want) {
					r.Violation("read_fails_or_differs_when_replica_stalls", fmt.Sprintf("replica stalled %s on the object, caller context alive (err=%v): read returned err=%v, %d bytes (primary would return %d)", replica.hangFor, ctx.Err(), err, len(got), len(want)),
						map[string]any{"case": ci, "stall": replica.hangFor.String(), "range": rg})
				}
				ig, ierr := dual.DownloadIndex(ctx, ikey)
				r.Count("stalled_replica_reads", 1)
				if ierr != nil || !bytes.Equal(ig, ibody) {
					r.Violation("read_fails_or_differs_when_replica_stalls", fmt.Sprintf("index read with a replica stalled %s: err=%v, %d bytes", replica.hangFor, ierr, len(ig)), map[string]any{"case": ci, "stall": replica.hangFor.String()})
				}
				r.Case(fmt.Sprint("stall", replica.hangFor, rg), true)
				return
			}
			// overlap: the replica is healthy but slow, so several reads of one key are in flight together
			replica.readDelay = time.Duration(50+rng.Intn(200)) * time.Millisecond
			k := 2 + rng.Intn(5)
			type rd struct {
				rg   *storage.ByteRange
				got  []byte
				err  error
				want []byte
			}
			reads := make([]*rd, k)
			var wg sync.WaitGroup
			for i := range reads {
				x := &rd{}
				if rng.Intn(5) > 0 {
					st := int64(rng.Intn(len(body) - 1))
					x.rg = &storage.ByteRange{Start: st, End: st + int64(rng.Intn(len(body)-int(st)))}
					x.want = body[x.rg.Start : x.rg.End+1]
				} else {
					x.want = body
				}
				reads[i] = x
				startDelay := time.Duration(rng.Intn(40)) * time.Millisecond
				wg.Add(1)
				go func() {
					defer wg.Done()
					time.Sleep(startDelay)
					x.got, x.err = dual.DownloadSegment(ctx, key, x.rg)
				}()
			}
			wg.Wait()
			for i, x := range reads {
				r.Count("overlapping_reads_judged", 1)
				if x.err != nil || !bytes.Equal(x.got, x.want) {
					r.Violation("overlapping_reads_of_one_object_get_wrong_bytes", fmt.Sprintf("read %d of %d concurrent reads of one object (range %v): err=%v, got %d bytes, primary's answer for this range has %d", i, k, x.rg, x.err, len(x.got), len(x.want)),
						map[string]any{"case": ci, "reads": k, "range": x.rg})
					break
				}
			}
			// each caller owns its buffer: scribbling over one result must not change another
			for i := range reads {
				for j := range reads[i].got {
					reads[i].got[j] ^= 0xff
				}
				for j2 := i + 1; j2 < len(reads); j2++ {
					if reads[j2].err == nil && !bytes.Equal(reads[j2].got, reads[j2].want) {
						r.Violation("overlapping_reads_share_a_buffer", fmt.Sprintf("modifying the bytes returned to read %d changed the bytes returned to read %d", i, j2), map[string]any{"case": ci, "reads": k})
						return
					}
				}
			}
			r.Case(fmt.Sprint("overlap", k, replica.readDelay), true)
		})
		if ci < 2 {
			r.Sample(map[string]any{"case": ci, "mode": mode})
		}
	}
	r.Floor("stalled_replica_reads", 100)
	r.Floor("overlapping_reads_judged", 200)
}
