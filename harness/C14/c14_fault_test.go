//go:build verif

package broker

// Store-fault legs of C14: transient failures of the metadata store at the coordinator's persist / load calls
// (PutConsumerGroup, DeleteConsumerGroup, FetchConsumerGroup) during the group life cycle, followed by healthy
// operation. A fault lasts for ONE coordinator request (or for one time advance: an outage during which the
// cleanup ticks' writes fail); the replies are judged by the same observer as in the other legs (c14Obs in
// fault mode: see the comments there for how a stored record that lags behind is treated).
//
//	leg fault     : PRNG histories (random op lists, and phase-structured scenarios) with faulted requests
//	leg faultenum : bounded-exhaustive: every sequence of a fixed length over the alphabet of leg enum, from
//	                three start states, with every single position faulted

import (
	"context"
	"errors"
	"fmt"
	"math/rand"
	"strings"
	"sync"
	"testing"
	"testing/synctest"

	"github.com/KafScale/platform/internal/verifkit"
	metadatapb "github.com/KafScale/platform/pkg/gen/metadata"
	"github.com/KafScale/platform/pkg/metadata"
)

// c14Fault says which store calls of one request fail.
type c14Fault struct {
	// Writes: "" none | "lost" the group-record write (put or delete) is not executed and an error is returned |
	// "applied" it is executed by the real store and an error is returned all the same (reply lost / timeout)
	Writes string `json:"writes,omitempty"`
	// Reads: the coordinator's FetchConsumerGroup calls return an error
	Reads bool `json:"reads,omitempty"`
}

func (f c14Fault) String() string {
	var parts []string
	if f.Writes != "" {
		parts = append(parts, "write "+f.Writes)
	}
	if f.Reads {
		parts = append(parts, "read fails")
	}
	return strings.Join(parts, "+")
}

var errC14Injected = errors.New("injected: metadata store unavailable")

// c14FaultStore sits between the recording decorator and the real InMemoryStore.
type c14FaultStore struct {
	metadata.Store
	mu    sync.Mutex
	cur   *c14Fault
	fired []string
}

func (s *c14FaultStore) arm(f *c14Fault) { s.mu.Lock(); s.cur, s.fired = f, nil; s.mu.Unlock() }

func (s *c14FaultStore) disarm() { s.mu.Lock(); s.cur = nil; s.mu.Unlock() }

func (s *c14FaultStore) takeFired() []string {
	s.mu.Lock()
	defer s.mu.Unlock()
	f := s.fired
	s.fired = nil
	return f
}

func (s *c14FaultStore) writeMode(kind string) string {
	s.mu.Lock()
	defer s.mu.Unlock()
	if s.cur == nil || s.cur.Writes == "" {
		return ""
	}
	s.fired = append(s.fired, kind+" "+s.cur.Writes)
	return s.cur.Writes
}

func (s *c14FaultStore) PutConsumerGroup(ctx context.Context, g *metadatapb.ConsumerGroup) error {
	switch s.writeMode("put") {
	case "lost":
		return errC14Injected
	case "applied":
		if err := s.Store.PutConsumerGroup(ctx, g); err != nil {
			return err
		}
		return errC14Injected
	}
	return s.Store.PutConsumerGroup(ctx, g)
}

func (s *c14FaultStore) DeleteConsumerGroup(ctx context.Context, id string) error {
	switch s.writeMode("delete") {
	case "lost":
		return errC14Injected
	case "applied":
		if err := s.Store.DeleteConsumerGroup(ctx, id); err != nil {
			return err
		}
		return errC14Injected
	}
	return s.Store.DeleteConsumerGroup(ctx, id)
}

func (s *c14FaultStore) FetchConsumerGroup(ctx context.Context, id string) (*metadatapb.ConsumerGroup, error) {
	s.mu.Lock()
	fail := s.cur != nil && s.cur.Reads
	if fail {
		s.fired = append(s.fired, "fetch")
	}
	s.mu.Unlock()
	if fail {
		return nil, errC14Injected
	}
	return s.Store.FetchConsumerGroup(ctx, id)
}

// c14FOp is an op of the GROUP driver, optionally with a store fault that lasts for exactly this op.
type c14FOp struct {
	Op gOp
	F  *c14Fault
}

// c14FaultWorld is one running fault scenario.
type c14FaultWorld struct {
	w  *gWorld
	fs *c14FaultStore
	o  *c14Obs
	r  *verifkit.Run
	// statistics
	firedCalls, faultedOps, firedOps, firedWhilePreparingWithLaggard int
}

// step runs one op. A faulted single request arms the fault store strictly around the coordinator call (inside
// the request's goroutine), so that the boundary reads of the harness are never failed. A faulted time advance
// fails the writes only (the cleanup tick makes no reads, the harness makes no writes).
func (fw *c14FaultWorld) step(op c14FOp) {
	w := fw.w
	if w.blocked || w.cut {
		return
	}
	if op.F == nil {
		w.step(op.Op)
		return
	}
	before, idx := w.prev, len(w.log)
	fw.faultedOps++
	switch op.Op.K {
	case "advance":
		f := *op.F
		f.Reads = false
		if f.Writes == "" {
			f.Writes = "lost"
		}
		fw.fs.arm(&f)
		w.step(op.Op)
		fw.fs.disarm()
	case "join", "sync", "hb", "leave":
		p, _ := w.prep(op.Op)
		run := p.run
		p.run = func() {
			fw.fs.arm(op.F)
			defer fw.fs.disarm()
			run()
		}
		w.do(p)
	default:
		w.step(op.Op)
		return
	}
	fired := fw.fs.takeFired()
	if len(fired) == 0 {
		return
	}
	fw.firedOps++
	fw.firedCalls += len(fired)
	fw.o.faultFired = true
	state := "absent"
	if before.Exists {
		state = before.State
	}
	fw.o.faultLog = append(fw.o.faultLog, map[string]any{"event": idx, "op": op.Op.K, "fault": op.F.String(), "calls_failed": fired, "stored_state_before": state})
	for _, c := range fired {
		fw.r.Count("store_calls_failed_"+strings.ReplaceAll(c, " ", "_"), 1)
		fw.r.Seen("failed_store_call_by_stored_group_state", state+"/"+op.Op.K+"/"+c)
		fw.r.Seen("group_states_in_which_a_store_call_failed", state)
	}
	if before.Exists && before.State == groupStatePreparingStr && w.joinedCount(before) < len(before.Members) {
		// the window in which forgetting who has re-joined would matter
		fw.firedWhilePreparingWithLaggard++
	}
}

func c14RunFaultCaseInBubble(t testing.TB, r *verifkit.Run, cfg gConfig, ops []c14FOp, offBase int64) *c14FaultWorld {
	fs := &c14FaultStore{Store: metadata.NewInMemoryStore(cfg.metadata())}
	fw := &c14FaultWorld{fs: fs, r: r}
	fw.w = newGWorld(t, cfg, fs, true, offBase)
	fw.o = &c14Obs{r: r, faultMode: true, completed: map[string]bool{}, leaderOf: map[string]string{}, leaderSynced: map[string]bool{}, sawWait: map[string]bool{}}
	fw.w.obs = append(fw.w.obs, fw.o.observe, func(w *gWorld, ev *gEvent) { r.Seen("group_states", w.stateSig(ev.After)) })
	for _, op := range ops {
		fw.step(op)
	}
	fw.w.stopAll()
	return fw
}

func (fw *c14FaultWorld) account() {
	r := fw.r
	r.Count("steps", int64(len(fw.w.log)))
	r.Count("ops_with_a_fault_armed", int64(fw.faultedOps))
	r.Count("ops_in_which_a_store_call_failed", int64(fw.firedOps))
	r.Count("store_calls_failed", int64(fw.firedCalls))
	r.Count("store_call_failed_while_stored_generation_was_preparing_with_a_member_not_rejoined", int64(fw.firedWhilePreparingWithLaggard))
	r.Count("generations_completed_multi_member", int64(fw.o.successMulti))
	r.Count("generations_completed_multi_member_after_a_store_fault", int64(fw.o.successAfterFault))
	r.Count("generations_completed_after_somebody_waited", int64(fw.o.barrierHeld))
	r.Count("leader_member_lists_checked", int64(fw.o.listChecked))
}

func c14RandFault(rng *rand.Rand, kind string) *c14Fault {
	if kind == "advance" {
		if rng.Intn(3) == 0 {
			return &c14Fault{Writes: "applied"}
		}
		return &c14Fault{Writes: "lost"}
	}
	switch x := rng.Intn(10); {
	case x < 6:
		return &c14Fault{Writes: "lost"}
	case x < 8:
		return &c14Fault{Writes: "applied"}
	case x < 9:
		return &c14Fault{Reads: true}
	default:
		return &c14Fault{Writes: "lost", Reads: true}
	}
}

func c14Faultable(k string) bool {
	return k == "join" || k == "sync" || k == "hb" || k == "leave" || k == "advance"
}

// c14GenFaultCase draws one fault scenario. Even cases: a random op list of the GROUP driver in which every
// join/sync/heartbeat/leave/advance is faulted with probability 0.15. Odd cases: the phase-structured scenarios
// of the overlap leg (the group is brought into some phase: forming, all re-joined but leader not synced,
// stable, disturbed with all or some members re-joined; then a request A and a request B; then well-behaved or
// random follow-up), with A always faulted, B (and a B that is a time advance past the session timeouts)
// sometimes.
func c14GenFaultCase(rng *rand.Rand, ci int, group string) (gConfig, []c14FOp) {
	var out []c14FOp
	if ci%2 == 0 {
		p := gDefaultProfile
		p.PFresh, p.WLeave, p.WCommit, p.WFetch = 0.12, 6, 2, 0
		cfg := gGenConfig(rng, p, group)
		if cfg.M < 2 {
			cfg.M = 2 + rng.Intn(3)
			for len(cfg.SessionMs) < cfg.M {
				cfg.SessionMs = append(cfg.SessionMs, p.Sessions[rng.Intn(len(p.Sessions))])
				cfg.RebalMs = append(cfg.RebalMs, cfg.RebalMs[0])
			}
		}
		for _, op := range gGenOps(rng, p, cfg) {
			f := c14FOp{Op: op}
			if c14Faultable(op.K) && rng.Float64() < 0.15 {
				f.F = c14RandFault(rng, op.K)
			}
			out = append(out, f)
		}
		return cfg, out
	}
	p := gDefaultOvlProfile
	p.WA = map[string]int{"syncleader": 2, "sync": 1, "join": 8, "joinresub": 2, "joinfresh": 2, "hb": 2, "leave": 3}
	p.WB = map[string]int{"leave": 3, "joinfresh": 3, "joinresub": 2, "join": 6, "hb": 1, "sync": 1, "expire": 3}
	cfg, ops := gGenOverlapCase(rng, p, group)
	for _, op := range ops {
		if op.K != "ovl" {
			f := c14FOp{Op: op}
			if c14Faultable(op.K) && rng.Float64() < 0.05 {
				f.F = c14RandFault(rng, op.K)
			}
			out = append(out, f)
			continue
		}
		out = append(out, c14FOp{Op: *op.A, F: c14RandFault(rng, op.A.K)})
		b := c14FOp{Op: *op.B}
		if c14Faultable(b.Op.K) && rng.Intn(3) == 0 {
			b.F = c14RandFault(rng, b.Op.K)
		}
		out = append(out, b)
	}
	return cfg, out
}

const c14FaultRule = "Fault model: a fault lasts for one coordinator request (armed inside the request, so the harness's own boundary reads never fail) or for one time advance (all group-record writes of the cleanup ticks in it fail); kinds: the group-record write (PutConsumerGroup / DeleteConsumerGroup, whichever the coordinator makes) is LOST (not executed, error returned) or APPLIED (executed, error returned all the same), and/or the coordinator's FetchConsumerGroup fails; afterwards the store is healthy. Oracle = the C14 observer of leg 'group' on every reply (leader named in every join reply with a code >= 0 is a stored member; member list only and always in the leader's code-0 reply and equal to the stored membership; code 0 in generation g => g is the stored generation and every stored member has joined g: its latest join reply carried g, or its latest join reply without an error code did, or an error-answered join since did; after completion + leader sync every stored member's sync(g) returns 0), with the stored record read back from the real store AFTER the reply. Because a failed write lets the stored record lag, the record the coordinator last ATTEMPTED to write is kept as a second view: a sync is judged only if its sender is a member of generation g in both views before and after it; a join reply that the stored record does not justify is objected to only if the attempted record does not justify it either (a reply with code >= 0 of the unchanged coordinator always follows a successful write, so both views agree there); replies UNKNOWN_SERVER_ERROR / Go errors are not judged; a join answered UNKNOWN_SERVER_ERROR may or may not have taken effect, so both the generation/subscription it carried and those of the member's latest join answered without error are accepted as what the member joined / subscribes to (in the leader's member list as well). A group whose deletion was attempted starts a new epoch for the completion/leader-sync bookkeeping. Violations in the generation of a record that survived a failed delete get their own class suffix."

func TestVerifC14Fault(t *testing.T) {
	r := verifkit.Start(t, "C14", "fault")
	gSeedSalt = r.Seed
	defer r.Finish("real GroupCoordinator over the real InMemoryStore behind a fault-injecting store and the recording decorator, synctest virtual time, one request at a time, 2-4 members. PRNG histories, half of them random op lists (join new/existing/forgotten id/changed subscription, sync, heartbeat, leave, time advances incl. session and rebalance-deadline expiry, settle rounds) with each request or advance faulted with probability 0.15, half of them phase-structured (group forming / all re-joined but leader not synced / stable / disturbed by a leave, a new member or a changed subscription with all or only some members re-joined; then a FAULTED request: re-join, join of a new member, join with changed subscription, leader sync, sync, heartbeat, leave; then another request or an expiry, sometimes faulted; then settle rounds, heartbeat-and-react rounds or random ops). "+c14FaultRule+" non-trivial = case in which a store call was failed and afterwards a >=2-member generation completed",
		"'has joined the current generation' = the member's latest JoinGroup reply carried that generation, or its latest reply without an error code did, or an error-answered (UNKNOWN_SERVER_ERROR after a failed write) join since did",
		"transient = the store works again for the next request; what must hold while a write is still failing is not judged (replies -1)")
	n := r.N(600, 8000)
	for ci := 0; ci < n; ci++ {
		rng := r.Rand(ci)
		cfg, ops := c14GenFaultCase(rng, ci, fmt.Sprintf("f%d", ci))
		var fw *c14FaultWorld
		synctest.Test(t, func(t *testing.T) {
			fw = c14RunFaultCaseInBubble(t, r, cfg, ops, int64(ci)*100000)
		})
		if fw.w.blocked {
			r.Inconclusive(fmt.Sprintf("case %d: a coordinator call never returned", ci))
		}
		r.Case(gOpsSig(fw.w)+fmt.Sprint(fw.o.faultLog), fw.firedCalls > 0 && fw.o.successAfterFault > 0)
		fw.account()
		if ci < 2 {
			r.Sample(gWitness(fw.w, -1, map[string]any{"store_faults_injected": fw.o.faultLog}))
		}
	}
	r.Floor("join_replies", 2000)
	r.Floor("store_calls_failed", int64(r.N(400, 5000)))
	r.Floor("store_calls_failed_put_lost", int64(r.N(200, 2500)))
	r.Floor("store_calls_failed_put_applied", int64(r.N(50, 600)))
	r.Floor("store_calls_failed_delete_lost", int64(r.N(3, 40)))
	r.Floor("store_call_failed_while_stored_generation_was_preparing_with_a_member_not_rejoined", int64(r.N(60, 800)))
	r.Floor("generations_completed_multi_member_after_a_store_fault", int64(r.N(150, 2000)))
	r.Floor("group_states_in_which_a_store_call_failed", 4) // absent, preparing_rebalance, completing_rebalance, stable
	r.Floor("sync_after_completion_judged", 200)
	r.Exhaustive(false)
}

// Bounded-exhaustive single-fault leg: every sequence of the enum alphabet of a fixed length from each start
// state, with every single position faulted by every fault kind of the tier.
func TestVerifC14FaultEnum(t *testing.T) {
	r := verifkit.Start(t, "C14", "faultenum")
	gSeedSalt = r.Seed
	sub := []string{"ta"}
	cfg := gConfig{Topics: map[string]int{"ta": 2}, Universe: []string{"ta"}, M: 3,
		SessionMs: []int64{10000, 10000, 10000}, RebalMs: []int64{3000, 3000, 3000}, CleanupMs: 1000}
	alphabet := []gOp{
		{K: "join", Slot: 0, Sub: sub}, {K: "join", Slot: 1, Sub: sub}, {K: "join", Slot: 2, Sub: sub},
		{K: "join", Slot: 0, Sub: sub, Fresh: true},
		{K: "sync", Slot: 0}, {K: "sync", Slot: 1}, {K: "sync", Slot: 2},
		{K: "leave", Slot: 0}, {K: "leave", Slot: 1},
		{K: "advance", DtMs: 4000},  // past the rebalance timeout, inside the session timeout
		{K: "advance", DtMs: 11000}, // past the session timeout
	}
	names := []string{"J0", "J1", "J2", "J0new", "S0", "S1", "S2", "L0", "L1", "+4s", "+11s"}
	stable3 := []gOp{{K: "join", Slot: 0, Sub: sub}, {K: "join", Slot: 1, Sub: sub}, {K: "join", Slot: 2, Sub: sub}, {K: "settle"}}
	type start struct {
		name   string
		pre    []gOp
		depth  int
		faults []c14Fault
	}
	lost, applied, read := c14Fault{Writes: "lost"}, c14Fault{Writes: "applied"}, c14Fault{Reads: true}
	kinds3, kinds4 := []c14Fault{lost}, []c14Fault{lost}
	if r.Thorough() {
		kinds3 = []c14Fault{lost, applied, read}
	}
	starts := []start{
		{"empty", nil, 3, kinds3},
		{"stable3", stable3, 3, kinds3},
		// a stored PreparingRebalance generation that only the newcomer has joined
		{"stable3+newcomer", append(append([]gOp(nil), stable3...), gOp{K: "join", Slot: 0, Sub: sub, Fresh: true}), r.N(3, 4), kinds4},
	}
	total := 0
	var shape []string
	for _, st := range starts {
		n := 1
		for i := 0; i < st.depth; i++ {
			n *= len(alphabet)
		}
		total += n * st.depth * len(st.faults)
		shape = append(shape, fmt.Sprintf("%s: length %d, fault kinds %v", st.name, st.depth, st.faults))
	}
	defer r.Finish(fmt.Sprintf("bounded-exhaustive single-fault enumeration: ALL sequences of a fixed length over the alphabet %v, from the empty group, from a settled Stable group of 3 members and from that group after a newcomer's first join (a stored PreparingRebalance generation nobody else has joined), for 3 clients (session 10 s, rebalance timeout 3 s, cleanup 1 s), each run once per (position, fault kind) with exactly that step faulted [%s]: %d runs on the real coordinator on virtual time, judged after every step. ", names, strings.Join(shape, "; "), total) + c14FaultRule + " non-trivial = run in which a store call was failed and afterwards a >=2-member generation completed")
	count := 0
	for _, st := range starts {
		idx := make([]int, st.depth)
		finished := false
		pos, fk := 0, 0
		for !finished {
			synctest.Test(t, func(t *testing.T) {
				for inBubble := 0; inBubble < 2000 && !finished; inBubble++ {
					var ops []c14FOp
					for _, op := range st.pre {
						ops = append(ops, c14FOp{Op: op})
					}
					parts := make([]string, st.depth)
					for i, k := range idx {
						f := c14FOp{Op: alphabet[k]}
						parts[i] = names[k]
						if i == pos {
							ff := st.faults[fk]
							f.F = &ff
							parts[i] += "[" + ff.String() + "]"
						}
						ops = append(ops, f)
					}
					seq := st.name + ": " + strings.Join(parts, " ")
					c := cfg
					c.Group = fmt.Sprintf("fe%d", count)
					fw := c14RunFaultCaseInBubble(t, r, c, ops, int64(count%20000)*100000)
					if fw.w.blocked {
						r.Inconclusive("sequence " + seq + ": a coordinator call never returned")
					}
					nontrivial := fw.firedCalls > 0 && fw.o.successAfterFault > 0
					r.Case(seq, nontrivial)
					fw.account()
					if fw.firedCalls == 0 {
						r.Count("runs_in_which_the_faulted_step_made_no_such_store_call", 1)
					}
					if nontrivial {
						r.Sample(map[string]any{"sequence": seq, "run": gWitness(fw.w, -1, map[string]any{"store_faults_injected": fw.o.faultLog})})
					}
					count++
					// next: fault kind, then position, then sequence
					if fk++; fk < len(st.faults) {
						continue
					}
					fk = 0
					if pos++; pos < st.depth {
						continue
					}
					pos = 0
					i := st.depth - 1
					for ; i >= 0; i-- {
						idx[i]++
						if idx[i] < len(alphabet) {
							break
						}
						idx[i] = 0
					}
					if i < 0 {
						finished = true
					}
				}
			})
		}
	}
	r.Exhaustive(true)
	r.Note("runs", count)
	r.Floor("join_replies", 5000)
	r.Floor("store_calls_failed", 2000)
	r.Floor("store_call_failed_while_stored_generation_was_preparing_with_a_member_not_rejoined", 500)
	r.Floor("generations_completed_multi_member_after_a_store_fault", 100)
	r.Floor("group_states_in_which_a_store_call_failed", 4)
}
