//go:build verif

package broker

import (
	"fmt"
	"sort"
	"testing"

	"github.com/KafScale/platform/internal/verifkit"
	metadatapb "github.com/KafScale/platform/pkg/gen/metadata"
)

type c14Obs struct {
	r       *verifkit.Run
	flagged bool
	epoch   int

	completed    map[string]bool   // generation key -> a successful join reply was seen (every member rejoined)
	leaderOf     map[string]string // generation key -> leader named by the successful replies
	leaderSynced map[string]bool
	sawWait      map[string]bool // generation key -> some join was answered REBALANCE_IN_PROGRESS (the barrier held somebody back)

	barrierHeld, successMulti, syncJudged, listChecked int

	// fault mode (legs 'fault' and 'faultenum', see c14_fault_test.go): store calls of the coordinator may have
	// been failed, so the stored group record can lag behind what the coordinator holds. Second view of the
	// group: the record the coordinator last ATTEMPTED to write (nil after an attempted delete), taken from
	// the recording decorator.
	faultMode  bool
	prevAtt    gTruth // attempted-record view after the previous event
	resValid   bool   // an attempted delete of the group record failed and the record is still stored
	resGen     int32  // ... generation of that record
	faultFired bool   // set by the runner once a store call was failed
	// A join answered with an error (UNKNOWN_SERVER_ERROR after a failed write) may or may not have taken
	// effect. Per member id: generation and subscription of its latest join answered WITHOUT error, and those
	// of the error-answered joins since; any of them is accepted as "what the member joined / subscribed".
	okGen             map[string]int32
	okSub             map[string]string
	errGens           map[string][]int32
	errSubs           map[string][]string
	successAfterFault int              // >=2-member generations completed after a store call had been failed
	faultLog          []map[string]any // injected faults, for the witness
}

func (o *c14Obs) key(gen int32) string { return fmt.Sprintf("%d/%d", o.epoch, gen) }

func (o *c14Obs) violate(w *gWorld, ev *gEvent, class, summary string, extra map[string]any) {
	if o.flagged {
		return
	}
	o.flagged = true
	if o.faultMode {
		if extra == nil {
			extra = map[string]any{}
		}
		extra["store_faults_injected"] = o.faultLog
		g := ev.Gen
		if ev.K == "sync" {
			g = ev.ReqGen
		}
		if o.resValid && g == o.resGen {
			// the group had been removed from the coordinator (last member left / everybody expired) but the
			// delete of its record failed, and this is the generation of the record that was left behind
			class += "_in_generation_restored_after_failed_group_delete"
		}
	}
	o.r.Violation(class, summary, gWitness(w, ev.I, extra))
}

// c14TruthOfRecord renders a group record as a boundary snapshot (membership, generation, leader).
func c14TruthOfRecord(g *metadatapb.ConsumerGroup) gTruth {
	var tr gTruth
	if g == nil {
		return tr
	}
	tr.Exists, tr.State, tr.Gen, tr.Leader = true, g.GetState(), g.GetGenerationId(), g.GetLeader()
	tr.Members = map[string]gTruthMember{}
	for id, m := range g.GetMembers() {
		tr.Members[id] = gTruthMember{Subs: append([]string(nil), m.GetSubscriptions()...)}
	}
	return tr
}

func c14SameGroup(a, b gTruth) bool {
	return a.Exists == b.Exists && a.Gen == b.Gen && fmt.Sprint(a.memberIDs()) == fmt.Sprint(b.memberIDs())
}

// joinedGen: did member id's latest join reply carry generation gen? For ids whose bookkeeping was changed
// by the overlapped pair the event belongs to, the value before the pair counts as well (the order of the two
// requests is not known).
func c14Joined(w *gWorld, ev *gEvent, id string, gen int32) (bool, int32) {
	info := w.ids[id]
	if info == nil {
		return false, -1
	}
	if info.LastJoinGen == gen {
		return true, gen
	}
	if prev, ok := ev.PrevJoin[id]; ok && prev == gen {
		return true, gen
	}
	return false, info.LastJoinGen
}

func (o *c14Obs) observe(w *gWorld, ev *gEvent) {
	var attB, attA gTruth // fault mode: the attempted-record view before / after this event
	if o.faultMode {
		attB = o.prevAtt
		attA = c14TruthOfRecord(w.rec.lastWritten(w.cfg.Group))
		o.prevAtt = attA
		if !ev.After.Exists {
			o.resValid = false
		} else if !attA.Exists {
			if attB.Exists || !o.resValid {
				o.r.Count("group_record_survived_a_failed_delete", 1)
			}
			o.resValid, o.resGen = true, ev.After.Gen
		}
	}
	defer func() {
		absent := o.faultMode && !attA.Exists // the coordinator tried to delete the record: the group ended, whether or not the delete worked
		for _, tr := range ev.afters() {      // overlapped requests: the group was absent at SOME instant during the pair
			if !tr.Exists {
				absent = true
			}
		}
		if absent {
			o.epoch++
		}
	}()
	tr := ev.After
	switch ev.K {
	case "join":
		if o.faultMode && ev.MemberID != "" {
			o.noteJoin(ev)
		}
		if ev.Code < 0 {
			if ev.MemberID != "" {
				o.r.Count("join_replies_unknown_server_error_not_judged", 1)
			}
			return
		}
		o.r.Count("join_replies", 1)
		if ev.overlapped() {
			o.observeOverlappedJoin(w, ev)
			return
		}
		k := o.key(ev.Gen)
		class, summary := o.judgeJoin(w, ev, tr)
		if class != "" && o.faultMode && !c14SameGroup(tr, attA) {
			// The stored record is not the one the coordinator wrote last (that write was failed by the
			// harness), so there are two candidate truths; object only if neither justifies the reply. (The
			// unchanged coordinator answers a join whose write failed with UNKNOWN_SERVER_ERROR, which is
			// not judged at all, so this is never reached there.)
			if c2, _ := o.judgeJoin(w, ev, attA); c2 == "" {
				class = ""
				o.r.Count("join_reply_justified_only_by_the_record_whose_write_failed", 1)
			}
		}
		if class != "" {
			o.violate(w, ev, class, summary, nil)
			return
		}
		if ev.Code == 0 && ev.MemberID == ev.Leader {
			o.listChecked++
		}
		if ev.Code != 0 {
			if ev.Code == 27 {
				o.sawWait[k] = true
			}
			return
		}
		if !o.completed[k] {
			o.completed[k] = true
			if len(tr.Members) > 1 {
				o.successMulti++
				if o.sawWait[k] {
					o.barrierHeld++
				}
				if o.faultFired {
					o.successAfterFault++
				}
			}
		}
		o.leaderOf[k] = ev.Leader
	case "sync":
		if ev.Code < 0 {
			return
		}
		k := o.key(ev.ReqGen)
		bf := ev.Before
		current := bf.Exists && bf.Gen == ev.ReqGen && bf.has(ev.ReqID) && tr.Exists && tr.Gen == ev.ReqGen
		if ev.overlapped() { // current in EVERY snapshot taken while the pair was in flight
			for _, c := range ev.Cands {
				if !(c.Exists && c.Gen == ev.ReqGen && c.has(ev.ReqID)) {
					current = false
				}
			}
		}
		if o.faultMode { // ... and in the record the coordinator last attempted to write, before and after
			for _, c := range []gTruth{attB, attA} {
				if !(c.Exists && c.Gen == ev.ReqGen && c.has(ev.ReqID)) {
					current = false
				}
			}
		}
		if !current {
			return
		}
		if o.completed[k] && o.leaderSynced[k] {
			o.syncJudged++
			o.r.Count("sync_after_completion_judged", 1)
			if ev.Code != 0 {
				o.violate(w, ev, "sync_fails_after_rebalance_completed", fmt.Sprintf("all members rejoined generation %d and leader %s synced, yet sync of current member %s got code %d", ev.ReqGen, o.leaderOf[k], ev.ReqID, ev.Code), nil)
				return
			}
		}
		if ev.Code == 0 && o.completed[k] && ev.ReqID == o.leaderOf[k] {
			o.leaderSynced[k] = true
		}
	}
}

// noteJoin (fault mode) records what a join reply that carries a member id told that member.
func (o *c14Obs) noteJoin(ev *gEvent) {
	if o.okGen == nil {
		o.okGen, o.okSub, o.errGens, o.errSubs = map[string]int32{}, map[string]string{}, map[string][]int32{}, map[string][]string{}
	}
	id := ev.MemberID
	if ev.Code < 0 {
		o.errGens[id] = append(o.errGens[id], ev.Gen)
		o.errSubs[id] = append(o.errSubs[id], fmt.Sprint(ev.ReqSub))
		return
	}
	o.okGen[id], o.okSub[id] = ev.Gen, fmt.Sprint(ev.ReqSub)
	o.errGens[id], o.errSubs[id] = nil, nil
}

// joinedGen (fault mode only): did id's latest join answered without error, or an error-answered join since,
// carry generation gen?
func (o *c14Obs) joinedGen(id string, gen int32) bool {
	if !o.faultMode {
		return false
	}
	if g, ok := o.okGen[id]; ok && g == gen {
		return true
	}
	for _, g := range o.errGens[id] {
		if g == gen {
			return true
		}
	}
	return false
}

// sentSub (fault mode only): is sub the subscription of id's latest join answered without error, or of an
// error-answered join since?
func (o *c14Obs) sentSub(id string, sub []string) bool {
	if !o.faultMode {
		return false
	}
	want := fmt.Sprint(sub)
	if s, ok := o.okSub[id]; ok && s == want {
		return true
	}
	for _, s := range o.errSubs[id] {
		if s == want {
			return true
		}
	}
	return false
}

// judgeJoin applies the join-reply rules to a non-overlapped reply (code >= 0) against boundary snapshot tr
// and returns the class and summary of the first rule broken ("" = none).
func (o *c14Obs) judgeJoin(w *gWorld, ev *gEvent, tr gTruth) (string, string) {
	// the leader named in ANY reply is a current member
	if !tr.Exists || ev.Leader == "" || !tr.has(ev.Leader) {
		return "reply_names_leader_that_is_not_a_member", fmt.Sprintf("join reply (code %d, generation %d) names leader %q; current members %v", ev.Code, ev.Gen, ev.Leader, tr.memberIDs())
	}
	// only the leader's successful reply carries the member list
	if ev.HasList && !(ev.Code == 0 && ev.MemberID == ev.Leader) {
		return "member_list_in_non_leader_or_unsuccessful_reply", fmt.Sprintf("join reply to %s (code %d, leader %s) carries %d members", ev.MemberID, ev.Code, ev.Leader, len(ev.Members))
	}
	if ev.Code == 0 && ev.MemberID == ev.Leader {
		if !ev.HasList {
			return "leader_success_reply_without_member_list", fmt.Sprintf("successful join reply to leader %s has an empty member list", ev.MemberID)
		}
		listed := make([]string, 0, len(ev.Members))
		for id := range ev.Members {
			listed = append(listed, id)
		}
		sort.Strings(listed)
		if fmt.Sprint(listed) != fmt.Sprint(tr.memberIDs()) {
			return "leader_member_list_differs_from_membership", fmt.Sprintf("leader was told members %v, current members are %v", listed, tr.memberIDs())
		}
		for _, id := range listed {
			sub := ev.Members[id]
			if info := w.ids[id]; info != nil && fmt.Sprint(info.Sub) != fmt.Sprint(sub) && !o.sentSub(id, sub) {
				return "leader_member_list_wrong_subscription", fmt.Sprintf("leader was told %s subscribes %v, its latest join sent %v", id, sub, info.Sub)
			}
		}
	}
	if ev.Code != 0 {
		return "", ""
	}
	// success => every current member has joined THIS generation
	if tr.Gen != ev.Gen {
		return "join_success_reports_generation_other_than_current", fmt.Sprintf("reply says generation %d, group record says %d", ev.Gen, tr.Gen)
	}
	var lag []string
	for _, id := range tr.memberIDs() {
		info := w.ids[id]
		if (info == nil || info.LastJoinGen != ev.Gen) && !o.joinedGen(id, ev.Gen) {
			g := int32(-1)
			if info != nil {
				g = info.LastJoinGen
			}
			lag = append(lag, fmt.Sprintf("%s(last joined generation %d)", id, g))
		}
	}
	if len(lag) > 0 {
		return "join_success_before_all_members_rejoined", fmt.Sprintf("join of %s answered 0 in generation %d although %v have not joined it", ev.MemberID, ev.Gen, lag)
	}
	return "", ""
}

// observeOverlappedJoin judges the reply of a join that was in flight together with another request. The
// reply was computed from the group as it was at SOME instant between the first request's invocation and its
// return; the boundary snapshots taken during that interval (ev.Cands) are the candidates. The reply is
// objected to only if no candidate justifies it. The joining member itself counts as a member / as joined.
func (o *c14Obs) observeOverlappedJoin(w *gWorld, ev *gEvent) {
	o.r.Count("join_replies_overlapped_judged_against_all_snapshots", 1)
	k := o.key(ev.Gen)
	// reply-intrinsic part (no snapshot needed)
	if ev.Leader == "" {
		o.violate(w, ev, "reply_names_leader_that_is_not_a_member", fmt.Sprintf("join reply (code %d, generation %d) names no leader", ev.Code, ev.Gen), nil)
		return
	}
	if ev.HasList && !(ev.Code == 0 && ev.MemberID == ev.Leader) {
		o.violate(w, ev, "member_list_in_non_leader_or_unsuccessful_reply", fmt.Sprintf("join reply to %s (code %d, leader %s) carries %d members", ev.MemberID, ev.Code, ev.Leader, len(ev.Members)), nil)
		return
	}
	if ev.Code == 0 && ev.MemberID == ev.Leader && !ev.HasList {
		o.violate(w, ev, "leader_success_reply_without_member_list", fmt.Sprintf("successful join reply to leader %s has an empty member list", ev.MemberID), nil)
		return
	}
	leaderOK, absent := false, false
	var members [][]string
	for _, c := range ev.Cands {
		if !c.Exists {
			absent = true
			continue
		}
		if c.has(ev.Leader) || ev.Leader == ev.MemberID {
			leaderOK = true
		}
		members = append(members, c.memberIDs())
	}
	if !leaderOK {
		o.violate(w, ev, "reply_names_leader_that_is_not_a_member", fmt.Sprintf("overlapped join reply (code %d, generation %d) names leader %q, which is a member in none of the snapshots taken while the request was in flight: %v", ev.Code, ev.Gen, ev.Leader, members), nil)
		return
	}
	if ev.Code != 0 {
		if ev.Code == 27 {
			o.sawWait[k] = true
		}
		return
	}
	if absent {
		// the group did not exist at some instant of the pair: it was (re-)created by one of the two requests
		// and the state right after its creation was not observed. Not judged.
		o.r.Count("join_success_overlapped_group_created_during_pair_not_judged", 1)
		return
	}
	// success in generation g: at some instant, g was the generation and everybody (else) had joined g
	justified := false
	var why []string
	for _, c := range ev.Cands {
		if c.Gen != ev.Gen {
			why = append(why, fmt.Sprintf("[generation %d]", c.Gen))
			continue
		}
		var lag []string
		for _, id := range c.memberIDs() {
			if id == ev.MemberID {
				continue
			}
			if ok, g := c14Joined(w, ev, id, ev.Gen); !ok {
				lag = append(lag, fmt.Sprintf("%s(last joined generation %d)", id, g))
			}
		}
		if len(lag) == 0 {
			justified = true
			break
		}
		why = append(why, fmt.Sprintf("[generation %d, not joined: %v]", c.Gen, lag))
	}
	if !justified {
		o.violate(w, ev, "join_success_before_all_members_rejoined", fmt.Sprintf("join of %s, in flight together with another request, answered 0 in generation %d; no snapshot of the group taken while it was in flight shows generation %d with every other member joined: %v", ev.MemberID, ev.Gen, ev.Gen, why), nil)
		return
	}
	if ev.MemberID == ev.Leader {
		// the list handed to the leader is the membership of one of the snapshots (the leader itself included)
		listed := make([]string, 0, len(ev.Members))
		for id := range ev.Members {
			listed = append(listed, id)
		}
		sort.Strings(listed)
		match := false
		for _, c := range ev.Cands {
			ids := c.memberIDs()
			if !c.has(ev.MemberID) {
				ids = append(ids, ev.MemberID)
				sort.Strings(ids)
			}
			if fmt.Sprint(ids) == fmt.Sprint(listed) {
				match = true
			}
		}
		o.listChecked++
		if !match {
			o.violate(w, ev, "leader_member_list_differs_from_membership", fmt.Sprintf("leader was told members %v; memberships observed while the request was in flight: %v", listed, members), nil)
			return
		}
	}
	if !o.completed[k] {
		o.completed[k] = true
	}
	o.leaderOf[k] = ev.Leader
}

func TestVerifC14(t *testing.T) {
	r := verifkit.Start(t, "C14", "group")
	gSeedSalt = r.Seed
	defer r.Finish("real GroupCoordinator over the real InMemoryStore on synctest virtual time; PRNG op lists (join new/existing/with a forgotten id, sync, heartbeat, leave, time advance incl. session and rebalance-deadline expiry, settle rounds), <=4 members. Every JoinGroup reply: named leader is in the stored member set; a member list appears only in (and always in) a code-0 reply to the leader and equals the stored member set with each member's latest subscription; code 0 with generation g => g is the stored generation and every stored member's latest join reply carried g (observer bookkeeping of what each member id was told). After a code-0 join in g and a successful sync of its leader, every sync(g) of a stored member while the stored generation is still g must return 0. non-trivial = case where a >=2-member generation completed after at least one join had been answered REBALANCE_IN_PROGRESS",
		"'has joined the current generation' = the member's latest JoinGroup reply (any code) carried that generation", "failover is not part of this property's histories (C15)")
	p := gDefaultProfile
	p.PFresh = 0.12
	p.WLeave = 6
	n := r.N(600, 20000)
	seen := func(w *gWorld, ev *gEvent) { r.Seen("group_states", w.stateSig(ev.After)) }
	mk := func() *c14Obs {
		return &c14Obs{r: r, completed: map[string]bool{}, leaderOf: map[string]string{}, leaderSynced: map[string]bool{}, sawWait: map[string]bool{}}
	}
	account := func(ci int, w *gWorld, o *c14Obs) {
		if w.blocked {
			r.Inconclusive(fmt.Sprintf("case %d: a coordinator call never returned", ci))
		}
		r.Case(gOpsSig(w), o.barrierHeld > 0)
		r.Count("steps", int64(len(w.log)))
		r.Count("generations_completed_multi_member", int64(o.successMulti))
		r.Count("generations_completed_after_somebody_waited", int64(o.barrierHeld))
		r.Count("leader_member_lists_checked", int64(o.listChecked))
		if ci < 2 {
			r.Sample(gWitness(w, -1, nil))
		}
	}
	for ci := 0; ci < n; ci++ {
		rng := r.Rand(ci)
		if ci%3 == 2 { // two groups served by one coordinator, interleaved
			cfgs, ops := gGenPair(rng, p, fmt.Sprintf("g%d", ci))
			var os [2]*c14Obs
			ws := gRunPair(t, cfgs, ops, int64(ci)*100000, func(i int, w *gWorld) {
				os[i] = mk()
				w.obs = append(w.obs, os[i].observe, seen)
			})
			account(ci, ws[0], os[0])
			account(ci, ws[1], os[1])
			r.Count("cases_with_two_groups_on_one_coordinator", 1)
			continue
		}
		cfg := gGenConfig(rng, p, fmt.Sprintf("g%d", ci))
		ops := gGenOps(rng, p, cfg)
		o := mk()
		w := gRunCase(t, cfg, ops, int64(ci)*100000, func(w *gWorld) { w.obs = append(w.obs, o.observe, seen) })
		account(ci, w, o)
	}
	r.Floor("join_replies", 2000)
	r.Floor("generations_completed_after_somebody_waited", 50)
	r.Floor("sync_after_completion_judged", 200)
	r.Floor("group_states", 12)
	r.Exhaustive(false) // a sample of histories; the bounded-exhaustive part is leg enum
}

// Overlap leg: two requests in flight. See harness/_shared/group/overlap_test.go.
func TestVerifC14Overlap(t *testing.T) {
	r := verifkit.Start(t, "C14", "overlap")
	gSeedSalt = r.Seed
	gRealTimerStart()
	defer r.Finish("real GroupCoordinator over the real InMemoryStore behind the recording store decorator, synctest virtual time, TWO requests in flight: PRNG scenarios for 2-4 clients in which the group is brought into some phase (forming, all re-joined but leader not synced, stable, disturbed by a leave / new member / changed subscription with all or some members re-joined) and then a pair (A,B) of requests by different clients is overlapped: the decorator parks one store call of A (PutConsumerGroup of a join that may complete the rebalance, of a sync, heartbeat or leave; the Metadata lookup of the leader's sync; CommitConsumerOffset; FetchConsumerGroup; before or after the real store executed it), B (leave, join of a new member, re-join with the same or another subscription, heartbeat, commit, sync, or a time advance that expires sessions) is sent while A is parked, then A is released; settle rounds and ordinary requests follow. If the coordinator holds a lock across A's store call (TryLock probe of its mutex fields) B is simply sent after A and everything is judged as in leg 'group'. Otherwise the two replies are judged after both have arrived, against EVERY boundary snapshot of the stored group taken while A was in flight (before A, A parked, after B, after A): a join reply is objected to only if no snapshot justifies it (named leader a member of none; code 0 in generation g but no snapshot with generation g in which every other stored member's latest join reply, before or after the pair, carried g; leader's list equal to no snapshot's membership); the reply-intrinsic rules (member list only and always in the leader's code-0 reply) hold unconditionally; a pair during which the group was absent at some instant is not judged for the success rule. sync-after-completion is judged for an overlapped sync only if it was a stored member of the stored generation in every snapshot. non-trivial = case in which A was parked and a >=2-member generation completed",
		"'has joined the current generation' = the member's latest JoinGroup reply (any code) carried that generation", "the real-time bound under which B is awaited while A is parked is a scheduling aid: if it expires nothing is judged and the case is cut")
	p := gDefaultOvlProfile
	p.WA = map[string]int{"syncleader": 3, "sync": 1, "join": 8, "joinresub": 2, "joinfresh": 2, "hb": 1, "commit": 3, "leave": 1}
	n := r.N(500, 8000)
	for ci := 0; ci < n; ci++ {
		rng := r.Rand(ci)
		cfg, ops := gGenOverlapCase(rng, p, fmt.Sprintf("o%d", ci))
		o := &c14Obs{r: r, completed: map[string]bool{}, leaderOf: map[string]string{}, leaderSynced: map[string]bool{}, sawWait: map[string]bool{}}
		w := gRunCase(t, cfg, ops, int64(ci)*100000, func(w *gWorld) {
			w.obs = append(w.obs, o.observe, func(w *gWorld, ev *gEvent) { r.Seen("group_states", w.stateSig(ev.After)) })
		})
		if w.blocked {
			r.Inconclusive(fmt.Sprintf("case %d: a coordinator call never returned", ci))
		}
		parked := w.ovl.LockHeld+w.ovl.Inside > 0
		r.Case(gOpsSig(w), parked && o.successMulti > 0)
		r.Count("steps", int64(len(w.log)))
		r.Count("generations_completed_multi_member", int64(o.successMulti))
		r.Count("generations_completed_after_somebody_waited", int64(o.barrierHeld))
		r.Count("leader_member_lists_checked", int64(o.listChecked))
		gOvlAccount(w, r.Count, r.Seen)
		if ci < 2 {
			r.Sample(gWitness(w, -1, nil))
		}
	}
	r.Floor("join_replies", 2000)
	r.Floor("generations_completed_multi_member", 100)
	r.Floor("overlap_a_parked", int64(r.N(200, 3000)))
	r.Floor("overlap_b_ran_inside_a_store_call", 5) // CommitConsumerOffset is called without the lock even by the unchanged coordinator
	r.Exhaustive(false)
}
