//go:build verif

package broker

import (
	"fmt"
	"sort"
	"testing"

	"github.com/KafScale/platform/internal/verifkit"
)

type c14Obs struct {
	r       *verifkit.Run
	flagged bool
	epoch   int

	completed    map[string]bool   // generation key -> a successful join reply was seen (every member rejoined)
	leaderOf     map[string]string // generation key -> leader named by the successful replies
	leaderSynced map[string]bool
	sawWait      map[string]bool // generation key -> some join was answered REBALANCE_IN_PROGRESS (the barrier held somebody back)

	barrierHeld, successMulti, syncJudged, listChecked int
}

func (o *c14Obs) key(gen int32) string { return fmt.Sprintf("%d/%d", o.epoch, gen) }

func (o *c14Obs) violate(w *gWorld, ev *gEvent, class, summary string, extra map[string]any) {
	if o.flagged {
		return
	}
	o.flagged = true
	o.r.Violation(class, summary, gWitness(w, ev.I, extra))
}

func (o *c14Obs) observe(w *gWorld, ev *gEvent) {
	defer func() {
		if !ev.After.Exists {
			o.epoch++
		}
	}()
	tr := ev.After
	switch ev.K {
	case "join":
		if ev.Code < 0 {
			return
		}
		o.r.Count("join_replies", 1)
		k := o.key(ev.Gen)
		// the leader named in ANY reply is a current member
		if !tr.Exists || ev.Leader == "" || !tr.has(ev.Leader) {
			o.violate(w, ev, "reply_names_leader_that_is_not_a_member", fmt.Sprintf("join reply (code %d, generation %d) names leader %q; current members %v", ev.Code, ev.Gen, ev.Leader, tr.memberIDs()), nil)
			return
		}
		// only the leader's successful reply carries the member list
		if ev.HasList && !(ev.Code == 0 && ev.MemberID == ev.Leader) {
			o.violate(w, ev, "member_list_in_non_leader_or_unsuccessful_reply", fmt.Sprintf("join reply to %s (code %d, leader %s) carries %d members", ev.MemberID, ev.Code, ev.Leader, len(ev.Members)), nil)
			return
		}
		if ev.Code == 0 && ev.MemberID == ev.Leader {
			if !ev.HasList {
				o.violate(w, ev, "leader_success_reply_without_member_list", fmt.Sprintf("successful join reply to leader %s has an empty member list", ev.MemberID), nil)
				return
			}
			o.listChecked++
			listed := make([]string, 0, len(ev.Members))
			for id := range ev.Members {
				listed = append(listed, id)
			}
			sort.Strings(listed)
			if fmt.Sprint(listed) != fmt.Sprint(tr.memberIDs()) {
				o.violate(w, ev, "leader_member_list_differs_from_membership", fmt.Sprintf("leader was told members %v, current members are %v", listed, tr.memberIDs()), nil)
				return
			}
			for id, sub := range ev.Members {
				if info := w.ids[id]; info != nil && fmt.Sprint(info.Sub) != fmt.Sprint(sub) {
					o.violate(w, ev, "leader_member_list_wrong_subscription", fmt.Sprintf("leader was told %s subscribes %v, its latest join sent %v", id, sub, info.Sub), nil)
					return
				}
			}
		}
		if ev.Code != 0 {
			if ev.Code == 27 {
				o.sawWait[k] = true
			}
			return
		}
		// success => every current member has joined THIS generation
		if tr.Gen != ev.Gen {
			o.violate(w, ev, "join_success_reports_generation_other_than_current", fmt.Sprintf("reply says generation %d, group record says %d", ev.Gen, tr.Gen), nil)
			return
		}
		var lag []string
		for _, id := range tr.memberIDs() {
			info := w.ids[id]
			if info == nil || info.LastJoinGen != ev.Gen {
				g := int32(-1)
				if info != nil {
					g = info.LastJoinGen
				}
				lag = append(lag, fmt.Sprintf("%s(last joined generation %d)", id, g))
			}
		}
		if len(lag) > 0 {
			o.violate(w, ev, "join_success_before_all_members_rejoined", fmt.Sprintf("join of %s answered 0 in generation %d although %v have not joined it", ev.MemberID, ev.Gen, lag), nil)
			return
		}
		if !o.completed[k] {
			o.completed[k] = true
			if len(tr.Members) > 1 {
				o.successMulti++
				if o.sawWait[k] {
					o.barrierHeld++
				}
			}
		}
		o.leaderOf[k] = ev.Leader
	case "sync":
		if ev.Code < 0 {
			return
		}
		k := o.key(ev.ReqGen)
		b := ev.Before
		current := b.Exists && b.Gen == ev.ReqGen && b.has(ev.ReqID) && tr.Exists && tr.Gen == ev.ReqGen
		if !current {
			return
		}
		if o.completed[k] && o.leaderSynced[k] {
			o.syncJudged++
			o.r.Count("sync_after_completion_judged", 1)
			if ev.Code != 0 {
				o.violate(w, ev, "sync_fails_after_rebalance_completed", fmt.Sprintf("all members rejoined generation %d and leader %s synced, yet sync of current member %s got code %d", ev.ReqGen, o.leaderOf[k], ev.ReqID, ev.Code), nil)
				return
			}
		}
		if ev.Code == 0 && o.completed[k] && ev.ReqID == o.leaderOf[k] {
			o.leaderSynced[k] = true
		}
	}
}

func TestVerifC14(t *testing.T) {
	r := verifkit.Start(t, "C14", "group")
	gSeedSalt = r.Seed
	defer r.Finish("real GroupCoordinator over the real InMemoryStore on synctest virtual time; PRNG op lists (join new/existing/with a forgotten id, sync, heartbeat, leave, time advance incl. session and rebalance-deadline expiry, settle rounds), <=4 members. Every JoinGroup reply: named leader is in the stored member set; a member list appears only in (and always in) a code-0 reply to the leader and equals the stored member set with each member's latest subscription; code 0 with generation g => g is the stored generation and every stored member's latest join reply carried g (observer bookkeeping of what each member id was told). After a code-0 join in g and a successful sync of its leader, every sync(g) of a stored member while the stored generation is still g must return 0. non-trivial = case where a >=2-member generation completed after at least one join had been answered REBALANCE_IN_PROGRESS",
		"'has joined the current generation' = the member's latest JoinGroup reply (any code) carried that generation", "failover is not part of this property's histories (C15)")
	p := gDefaultProfile
	p.PFresh = 0.12
	p.WLeave = 6
	n := r.N(600, 20000)
	seen := func(w *gWorld, ev *gEvent) { r.Seen("group_states", w.stateSig(ev.After)) }
	mk := func() *c14Obs {
		return &c14Obs{r: r, completed: map[string]bool{}, leaderOf: map[string]string{}, leaderSynced: map[string]bool{}, sawWait: map[string]bool{}}
	}
	account := func(ci int, w *gWorld, o *c14Obs) {
		if w.blocked {
			r.Inconclusive(fmt.Sprintf("case %d: a coordinator call never returned", ci))
		}
		r.Case(gOpsSig(w), o.barrierHeld > 0)
		r.Count("steps", int64(len(w.log)))
		r.Count("generations_completed_multi_member", int64(o.successMulti))
		r.Count("generations_completed_after_somebody_waited", int64(o.barrierHeld))
		r.Count("leader_member_lists_checked", int64(o.listChecked))
		if ci < 2 {
			r.Sample(gWitness(w, -1, nil))
		}
	}
	for ci := 0; ci < n; ci++ {
		rng := r.Rand(ci)
		if ci%3 == 2 { // two groups served by one coordinator, interleaved
			cfgs, ops := gGenPair(rng, p, fmt.Sprintf("g%d", ci))
			var os [2]*c14Obs
			ws := gRunPair(t, cfgs, ops, int64(ci)*100000, func(i int, w *gWorld) {
				os[i] = mk()
				w.obs = append(w.obs, os[i].observe, seen)
			})
			account(ci, ws[0], os[0])
			account(ci, ws[1], os[1])
			r.Count("cases_with_two_groups_on_one_coordinator", 1)
			continue
		}
		cfg := gGenConfig(rng, p, fmt.Sprintf("g%d", ci))
		ops := gGenOps(rng, p, cfg)
		o := mk()
		w := gRunCase(t, cfg, ops, int64(ci)*100000, func(w *gWorld) { w.obs = append(w.obs, o.observe, seen) })
		account(ci, w, o)
	}
	r.Floor("join_replies", 2000)
	r.Floor("generations_completed_after_somebody_waited", 50)
	r.Floor("sync_after_completion_judged", 200)
	r.Floor("group_states", 12)
	r.Exhaustive(false) // a sample of histories; the bounded-exhaustive part is leg enum
}
