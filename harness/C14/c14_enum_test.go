//go:build verif

package broker

import (
	"fmt"
	"testing"

	"github.com/KafScale/platform/internal/verifkit"
)

// Bounded-exhaustive leg: every sequence of joins / forgotten-id joins / syncs /
// leaves / rebalance-deadline expiry / session expiry of a fixed length by three
// members, judged by the same observer as the PRNG leg.
func TestVerifC14Enum(t *testing.T) {
	r := verifkit.Start(t, "C14", "enum")
	gSeedSalt = r.Seed
	sub := []string{"ta"}
	spec := gEnumSpec{
		Cfg: gConfig{Topics: map[string]int{"ta": 2}, Universe: []string{"ta"}, M: 3,
			SessionMs: []int64{10000, 10000, 10000}, RebalMs: []int64{3000, 3000, 3000}, CleanupMs: 1000},
		Alphabet: []gOp{
			{K: "join", Slot: 0, Sub: sub}, {K: "join", Slot: 1, Sub: sub}, {K: "join", Slot: 2, Sub: sub},
			{K: "join", Slot: 0, Sub: sub, Fresh: true},
			{K: "sync", Slot: 0}, {K: "sync", Slot: 1}, {K: "sync", Slot: 2},
			{K: "leave", Slot: 0}, {K: "leave", Slot: 1},
			{K: "advance", DtMs: 4000},  // past the rebalance timeout, inside the session timeout
			{K: "advance", DtMs: 11000}, // past the session timeout
		},
		Names:    []string{"J0", "J1", "J2", "J0new", "S0", "S1", "S2", "L0", "L1", "+4s", "+11s"},
		Depth:    r.N(3, 5),
		DepthFor: map[string]int{"empty": r.N(3, 4)},
		Preambles: map[string][]gOp{
			"empty":   nil,
			"stable3": {{K: "join", Slot: 0, Sub: sub}, {K: "join", Slot: 1, Sub: sub}, {K: "join", Slot: 2, Sub: sub}, {K: "settle"}},
		},
	}
	defer r.Finish(fmt.Sprintf("bounded-exhaustive: ALL %d sequences of length %d (one step less from the empty group in the thorough tier; every shorter sequence is a prefix) over the alphabet %v, started from the empty group and from a settled Stable group of 3 members, for 3 members (session 10 s, rebalance timeout 3 s, cleanup 1 s) are run on the real coordinator on virtual time and judged after every step by the C14 observer of leg 'group' (leader in every join reply is a stored member; member list only and always in the leader's code-0 reply and equal to the stored membership; code 0 => every stored member's latest join reply carries the stored generation; after completion + leader sync every stored member's sync succeeds). non-trivial = sequence in which a >=2-member generation completed after somebody had been answered REBALANCE_IN_PROGRESS", spec.total(), spec.Depth, spec.Names))
	var cur *c14Obs
	gEnumerate(t, spec, func(seq string) []gObserver {
		cur = &c14Obs{r: r, completed: map[string]bool{}, leaderOf: map[string]string{}, leaderSynced: map[string]bool{}, sawWait: map[string]bool{}}
		return []gObserver{cur.observe, func(w *gWorld, ev *gEvent) { r.Seen("group_states", w.stateSig(ev.After)) }}
	}, func(seq string, w *gWorld) {
		if w.blocked {
			r.Inconclusive("sequence " + seq + ": a coordinator call never returned")
		}
		r.Case(seq, cur.barrierHeld > 0)
		r.Count("generations_completed_multi_member", int64(cur.successMulti))
		r.Count("generations_completed_after_somebody_waited", int64(cur.barrierHeld))
		if cur.barrierHeld > 0 {
			r.Sample(map[string]any{"sequence": seq, "run": gWitness(w, -1, nil)})
		}
	})
	r.Exhaustive(true)
	r.Note("sequences", spec.total())
	r.Floor("join_replies", 1000)
	r.Floor("generations_completed_after_somebody_waited", int64(r.N(1, 50)))
}
