//go:build verif

package storage

import (
	"bytes"
	"context"
	"errors"
	"fmt"
	"math/rand"
	"sort"
	"strings"
	"sync"
	"testing"
	"time"

	"github.com/KafScale/platform/internal/verifkit"
	"github.com/KafScale/platform/internal/verifkit/kbatch"
)

// c08S3 is a fake S3 with an operation counter and a fault plan.
type c08S3 struct {
	mu       sync.Mutex
	objects  map[string][]byte
	ops      []string // op log of the current run: "kind key"
	failAt   int      // index of the op to fail (-1 none)
	failMode string   // before | after
	failDel  bool     // every delete fails
	delFails int
}

var errC08 = errors.New("verif: injected S3 failure")

func (s *c08S3) step(kind, key string) (fail bool, after bool) {
	idx := len(s.ops)
	s.ops = append(s.ops, kind+" "+key)
	if idx == s.failAt {
		return true, s.failMode == "after"
	}
	return false, false
}
func (s *c08S3) put(kind, key string, body []byte) error {
	s.mu.Lock()
	defer s.mu.Unlock()
	fail, after := s.step(kind, key)
	if fail && !after {
		return errC08
	}
	s.objects[key] = append([]byte(nil), body...)
	if fail {
		return errC08
	}
	return nil
}
func (s *c08S3) UploadSegment(ctx context.Context, key string, body []byte) error { return s.put("upload_segment", key, body) }
func (s *c08S3) UploadIndex(ctx context.Context, key string, body []byte) error   { return s.put("upload_index", key, body) }
func (s *c08S3) del(kind, key string) error {
	s.mu.Lock()
	defer s.mu.Unlock()
	s.ops = append(s.ops, kind+" "+key)
	if s.failDel {
		s.delFails++
		return errC08
	}
	delete(s.objects, key)
	return nil
}
func (s *c08S3) DeleteSegment(ctx context.Context, key string) error { return s.del("delete_segment", key) }
func (s *c08S3) DeleteIndex(ctx context.Context, key string) error   { return s.del("delete_index", key) }
func (s *c08S3) DownloadSegment(ctx context.Context, key string, rng *ByteRange) ([]byte, error) {
	s.mu.Lock()
	defer s.mu.Unlock()
	if fail, _ := s.step("download_segment", key); fail {
		return nil, errC08
	}
	b, ok := s.objects[key]
	if !ok {
		return nil, ErrNotFound
	}
	if rng != nil {
		if rng.Start < 0 || rng.Start >= int64(len(b)) {
			return nil, fmt.Errorf("invalid range")
		}
		end := rng.End
		if end >= int64(len(b)) {
			end = int64(len(b)) - 1
		}
		b = b[rng.Start : end+1]
	}
	return append([]byte(nil), b...), nil
}
func (s *c08S3) DownloadIndex(ctx context.Context, key string) ([]byte, error) {
	s.mu.Lock()
	defer s.mu.Unlock()
	if fail, _ := s.step("download_index", key); fail {
		return nil, errC08
	}
	b, ok := s.objects[key]
	if !ok {
		return nil, ErrNotFound
	}
	return append([]byte(nil), b...), nil
}
func (s *c08S3) ListSegments(ctx context.Context, prefix string) ([]S3Object, error) {
	s.mu.Lock()
	defer s.mu.Unlock()
	if fail, _ := s.step("list", prefix); fail {
		return nil, errC08
	}
	var out []S3Object
	for k, v := range s.objects {
		if strings.HasPrefix(k, prefix) {
			out = append(out, S3Object{Key: k, Size: int64(len(v))})
		}
	}
	sort.Slice(out, func(i, j int) bool { return out[i].Key < out[j].Key })
	return out, nil
}
func (s *c08S3) EnsureBucket(ctx context.Context) error { return nil }
func (s *c08S3) keys(prefix string) []string {
	s.mu.Lock()
	defer s.mu.Unlock()
	var out []string
	for k := range s.objects {
		if strings.HasPrefix(k, prefix) {
			out = append(out, k)
		}
	}
	sort.Strings(out)
	return out
}

type c08Rec struct {
	Offset int64
	TS     int64
	Enc    []byte // encoded record (kbatch), offset delta relative to its batch
	Key    []byte
	Value  []byte
}

type c08Seg struct {
	Base    int64
	Created int64 // ms
	Recs    []c08Rec
}

type c08History struct {
	Parts map[int32][]c08Seg
	Desc  []string
}

// c08Build creates the source topic objects with the repo's own BuildSegment.
func c08Build(rng *rand.Rand, s3 *c08S3, t0 int64) c08History {
	h := c08History{Parts: map[int32][]c08Seg{}}
	nparts := 1 + rng.Intn(3)
	for p := int32(0); p < int32(nparts); p++ {
		next := int64(0)
		if rng.Intn(4) == 0 {
			next = int64(rng.Intn(50)) // log whose earliest offset is not 0
		}
		clock := t0 + int64(rng.Intn(1000))
		nseg := 1 + rng.Intn(4)
		for si := 0; si < nseg; si++ {
			var batches []RecordBatch
			seg := c08Seg{Base: next}
			nb := 1 + rng.Intn(3)
			for bi := 0; bi < nb; bi++ {
				n := 1 + rng.Intn(5)
				first := clock
				kb := kbatch.Batch{Magic: 2, FirstTimestamp: first, ProducerID: -1, ProducerEpoch: -1, BaseSequence: -1}
				max := first
				for i := 0; i < n; i++ {
					var d int64
					if i > 0 {
						d = int64(rng.Intn(400)) - 50 // mostly increasing, sometimes earlier than the previous record
						if first+d < first-40 {
							d = 0
						}
					}
					rec := kbatch.Record{OffsetDelta: int32(i), TimestampDelta: d, Key: []byte(fmt.Sprintf("p%d-o%d", p, next+int64(i))), Value: []byte(fmt.Sprintf("v/p%d/%d/%d", p, next+int64(i), rng.Intn(1000)))}
					if rng.Intn(5) == 0 {
						rec.Headers = []kbatch.Header{{Key: "h", Value: []byte("x")}}
					}
					if rng.Intn(7) == 0 {
						rec.Key = nil
					}
					kb.Records = append(kb.Records, rec)
					if first+d > max {
						max = first + d
					}
					seg.Recs = append(seg.Recs, c08Rec{Offset: next + int64(i), TS: first + d, Enc: kbatch.EncodeRecord(rec), Key: rec.Key, Value: rec.Value})
				}
				kb.MaxTimestamp = max
				kb.BaseOffset = next
				raw := kbatch.Encode(kb)
				rb, err := NewRecordBatchFromBytes(raw)
				if err != nil {
					panic(err)
				}
				batches = append(batches, rb)
				next += int64(n)
				clock = max + int64(rng.Intn(300))
				if rng.Intn(5) == 0 {
					// a late / clock-skewed producer: the next batch starts EARLIER than this one ended
					clock = first - int64(rng.Intn(600))
				}
			}
			clock += int64(rng.Intn(500))
			seg.Created = clock // a segment is created (flushed) after its records were produced
			if rng.Intn(6) == 0 {
				seg.Created = clock - 2000 // clock skew: created "before" its records
			}
			art, err := BuildSegment(SegmentWriterConfig{IndexIntervalMessages: []int32{1, 2, 100}[rng.Intn(3)]}, batches, time.UnixMilli(seg.Created))
			if err != nil {
				panic(err)
			}
			s3.objects[segmentObjectKey("default", "src", p, seg.Base)] = art.SegmentBytes
			s3.objects[segmentIndexKey("default", "src", p, seg.Base)] = art.IndexBytes
			h.Parts[p] = append(h.Parts[p], seg)
			h.Desc = append(h.Desc, fmt.Sprintf("p%d seg base=%d created=+%d recs=%d ts=[+%d..]", p, seg.Base, seg.Created-t0, len(seg.Recs), seg.Recs[0].TS-t0))
			clock += int64(rng.Intn(700))
		}
	}
	return h
}

// c08Expected computes, from the STATEMENT, the records a restore to T must produce for one partition:
// every segment before the final candidate whole, the final candidate (first segment created after T, else
// the last segment) cut at its first record later than T.
func c08Expected(segs []c08Seg, T int64) []c08Rec {
	final := len(segs) - 1
	for i, s := range segs {
		if s.Created > T {
			final = i
			break
		}
	}
	var out []c08Rec
	for i := 0; i < final; i++ {
		out = append(out, segs[i].Recs...)
	}
	for _, rc := range segs[final].Recs {
		if rc.TS > T {
			break
		}
		out = append(out, rc)
	}
	return out
}

// c08ReadTarget decodes every target object of a partition with the reference codec.
func c08ReadTarget(s3 *c08S3, p int32) ([]c08Rec, string) {
	prefix := fmt.Sprintf("default/dst/%d/", p)
	var out []c08Rec
	for _, k := range s3.keys(prefix) {
		if !strings.HasSuffix(k, ".kfs") {
			continue
		}
		b := s3.objects[k]
		if len(b) < 48 || string(b[:4]) != "KAFS" || string(b[len(b)-4:]) != "END!" {
			return out, "target object " + k + " has bad segment framing"
		}
		if _, ok := s3.objects[strings.TrimSuffix(k, ".kfs")+".index"]; !ok {
			return out, "target segment " + k + " has no index object"
		}
		body := b[32 : len(b)-16]
		batches, err := kbatch.DecodeAll(body) // checks batchLength, record count and CRC of every batch
		if err != nil {
			return out, fmt.Sprintf("target object %s does not decode: %v", k, err)
		}
		for _, kb := range batches {
			for _, r := range kb.Records {
				out = append(out, c08Rec{Offset: kb.BaseOffset + int64(r.OffsetDelta), TS: kb.FirstTimestamp + r.TimestampDelta, Enc: kbatch.EncodeRecord(r), Key: r.Key, Value: r.Value})
			}
			if len(kb.Records) > 0 && kb.LastOffsetDelta != kb.Records[len(kb.Records)-1].OffsetDelta {
				return out, fmt.Sprintf("target object %s: batch at %d has lastOffsetDelta %d but its last record has delta %d", k, kb.BaseOffset, kb.LastOffsetDelta, kb.Records[len(kb.Records)-1].OffsetDelta)
			}
		}
	}
	sort.SliceStable(out, func(i, j int) bool { return out[i].Offset < out[j].Offset })
	return out, ""
}

func TestVerifC08Restore(t *testing.T) {
	r := verifkit.Start(t, "C08", "restore")
	defer r.Finish("history = 1-3 partitions x 1-4 segments x 1-3 batches x 1-5 records, explicit creation times (incl. skew), non-monotonic record timestamps within and ACROSS batches (a later batch may lie wholly before an earlier one), earliest offset sometimes > 0; T drawn around record timestamps and creation times; partition subsets. Each (history,T,subset) is restored once fault-free (record-level comparison with the expected prefix, target batches decoded incl. CRC) and then once per S3 operation k with that operation failing before its effect, once more per upload with the failure after the effect, and with all rollback deletes failing; evaluations = restore runs; distinct = (history,T,subset,k,mode); non-trivial = run that had >=1 target upload before the fault or a success run that truncated a batch",
		"fake S3: atomic puts; a failed op either has no effect or (uploads only, mode=after) full effect")
	n := r.N(60, 4000)
	t0 := int64(1_700_000_000_000)
	for ci := 0; ci < n; ci++ {
		rng := r.Rand(ci)
		base := &c08S3{objects: map[string][]byte{}, failAt: -1}
		h := c08Build(rng, base, t0)
		// candidate cut times
		var times []int64
		for _, segs := range h.Parts {
			for _, s := range segs {
				times = append(times, s.Created, s.Created-1, s.Created+1)
				for _, rc := range s.Recs {
					times = append(times, rc.TS, rc.TS-1, rc.TS+1)
				}
			}
		}
		for ti := 0; ti < 3; ti++ {
			T := times[rng.Intn(len(times))]
			var subset []int32
			if rng.Intn(3) == 0 {
				for p := range h.Parts {
					if rng.Intn(2) == 0 {
						subset = append(subset, p)
					}
				}
				sort.Slice(subset, func(i, j int) bool { return subset[i] < subset[j] })
			}
			inScope := func(p int32) bool {
				if len(subset) == 0 {
					return true
				}
				for _, q := range subset {
					if q == p {
						return true
					}
				}
				return false
			}
			clone := func() *c08S3 {
				c := &c08S3{objects: map[string][]byte{}, failAt: -1}
				for k, v := range base.objects {
					c.objects[k] = v
				}
				return c
			}
			cfg := TopicRecoveryConfig{SourceTopic: "src", TargetTopic: "dst", RestoreTo: time.UnixMilli(T), Partitions: subset}
			desc := map[string]any{"history": h.Desc, "T": fmt.Sprintf("+%d", T-t0), "partitions": subset}
			// ---- fault-free run
			s3 := clone()
			_, err := RecoverTopicToTimestamp(context.Background(), s3, cfg)
			ops := append([]string(nil), s3.ops...)
			truncated := false
			if err != nil {
				r.Violation("fault_free_restore_failed", "restore without any fault returned "+err.Error(), desc)
			} else {
				for p, segs := range h.Parts {
					got, perr := c08ReadTarget(s3, p)
					if !inScope(p) {
						if len(s3.keys(fmt.Sprintf("default/dst/%d/", p))) > 0 {
							r.Violation("restored_partition_outside_subset", fmt.Sprintf("partition %d was not requested but has target objects", p), desc)
						}
						continue
					}
					if perr != "" {
						r.Violation("target_batch_invalid", perr, desc)
						continue
					}
					want := c08Expected(segs, T)
					r.Count("partitions_compared", 1)
					r.Count("records_compared", int64(len(want)))
					if len(want) > 0 && len(want) < totalRecs(segs) {
						lastSeg := segs[0]
						for _, sg := range segs {
							if sg.Base <= want[len(want)-1].Offset {
								lastSeg = sg
							}
						}
						if want[len(want)-1].Offset != lastSeg.Recs[len(lastSeg.Recs)-1].Offset {
							truncated = true
						}
					}
					if why := c08Diff(want, got); why != "" {
						cls := "restored_records_differ"
						if len(got) > len(want) {
							cls = "restored_more_than_prefix"
						} else if len(got) < len(want) {
							cls = "restored_less_than_prefix"
						}
						d2 := map[string]any{"partition": p, "want_offsets": offsetsOf(want), "got_offsets": offsetsOf(got)}
						for k, v := range desc {
							d2[k] = v
						}
						r.Violation(cls, fmt.Sprintf("partition %d: %s", p, why), d2)
					}
				}
			}
			r.Case(fmt.Sprint(ci, ti, "ok"), truncated)
			if truncated {
				r.Count("success_runs_with_truncated_batch", 1)
			}
			if ci == 0 && ti == 0 {
				r.Sample(map[string]any{"history": h.Desc, "T": fmt.Sprintf("+%d", T-t0), "partitions": subset, "s3_ops": ops})
			}
			// ---- fault enumeration: every op once (before), every upload also (after), plus failing deletes
			for k, op := range ops {
				modes := []string{"before"}
				if strings.HasPrefix(op, "upload_") {
					modes = append(modes, "after")
				}
				for _, mode := range modes {
					for _, failDel := range []bool{false, true} {
						if failDel && !strings.HasPrefix(op, "upload_") && !strings.HasPrefix(op, "download_") {
							continue
						}
						f := clone()
						f.failAt, f.failMode, f.failDel = k, mode, failDel
						_, err := RecoverTopicToTimestamp(context.Background(), f, cfg)
						uploadsBefore := 0
						for _, o := range ops[:k] {
							if strings.HasPrefix(o, "upload_") {
								uploadsBefore++
							}
						}
						r.Case(fmt.Sprint(ci, ti, k, mode, failDel), uploadsBefore > 0 || mode == "after")
						r.Count("fault_runs", 1)
						left := f.keys("default/dst/")
						if err == nil {
							r.Violation("restore_succeeded_despite_failed_s3_op", fmt.Sprintf("op #%d (%s, fail %s effect) failed but the restore reported success", k, op, mode), desc)
							continue
						}
						if len(left) > 0 && f.delFails == 0 {
							cls := "failed_restore_left_objects:" + strings.SplitN(op, " ", 2)[0] + "_fail_" + mode
							d2 := map[string]any{"failed_op": fmt.Sprintf("#%d %s (fail %s effect)", k, op, mode), "left": left, "ops": f.ops}
							for kk, v := range desc {
								d2[kk] = v
							}
							r.Violation(cls, fmt.Sprintf("restore failed at op #%d (%s, %s effect) yet %d objects remain under the target topic and no delete failed", k, op, mode, len(left)), d2)
						}
						if len(left) > 0 && f.delFails > 0 {
							r.Count("leftovers_excused_by_failed_delete", 1)
						}
					}
				}
			}
		}
	}
	r.Exhaustive(true)
	r.Floor("records_compared", 500)
	r.Floor("fault_runs", 1000)
	r.Floor("success_runs_with_truncated_batch", 10)
}

func totalRecs(segs []c08Seg) int {
	n := 0
	for _, s := range segs {
		n += len(s.Recs)
	}
	return n
}
func offsetsOf(rs []c08Rec) []int64 {
	var o []int64
	for _, r := range rs {
		o = append(o, r.Offset)
	}
	return o
}
func c08Diff(want, got []c08Rec) string {
	for i := 0; i < len(want) && i < len(got); i++ {
		if want[i].Offset != got[i].Offset {
			return fmt.Sprintf("record %d: offset %d, expected %d", i, got[i].Offset, want[i].Offset)
		}
		if want[i].TS != got[i].TS {
			return fmt.Sprintf("offset %d: timestamp %d, expected %d", want[i].Offset, got[i].TS, want[i].TS)
		}
		if !bytes.Equal(want[i].Enc, got[i].Enc) {
			return fmt.Sprintf("offset %d: record bytes differ", want[i].Offset)
		}
	}
	if len(want) != len(got) {
		return fmt.Sprintf("restored %d records, expected the %d-record prefix", len(got), len(want))
	}
	return ""
}
