//go:build verif

package metadata

// C18 — a partition or group lease has at most one live owner.
//
// Engine B on a synctest bubble: the real LeaseManager (through
// PartitionLeaseManager / GroupLeaseManager) runs against a real embedded etcd,
// but every etcd operation it issues goes through replaced clientv3.Client.KV /
// .Lease interfaces that (1) park the calling goroutine on a gate until the
// scheduler releases it and (2) execute the real gRPC call on a goroutine
// *outside* the bubble (gRPC's own goroutines must not touch bubbled channels).
// synctest.Wait() therefore returns exactly when every manager goroutine is
// parked on a gate, finished, or waiting for another one (singleflight,
// session monitor) — the quiescent points "between two etcd operations".
//
// Session loss is two scheduler steps: Expire (server side: the harness revokes
// the lease id) and Notice (client side: the harness closes the keep-alive
// channel it handed to concurrency.Session, which fires Session.Done()).
//
// Ground truth is a watch WithPrevKV on /kafscale/, synchronised after every
// step with a sentinel key, so every event is attributed to the step that
// caused it.

import (
	"context"
	"errors"
	"fmt"
	"io"
	"log/slog"
	"net"
	"net/url"
	"os"
	"path/filepath"
	"sort"
	"strconv"
	"strings"
	"sync"
	"testing"
	"testing/synctest"
	"time"

	pb "go.etcd.io/etcd/api/v3/etcdserverpb"
	clientv3 "go.etcd.io/etcd/client/v3"
	"go.etcd.io/etcd/server/v3/embed"

	"github.com/KafScale/platform/internal/testutil"
	"github.com/KafScale/platform/internal/verifkit"
	"github.com/anishathalye/porcupine"
)

// ---------------------------------------------------------------------------
// outside executor: runs closures on goroutines that do not belong to a bubble

type c18Slot struct {
	fn   func()
	done chan struct{}
}

type c18Outside struct {
	req  chan *c18Slot
	pool chan *c18Slot
}

func newC18Outside(n int) *c18Outside {
	o := &c18Outside{req: make(chan *c18Slot, n), pool: make(chan *c18Slot, n)}
	for i := 0; i < n; i++ {
		o.pool <- &c18Slot{done: make(chan struct{}, 1)}
	}
	// persistent workers: goroutine creation is expensive under the race detector
	for i := 0; i < 8; i++ {
		go func() {
			for s := range o.req {
				s.fn()
				s.done <- struct{}{}
			}
		}()
	}
	return o
}

// do runs fn outside the bubble and waits for it. The waiting goroutine is
// blocked on a non-bubbled channel, i.e. NOT durably blocked: synctest.Wait in
// the scheduler keeps waiting until the real etcd call has returned.
func (o *c18Outside) do(fn func()) {
	s := <-o.pool
	s.fn = fn
	o.req <- s
	<-s.done
	s.fn = nil
	o.pool <- s
}

// ---------------------------------------------------------------------------
// ground-truth watch

const c18Sentinel = "/kafscale/zz-verif-c18-sentinel"

type c18Event struct {
	Type      string `json:"type"` // PUT | DELETE
	Key       string `json:"key"`
	Value     string `json:"value,omitempty"`
	Lease     int64  `json:"lease,omitempty"`
	ModRev    int64  `json:"rev"`
	HasPrev   bool   `json:"has_prev"`
	PrevValue string `json:"prev_value,omitempty"`
	PrevLease int64  `json:"prev_lease,omitempty"`
}

type c18Watch struct {
	mu       sync.Mutex
	cond     *sync.Cond
	evs      []c18Event
	seen     int64
	next     int64
	maxRev   int64 // highest mod revision delivered by the ordered stream
	timedOut bool
	broken   string
}

func (wt *c18Watch) loop(wch clientv3.WatchChan) {
	for resp := range wch {
		wt.mu.Lock()
		if err := resp.Err(); err != nil {
			wt.broken = err.Error()
		}
		for _, ev := range resp.Events {
			k := string(ev.Kv.Key)
			if ev.Kv.ModRevision > wt.maxRev {
				wt.maxRev = ev.Kv.ModRevision
			}
			if k == c18Sentinel {
				if ev.Type == clientv3.EventTypePut {
					if n, err := strconv.ParseInt(string(ev.Kv.Value), 10, 64); err == nil && n > wt.seen {
						wt.seen = n
					}
				}
				continue
			}
			e := c18Event{Key: k, ModRev: ev.Kv.ModRevision}
			if ev.Type == clientv3.EventTypeDelete {
				e.Type = "DELETE"
			} else {
				e.Type = "PUT"
				e.Value = string(ev.Kv.Value)
				e.Lease = ev.Kv.Lease
			}
			if ev.PrevKv != nil {
				e.HasPrev = true
				e.PrevValue = string(ev.PrevKv.Value)
				e.PrevLease = ev.PrevKv.Lease
			}
			wt.evs = append(wt.evs, e)
		}
		wt.cond.Broadcast()
		wt.mu.Unlock()
	}
	wt.mu.Lock()
	if wt.broken == "" {
		wt.broken = "watch channel closed"
	}
	wt.cond.Broadcast()
	wt.mu.Unlock()
}

// sync must run OUTSIDE the bubble. It writes the next sentinel value and
// returns every event the ordered watch stream delivered before it.
func (wt *c18Watch) sync(admin *clientv3.Client) ([]c18Event, error) {
	wt.mu.Lock()
	wt.next++
	n := wt.next
	wt.mu.Unlock()
	if _, err := admin.Put(context.Background(), c18Sentinel, strconv.FormatInt(n, 10)); err != nil {
		return nil, fmt.Errorf("sentinel put: %w", err)
	}
	tm := time.AfterFunc(60*time.Second, func() {
		wt.mu.Lock()
		wt.timedOut = true
		wt.cond.Broadcast()
		wt.mu.Unlock()
	})
	defer tm.Stop()
	wt.mu.Lock()
	defer wt.mu.Unlock()
	for wt.seen < n && !wt.timedOut && wt.broken == "" {
		wt.cond.Wait()
	}
	if wt.broken != "" {
		return nil, errors.New("watch broken: " + wt.broken)
	}
	if wt.seen < n {
		return nil, errors.New("watchdog: sentinel not observed within 60s")
	}
	out := wt.evs
	wt.evs = nil
	return out, nil
}

// waitRev (OUTSIDE the bubble) returns every event up to store revision rev. Every revision of this etcd
// is a write under /kafscale/ (lease keys and the sentinel), so the stream carries an event for each one;
// rev is the header revision of the response to the request executed in this step, which is >= the
// revision of that request's own write.
func (wt *c18Watch) waitRev(rev int64) ([]c18Event, error) {
	tm := time.AfterFunc(60*time.Second, func() {
		wt.mu.Lock()
		wt.timedOut = true
		wt.cond.Broadcast()
		wt.mu.Unlock()
	})
	defer tm.Stop()
	wt.mu.Lock()
	defer wt.mu.Unlock()
	for wt.maxRev < rev && !wt.timedOut && wt.broken == "" {
		wt.cond.Wait()
	}
	if wt.broken != "" {
		return nil, errors.New("watch broken: " + wt.broken)
	}
	if wt.maxRev < rev {
		return nil, fmt.Errorf("watchdog: revision %d not observed within 60s", rev)
	}
	out := wt.evs
	wt.evs = nil
	return out, nil
}

// ---------------------------------------------------------------------------
// environment shared by all cases of one test process

type c18Env struct {
	t     *testing.T
	r     *verifkit.Run
	out   *c18Outside
	admin *clientv3.Client
	real  []*clientv3.Client // one real connection per broker slot (+1 for the probe)
	watch *c18Watch
	wcanc context.CancelFunc
	seq   int
}

func newC18Env(t *testing.T, r *verifkit.Run) *c18Env {
	// keep etcd's data dir and /tmp/etcd-test-*.log inside the per-run scratch dir
	if s := os.Getenv("VERIF_SCRATCH"); s != "" {
		d := s + "/c18-tmp"
		if err := os.MkdirAll(d, 0o755); err == nil {
			os.Setenv("TMPDIR", d)
		}
	}
	endpoints := c18StartEtcd(t)
	mk := func() *clientv3.Client {
		cli, err := clientv3.New(clientv3.Config{Endpoints: endpoints, DialTimeout: 5 * time.Second})
		if err != nil {
			t.Fatalf("c18: etcd client: %v", err)
		}
		t.Cleanup(func() { _ = cli.Close() })
		return cli
	}
	e := &c18Env{t: t, r: r, out: newC18Outside(64), admin: mk()}
	for i := 0; i < 5; i++ {
		e.real = append(e.real, mk())
	}
	ctx, cancel := context.WithTimeout(context.Background(), 30*time.Second)
	g, err := e.admin.Get(ctx, c18Sentinel)
	cancel()
	if err != nil {
		t.Fatalf("c18: initial get: %v", err)
	}
	wctx, wcancel := context.WithCancel(context.Background())
	e.wcanc = wcancel
	e.watch = &c18Watch{}
	e.watch.cond = sync.NewCond(&e.watch.mu)
	wch := e.admin.Watch(wctx, "/kafscale/", clientv3.WithPrefix(), clientv3.WithPrevKV(), clientv3.WithRev(g.Header.Revision+1))
	go e.watch.loop(wch)
	if _, err := e.watch.sync(e.admin); err != nil {
		t.Fatalf("c18: watch did not come up: %v", err)
	}
	return e
}

// c18StartEtcd is testutil.StartEmbeddedEtcd (same single-node embed server, random loopback
// ports) with UnsafeNoFsync: a case never restarts etcd, so WAL fsyncs only cost time (they were
// ~70% of a step). Falls back to the repo's helper if that fails.
func c18StartEtcd(t *testing.T) []string {
	for attempt := 0; attempt < 4; attempt++ {
		cfg := embed.NewConfig()
		cfg.Dir = t.TempDir()
		cfg.Logger = "zap"
		cfg.LogLevel = "error"
		cfg.LogOutputs = []string{filepath.Join(cfg.Dir, "etcd.log")}
		cfg.UnsafeNoFsync = true
		cfg.BackendBatchInterval = 2 * time.Second // fewer bbolt commits (reads are served from the write buffer)
		cfg.BackendBatchLimit = 100000
		port := func() int {
			ln, err := net.Listen("tcp", "127.0.0.1:0")
			if err != nil {
				t.Fatalf("c18: free port: %v", err)
			}
			defer ln.Close()
			return ln.Addr().(*net.TCPAddr).Port
		}
		cu, _ := url.Parse(fmt.Sprintf("http://127.0.0.1:%d", port()))
		pu, _ := url.Parse(fmt.Sprintf("http://127.0.0.1:%d", port()))
		cfg.ListenClientUrls, cfg.AdvertiseClientUrls = []url.URL{*cu}, []url.URL{*cu}
		cfg.ListenPeerUrls, cfg.AdvertisePeerUrls = []url.URL{*pu}, []url.URL{*pu}
		cfg.InitialCluster = cfg.InitialClusterFromName(cfg.Name)
		e, err := embed.StartEtcd(cfg)
		if err != nil {
			time.Sleep(100 * time.Millisecond)
			continue
		}
		select {
		case <-e.Server.ReadyNotify():
		case <-time.After(20 * time.Second):
			e.Server.Stop()
			continue
		}
		t.Cleanup(func() { e.Close() })
		return []string{"http://" + e.Clients[0].Addr().String()}
	}
	return testutil.StartEmbeddedEtcd(t)
}

func (e *c18Env) close() {
	e.wcanc()
	close(e.out.req)
}

// ---------------------------------------------------------------------------
// world of one case

const (
	c18OK = iota
	c18FailBefore
	c18FailAfter
	c18Abort
	c18OKDelayed // the request takes effect now; its response reaches the caller at a later step
)

var c18OutcomeName = []string{"ok", "fail_before_effect", "fail_after_effect", "abort", "ok_effect_now_response_later"}

var (
	errC18Injected      = errors.New("verif-injected: etcdserver: request timed out (no effect)")
	errC18InjectedAfter = errors.New("verif-injected: context deadline exceeded (response lost after effect)")
	errC18Closed        = errors.New("verif: etcd client closed / process gone: context canceled")
)

type c18Mgr interface {
	Acquire(ctx context.Context, res int) error
	Release(res int)
	ReleaseAll()
	Owns(res int) bool
}

type c18PartMgr struct {
	m     *PartitionLeaseManager
	topic string
}

func (p c18PartMgr) Acquire(ctx context.Context, res int) error {
	return p.m.Acquire(ctx, p.topic, int32(res))
}
func (p c18PartMgr) Release(res int)   { p.m.Release(p.topic, int32(res)) }
func (p c18PartMgr) ReleaseAll()       { p.m.ReleaseAll() }
func (p c18PartMgr) Owns(res int) bool { return p.m.Owns(p.topic, int32(res)) }

type c18GroupMgr struct {
	m      *GroupLeaseManager
	prefix string
}

func (g c18GroupMgr) gid(res int) string { return fmt.Sprintf("%s%d", g.prefix, res) }
func (g c18GroupMgr) Acquire(ctx context.Context, res int) error {
	return g.m.Acquire(ctx, g.gid(res))
}
func (g c18GroupMgr) Release(res int)   { g.m.Release(g.gid(res)) }
func (g c18GroupMgr) ReleaseAll()       { g.m.ReleaseAll() }
func (g c18GroupMgr) Owns(res int) bool { return g.m.Owns(g.gid(res)) }

type c18Lease struct {
	id         clientv3.LeaseID
	label      string // L1, L2 … in grant order (stable across runs)
	owner      *c18Node
	serverDead bool // revoked (by the harness = expiry, or by the manager itself)
	hasKA      bool
	noticed    bool // keep-alive channel closed
	noticeLog  bool // the lock history has its notice event
	inPrefix   bool // enum leg: granted during the program's fixed prefix
	ch         chan *clientv3.LeaseKeepAliveResponse
	stop       chan struct{}
	stopOnce   sync.Once
}

type c18Node struct {
	w       *c18World
	idx     int
	id      string
	inst    int
	real    *clientv3.Client
	cli     *clientv3.Client // NewCtxClient with wrapped KV/Lease: what the manager sees
	mgr     c18Mgr
	auto    bool // probe node: not gated
	closed  bool // client closed
	crashed bool
	shut    bool // ReleaseAll was called on this instance
	// superseded: the broker was restarted (a new manager with the same broker id runs) while this
	// incarnation is still winding down: it starts no new Acquire, but its Release/ReleaseAll calls, its
	// parked etcd requests, its session and its client keep working until closed / expired
	superseded bool
	lastRev    int64
}

func (n *c18Node) name() string {
	if n.inst == 0 {
		return n.id
	}
	return fmt.Sprintf("%s#%d", n.id, n.inst)
}

type c18Gate struct {
	node    *c18Node
	kind    string // grant | revoke | txn | delete | get | put | do
	desc    string
	deletes bool
	ch      chan int
	result  string
	rev     int64 // header revision of the response (0: none / unknown -> sentinel round trip)
}

type c18Actor struct {
	node    *c18Node
	kind    string // acquire | release | release_all
	res     int
	done    bool
	err     error
	panicv  any
	call    int
	ret     int
	stamped bool
	claim   string // label of the lease under which this broker's latest PUT on the resource was made, at return time
}

type c18Step struct {
	N       int               `json:"n"`
	Kind    string            `json:"kind"`
	Node    string            `json:"node,omitempty"`
	Desc    string            `json:"desc,omitempty"`
	Outcome string            `json:"outcome,omitempty"`
	Result  string            `json:"result,omitempty"`
	Events  []string          `json:"events,omitempty"`
	Returns []string          `json:"returns,omitempty"`
	Owns    map[string]string `json:"owns,omitempty"`
	Etcd    map[string]string `json:"etcd,omitempty"`
}

type c18KVState struct {
	value string
	lease int64
}

type c18World struct {
	e       *c18Env
	r       *verifkit.Run
	flavour string
	tag     string // unique per case: makes the etcd keys of this case unique
	nres    int
	keys    []string       // etcd key per resource, from the statement's key layout
	keyRes  map[string]int // reverse
	ids     []string

	mu      sync.Mutex
	nodes   []*c18Node
	gone    []*c18Node
	linger  []*c18Node // superseded incarnations that are still running, oldest first
	probe   *c18Node
	pending []*c18Gate
	actors  []*c18Actor
	leases  []*c18Lease
	byID    map[clientv3.LeaseID]*c18Lease

	steps    []c18Step
	shadow   map[int]c18KVState
	lastPut  map[int]map[string]int64 // resource -> broker id -> lease of its latest PUT
	putters  map[int]map[string]bool
	violated bool
	trouble  string
	ending   bool

	// coverage of this case
	nExpire, nNotice, nRelease, nRestart, nClose, nFault, nReacq int
	staleWindows, handovers, probes, nSync                       int
	lockEvs                                                      []c18LEv
	curExpire                                                    *c18Lease
	curRev                                                       int64
	nRevWait                                                     int
	curEligible                                                  bool
	nBatch, nDelayed                                             int
	nRespawn, nOldOps, takeovers, oldOpsAfterTakeover            int
	mode                                                         string
}

func (e *c18Env) newWorld(flavour, mode string, nres int) *c18World {
	e.seq++
	w := &c18World{e: e, r: e.r, flavour: flavour, mode: mode, nres: nres, tag: fmt.Sprintf("c18x%dx", e.seq),
		keyRes: map[string]int{}, byID: map[clientv3.LeaseID]*c18Lease{}, shadow: map[int]c18KVState{},
		lastPut: map[int]map[string]int64{}, putters: map[int]map[string]bool{},
		ids: []string{"A", "B", "C"}}
	for i := 0; i < nres; i++ {
		var k string
		if flavour == "partition" {
			// statement/anchors: /kafscale/partition-leases/<t>/<p>
			k = fmt.Sprintf("/kafscale/partition-leases/%s/%d", w.tag, i)
		} else {
			k = fmt.Sprintf("/kafscale/group-leases/%s%d", w.tag, i)
		}
		w.keys = append(w.keys, k)
		w.keyRes[k] = i
	}
	for i := range w.ids {
		w.nodes = append(w.nodes, w.newNode(i, 0, false))
	}
	return w
}

var c18Discard = slog.New(slog.NewTextHandler(io.Discard, nil))

func (w *c18World) newNode(idx, inst int, auto bool) *c18Node {
	n := &c18Node{w: w, idx: idx, inst: inst, auto: auto}
	if auto {
		n.id = "P"
		n.real = w.e.real[len(w.e.real)-1]
	} else {
		n.id = w.ids[idx]
		n.real = w.e.real[idx]
	}
	// A context client: exactly the struct the manager is written against, with no
	// connection of its own. Its ctx is created inside the bubble, so Close() (the
	// CloseClient step) cancels sessions the way a real client's Close does.
	n.cli = clientv3.NewCtxClient(context.Background())
	n.cli.KV = &c18KV{n: n}
	n.cli.Lease = &c18LeaseAPI{n: n}
	const ttl = 3600 // never expires by itself within a case; expiry is a scheduler step
	if w.flavour == "partition" {
		n.mgr = c18PartMgr{m: NewPartitionLeaseManager(n.cli, PartitionLeaseConfig{BrokerID: n.id, LeaseTTLSeconds: ttl, Logger: c18Discard}), topic: w.tag}
	} else {
		n.mgr = c18GroupMgr{m: NewGroupLeaseManager(n.cli, GroupLeaseConfig{BrokerID: n.id, LeaseTTLSeconds: ttl, Logger: c18Discard}), prefix: w.tag}
	}
	return n
}

// label replaces case-unique strings by stable ones (for signatures / witnesses).
func (w *c18World) label(s string) string {
	for i, k := range w.keys {
		s = strings.ReplaceAll(s, k, fmt.Sprintf("r%d", i))
	}
	return s
}

func (w *c18World) leaseLabel(id int64) string {
	if id == 0 {
		return "-"
	}
	w.mu.Lock()
	defer w.mu.Unlock()
	if l := w.byID[clientv3.LeaseID(id)]; l != nil {
		return l.label
	}
	return fmt.Sprintf("L?%x", id)
}

// noteRev is called from inside an exec closure (outside the bubble, one request in flight per node step).
func (n *c18Node) noteRev(rev int64) {
	n.w.mu.Lock()
	n.lastRev = rev
	n.w.mu.Unlock()
}

// gated is the boundary every etcd request of a manager passes through.
func (n *c18Node) gated(kind, desc string, deletes bool, exec func(ctx context.Context) (string, error)) error {
	w := n.w
	w.mu.Lock()
	closed, ending := n.closed, w.ending
	w.mu.Unlock()
	if closed || (ending && !n.auto) {
		return errC18Closed
	}
	outcome := c18OK
	var g *c18Gate
	if !n.auto {
		g = &c18Gate{node: n, kind: kind, desc: w.label(desc), deletes: deletes, ch: make(chan int, 1)}
		w.mu.Lock()
		w.pending = append(w.pending, g)
		w.mu.Unlock()
		outcome = <-g.ch // durably blocked: this is where the scheduler sees the operation
	}
	switch outcome {
	case c18FailBefore:
		return errC18Injected
	case c18Abort:
		return errC18Closed
	}
	var err error
	var res string
	w.mu.Lock()
	n.lastRev = 0
	w.mu.Unlock()
	// context.Background(): with a cancellable context gRPC starts one more goroutine per call, which is
	// expensive under the race detector; a hung etcd is caught by the leg's go-test timeout (exit 3)
	w.e.out.do(func() { res, err = exec(context.Background()) })
	if g != nil {
		w.mu.Lock()
		g.rev = n.lastRev
		if err != nil {
			g.result = "error: " + err.Error()
		} else {
			g.result = res
		}
		w.mu.Unlock()
	}
	if outcome == c18FailAfter {
		return errC18InjectedAfter
	}
	if outcome == c18OKDelayed {
		g2 := &c18Gate{node: n, kind: "resp", desc: "response of " + g.desc, ch: make(chan int, 1)}
		w.mu.Lock()
		w.pending = append(w.pending, g2)
		w.mu.Unlock()
		if o2 := <-g2.ch; o2 == c18Abort {
			return errC18Closed
		}
	}
	return err
}

// ---- KV wrapper

type c18KV struct{ n *c18Node }

func (k *c18KV) Put(ctx context.Context, key, val string, opts ...clientv3.OpOption) (*clientv3.PutResponse, error) {
	var resp *clientv3.PutResponse
	err := k.n.gated("put", fmt.Sprintf("put(%s=%s)", key, val), false, func(ctx context.Context) (string, error) {
		var e error
		resp, e = k.n.real.KV.Put(ctx, key, val, opts...)
		if e == nil {
			k.n.noteRev(resp.Header.Revision)
		}
		return "ok", e
	})
	if err != nil {
		return nil, err
	}
	return resp, nil
}

func (k *c18KV) Get(ctx context.Context, key string, opts ...clientv3.OpOption) (*clientv3.GetResponse, error) {
	var resp *clientv3.GetResponse
	err := k.n.gated("get", fmt.Sprintf("get(%s)", key), false, func(ctx context.Context) (string, error) {
		var e error
		resp, e = k.n.real.KV.Get(ctx, key, opts...)
		return "ok", e
	})
	if err != nil {
		return nil, err
	}
	return resp, nil
}

func (k *c18KV) Delete(ctx context.Context, key string, opts ...clientv3.OpOption) (*clientv3.DeleteResponse, error) {
	var resp *clientv3.DeleteResponse
	err := k.n.gated("delete", fmt.Sprintf("delete(%s)", key), true, func(ctx context.Context) (string, error) {
		var e error
		resp, e = k.n.real.KV.Delete(ctx, key, opts...)
		if e != nil {
			return "", e
		}
		k.n.noteRev(resp.Header.Revision)
		return fmt.Sprintf("deleted=%d", resp.Deleted), nil
	})
	if err != nil {
		return nil, err
	}
	return resp, nil
}

func (k *c18KV) Compact(ctx context.Context, rev int64, opts ...clientv3.CompactOption) (*clientv3.CompactResponse, error) {
	return nil, errors.New("verif: Compact not expected from a lease manager")
}

func (k *c18KV) Do(ctx context.Context, op clientv3.Op) (clientv3.OpResponse, error) {
	var resp clientv3.OpResponse
	err := k.n.gated("do", "do("+c18DescribeOp(op)+")", op.IsDelete(), func(ctx context.Context) (string, error) {
		var e error
		resp, e = k.n.real.KV.Do(ctx, op)
		return "ok", e
	})
	return resp, err
}

func (k *c18KV) Txn(ctx context.Context) clientv3.Txn { return &c18Txn{n: k.n} }

type c18Txn struct {
	n     *c18Node
	cmps  []clientv3.Cmp
	thens []clientv3.Op
	elses []clientv3.Op
}

func (t *c18Txn) If(cs ...clientv3.Cmp) clientv3.Txn   { t.cmps = append(t.cmps, cs...); return t }
func (t *c18Txn) Then(ops ...clientv3.Op) clientv3.Txn { t.thens = append(t.thens, ops...); return t }
func (t *c18Txn) Else(ops ...clientv3.Op) clientv3.Txn { t.elses = append(t.elses, ops...); return t }

func c18DescribeOp(op clientv3.Op) string {
	switch {
	case op.IsPut():
		return fmt.Sprintf("put(%s=%s)", op.KeyBytes(), op.ValueBytes())
	case op.IsDelete():
		return fmt.Sprintf("delete(%s)", op.KeyBytes())
	case op.IsGet():
		return fmt.Sprintf("get(%s)", op.KeyBytes())
	case op.IsTxn():
		return "txn(...)"
	}
	return "op"
}

func c18DescribeCmp(c clientv3.Cmp) string {
	p := pb.Compare(c)
	tgt := map[pb.Compare_CompareTarget]string{pb.Compare_VERSION: "version", pb.Compare_CREATE: "createRev", pb.Compare_MOD: "modRev", pb.Compare_VALUE: "value", pb.Compare_LEASE: "lease"}[p.Target]
	rel := map[pb.Compare_CompareResult]string{pb.Compare_EQUAL: "=", pb.Compare_NOT_EQUAL: "!=", pb.Compare_GREATER: ">", pb.Compare_LESS: "<"}[p.Result]
	var v string
	switch u := p.TargetUnion.(type) {
	case *pb.Compare_Value:
		v = string(u.Value)
	case *pb.Compare_CreateRevision:
		v = strconv.FormatInt(u.CreateRevision, 10)
	case *pb.Compare_Version:
		v = strconv.FormatInt(u.Version, 10)
	case *pb.Compare_ModRevision:
		v = "<rev>"
	case *pb.Compare_Lease:
		v = "<lease>"
	}
	return fmt.Sprintf("%s(%s)%s%s", tgt, p.Key, rel, v)
}

func (t *c18Txn) Commit() (*clientv3.TxnResponse, error) {
	var parts []string
	deletes := false
	for _, c := range t.cmps {
		parts = append(parts, c18DescribeCmp(c))
	}
	d := "txn[if " + strings.Join(parts, "&") + " then"
	for _, o := range t.thens {
		d += " " + c18DescribeOp(o)
		deletes = deletes || o.IsDelete()
	}
	if len(t.elses) > 0 {
		d += " else"
		for _, o := range t.elses {
			d += " " + c18DescribeOp(o)
			deletes = deletes || o.IsDelete()
		}
	}
	d += "]"
	var resp *clientv3.TxnResponse
	err := t.n.gated("txn", d, deletes, func(ctx context.Context) (string, error) {
		var e error
		resp, e = t.n.real.KV.Txn(ctx).If(t.cmps...).Then(t.thens...).Else(t.elses...).Commit()
		if e != nil {
			return "", e
		}
		t.n.noteRev(resp.Header.Revision)
		return fmt.Sprintf("succeeded=%v", resp.Succeeded), nil
	})
	if err != nil {
		return nil, err
	}
	return resp, nil
}

// ---- Lease wrapper

type c18LeaseAPI struct{ n *c18Node }

func (l *c18LeaseAPI) Grant(ctx context.Context, ttl int64) (*clientv3.LeaseGrantResponse, error) {
	var resp *clientv3.LeaseGrantResponse
	n := l.n
	err := n.gated("grant", "grant", false, func(ctx context.Context) (string, error) {
		var e error
		resp, e = n.real.Lease.Grant(ctx, ttl)
		if e != nil {
			return "", e
		}
		w := n.w
		w.mu.Lock()
		ls := &c18Lease{id: resp.ID, owner: n, label: fmt.Sprintf("L%d", len(w.leases)+1)}
		w.leases = append(w.leases, ls)
		w.byID[resp.ID] = ls
		w.mu.Unlock()
		return ls.label, nil
	})
	if err != nil {
		return nil, err
	}
	return resp, nil
}

func (l *c18LeaseAPI) Revoke(ctx context.Context, id clientv3.LeaseID) (*clientv3.LeaseRevokeResponse, error) {
	var resp *clientv3.LeaseRevokeResponse
	n := l.n
	w := n.w
	w.mu.Lock()
	lbl := "?"
	if ls := w.byID[id]; ls != nil {
		lbl = ls.label
	}
	w.mu.Unlock()
	err := n.gated("revoke", "revoke("+lbl+")", true, func(ctx context.Context) (string, error) {
		var e error
		resp, e = n.real.Lease.Revoke(ctx, id)
		if e != nil {
			return "", e
		}
		w.mu.Lock()
		if ls := w.byID[id]; ls != nil {
			ls.serverDead = true
		}
		w.mu.Unlock()
		return "revoked", nil
	})
	if err != nil {
		return nil, err
	}
	return resp, nil
}

// KeepAlive is faked at the boundary: no keep-alive traffic is needed (the TTL
// outlives the case) and the channel closes exactly when the real lessor would
// close it: the context is cancelled (Session.Orphan/Close, client Close) or the
// client learns that the lease is gone (scheduler step "notice").
func (l *c18LeaseAPI) KeepAlive(ctx context.Context, id clientv3.LeaseID) (<-chan *clientv3.LeaseKeepAliveResponse, error) {
	n := l.n
	w := n.w
	w.mu.Lock()
	if n.closed {
		w.mu.Unlock()
		return nil, errC18Closed
	}
	ls := w.byID[id]
	if ls == nil {
		ls = &c18Lease{id: id, owner: n, label: fmt.Sprintf("L%d", len(w.leases)+1)}
		w.leases = append(w.leases, ls)
		w.byID[id] = ls
	}
	if ls.hasKA {
		w.mu.Unlock()
		return nil, errors.New("verif: second KeepAlive on the same lease is not modelled")
	}
	ls.hasKA = true
	ls.ch = make(chan *clientv3.LeaseKeepAliveResponse)
	ls.stop = make(chan struct{})
	w.mu.Unlock()
	go func() {
		select {
		case <-ctx.Done():
		case <-ls.stop:
		}
		w.mu.Lock()
		ls.noticed = true
		w.mu.Unlock()
		close(ls.ch)
	}()
	return ls.ch, nil
}

func (l *c18LeaseAPI) TimeToLive(ctx context.Context, id clientv3.LeaseID, opts ...clientv3.LeaseOption) (*clientv3.LeaseTimeToLiveResponse, error) {
	return nil, errors.New("verif: TimeToLive not expected")
}
func (l *c18LeaseAPI) Leases(ctx context.Context) (*clientv3.LeaseLeasesResponse, error) {
	return nil, errors.New("verif: Leases not expected")
}
func (l *c18LeaseAPI) KeepAliveOnce(ctx context.Context, id clientv3.LeaseID) (*clientv3.LeaseKeepAliveResponse, error) {
	return nil, errors.New("verif: KeepAliveOnce not expected")
}
func (l *c18LeaseAPI) Close() error { return nil }

// ---------------------------------------------------------------------------
// scheduler steps

func (w *c18World) live() []*c18Node {
	var out []*c18Node
	for _, n := range w.nodes {
		if !n.crashed {
			out = append(out, n)
		}
	}
	return out
}

func (w *c18World) pendingOf(n *c18Node) []*c18Gate {
	w.mu.Lock()
	defer w.mu.Unlock()
	var out []*c18Gate
	for _, g := range w.pending {
		if g.node == n {
			out = append(out, g)
		}
	}
	return out
}

func (w *c18World) allPending() []*c18Gate {
	w.mu.Lock()
	defer w.mu.Unlock()
	var out []*c18Gate
	for _, g := range w.pending {
		if !g.node.crashed {
			out = append(out, g)
		}
	}
	return out
}

func (w *c18World) running(n *c18Node) int {
	w.mu.Lock()
	defer w.mu.Unlock()
	c := 0
	for _, a := range w.actors {
		if a.node == n && !a.done {
			c++
		}
	}
	return c
}

func (w *c18World) ok() bool { return !w.violated && w.trouble == "" }

func (w *c18World) startOp(n *c18Node, kind string, res int) bool {
	a := &c18Actor{node: n, kind: kind, res: res, call: len(w.steps) + 1}
	w.mu.Lock()
	w.actors = append(w.actors, a)
	if kind == "release_all" {
		n.shut = true
	}
	w.mu.Unlock()
	if kind == "release" || kind == "release_all" {
		w.nRelease++
	}
	if n.superseded {
		w.nOldOps++
		if w.takeovers > 0 {
			w.oldOpsAfterTakeover++
		}
	}
	go func() {
		var err error
		defer func() {
			p := recover()
			w.mu.Lock()
			a.done, a.err, a.panicv = true, err, p
			w.mu.Unlock()
		}()
		switch kind {
		case "acquire":
			err = n.mgr.Acquire(context.Background(), res)
		case "release":
			n.mgr.Release(res)
		case "release_all":
			n.mgr.ReleaseAll()
		}
	}()
	d := kind
	if kind != "release_all" {
		d = fmt.Sprintf("%s(r%d)", kind, res)
	}
	return w.after(c18Step{Kind: "start", Node: n.name(), Desc: d}, n)
}

func (w *c18World) releaseGate(g *c18Gate, outcome int) bool {
	w.mu.Lock()
	for i, p := range w.pending {
		if p == g {
			w.pending = append(w.pending[:i], w.pending[i+1:]...)
			break
		}
	}
	w.mu.Unlock()
	if outcome == c18OKDelayed {
		if g.kind == "resp" {
			outcome = c18OK
		} else {
			w.nDelayed++
		}
	} else if outcome != c18OK {
		w.nFault++
	}
	g.ch <- outcome
	st := c18Step{Kind: "etcd:" + g.kind, Node: g.node.name(), Desc: g.desc, Outcome: c18OutcomeName[outcome]}
	synctest.Wait()
	w.mu.Lock()
	st.Result = g.result
	w.mu.Unlock()
	if strings.Contains(g.desc, "value(") && g.kind == "txn" && outcome == c18OK {
		w.nReacq++
	}
	return w.afterGate(st, g)
}

// noticeAndGate makes two things happen in the same instant: the keep-alive channel of ls closes
// (Session.Done fires) and a parked request/response of the same broker is released. Which of the
// woken goroutines gets the manager's lock first is left to the Go scheduler.
func (w *c18World) noticeAndGate(ls *c18Lease, g *c18Gate, outcome int) bool {
	w.mu.Lock()
	for i, p := range w.pending {
		if p == g {
			w.pending = append(w.pending[:i], w.pending[i+1:]...)
			break
		}
	}
	w.mu.Unlock()
	w.nNotice++
	w.nBatch++
	ls.stopOnce.Do(func() { close(ls.stop) })
	g.ch <- outcome
	st := c18Step{Kind: "notice||etcd:" + g.kind, Node: g.node.name(), Desc: "keep-alive channel of " + ls.label + " closes at the same instant as: " + g.desc, Outcome: c18OutcomeName[outcome]}
	synctest.Wait()
	w.mu.Lock()
	st.Result = g.result
	w.mu.Unlock()
	return w.afterGate(st, g)
}

func (w *c18World) expire(ls *c18Lease) bool {
	var err error
	w.e.out.do(func() {
		ctx, cancel := context.WithTimeout(context.Background(), 30*time.Second)
		defer cancel()
		_, err = w.e.admin.Revoke(ctx, ls.id)
	})
	if err != nil {
		w.trouble = "harness revoke failed: " + err.Error()
		return false
	}
	w.mu.Lock()
	ls.serverDead = true
	w.curExpire, w.curEligible = ls, ls.hasKA && !ls.noticed
	w.mu.Unlock()
	w.nExpire++
	defer func() { w.curExpire = nil }()
	return w.afterCause(c18Step{Kind: "expire", Node: ls.owner.name(), Desc: "server-side expiry of " + ls.label}, ls.owner, "expire")
}

func (w *c18World) notice(ls *c18Lease) bool {
	ls.stopOnce.Do(func() { close(ls.stop) })
	w.nNotice++
	early := ""
	w.mu.Lock()
	if !ls.serverDead {
		early = " (while the lease is still alive on the server)"
	}
	w.mu.Unlock()
	return w.after(c18Step{Kind: "notice", Node: ls.owner.name(), Desc: "keep-alive channel of " + ls.label + " closes" + early}, ls.owner)
}

// restart: the old instance is gone (a crashed process: whatever it had pending
// never executes, its beliefs no longer count); a new manager with the same
// broker id starts on a new client.
func (w *c18World) restart(idx int) bool {
	old := w.nodes[idx]
	w.mu.Lock()
	old.crashed = true
	w.mu.Unlock()
	w.gone = append(w.gone, old)
	nn := w.newNode(idx, old.inst+1, false)
	w.nodes[idx] = nn
	w.nRestart++
	t := int64(len(w.steps)+1) * 10
	w.lockEvs = append(w.lockEvs, c18LEv{res: -1, in: c18LIn{Kind: "gone", Node: old.name()}, call: t + 1, ret: t + 4})
	return w.after(c18Step{Kind: "restart", Node: nn.name(), Desc: "old instance " + old.name() + " is gone; new manager, same broker id"}, nn)
}

// acquiring: Acquire calls of n that have not returned yet.
func (w *c18World) acquiring(n *c18Node) int {
	w.mu.Lock()
	defer w.mu.Unlock()
	c := 0
	for _, a := range w.actors {
		if a.node == n && !a.done && a.kind == "acquire" {
			c++
		}
	}
	return c
}

// respawn: the broker is restarted while its old process is still winding down. A new manager with the same
// broker id starts on a new client (own etcd session); the old incarnation stays alive: what it has parked
// still executes, it may still call Release / ReleaseAll, close its client, and its lease lives on until it
// is revoked or expires. From here on the NEW incarnation is "the broker": the old one's Owns() is audited
// only for claims that no later incarnation has taken over (see claimOwn). The caller makes sure the old
// incarnation has no Acquire in flight (an incarnation that is winding down does not take leases).
func (w *c18World) respawn(idx int) bool {
	old := w.nodes[idx]
	w.mu.Lock()
	old.superseded = true
	w.mu.Unlock()
	w.linger = append(w.linger, old)
	nn := w.newNode(idx, old.inst+1, false)
	w.nodes[idx] = nn
	w.nRestart++
	w.nRespawn++
	t := int64(len(w.steps)+1) * 10
	w.lockEvs = append(w.lockEvs, c18LEv{res: -1, in: c18LIn{Kind: "gone", Node: old.name()}, call: t + 1, ret: t + 4})
	return w.after(c18Step{Kind: "respawn", Node: nn.name(), Desc: "new manager, same broker id; old incarnation " + old.name() + " keeps running (winding down: no new Acquire)"}, nn)
}

// claimOwn: the latest PUT on res that carries n's broker id was made under a lease of THIS incarnation, i.e. no
// other incarnation of the same broker id has re-attached the key since.
func (n *c18Node) claimOwn(res int) bool {
	w := n.w
	l, ok := w.lastPut[res][n.id]
	if !ok {
		return false
	}
	w.mu.Lock()
	defer w.mu.Unlock()
	ls := w.byID[clientv3.LeaseID(l)]
	return ls != nil && ls.owner == n
}

func (w *c18World) closeClient(n *c18Node) bool {
	w.mu.Lock()
	n.closed = true
	w.mu.Unlock()
	_ = n.cli.Close() // cancels the client ctx (inside the bubble): sessions end as with a real Close
	for _, g := range w.pendingOf(n) {
		w.mu.Lock()
		for i, p := range w.pending {
			if p == g {
				w.pending = append(w.pending[:i], w.pending[i+1:]...)
				break
			}
		}
		w.mu.Unlock()
		g.ch <- c18Abort
	}
	w.nClose++
	return w.after(c18Step{Kind: "close_client", Node: n.name()}, n)
}

// ---------------------------------------------------------------------------
// observation + oracles, run at every quiescent point

func (w *c18World) after(st c18Step, by *c18Node) bool {
	return w.afterCause(st, by, "")
}

func (w *c18World) afterGate(st c18Step, g *c18Gate) bool {
	cause := g.kind
	if g.deletes && g.kind == "txn" {
		cause = "txn-delete"
	}
	w.mu.Lock()
	w.curRev = 0
	if cause == "txn" || cause == "txn-delete" || cause == "delete" || cause == "put" {
		w.curRev = g.rev
	}
	w.mu.Unlock()
	defer func() { w.curRev = 0 }()
	return w.afterCause(st, g.node, cause)
}

// excusable: n's belief that it owns res is the window inherent to any lease protocol — the etcd lease
// under which n's claim on res was written (lease of the latest PUT event on the key with n's id as value,
// as seen by the watch) has expired on the server and n has not been told yet (its keep-alive channel is
// still open). A belief resting on a session whose loss n has already been told about is NOT excused.
func (n *c18Node) excusable(res int) bool {
	w := n.w
	l, ok := w.lastPut[res][n.id]
	if !ok {
		return false
	}
	w.mu.Lock()
	defer w.mu.Unlock()
	ls := w.byID[clientv3.LeaseID(l)]
	return ls != nil && ls.owner == n && ls.serverDead && ls.hasKA && !ls.noticed
}

func (w *c18World) afterCause(st c18Step, by *c18Node, cause string) bool {
	synctest.Wait()
	st.N = len(w.steps) + 1
	var evs []c18Event
	var err error
	// only a request that reached etcd (or an expiry) can have produced events; every such step is
	// followed by a sentinel round trip, so events are attributed to exactly this step
	if cause != "" && cause != "grant" && cause != "get" && cause != "resp" && st.Outcome != c18OutcomeName[c18FailBefore] {
		if rev := w.curRev; rev > 0 {
			w.e.out.do(func() { evs, err = w.e.watch.waitRev(rev) })
			w.nRevWait++
		} else {
			w.e.out.do(func() { evs, err = w.e.watch.sync(w.e.admin) })
			w.nSync++
		}
	}
	if err != nil {
		w.trouble = err.Error()
		w.steps = append(w.steps, st)
		return false
	}
	// returns of client operations
	w.mu.Lock()
	for _, a := range w.actors {
		if a.done && !a.stamped {
			a.stamped = true
			a.ret = st.N
			res := "ok"
			if a.err != nil {
				res = a.err.Error()
			}
			if a.panicv != nil {
				res = fmt.Sprintf("PANIC %v", a.panicv)
			}
			d := a.kind
			if a.kind != "release_all" {
				d = fmt.Sprintf("%s(r%d)", a.kind, a.res)
			}
			st.Returns = append(st.Returns, fmt.Sprintf("%s.%s -> %s", a.node.name(), d, res))
		}
	}
	w.mu.Unlock()
	type foreign struct {
		ev  c18Event
		res int
	}
	var foreignDeletes []foreign
	for _, ev := range evs {
		res, mine := w.keyRes[ev.Key]
		if !mine {
			if strings.Contains(ev.Key, w.tag) {
				w.trouble = "event on an unexpected key of this case: " + ev.Key
			}
			continue // another case's leftovers (revoked leases)
		}
		if ev.Type == "PUT" {
			st.Events = append(st.Events, fmt.Sprintf("PUT r%d=%s lease=%s prev=%s", res, ev.Value, w.leaseLabel(ev.Lease), c18Prev(ev)))
			w.shadow[res] = c18KVState{value: ev.Value, lease: ev.Lease}
			if w.lastPut[res] == nil {
				w.lastPut[res] = map[string]int64{}
				w.putters[res] = map[string]bool{}
			}
			if pl, ok := w.lastPut[res][ev.Value]; ok && ev.HasPrev && ev.PrevValue == ev.Value {
				w.mu.Lock()
				a, b := w.byID[clientv3.LeaseID(pl)], w.byID[clientv3.LeaseID(ev.Lease)]
				if a != nil && b != nil && a.owner != b.owner {
					w.takeovers++ // the key went from one incarnation of a broker id to another one
				}
				w.mu.Unlock()
			}
			w.lastPut[res][ev.Value] = ev.Lease
			if !w.putters[res][ev.Value] {
				w.putters[res][ev.Value] = true
				if len(w.putters[res]) > 1 {
					w.handovers++
				}
			}
		} else {
			st.Events = append(st.Events, fmt.Sprintf("DELETE r%d prev=%s", res, c18Prev(ev)))
			delete(w.shadow, res)
			if ev.HasPrev && by != nil && ev.PrevValue != by.id {
				foreignDeletes = append(foreignDeletes, foreign{ev, res})
			}
		}
	}
	w.mu.Lock()
	for _, a := range w.actors {
		if a.stamped && a.ret == st.N && a.kind == "acquire" {
			a.claim = "-"
			if l, ok := w.lastPut[a.res][a.node.id]; ok {
				if ls := w.byID[clientv3.LeaseID(l)]; ls != nil && ls.owner == a.node {
					a.claim = ls.label
				}
			}
		}
	}
	w.mu.Unlock()
	// observe beliefs
	st.Owns = map[string]string{}
	st.Etcd = map[string]string{}
	believers := make([][]*c18Node, w.nres)
	for res := 0; res < w.nres; res++ {
		var names []string
		for _, n := range w.live() {
			if n.mgr.Owns(res) {
				believers[res] = append(believers[res], n)
				x := n.name()
				if n.excusable(res) {
					x += "(session expired, not yet noticed)"
				}
				names = append(names, x)
			}
		}
		for _, n := range w.linger {
			if n.crashed || !n.mgr.Owns(res) {
				continue
			}
			if n.claimOwn(res) {
				believers[res] = append(believers[res], n)
				x := n.name() + "(old incarnation)"
				if n.excusable(res) {
					x += "(session expired, not yet noticed)"
				}
				names = append(names, x)
			} else {
				names = append(names, n.name()+"(old incarnation; its key was taken over by a newer incarnation: not audited)")
			}
		}
		if w.probe != nil && w.probe.mgr.Owns(res) {
			believers[res] = append(believers[res], w.probe)
			names = append(names, "P")
		}
		if len(names) > 0 {
			st.Owns[fmt.Sprintf("r%d", res)] = strings.Join(names, ",")
		}
		if kv, ok := w.shadow[res]; ok {
			st.Etcd[fmt.Sprintf("r%d", res)] = kv.value + "/" + w.leaseLabel(kv.lease)
		}
	}
	w.steps = append(w.steps, st)
	w.recordLockEvents(st, evs, believers)

	// panic in the code under test
	w.mu.Lock()
	for _, a := range w.actors {
		if a.panicv != nil && !w.violated {
			w.violated = true
			w.mu.Unlock()
			w.r.Violation("panic_in_lease_manager", fmt.Sprintf("%s panicked: %v", a.kind, a.panicv), w.witness())
			return false
		}
	}
	w.mu.Unlock()

	// oracle (b): a release never removes a lease another broker has since acquired
	for _, f := range foreignDeletes {
		class := "foreign_key_deleted_by_" + strings.ReplaceAll(cause, "-", "_")
		switch cause {
		case "delete", "txn-delete", "do":
			class = "release_deletes_foreign_key"
			// narrow class of the known defect: the releasing broker's own claim on this
			// resource was made under a session that the server has already expired
			if l, ok := w.lastPut[f.res][by.id]; ok {
				w.mu.Lock()
				if ls := w.byID[clientv3.LeaseID(l)]; ls != nil && ls.serverDead {
					class = "stale_release_deletes_foreign_key"
				}
				w.mu.Unlock()
			}
		case "revoke":
			class = "release_all_deletes_foreign_key"
		case "expire":
			class = "lease_expiry_deletes_foreign_key"
		}
		w.violated = true
		w.r.Violation(class, fmt.Sprintf("[%s] step %d (%s %s by broker %s) deleted lease key r%d whose value named broker %s",
			w.flavour, st.N, st.Kind, st.Desc, by.id, f.res, f.ev.PrevValue), w.witness())
		return false
	}

	// oracle (a): two brokers both believe they own the same lease, and neither belief is the
	// inherent expired-but-not-yet-told window
	for res := 0; res < w.nres; res++ {
		var firm []*c18Node
		for _, n := range believers[res] {
			if !n.excusable(res) {
				firm = append(firm, n)
			}
		}
		if len(believers[res]) >= 2 && len(firm) < len(believers[res]) {
			w.staleWindows++
		}
		// two incarnations of ONE broker id are one broker (a restarted broker re-attaches its own key by design)
		var other *c18Node
		for _, n := range firm {
			if n.id != firm[0].id {
				other = n
				break
			}
		}
		if other != nil {
			w.violated = true
			w.r.Violation("dual_ownership", fmt.Sprintf("[%s] after step %d brokers %s and %s both own r%d and neither has an expired session",
				w.flavour, st.N, firm[0].name(), other.name(), res), w.witness())
			return false
		}
		// a firm believer whose key is absent from etcd: any other broker may acquire now. Extend the
		// schedule by exactly that (a further broker P acquires) to exhibit the two owners.
		if len(firm) >= 1 && firm[0] != w.probe {
			if _, present := w.shadow[res]; !present {
				if !w.probeAcquire(res, firm[0], st.N) {
					return false
				}
			}
		}
	}
	return w.trouble == ""
}

// ---- oracle (c): the acquire/release/expiry history is a valid per-resource lock history

type c18LIn struct {
	Kind     string // acq | rel | relall | gone | expire | notice | owns
	Node     string
	Lease    string // expire/notice: the lease; acq/owns: the lease under which the broker's claim on the resource was written
	Deleted  bool   // expire: the expiry removed this resource's key (the key was attached to the expired lease)
	Eligible bool   // expire: the broker had not been told (keep-alive channel open) => with Deleted: its belief in this resource becomes excusable
}
type c18LOut struct{ OK bool }
type c18LEv struct {
	res       int // -1: applies to every resource
	delRes    map[int]bool
	in        c18LIn
	out       c18LOut
	call, ret int64
}
type c18LState struct {
	Holder string
	Stale  string // sorted ",node:lease" entries: sessions expired on the server, broker not yet told
}

// staleClaim: the lease under which node's claim was written is expired on the server and node has not been told
func (s c18LState) staleClaim(node, lease string) bool {
	return strings.Contains(s.Stale+",", ","+node+":"+lease+",")
}

var c18LockModel = porcupine.Model{
	Init: func() any { return c18LState{} },
	Step: func(state, input, output any) (bool, any) {
		st, in, out := state.(c18LState), input.(c18LIn), output.(c18LOut)
		switch in.Kind {
		case "acq":
			if !out.OK {
				return true, st // failing is always safe
			}
			if st.staleClaim(in.Node, in.Lease) {
				// an expired-but-untold broker answers from its local map (its etcd writes are refused:
				// the lease is gone); that "success" is the excused belief, not a new hold on the lock
				return true, st
			}
			if st.Holder == "" || st.Holder == in.Node {
				st.Holder = in.Node
				return true, st
			}
			return false, st
		case "rel", "relall", "gone":
			if st.Holder == in.Node {
				st.Holder = ""
			}
			if in.Kind == "gone" {
				var keep []string
				for _, e := range strings.Split(st.Stale, ",") {
					if e != "" && !strings.HasPrefix(e, in.Node+":") {
						keep = append(keep, e)
					}
				}
				st.Stale = ""
				for _, e := range keep {
					st.Stale += "," + e
				}
			}
			return true, st
		case "expire":
			if in.Deleted && st.Holder == in.Node {
				st.Holder = ""
			}
			if in.Eligible {
				es := append(strings.Split(strings.TrimPrefix(st.Stale, ","), ","), in.Node+":"+in.Lease)
				sort.Strings(es)
				st.Stale = ""
				for _, e := range es {
					if e != "" {
						st.Stale += "," + e
					}
				}
			}
			return true, st
		case "notice":
			st.Stale = strings.TrimSuffix(strings.Replace(st.Stale+",", ","+in.Node+":"+in.Lease+",", ",", 1), ",")
			return true, st
		case "owns":
			if !out.OK {
				if st.Holder == in.Node {
					st.Holder = "" // the broker gave the lease up (release in progress, session loss noticed …)
				}
				return true, st
			}
			return st.Holder == in.Node || st.staleClaim(in.Node, in.Lease), st
		}
		return false, st
	},
	DescribeOperation: func(input, output any) string { return fmt.Sprintf("%+v -> %+v", input, output) },
}

func (w *c18World) recordLockEvents(st c18Step, evs []c18Event, believers [][]*c18Node) {
	t := int64(st.N) * 10
	if ls := w.curExpire; ls != nil && st.Kind == "expire" {
		del := map[int]bool{}
		for _, ev := range evs {
			if r, ok := w.keyRes[ev.Key]; ok && ev.Type == "DELETE" {
				del[r] = true
			}
		}
		w.lockEvs = append(w.lockEvs, c18LEv{res: -1, delRes: del, in: c18LIn{Kind: "expire", Node: ls.owner.name(), Lease: ls.label, Eligible: w.curEligible}, call: t + 1, ret: t + 2})
	}
	w.mu.Lock()
	for _, ls := range w.leases {
		if ls.noticed && !ls.noticeLog {
			ls.noticeLog = true
			w.lockEvs = append(w.lockEvs, c18LEv{res: -1, in: c18LIn{Kind: "notice", Node: ls.owner.name(), Lease: ls.label}, call: t + 3, ret: t + 4})
		}
	}
	w.mu.Unlock()
	for res := 0; res < w.nres; res++ {
		for _, n := range w.live() {
			if n.auto {
				continue
			}
			owns := false
			for _, b := range believers[res] {
				if b == n {
					owns = true
				}
			}
			claim := "-"
			if l, ok := w.lastPut[res][n.id]; ok {
				w.mu.Lock()
				if ls := w.byID[clientv3.LeaseID(l)]; ls != nil && ls.owner == n {
					claim = ls.label
				}
				w.mu.Unlock()
			}
			w.lockEvs = append(w.lockEvs, c18LEv{res: res, in: c18LIn{Kind: "owns", Node: n.name(), Lease: claim}, out: c18LOut{OK: owns}, call: t + 8, ret: t + 9})
		}
	}
}

func (w *c18World) checkLockHistory(name string) {
	evs := append([]c18LEv(nil), w.lockEvs...)
	w.mu.Lock()
	for _, a := range w.actors {
		if !a.done || !a.stamped {
			continue // never returned: no output to judge
		}
		e := c18LEv{res: a.res, call: int64(a.call) * 10, ret: int64(a.ret)*10 + 5}
		switch a.kind {
		case "acquire":
			e.in, e.out = c18LIn{Kind: "acq", Node: a.node.name(), Lease: a.claim}, c18LOut{OK: a.err == nil}
		case "release":
			e.in = c18LIn{Kind: "rel", Node: a.node.name()}
		case "release_all":
			e.res, e.in = -1, c18LIn{Kind: "relall", Node: a.node.name()}
		}
		evs = append(evs, e)
	}
	w.mu.Unlock()
	for res := 0; res < w.nres; res++ {
		var ops []porcupine.Operation
		for _, e := range evs {
			if e.res != -1 && e.res != res {
				continue
			}
			in := e.in
			if in.Kind == "expire" {
				in.Deleted = e.delRes[res]
			}
			ops = append(ops, porcupine.Operation{ClientId: len(ops) % 64, Input: in, Output: e.out, Call: e.call, Return: e.ret})
		}
		sort.SliceStable(ops, func(i, j int) bool { return ops[i].Call < ops[j].Call })
		for i := range ops {
			ops[i].ClientId = i // every event is its own client: intervals alone carry the order
		}
		w.r.Count("lock_history_ops", int64(len(ops)))
		switch porcupine.CheckOperationsTimeout(c18LockModel, ops, 60*time.Second) {
		case porcupine.Illegal:
			var h []string
			for _, o := range ops {
				h = append(h, fmt.Sprintf("[%d,%d] %+v -> %+v", o.Call, o.Return, o.Input, o.Output))
			}
			wit := w.witness()
			wit["lock_history_r"+strconv.Itoa(res)] = h
			w.violated = true
			w.r.Violation("lock_history_illegal", fmt.Sprintf("[%s] case %s: the acquire/release/expiry/Owns history of r%d is not a lock history (time = 10*step)", w.flavour, name, res), wit)
			return
		case porcupine.Unknown:
			w.r.Inconclusive("porcupine timeout on case " + name)
		}
	}
	w.r.Count("lock_histories_checked", int64(w.nres))
}

func c18Prev(ev c18Event) string {
	if !ev.HasPrev {
		return "-"
	}
	return ev.PrevValue
}

func (w *c18World) probeAcquire(res int, holder *c18Node, stepN int) bool {
	if w.probe == nil {
		w.probe = w.newNode(0, 0, true)
	}
	w.probes++
	err := w.probe.mgr.Acquire(context.Background(), res)
	synctest.Wait()
	var evs []c18Event
	var serr error
	w.e.out.do(func() { evs, serr = w.e.watch.sync(w.e.admin) })
	if serr != nil {
		w.trouble = serr.Error()
		return false
	}
	st := c18Step{N: len(w.steps) + 1, Kind: "probe", Node: "P", Desc: fmt.Sprintf("a further broker P runs Acquire(r%d) to completion", res)}
	for _, ev := range evs {
		if r2, ok := w.keyRes[ev.Key]; ok {
			if ev.Type == "PUT" {
				w.shadow[r2] = c18KVState{value: ev.Value, lease: ev.Lease}
				st.Events = append(st.Events, fmt.Sprintf("PUT r%d=%s prev=%s", r2, ev.Value, c18Prev(ev)))
			} else {
				delete(w.shadow, r2)
				st.Events = append(st.Events, fmt.Sprintf("DELETE r%d prev=%s", r2, c18Prev(ev)))
			}
		}
	}
	if err != nil {
		st.Returns = []string{"P.acquire -> " + err.Error()}
	} else {
		st.Returns = []string{"P.acquire -> ok"}
	}
	w.steps = append(w.steps, st)
	if err == nil && w.probe.mgr.Owns(res) && holder.mgr.Owns(res) && !holder.excusable(res) {
		w.violated = true
		class := "dual_ownership"
		// narrow class: the holder's own Release deleted the key that the holder's own later Acquire had re-created
		if w.ownDeleteAfterReacquire(res, holder) {
			class = "own_release_delete_lands_after_own_reacquire"
		} else if w.claimSessionReplacedAtNotice(res, holder) {
			class = "owned_kept_when_ended_session_is_replaced"
		}
		w.r.Violation(class, fmt.Sprintf("[%s] after step %d broker %s owns r%d (no expired session) but its etcd key is gone; broker P then acquires r%d: two owners",
			w.flavour, stepN, holder.name(), res, res), w.witness())
		return false
	}
	return true
}

// ownDeleteAfterReacquire: in the recorded steps, holder started Release(res); after that start, a txn of a
// later Acquire by the same holder wrote the key again (create-if-absent or the value-compare reacquire);
// after that, the delete issued by holder's Release removed it.
func (w *c18World) ownDeleteAfterReacquire(res int, holder *c18Node) bool {
	relStart, reacq, del := -1, -1, -1
	for i, s := range w.steps {
		if s.Node != holder.name() {
			continue
		}
		if s.Kind == "start" && s.Desc == fmt.Sprintf("release(r%d)", res) && reacq < 0 {
			relStart = i
		}
		for _, e := range s.Events {
			if relStart >= 0 && strings.HasSuffix(s.Kind, "etcd:txn") && strings.Contains(s.Desc, fmt.Sprintf("put(r%d=%s)", res, holder.id)) &&
				strings.HasPrefix(e, fmt.Sprintf("PUT r%d=%s ", res, holder.id)) {
				reacq, del = i, -1
			}
			if reacq >= 0 && (strings.HasSuffix(s.Kind, "etcd:delete") || strings.HasSuffix(s.Kind, "etcd:txn")) && strings.HasPrefix(e, fmt.Sprintf("DELETE r%d ", res)) {
				del = i
			}
		}
	}
	return relStart >= 0 && reacq > relStart && del > reacq
}

// claimSessionReplacedAtNotice: the holder's claim on res was made under a lease that has expired AND whose loss the
// holder has been told about, and that notice happened in the same instant as the response of the Grant of the
// holder's next session arrived (getOrCreateSession installing a new session over an ended one).
func (w *c18World) claimSessionReplacedAtNotice(res int, holder *c18Node) bool {
	l, ok := w.lastPut[res][holder.id]
	if !ok {
		return false
	}
	w.mu.Lock()
	ls := w.byID[clientv3.LeaseID(l)]
	okLease := ls != nil && ls.serverDead && ls.noticed && ls.owner == holder
	w.mu.Unlock()
	if !okLease {
		return false
	}
	for _, s := range w.steps {
		if strings.HasPrefix(s.Kind, "notice||") && s.Node == holder.name() && strings.Contains(s.Desc, "keep-alive channel of "+ls.label+" closes") && strings.Contains(s.Desc, "grant") {
			return true
		}
	}
	return false
}

func (w *c18World) witness() map[string]any {
	return map[string]any{"flavour": w.flavour, "mode": w.mode, "brokers": w.ids, "resources": w.nres,
		"legend": "rN = lease resource N (partition or group); Lk = k-th etcd lease granted; A#1 = restarted instance of broker A; owns/etcd = Owns() per broker and the lease keys after the step",
		"steps":  w.steps}
}

// ---------------------------------------------------------------------------
// end of case

func (w *c18World) drain(pick func(n int) int) {
	for i := 0; i < 200 && w.ok(); i++ {
		p := w.allPending()
		if len(p) == 0 {
			return
		}
		w.releaseGate(p[pick(len(p))], c18OK)
	}
}

// settle: let every expired session be noticed; afterwards no belief is excusable any more.
func (w *c18World) settle() {
	for _, ls := range append([]*c18Lease(nil), w.leases...) {
		if !w.ok() {
			return
		}
		w.mu.Lock()
		need := ls.serverDead && ls.hasKA && !ls.noticed && !ls.owner.crashed
		w.mu.Unlock()
		if need {
			w.notice(ls)
		}
	}
}

func (w *c18World) cleanup() {
	w.mu.Lock()
	w.ending = true
	w.mu.Unlock()
	for i := 0; i < 1000; i++ {
		synctest.Wait()
		w.mu.Lock()
		p := w.pending
		w.pending = nil
		w.mu.Unlock()
		if len(p) == 0 {
			break
		}
		for _, g := range p {
			g.ch <- c18Abort
		}
	}
	all := append(append([]*c18Node(nil), w.nodes...), w.gone...)
	all = append(all, w.linger...)
	if w.probe != nil {
		all = append(all, w.probe)
	}
	for _, n := range all {
		w.mu.Lock()
		n.closed = true
		w.mu.Unlock()
		_ = n.cli.Close()
	}
	for _, ls := range w.leases {
		if ls.hasKA {
			ls.stopOnce.Do(func() { close(ls.stop) })
		}
	}
	synctest.Wait()
	// leases are not revoked: the keys of a case are unique to it, nothing refreshes the leases, and
	// skipping ~3 raft writes per case is a large part of a short schedule's cost
}

func (w *c18World) signature() string {
	var b strings.Builder
	b.WriteString(w.flavour)
	for _, s := range w.steps {
		fmt.Fprintf(&b, "|%s:%s:%s:%s:%s", s.Kind, s.Node, s.Desc, s.Outcome, s.Result)
	}
	return b.String()
}

func (w *c18World) finishCase(name string, sample bool) {
	r := w.r
	if w.ok() {
		w.checkLockHistory(name)
	}
	if w.trouble != "" {
		r.Inconclusive(fmt.Sprintf("case %s: %s", name, w.trouble))
	}
	nontrivial := w.handovers > 0 && (w.nExpire+w.nRelease+w.nRestart+w.nClose) > 0
	// ... or a key went from one incarnation of a broker id to the next and the old incarnation acted afterwards
	nontrivial = nontrivial || (w.takeovers > 0 && w.oldOpsAfterTakeover > 0)
	r.Case(w.signature(), nontrivial)
	r.Seen("schedules", w.signature())
	r.Count("steps", int64(len(w.steps)))
	r.Count("quiescent_points_checked", int64(len(w.steps)))
	r.Count("expire_steps", int64(w.nExpire))
	r.Count("notice_steps", int64(w.nNotice))
	r.Count("release_ops", int64(w.nRelease))
	r.Count("restarts", int64(w.nRestart))
	r.Count("restarts_with_old_incarnation_still_running", int64(w.nRespawn))
	r.Count("calls_by_superseded_incarnation", int64(w.nOldOps))
	r.Count("key_takeovers_between_incarnations", int64(w.takeovers))
	if w.takeovers > 0 && w.oldOpsAfterTakeover > 0 {
		r.Count("cases_old_incarnation_acts_after_takeover", 1)
	}
	r.Count("client_closes", int64(w.nClose))
	r.Count("injected_etcd_faults", int64(w.nFault))
	r.Count("reacquire_txns", int64(w.nReacq))
	r.Count("handovers", int64(w.handovers))
	r.Count("points_with_stale_believer_and_new_owner", int64(w.staleWindows))
	r.Count("probe_acquires", int64(w.probes))
	r.Count("watch_syncs_by_sentinel", int64(w.nSync))
	r.Count("watch_syncs_by_response_revision", int64(w.nRevWait))
	r.Count("delayed_responses", int64(w.nDelayed))
	r.Count("notice_simultaneous_with_response", int64(w.nBatch))
	r.Count("cases_"+w.flavour, 1)
	if w.staleWindows > 0 {
		r.Count("cases_with_stale_window", 1)
	}
	if sample {
		r.Sample(map[string]any{"case": name, "flavour": w.flavour, "steps": w.steps})
	}
}

// ---------------------------------------------------------------------------
// scripted schedules

type c18Script struct {
	name string
	body func(s *c18Driver)
}

// c18Driver offers readable moves to scripts; every move ends at a quiescent point with the oracles run.
type c18Driver struct{ w *c18World }

func (s *c18Driver) node(i int) *c18Node { return s.w.nodes[i] }

// old returns the k-th (0 = oldest) superseded, still running incarnation of broker i.
func (s *c18Driver) old(i, k int) *c18Node {
	for _, n := range s.w.linger {
		if n.idx == i {
			if k == 0 {
				return n
			}
			k--
		}
	}
	if s.w.ok() {
		s.w.trouble = fmt.Sprintf("script error: broker %d has no such superseded incarnation", i)
	}
	return s.w.nodes[i]
}

func (s *c18Driver) start(i int, kind string, res int) { s.startN(s.node(i), kind, res) }

func (s *c18Driver) startN(n *c18Node, kind string, res int) { // start an op; it runs until its first etcd request
	if s.w.ok() {
		s.w.startOp(n, kind, res)
	}
}

// next releases the first pending etcd request of broker i whose kind matches (""=any).
func (s *c18Driver) next(i int, kind string, outcome int) bool {
	return s.nextWhere(s.node(i), func(g *c18Gate) bool { return kind == "" || g.kind == kind }, outcome)
}

// nextWhere releases the first pending etcd request of incarnation n that satisfies pred.
func (s *c18Driver) nextWhere(n *c18Node, pred func(*c18Gate) bool, outcome int) bool {
	if !s.w.ok() {
		return false
	}
	for _, g := range s.w.pendingOf(n) {
		if pred(g) {
			s.w.releaseGate(g, outcome)
			return true
		}
	}
	return false
}

// finish lets everything broker i has pending run to completion.
func (s *c18Driver) finish(i int) { s.finishN(s.node(i)) }

func (s *c18Driver) finishN(n *c18Node) {
	for k := 0; k < 50 && s.w.ok(); k++ {
		if !s.nextWhere(n, func(*c18Gate) bool { return true }, c18OK) {
			return
		}
	}
}

func (s *c18Driver) do(i int, kind string, res int) { s.start(i, kind, res); s.finish(i) }

func (s *c18Driver) doN(n *c18Node, kind string, res int) { s.startN(n, kind, res); s.finishN(n) }

// c18NotDeleting: a request of an Acquire (the create-if-absent txn, the value-compare re-attach txn), as opposed to
// the deleting request of a Release
func c18NotDeleting(g *c18Gate) bool { return g.kind == "txn" && !g.deletes }

func (s *c18Driver) respawn(i int) {
	if s.w.ok() {
		if s.w.acquiring(s.node(i)) > 0 {
			s.w.trouble = "script error: respawn with an Acquire of the old incarnation in flight"
			return
		}
		s.w.respawn(i)
	}
}

// expireOf / noticeOf: the leases of ONE incarnation
func (s *c18Driver) expireOf(n *c18Node) {
	for _, ls := range s.leasesOf(n.idx, func(l *c18Lease) bool { return l.owner == n && !l.serverDead }) {
		if s.w.ok() {
			s.w.expire(ls)
		}
	}
}

func (s *c18Driver) noticeOf(n *c18Node) {
	for _, ls := range s.leasesOf(n.idx, func(l *c18Lease) bool { return l.owner == n && l.hasKA && !l.noticed }) {
		if s.w.ok() {
			s.w.notice(ls)
		}
	}
}

func (s *c18Driver) leasesOf(i int, pred func(*c18Lease) bool) []*c18Lease {
	var out []*c18Lease
	s.w.mu.Lock()
	defer s.w.mu.Unlock()
	for _, ls := range s.w.leases {
		if ls.owner.idx == i && !ls.owner.auto && pred(ls) {
			out = append(out, ls)
		}
	}
	return out
}

func (s *c18Driver) expire(i int) { // every lease ever granted to broker i (any instance) expires on the server
	for _, ls := range s.leasesOf(i, func(l *c18Lease) bool { return !l.serverDead }) {
		if s.w.ok() {
			s.w.expire(ls)
		}
	}
}

func (s *c18Driver) notice(i int) {
	for _, ls := range s.leasesOf(i, func(l *c18Lease) bool { return l.hasKA && !l.noticed && !l.owner.crashed }) {
		if s.w.ok() {
			s.w.notice(ls)
		}
	}
}

func (s *c18Driver) restart(i int) {
	if s.w.ok() {
		s.w.restart(i)
	}
}

func (s *c18Driver) closeClient(i int) {
	if s.w.ok() {
		s.w.closeClient(s.node(i))
	}
}

const (
	cA = 0
	cB = 1
	cC = 2
)

var c18Scripts = []c18Script{
	{"stale_release", func(s *c18Driver) {
		// A's session expires unnoticed, B acquires, A releases: the statement's last sentence
		s.do(cA, "acquire", 0)
		s.expire(cA)
		s.do(cB, "acquire", 0)
		s.do(cA, "release", 0)
		s.notice(cA)
		s.do(cC, "acquire", 0)
	}},
	{"stale_release_all", func(s *c18Driver) {
		s.do(cA, "acquire", 0)
		s.do(cA, "acquire", 1)
		s.expire(cA)
		s.do(cB, "acquire", 0)
		s.do(cA, "release_all", 0)
		s.do(cC, "acquire", 0)
		s.do(cC, "acquire", 1)
	}},
	{"stale_release_after_notice_and_reacquire_elsewhere", func(s *c18Driver) {
		s.do(cA, "acquire", 0)
		s.do(cA, "acquire", 1)
		s.expire(cA)
		s.do(cB, "acquire", 0)
		s.start(cA, "release", 0) // A still believes; delete is pending
		s.notice(cA)
		s.do(cC, "acquire", 1)
		s.finish(cA)
	}},
	{"release_races_own_acquire", func(s *c18Driver) {
		// same broker: Release(r0) has dropped local ownership and is about to delete; a concurrent
		// Acquire(r0) re-takes the still-present key; then the delete lands.
		s.do(cA, "acquire", 0)
		s.start(cA, "release", 0)
		s.start(cA, "acquire", 0)
		for s.nextWhere(s.node(cA), c18NotDeleting, c18OK) { // the Acquire's txns first, whatever request the Release uses
		}
		s.finish(cA)
		s.do(cB, "acquire", 0)
		s.do(cA, "release", 0)
		s.do(cB, "acquire", 0)
	}},
	{"release_races_own_acquire_under_new_session", func(s *c18Driver) {
		// the same race across a session rotation: the session expires, Release(r0) is parked before its etcd request,
		// the loss is noticed, Acquire(r0) creates the key afresh under a new session, then the Release's request lands
		s.do(cA, "acquire", 0)
		s.expire(cA)
		s.start(cA, "release", 0)
		s.notice(cA)
		s.start(cA, "acquire", 0)
		s.next(cA, "grant", c18OK)
		for s.nextWhere(s.node(cA), c18NotDeleting, c18OK) {
		}
		s.finish(cA)
		s.do(cB, "acquire", 0)
	}},
	{"restart_reacquire_then_old_lease_expires", func(s *c18Driver) {
		s.do(cA, "acquire", 0)
		s.restart(cA)
		s.do(cB, "acquire", 0) // old lease still alive: must fail
		s.do(cA, "acquire", 0) // reacquire under the new session
		s.expire(cA)           // expires old AND new lease of A
		s.do(cB, "acquire", 0)
		s.notice(cA)
		s.do(cA, "acquire", 0)
	}},
	{"restart_old_lease_expires_between_the_two_txns", func(s *c18Driver) {
		s.do(cA, "acquire", 0)
		s.restart(cA)
		s.start(cA, "acquire", 0)
		s.next(cA, "grant", c18OK)
		s.next(cA, "txn", c18OK) // create-if-absent fails: key names A
		for _, ls := range s.leasesOf(cA, func(l *c18Lease) bool { return l.owner.crashed && !l.serverDead }) {
			s.w.expire(ls)
		}
		s.do(cB, "acquire", 0)
		s.finish(cA) // reacquire txn must fail
		s.do(cC, "acquire", 0)
	}},
	{"early_notice_then_reacquire", func(s *c18Driver) {
		s.do(cA, "acquire", 0)
		s.notice(cA) // client gives up on the session while the server lease lives on
		s.do(cB, "acquire", 0)
		s.do(cA, "acquire", 0) // new session, reacquire
		for _, ls := range s.leasesOf(cA, func(l *c18Lease) bool { return l.noticed && !l.serverDead }) {
			s.w.expire(ls) // the old lease finally expires: must not take the key with it
		}
		s.do(cB, "acquire", 0)
		s.do(cA, "release", 0)
		s.do(cB, "acquire", 0)
	}},
	{"two_sessions_race", func(s *c18Driver) {
		s.start(cA, "acquire", 0)
		s.start(cA, "acquire", 1)
		s.next(cA, "grant", c18OK)
		s.next(cA, "grant", c18OK)
		s.finish(cA)
		s.do(cB, "acquire", 0)
		s.do(cB, "acquire", 1)
		s.expire(cA)
		s.do(cB, "acquire", 0)
		s.notice(cA)
		s.do(cB, "acquire", 1)
	}},
	{"close_client_then_restart", func(s *c18Driver) {
		s.do(cA, "acquire", 0)
		s.closeClient(cA)
		s.do(cB, "acquire", 0)
		s.expire(cA)
		s.do(cB, "acquire", 0)
		s.restart(cA)
		s.do(cA, "acquire", 0)
		s.do(cB, "release", 0)
		s.do(cA, "acquire", 0)
	}},
	{"graceful_handover_chain", func(s *c18Driver) {
		s.do(cA, "acquire", 0)
		s.do(cB, "acquire", 0)
		s.do(cA, "release", 0)
		s.do(cB, "acquire", 0)
		s.do(cB, "release_all", 0)
		s.do(cC, "acquire", 0)
		s.do(cB, "acquire", 0)
	}},
	{"acquire_response_lost", func(s *c18Driver) {
		s.start(cA, "acquire", 0)
		s.next(cA, "grant", c18OK)
		s.next(cA, "txn", c18FailAfter) // key written, A gets an error
		s.finish(cA)
		s.do(cB, "acquire", 0)
		s.do(cA, "acquire", 0) // reacquire path
		s.do(cA, "release", 0)
		s.do(cB, "acquire", 0)
	}},
	{"release_delete_fails", func(s *c18Driver) {
		s.do(cA, "acquire", 0)
		s.start(cA, "release", 0)
		s.next(cA, "", c18FailBefore) // key stays, A no longer believes
		s.finish(cA)
		s.do(cB, "acquire", 0)
		s.expire(cA)
		s.do(cB, "acquire", 0)
		s.do(cA, "release", 0)
		s.notice(cA)
	}},
	{"release_response_delayed", func(s *c18Driver) {
		// the delete has taken effect on the server, its response has not reached A yet; B acquires
		s.do(cA, "acquire", 0)
		s.start(cA, "release", 0)
		s.next(cA, "", c18OKDelayed)
		s.do(cB, "acquire", 0)
		s.finish(cA)
		s.do(cA, "acquire", 0)
	}},
	{"acquire_response_delayed_across_expiry", func(s *c18Driver) {
		s.start(cA, "acquire", 0)
		s.next(cA, "grant", c18OK)
		s.next(cA, "txn", c18OKDelayed) // key written under L1, A not yet told
		s.expire(cA)
		s.do(cB, "acquire", 0)
		s.finish(cA) // A now believes, under a session the server has expired: the inherent window
		s.do(cA, "release", 0)
		s.notice(cA)
	}},
	{"acquire_response_held_across_session_rotation", func(s *c18Driver) {
		// A's create-if-absent txn for r0 commits under its session S1 but the response is still on its way;
		// S1 is lost (expiry, then notice: monitorSession drops it); an Acquire of ANOTHER resource on A brings
		// up a replacement session S2; B takes the now free r0; only then does A see the response for r0
		s.start(cA, "acquire", 0)
		s.next(cA, "grant", c18OK)
		s.next(cA, "txn", c18OKDelayed)
		s.expire(cA)
		s.notice(cA)
		s.start(cA, "acquire", 1)
		s.next(cA, "grant", c18OK)
		s.next(cA, "txn", c18OK)
		s.do(cB, "acquire", 0)
		s.finish(cA) // the held response
		s.do(cC, "acquire", 0)
		s.do(cA, "acquire", 0)
		s.do(cB, "release", 0)
		s.do(cC, "acquire", 0)
	}},
	{"reacquire_response_held_across_session_rotation", func(s *c18Driver) {
		// the same window on the reacquire path (restarted broker re-attaching its own key to the new session)
		s.do(cA, "acquire", 0)
		s.restart(cA)
		s.start(cA, "acquire", 0)
		s.next(cA, "grant", c18OK)
		s.next(cA, "txn", c18OK)        // create-if-absent fails: the key names A
		s.next(cA, "txn", c18OKDelayed) // value-compare txn re-attaches the key to S1'; response held
		s.expire(cA)                    // the dead instance's lease and S1'
		s.notice(cA)
		s.start(cA, "acquire", 1)
		s.next(cA, "grant", c18OK)
		s.next(cA, "txn", c18OK)
		s.do(cB, "acquire", 0)
		s.finish(cA)
		s.do(cC, "acquire", 0)
		s.do(cA, "acquire", 0)
	}},
	{"acquire_response_held_across_early_notice_and_new_session", func(s *c18Driver) {
		// the client gives up on S1 while its lease is still alive on the server; a replacement session comes up
		// through another resource; the held response arrives; then the old lease expires and B acquires
		s.start(cA, "acquire", 0)
		s.next(cA, "grant", c18OK)
		s.next(cA, "txn", c18OKDelayed)
		s.notice(cA)
		s.start(cA, "acquire", 1)
		s.next(cA, "grant", c18OK)
		s.next(cA, "txn", c18OK)
		s.finish(cA)
		for _, ls := range s.leasesOf(cA, func(l *c18Lease) bool { return l.noticed && !l.serverDead }) {
			if s.w.ok() {
				s.w.expire(ls)
			}
		}
		s.do(cB, "acquire", 0)
		s.do(cA, "acquire", 0)
		s.do(cB, "acquire", 1)
	}},
	{"release_all_races_inflight_acquire", func(s *c18Driver) {
		s.do(cA, "acquire", 0)
		s.start(cA, "acquire", 1) // txn pending under the session that ReleaseAll is about to close
		s.start(cA, "release_all", 0)
		s.next(cA, "txn", c18OK)
		s.do(cB, "acquire", 1)
		s.finish(cA)
		s.do(cB, "acquire", 1)
		s.do(cB, "acquire", 0)
	}},
	// ---- restarts whose old incarnation is still running (several managers / etcd sessions of one broker id overlap)
	{"old_incarnation_releases_after_new_one_took_over", func(s *c18Driver) {
		s.do(cA, "acquire", 0)
		s.respawn(cA)
		s.do(cB, "acquire", 0) // the old incarnation's key is still there: must fail
		s.do(cA, "acquire", 0) // new incarnation re-attaches its own broker's key to its session
		s.doN(s.old(cA, 0), "release", 0)
		s.do(cB, "acquire", 0)
		s.do(cA, "release", 0)
		s.do(cB, "acquire", 0)
	}},
	{"old_incarnation_release_in_flight_across_restart", func(s *c18Driver) {
		s.do(cA, "acquire", 0)
		s.start(cA, "release", 0) // local ownership dropped, etcd request parked
		s.respawn(cA)
		s.do(cA, "acquire", 0)
		s.finishN(s.old(cA, 0)) // the old incarnation's request lands now
		s.do(cB, "acquire", 0)
		s.expireOf(s.old(cA, 0))
		s.do(cB, "acquire", 0)
	}},
	{"old_incarnation_release_all_after_partial_takeover", func(s *c18Driver) {
		s.do(cA, "acquire", 0)
		s.do(cA, "acquire", 1)
		s.respawn(cA)
		s.do(cA, "acquire", 0)                // r0 moves to the new session, r1 stays on the old one
		s.doN(s.old(cA, 0), "release_all", 0) // closes the old session: r1 goes, r0 must stay
		s.do(cB, "acquire", 0)
		s.do(cB, "acquire", 1)
		s.do(cA, "acquire", 1)
	}},
	{"old_incarnation_closes_late_then_its_lease_expires", func(s *c18Driver) {
		s.do(cA, "acquire", 0)
		s.do(cA, "acquire", 1)
		s.respawn(cA)
		s.do(cA, "acquire", 1)
		if s.w.ok() {
			s.w.closeClient(s.old(cA, 0))
		}
		s.do(cB, "acquire", 1)
		s.expireOf(s.old(cA, 0)) // r0 expires with the old session, r1 lives on
		s.do(cB, "acquire", 1)
		s.do(cB, "acquire", 0)
		s.do(cA, "acquire", 0)
	}},
	{"three_incarnations_release_out_of_order", func(s *c18Driver) {
		s.do(cA, "acquire", 0)
		s.respawn(cA)
		s.do(cA, "acquire", 0)
		s.respawn(cA)
		s.do(cA, "acquire", 0)
		s.doN(s.old(cA, 1), "release", 0)
		s.do(cB, "acquire", 0)
		s.doN(s.old(cA, 0), "release", 0)
		s.do(cB, "acquire", 0)
		s.doN(s.old(cA, 1), "release_all", 0)
		s.expireOf(s.old(cA, 0))
		s.do(cB, "acquire", 0)
		s.do(cA, "release", 0)
		s.do(cB, "acquire", 0)
	}},
	{"old_incarnation_releases_between_the_new_ones_two_txns", func(s *c18Driver) {
		s.do(cA, "acquire", 0)
		s.respawn(cA)
		s.start(cA, "acquire", 0)
		s.next(cA, "grant", c18OK)
		s.next(cA, "txn", c18OK)          // create-if-absent fails: the key names A
		s.doN(s.old(cA, 0), "release", 0) // the old incarnation's own key: goes
		s.do(cB, "acquire", 0)
		s.finish(cA) // the re-attach txn must fail
		s.do(cB, "release", 0)
		s.do(cA, "acquire", 0)
	}},
	{"old_incarnation_releases_after_new_one_released_and_other_broker_acquired", func(s *c18Driver) {
		s.do(cA, "acquire", 0)
		s.respawn(cA)
		s.do(cA, "acquire", 0)
		s.do(cA, "release", 0)
		s.do(cB, "acquire", 0)
		s.doN(s.old(cA, 0), "release", 0) // still believes; the key is B's now
		s.do(cC, "acquire", 0)
		s.doN(s.old(cA, 0), "release_all", 0)
		s.do(cC, "acquire", 0)
	}},
	{"old_incarnation_release_response_held_while_new_one_takes_over", func(s *c18Driver) {
		s.do(cA, "acquire", 0)
		s.do(cA, "acquire", 1)
		s.start(cA, "release", 1)
		s.next(cA, "", c18OKDelayed) // r1 deleted, response on its way
		s.respawn(cA)
		s.do(cA, "acquire", 1) // fresh create under the new session
		s.do(cA, "acquire", 0) // re-attach
		s.finishN(s.old(cA, 0))
		s.doN(s.old(cA, 0), "release", 1)
		s.doN(s.old(cA, 0), "release", 0)
		s.do(cB, "acquire", 0)
		s.do(cB, "acquire", 1)
	}},
	{"new_incarnation_takes_over_then_its_session_expires_old_one_releases", func(s *c18Driver) {
		s.do(cA, "acquire", 0)
		s.respawn(cA)
		s.do(cA, "acquire", 0)
		s.expireOf(s.node(cA)) // the key goes with the new session; the new incarnation is not told yet
		s.do(cB, "acquire", 0)
		s.doN(s.old(cA, 0), "release", 0) // B's key must stay
		s.do(cC, "acquire", 0)
		s.noticeOf(s.node(cA))
		s.do(cA, "acquire", 0)
	}},
}

// c18RacyScripts end in a step whose outcome depends on which woken goroutine reaches the manager's
// lock first; they are repeated.
var c18RacyScripts = []c18Script{
	{"session_replaced_while_done_unobserved", func(s *c18Driver) {
		s.start(cA, "acquire", 0)
		s.start(cA, "acquire", 1)         // both are inside NewSession: no session exists yet
		s.next(cA, "grant", c18OK)        // first one installs its session S1 and parks at its txn
		s.next(cA, "txn", c18OK)          // A owns one resource under S1
		s.next(cA, "grant", c18OKDelayed) // second lease is granted, the response is still on its way
		for _, ls := range s.leasesOf(cA, func(l *c18Lease) bool { return l.hasKA && !l.serverDead }) {
			if !s.w.ok() {
				return
			}
			s.w.expire(ls) // S1 expires on the server
			for _, g := range s.w.pendingOf(s.node(cA)) {
				if g.kind == "resp" {
					// S1's Done() fires at the same instant as the second NewSession returns
					s.w.noticeAndGate(ls, g, c18OK)
					break
				}
			}
		}
		s.finish(cA)
		s.notice(cA)
		s.do(cB, "acquire", 0)
		s.do(cB, "acquire", 1)
	}},
}

// ---------------------------------------------------------------------------
// sampler

func (w *c18World) sample(rng interface {
	Intn(int) int
	Float64() float64
}) {
	opsLeft := 7 + rng.Intn(8)
	maxSteps := 70
	restartsLeft, closesLeft := 2, 1
	// one case in three dwells on restarts whose old incarnation keeps running for a while
	respawnW, expireW := 0.02, 0.45
	if rng.Intn(3) == 0 {
		respawnW, restartsLeft = 0.8, 3
		expireW = 0.12 // fewer expiries, so that keys live long enough to be handed from incarnation to incarnation
		opsLeft += 4
	}
	type choice struct {
		wgt float64
		run func()
	}
	for len(w.steps) < maxSteps && w.ok() {
		if opsLeft == 0 && len(w.allPending()) == 0 {
			break // nothing can be acquired any more; expiry/notice alone only remove ownership (settle does that)
		}
		var cs []choice
		add := func(wgt float64, f func()) { cs = append(cs, choice{wgt, f}) }
		for _, n := range w.live() {
			n := n
			if n.closed {
				if restartsLeft > 0 {
					add(0.5, func() { restartsLeft--; w.restart(n.idx) })
				}
				continue
			}
			if restartsLeft > 0 {
				canLinger := w.acquiring(n) == 0
				switch {
				case n.shut && canLinger:
					add(0.3, func() { restartsLeft--; w.restart(n.idx) })
					add(0.3, func() { restartsLeft--; w.respawn(n.idx) }) // ReleaseAll still closing its session
				case n.shut:
					add(0.6, func() { restartsLeft--; w.restart(n.idx) })
				default:
					add(0.02, func() { restartsLeft--; w.restart(n.idx) })
					if canLinger {
						wgt := respawnW / 8
						for k := 0; k < w.nres; k++ {
							if n.mgr.Owns(k) { // a restart that leaves something to take over
								wgt = respawnW
							}
						}
						add(wgt, func() { restartsLeft--; w.respawn(n.idx) })
					}
				}
			}
			if closesLeft > 0 && !n.shut {
				add(0.01, func() { closesLeft--; w.closeClient(n) })
			}
			if opsLeft > 0 && w.running(n) < 2 {
				wgt := 1.0
				if n.shut {
					wgt = 0.05
				}
				// a restarted broker usually wants back what its previous incarnation served
				var inherited []int
				for _, o := range w.linger {
					for k := 0; o.idx == n.idx && !o.crashed && k < w.nres; k++ {
						if o.mgr.Owns(k) && !n.mgr.Owns(k) {
							inherited = append(inherited, k)
						}
					}
				}
				if len(inherited) > 0 && !n.shut {
					wgt = 2.5
				}
				add(wgt, func() {
					opsLeft--
					x := rng.Intn(100)
					res := rng.Intn(w.nres)
					switch {
					case len(inherited) > 0 && x < 75:
						w.startOp(n, "acquire", inherited[rng.Intn(len(inherited))])
					case x < 55:
						w.startOp(n, "acquire", res)
					case x < 93:
						// prefer a resource this broker believes it owns
						owned := false
						for k := 0; k < w.nres; k++ {
							if n.mgr.Owns((res + k) % w.nres) {
								res = (res + k) % w.nres
								owned = true
								break
							}
						}
						if !owned && x < 88 {
							w.startOp(n, "acquire", res)
						} else {
							w.startOp(n, "release", res)
						}
					default:
						w.startOp(n, "release_all", 0)
					}
				})
			}
		}
		// superseded incarnations wind down: Release / ReleaseAll / client close, never Acquire
		for _, n := range w.linger {
			n := n
			if n.closed || n.crashed {
				continue
			}
			if closesLeft > 0 && !n.shut {
				add(0.05, func() { closesLeft--; w.closeClient(n) })
			}
			if opsLeft > 0 && w.running(n) < 2 {
				var owned []int
				for k := 0; k < w.nres; k++ {
					if n.mgr.Owns(k) {
						owned = append(owned, k)
					}
				}
				if len(owned) > 0 {
					add(1.0, func() {
						opsLeft--
						if !n.shut && rng.Intn(100) < 25 {
							w.startOp(n, "release_all", 0)
						} else {
							w.startOp(n, "release", owned[rng.Intn(len(owned))])
						}
					})
				} else if !n.shut {
					add(0.3, func() { opsLeft--; w.startOp(n, "release_all", 0) })
				}
			}
		}
		for _, g := range w.allPending() {
			g := g
			add(1.6, func() {
				o := c18OK
				switch x := rng.Intn(100); {
				case x < 4:
					o = c18FailBefore
				case x < 8:
					o = c18FailAfter
				case x < 30:
					o = c18OKDelayed
				}
				if g.kind == "resp" {
					o = c18OK
				}
				w.releaseGate(g, o)
			})
		}
		w.mu.Lock()
		leases := append([]*c18Lease(nil), w.leases...)
		w.mu.Unlock()
		for _, ls := range leases {
			ls := ls
			if ls.owner.auto {
				continue
			}
			w.mu.Lock()
			dead, ka, noticed, crashed := ls.serverDead, ls.hasKA, ls.noticed, ls.owner.crashed
			w.mu.Unlock()
			if !dead {
				add(expireW, func() { w.expire(ls) })
			}
			if ka && !noticed && !crashed {
				if dead {
					add(0.35, func() { w.notice(ls) })
				} else {
					add(0.04, func() { w.notice(ls) })
				}
				if gs := w.pendingOf(ls.owner); len(gs) > 0 {
					wgt := 0.03
					if dead {
						wgt = 0.25
					}
					add(wgt, func() { w.noticeAndGate(ls, gs[rng.Intn(len(gs))], c18OK) })
				}
			}
		}
		if len(cs) == 0 {
			break
		}
		tot := 0.0
		for _, c := range cs {
			tot += c.wgt
		}
		x := rng.Float64() * tot
		for _, c := range cs {
			if x < c.wgt {
				c.run()
				break
			}
			x -= c.wgt
		}
	}
	w.drain(rng.Intn)
}

// ---------------------------------------------------------------------------

const c18Rule = "real PartitionLeaseManager/GroupLeaseManager instances (3 broker ids; restarts either as a crash of the old process or with the old incarnation still running: then up to three managers of ONE broker id, each with its own etcd session, overlap, the superseded ones winding down with late Release/ReleaseAll calls, parked requests that land late, late client close and late lease expiry, never a new Acquire) against one embedded etcd; every etcd request they issue (Grant, Txn, Delete, Revoke) is parked at a gate and released one at a time by the scheduler inside a synctest bubble, optionally failing before/after its effect; session loss is split into server-side expiry (harness revokes the lease) and client-side notice (harness closes the keep-alive channel). After EVERY step, once all manager goroutines are quiescent and a WithPrevKV watch on /kafscale/ has been synchronised (up to the response's header revision, or through a sentinel key after expiry/revoke): (a) violation if two brokers (different broker ids; P counts) have Owns(r)==true and neither belief is excused; audited are the current incarnation of every broker id and a superseded incarnation only for keys that no newer incarnation of its broker id has re-attached since; a belief is excused only while the etcd lease under which that broker's claim on r was written has expired on the server and the broker's keep-alive channel for it is still open (the window inherent to leases); if exactly one such firm believer exists while the etcd key is absent, one more broker P runs Acquire(r) and P succeeding is the same violation; (b) violation if a DELETE event of a lease key carries a previous value naming a broker other than the one whose Release/ReleaseAll/expiry step caused it. (c) per resource, the history of Acquire/Release/ReleaseAll calls (with results), expiry/notice/restart events and every Owns() observation is checked with porcupine against a lock model (a failing Acquire is always legal; Owns()==false gives the lock up; an expired-but-untold broker is excused). Scripted schedules (stale release, restart+reacquire, early notice, Release racing an Acquire of the same manager with the Acquire's requests first (also across a session rotation), restarts whose old incarnation releases / releases all / closes / expires only after the new incarnation re-attached the key, or has its Release request parked across the restart, three overlapping incarnations releasing out of order, lost responses, and an acquire/reacquire txn whose response is held while the session it was made on is lost AND replaced through an Acquire of a second resource, before or after another broker takes the first …) for both flavours, then PRNG schedules (one in three dwelling on restarts with a lingering old incarnation); non-trivial = a resource was held by two different brokers over the case and a release/expiry/restart/close occurred, or a key went from one incarnation of a broker id to the next and the old incarnation made a call afterwards"

func TestVerifC18Sched(t *testing.T) {
	r := verifkit.Start(t, "C18", "sched")
	defer r.Finish(c18Rule,
		"Lease.KeepAlive is replaced at the clientv3.Lease interface: the channel closes on ctx cancel, client close, or the scheduler's notice step; no keep-alive traffic (TTL 3600s outlives a case), so timing of the real lessor is not exercised",
		"single-node embedded etcd; etcd requests are serialised by the scheduler (one in flight at a time), which is every interleaving at etcd-operation granularity but no overlapping server-side execution",
		"a crashed instance's pending requests never reach etcd; managers sharing a broker id exist only as successive incarnations of a restarted broker, and a superseded incarnation starts no new Acquire (none in flight at the restart either): the reacquire path hands a broker id's key to whichever incarnation asks last, so an old incarnation that kept acquiring is outside the statement",
		"two incarnations of one broker id both answering Owns()==true is not counted as two brokers; a superseded incarnation's belief in a key that a newer incarnation has re-attached is not audited",
		"beliefs held only because the server expired the session and the broker has not been told yet are not counted (no lease protocol can avoid them)")
	e := newC18Env(t, r)
	defer e.close()
	start := time.Now()

	runCase := func(name, flavour, mode string, sample bool, body func(w *c18World)) {
		synctest.Test(t, func(t *testing.T) {
			w := e.newWorld(flavour, mode, 2)
			defer w.cleanup()
			body(w)
			if w.ok() {
				w.drain(func(n int) int { return 0 })
			}
			if w.ok() {
				w.settle()
			}
			w.finishCase(name, sample)
		})
	}

	for _, fl := range []string{"partition", "group"} {
		for si, sc := range c18Scripts {
			sc := sc
			runCase("script:"+sc.name+"/"+fl, fl, "script:"+sc.name, fl == "partition" && si == 0, func(w *c18World) {
				sc.body(&c18Driver{w})
			})
			r.Count("scripted_cases", 1)
		}
	}
	for rep := 0; rep < r.N(10, 120); rep++ {
		for _, sc := range c18RacyScripts {
			sc := sc
			fl := []string{"partition", "group"}[rep%2]
			runCase(fmt.Sprintf("racy:%s/%s/%d", sc.name, fl, rep), fl, "script:"+sc.name, false, func(w *c18World) {
				sc.body(&c18Driver{w})
			})
			r.Count("racy_scripted_cases", 1)
		}
	}
	n := r.N(160, 2000)
	for ci := 0; ci < n; ci++ {
		rng := r.Rand(ci)
		fl := "partition"
		if ci%2 == 1 {
			fl = "group"
		}
		runCase(fmt.Sprintf("sample:%d", ci), fl, fmt.Sprintf("sampler case %d seed %d", ci, r.Seed), ci < 2, func(w *c18World) {
			w.sample(rng)
		})
		if ci%50 == 49 {
			t.Logf("c18: %d/%d sampled cases, %.1fs", ci+1, n, time.Since(start).Seconds())
		}
	}
	r.Floor("handovers", 20)
	r.Floor("points_with_stale_believer_and_new_owner", 10)
	r.Floor("scripted_cases", int64(2*len(c18Scripts)))
	_ = sort.Strings
}

// ---------------------------------------------------------------------------
// exhaustive enumeration of small programs: every interleaving (at etcd-request granularity) of a fixed
// per-broker program with a budget of expiry / notice placements. Stateless depth-first search: a schedule
// is a list of choice indices; each run re-executes the prefix against fresh managers.

type c18EnumOp struct {
	kind string // acquire | release | release_all | restart | respawn (restart whose old incarnation keeps running)
	res  int
}

type c18EnumProg struct {
	name    string
	ops     [3][]c18EnumOp
	overlap [3]bool // the broker's next call may start while its previous one is still in flight
	expire  int     // server-side expiries that may be placed (of any live lease)
	notice  int     // notices that may be placed before the end (the rest are delivered when the case settles)
	delayed bool    // every request may also take effect with its response delivered later
	nres    int     // resources of the case (0 = 1)
	// prefix runs before the enumeration starts (fixed moves that put the brokers into the state whose every
	// continuation is then enumerated); requests/responses it leaves parked are ordinary choices afterwards
	prefix func(s *c18Driver)
	// prefixLeases: the expiry/notice budget applies only to leases granted during the prefix
	prefixLeases bool
	// noticeAfterExpiry: a notice is only placed for a lease that has already expired on the server
	noticeAfterExpiry bool
	// atomic: the broker's call runs to completion in ONE choice (its etcd requests are not interleaved)
	atomic [3]bool
	// old: calls (release | release_all) of the oldest superseded incarnation, available once a "respawn" happened
	old []c18EnumOp
}

func (w *c18World) enumChoices(p *c18EnumProg, pc *[4]int, exp, noti *int) []func() {
	var cs []func()
	opsLeft := false
	for i := range p.ops {
		i := i
		if pc[i] >= len(p.ops[i]) {
			continue
		}
		opsLeft = true
		op := p.ops[i][pc[i]]
		n := w.nodes[i]
		switch {
		case op.kind == "restart":
			cs = append(cs, func() { pc[i]++; w.restart(i) })
		case op.kind == "respawn":
			if w.acquiring(n) == 0 && (p.overlap[i] || w.running(n) == 0) {
				cs = append(cs, func() { pc[i]++; w.respawn(i) })
			}
		case p.atomic[i]:
			cs = append(cs, func() {
				pc[i]++
				if w.startOp(w.nodes[i], op.kind, op.res) {
					(&c18Driver{w}).finish(i)
				}
			})
		case p.overlap[i] || w.running(n) == 0:
			cs = append(cs, func() { pc[i]++; w.startOp(w.nodes[i], op.kind, op.res) })
		}
	}
	if pc[3] < len(p.old) {
		opsLeft = true
		if len(w.linger) > 0 && w.running(w.linger[0]) == 0 {
			op := p.old[pc[3]]
			cs = append(cs, func() { pc[3]++; w.startOp(w.linger[0], op.kind, op.res) })
		}
	}
	pend := w.allPending()
	for _, g := range pend {
		g := g
		cs = append(cs, func() { w.releaseGate(g, c18OK) })
		if p.delayed && g.kind != "resp" && g.kind != "grant" {
			cs = append(cs, func() { w.releaseGate(g, c18OKDelayed) })
		}
	}
	if !opsLeft && len(pend) == 0 {
		return nil // only expiry/notice could follow: they remove ownership, settle() delivers them
	}
	w.mu.Lock()
	leases := append([]*c18Lease(nil), w.leases...)
	w.mu.Unlock()
	for _, ls := range leases {
		ls := ls
		w.mu.Lock()
		dead, ka, noticed, crashed, auto := ls.serverDead, ls.hasKA, ls.noticed, ls.owner.crashed, ls.owner.auto
		inPrefix := ls.inPrefix
		w.mu.Unlock()
		if auto || (p.prefixLeases && !inPrefix) {
			continue
		}
		if *exp > 0 && !dead {
			cs = append(cs, func() { *exp--; w.expire(ls) })
		}
		if *noti > 0 && ka && !noticed && !crashed && (dead || !p.noticeAfterExpiry) {
			cs = append(cs, func() { *noti--; w.notice(ls) })
		}
	}
	return cs
}

var c18EnumProgs = []struct {
	tier string // "quick": run in both tiers; "thorough": thorough only
	p    c18EnumProg
}{
	{"quick", c18EnumProg{name: "A:acq,rel|B:acq|1 expiry", ops: [3][]c18EnumOp{{{"acquire", 0}, {"release", 0}}, {{"acquire", 0}}, nil}, expire: 1}},
	{"thorough", c18EnumProg{name: "A:acq,rel|B:acq|1 expiry,1 notice", ops: [3][]c18EnumOp{{{"acquire", 0}, {"release", 0}}, {{"acquire", 0}}, nil}, expire: 1, notice: 1}},
	{"thorough", c18EnumProg{name: "A:acq,restart,acq|B:acq|1 expiry", ops: [3][]c18EnumOp{{{"acquire", 0}, {"restart", 0}, {"acquire", 0}}, {{"acquire", 0}}, nil}, expire: 1}},
	{"thorough", c18EnumProg{name: "A:acq,(rel||acq)|B:acq", ops: [3][]c18EnumOp{{{"acquire", 0}, {"release", 0}, {"acquire", 0}}, {{"acquire", 0}}, nil}, overlap: [3]bool{true, false, false}}},
	{"thorough", c18EnumProg{name: "A:acq,relall|B:acq|delayed responses", ops: [3][]c18EnumOp{{{"acquire", 0}, {"release_all", 0}}, {{"acquire", 0}}, nil}, delayed: true}},
	// held response + session rotation + second resource: after the fixed prefix, every placement of
	// {expiry of A's first lease, its notice, A's acquire of r1 (start, grant, txn), B's acquire of r0, delivery of the held response}
	{"quick", c18EnumProg{name: "prefix[A:acq(r0) txn committed, response held]|A:acq(r1)|B:acq(r0) atomic|expiry then notice of A's first lease",
		nres: 2, prefix: c18PrefixHeldAcquire, ops: [3][]c18EnumOp{{{"acquire", 1}}, {{"acquire", 0}}, nil},
		overlap: [3]bool{true, false, false}, atomic: [3]bool{false, true, false}, expire: 1, notice: 1, prefixLeases: true, noticeAfterExpiry: true}},
	{"thorough", c18EnumProg{name: "prefix[A:acq(r0) txn committed, response held]|A:acq(r1)|B:acq(r0) atomic|expiry, notice (also early) of A's first lease",
		nres: 2, prefix: c18PrefixHeldAcquire, ops: [3][]c18EnumOp{{{"acquire", 1}}, {{"acquire", 0}}, nil},
		overlap: [3]bool{true, false, false}, atomic: [3]bool{false, true, false}, expire: 1, notice: 1, prefixLeases: true}},
	{"thorough", c18EnumProg{name: "prefix[A:acq(r0),restart,acq(r0): reacquire txn committed, response held]|A:acq(r1)|B:acq(r0) atomic|2 expiries, then notice, of A's leases",
		nres: 2, prefix: c18PrefixHeldReacquire, ops: [3][]c18EnumOp{{{"acquire", 1}}, {{"acquire", 0}}, nil},
		overlap: [3]bool{true, false, false}, atomic: [3]bool{false, true, false}, expire: 2, notice: 1, prefixLeases: true, noticeAfterExpiry: true}},
	// restart with the old incarnation still running: two managers (two etcd sessions) of broker id A overlap
	{"quick", c18EnumProg{name: "A:acq,respawn,acq|old A:rel|B:acq atomic",
		ops: [3][]c18EnumOp{{{"acquire", 0}, {"respawn", 0}, {"acquire", 0}}, {{"acquire", 0}}, nil}, old: []c18EnumOp{{"release", 0}}, atomic: [3]bool{false, true, false}}},
	// Release overlapping Acquire on one manager
	{"quick", c18EnumProg{name: "A:acq,(rel||acq)|B:acq atomic",
		ops: [3][]c18EnumOp{{{"acquire", 0}, {"release", 0}, {"acquire", 0}}, {{"acquire", 0}}, nil}, overlap: [3]bool{true, false, false}, atomic: [3]bool{false, true, false}}},
	{"thorough", c18EnumProg{name: "A:acq,respawn,acq|old A:rel|B:acq atomic|1 expiry",
		ops: [3][]c18EnumOp{{{"acquire", 0}, {"respawn", 0}, {"acquire", 0}}, {{"acquire", 0}}, nil}, old: []c18EnumOp{{"release", 0}}, atomic: [3]bool{false, true, false}, expire: 1}},
	{"thorough", c18EnumProg{name: "A:acq(r0),acq(r1),respawn,acq(r0)|old A:relall|B:acq(r0) atomic", nres: 2,
		ops: [3][]c18EnumOp{{{"acquire", 0}, {"acquire", 1}, {"respawn", 0}, {"acquire", 0}}, {{"acquire", 0}}, nil}, old: []c18EnumOp{{"release_all", 0}}, atomic: [3]bool{false, true, false}}},
	{"thorough", c18EnumProg{name: "A:acq,(rel in flight||respawn),acq|B:acq atomic",
		ops: [3][]c18EnumOp{{{"acquire", 0}, {"release", 0}, {"respawn", 0}, {"acquire", 0}}, {{"acquire", 0}}, nil}, overlap: [3]bool{true, false, false}, atomic: [3]bool{false, true, false}}},
}

// c18PrefixHeldAcquire: A's create-if-absent txn for r0 has committed under A's first session; its response is parked.
func c18PrefixHeldAcquire(s *c18Driver) {
	s.start(cA, "acquire", 0)
	s.next(cA, "grant", c18OK)
	s.next(cA, "txn", c18OKDelayed)
}

// c18PrefixHeldReacquire: restarted A has re-attached its own key r0 to its new session; that txn's response is parked.
func c18PrefixHeldReacquire(s *c18Driver) {
	s.do(cA, "acquire", 0)
	s.restart(cA)
	s.start(cA, "acquire", 0)
	s.next(cA, "grant", c18OK)
	s.next(cA, "txn", c18OK)
	s.next(cA, "txn", c18OKDelayed)
}

const c18EnumRule = "for each listed small program (per-broker call sequences over one resource, budgets of server-side expiries / notices), EVERY schedule — which broker starts its next call, which parked etcd request is executed next, where the expiry/notice is placed — is executed against fresh real managers by stateless depth-first search (a schedule = list of choice indices, re-executed from the start); a program may contain a restart that leaves the old incarnation running (respawn: two managers of broker id A overlap, the old one then issues its listed Release/ReleaseAll calls) and calls of one manager that overlap (Release || Acquire); a program may have a fixed prefix (e.g. A's acquire txn of r0 committed, its response parked) after which every continuation is enumerated over two resources: A's acquire of r1 step by step, B's acquire of r0 as one step, delivery of the parked response, expiry and notice of the prefix's lease(s); oracles (a) (b) (c) of the sched leg run after every step; exhaustive=true when every program's tree was exhausted within the tier's cap"

func TestVerifC18Enum(t *testing.T) {
	r := verifkit.Start(t, "C18", "enum")
	defer r.Finish(c18EnumRule,
		"same boundary model as the sched leg (faked KeepAlive, one etcd request in flight at a time, single-node etcd)",
		"choices are enumerated in a fixed order; a schedule prefix replays identically because no step of this leg depends on goroutine scheduling")
	e := newC18Env(t, r)
	defer e.close()
	limit := r.N(1500, 6000)
	allExhausted := true
	for _, ep := range c18EnumProgs {
		if ep.tier == "thorough" && !r.Thorough() {
			continue
		}
		p := ep.p
		for _, fl := range []string{"partition", "group"} {
			if fl == "group" && (!r.Thorough() || p.expire+p.notice > 1 || strings.Contains(p.name, "restart") || strings.Contains(p.name, "respawn") || p.delayed || p.prefix != nil) {
				continue // same LeaseManager code behind a different prefix: the big trees are enumerated for one flavour
			}
			var path []int
			count, exhausted := 0, false
			maxDepth := 0
			for count < limit {
				var widths []int
				synctest.Test(t, func(t *testing.T) {
					nres := p.nres
					if nres == 0 {
						nres = 1
					}
					w := e.newWorld(fl, "enum:"+p.name, nres)
					defer w.cleanup()
					var pc [4]int
					exp, noti := p.expire, p.notice
					if p.prefix != nil {
						p.prefix(&c18Driver{w})
						w.mu.Lock()
						for _, ls := range w.leases {
							ls.inPrefix = true
						}
						w.mu.Unlock()
					}
					for d := 0; d < 200 && w.ok(); d++ {
						cs := w.enumChoices(&p, &pc, &exp, &noti)
						if len(cs) == 0 {
							break
						}
						widths = append(widths, len(cs))
						idx := 0
						if d < len(path) {
							idx = path[d]
						}
						if idx >= len(cs) {
							w.trouble = fmt.Sprintf("enumeration replay diverged at depth %d (%d choices, wanted #%d)", d, len(cs), idx)
							break
						}
						cs[idx]()
					}
					if w.ok() {
						w.settle()
					}
					w.finishCase(fmt.Sprintf("enum:%s/%s/%v", p.name, fl, path), count == 0 && fl == "partition")
				})
				count++
				if len(widths) > maxDepth {
					maxDepth = len(widths)
				}
				full := make([]int, len(widths))
				copy(full, path)
				d := len(widths) - 1
				for d >= 0 && full[d]+1 >= widths[d] {
					d--
				}
				if d < 0 {
					exhausted = true
					break
				}
				path = append(full[:d:d], full[d]+1)
			}
			if !exhausted {
				allExhausted = false
			}
			r.Note("enum "+p.name+"/"+fl, map[string]any{"schedules": count, "exhausted": exhausted, "max_depth": maxDepth})
			r.Count("enumerated_schedules", int64(count))
			t.Logf("c18 enum %q/%s: %d schedules, exhausted=%v, max depth %d", p.name, fl, count, exhausted, maxDepth)
		}
	}
	r.Exhaustive(allExhausted)
	r.Floor("enumerated_schedules", 100)
}
