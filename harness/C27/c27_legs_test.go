//go:build verif

package main

import "testing"

func TestVerifC27(t *testing.T) { c27Leg(t, 250, 10000, 250, 10000) }
