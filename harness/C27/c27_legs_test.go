//go:build verif

package main

import "testing"

func TestVerifC27(t *testing.T) { c27Leg(t, 400, 10000, 400, 10000) }
