//go:build verif

package main

// C27 — "Proxy answers every requested partition once, without duplicate writes".
//
// Workload side: a real `proxy` value (fields set in-package), driven through
// handleConnection over an in-memory client connection; 2-3 scripted fake Kafka
// brokers on loopback TCP that decode every request they receive, decide a
// disposition per partition (write / NOT_LEADER / other error) and then deliver
// the reply according to a fault mode; routing from a real
// metadata.PartitionRouter over embedded etcd.
//
// Monitor side: the decoded client reply and the brokers' request logs, stamped
// from one atomic counter. The oracle (c27Judge*) is written from the property
// statement only.

import (
	"context"
	"encoding/binary"
	"encoding/hex"
	"encoding/json"
	"fmt"
	"hash/crc32"
	"math/rand"
	"net"
	"sort"
	"sync"
	"sync/atomic"
	"testing"
	"time"

	"github.com/KafScale/platform/internal/testutil"
	"github.com/KafScale/platform/internal/verifkit"
	"github.com/KafScale/platform/internal/verifkit/kbatch"
	"github.com/KafScale/platform/pkg/metadata"
	"github.com/twmb/franz-go/pkg/kmsg"
	clientv3 "go.etcd.io/etcd/client/v3"
)

const (
	c27NotLeader   int16 = 6
	c27TimedOut    int16 = 7
	c27LeasePrefix       = "/kafscale/partition-leases" // key layout documented in pkg/metadata/partition_lease.go
	c27Watchdog          = 60 * time.Second
)

// fault modes of one broker interaction
const (
	c27Normal         = "normal"
	c27ReplyThenClose = "reply_then_close"
	c27CloseAfterRead = "close_after_read"
	c27TruncFrame     = "truncated_frame"
	c27ShortBody      = "short_body"
	c27Garbage        = "garbage_body"
	c27Omit           = "omit_partition"
	c27ExtraForeign   = "extra_foreign_partition"
	c27ExtraSibling   = "extra_sibling_partition"
	c27Dup            = "dup_partition"
	c27DupReplace     = "dup_replaces_partition" // same number of entries: one partition answered twice, another not at all
	c27AcceptClose    = "close_on_accept" // pseudo mode (accept level)
)

var c27ReqModes = []string{c27Normal, c27ReplyThenClose, c27CloseAfterRead, c27TruncFrame, c27ShortBody, c27Garbage, c27Omit, c27ExtraForeign, c27ExtraSibling, c27Dup, c27DupReplace}

func c27IsShapeMode(m string) bool {
	return m == c27Omit || m == c27ExtraForeign || m == c27ExtraSibling || m == c27Dup || m == c27DupReplace
}

type c27Topic struct {
	Name    string `json:"name"`
	ID      string `json:"id"` // hex
	InStore bool   `json:"in_store"`
	id      [16]byte
}

type c27BrokerPlan struct {
	CloseOnAccept []bool             `json:"close_on_accept,omitempty"`
	ReqModes      []string           `json:"req_modes,omitempty"`
	Inject        map[string][]int16 `json:"inject,omitempty"` // tp -> code for k-th arrival of tp at this broker; 0 = decide by ownership
}

type c27ReqPart struct {
	Part int32    `json:"p"`
	IDs  []string `json:"ids,omitempty"`
}
type c27ReqTopic struct {
	Topic string       `json:"topic"` // canonical (harness) name
	Parts []c27ReqPart `json:"parts"`
}
type c27Req struct {
	Version int16         `json:"version"`
	Acks    int16         `json:"acks"`
	Corr    int32         `json:"corr"`
	Topics  []c27ReqTopic `json:"topics"`
}

type c27Case struct {
	Name           string          `json:"name"`
	API            string          `json:"api"`
	NB             int             `json:"brokers"`
	Router         bool            `json:"router"`
	Store          bool            `json:"store"`
	StaticBackends bool            `json:"static_backends"`
	DeadBackend    bool            `json:"dead_backend"`
	Topics         []c27Topic      `json:"topics"`
	TrueOwner      map[string]int  `json:"true_owner"` // tp -> broker index, -1 = nobody leads it
	Route          map[string]string `json:"route"`    // tp -> broker id in the lease key ("" = no key); "8" = id of the dead address, "9" = id unknown to the metadata
	Plans          []c27BrokerPlan `json:"plans"`
	Reqs           []c27Req        `json:"requests"`
	// LearnMidflight: topics (canonical names, InStore=false) that the metadata store learns while the first
	// broker request naming them is being answered.
	LearnMidflight []string `json:"learn_midflight,omitempty"`
}

func c27TPKey(topic string, part int32) string { return fmt.Sprintf("%s/%d", topic, part) }

type c27PartEv struct {
	TP    string   `json:"tp"`
	IDs   []string `json:"ids,omitempty"`
	Code  int16    `json:"code"` // disposition decided by the broker (0 = written / served)
	Token int64    `json:"token"`
}
type c27ReplyEntry struct {
	TP    string `json:"tp"`
	Code  int16  `json:"code"`
	Token int64  `json:"token"`
}
type c27Event struct {
	Seq       int64           `json:"seq"`
	Broker    int             `json:"broker"`
	Conn      int             `json:"conn"`
	Kind      string          `json:"kind"` // accept_close | request | undecodable
	API       int16           `json:"api"`
	Version   int16           `json:"version"`
	Corr      int32           `json:"corr"`
	Acks      int16           `json:"acks,omitempty"`
	Parts     []c27PartEv     `json:"parts,omitempty"`
	Mode      string          `json:"mode,omitempty"`
	ReplySeq  int64           `json:"reply_seq,omitempty"`
	Delivered string          `json:"delivered,omitempty"` // reply | none | malformed
	Reply     []c27ReplyEntry `json:"reply,omitempty"`     // reference decoding of the bytes actually sent
	Err       string          `json:"err,omitempty"`
}

type c27Env struct {
	t        *testing.T
	r        *verifkit.Run
	cli      *clientv3.Client
	router   *metadata.PartitionRouter
	deadAddr string
	deadPort int32
	seq      atomic.Int64
	recSeq   atomic.Int64
}

func c27NewEnv(t *testing.T, r *verifkit.Run) *c27Env {
	e := &c27Env{t: t, r: r}
	endpoints := testutil.StartEmbeddedEtcd(t)
	cli, err := clientv3.New(clientv3.Config{Endpoints: endpoints, DialTimeout: 5 * time.Second})
	if err != nil {
		t.Fatalf("etcd client: %v", err)
	}
	t.Cleanup(func() { _ = cli.Close() })
	e.cli = cli
	router, err := metadata.NewPartitionRouter(context.Background(), cli, pwDiscardLogger())
	if err != nil {
		t.Fatalf("partition router: %v", err)
	}
	t.Cleanup(router.Stop)
	e.router = router
	addr, release, err := pwDeadAddr()
	if err != nil {
		t.Fatalf("dead address: %v", err)
	}
	t.Cleanup(release)
	e.deadAddr = addr
	_, portStr, _ := net.SplitHostPort(addr)
	var port int
	fmt.Sscanf(portStr, "%d", &port)
	e.deadPort = int32(port)
	return e
}

// setRoutesAll writes the lease keys of every case of the leg (topic names are
// unique per case, so cases cannot see each other's routes) and waits
// (sentinel: the router's own LookupOwner) until the watch has applied them all.
func (e *c27Env) setRoutesAll(cases []*c27Case) bool {
	var ops []clientv3.Op
	type want struct {
		topic string
		part  int32
		id    string
	}
	var wants []want
	for _, cs := range cases {
		if !cs.Router {
			continue
		}
		keys := make([]string, 0, len(cs.Route))
		for k := range cs.Route {
			keys = append(keys, k)
		}
		sort.Strings(keys)
		for _, k := range keys {
			id := cs.Route[k]
			if id == "" {
				continue
			}
			i := len(k) - 1
			for i >= 0 && k[i] != '/' {
				i--
			}
			topic := k[:i]
			var part int32
			fmt.Sscanf(k[i+1:], "%d", &part)
			ops = append(ops, clientv3.OpPut(fmt.Sprintf("%s/%s/%d", c27LeasePrefix, topic, part), id))
			wants = append(wants, want{topic, part, id})
		}
	}
	ctx, cancel := context.WithTimeout(context.Background(), 10*c27Watchdog)
	defer cancel()
	for len(ops) > 0 {
		n := len(ops)
		if n > 100 {
			n = 100
		}
		if _, err := e.cli.Txn(ctx).Then(ops[:n]...).Commit(); err != nil {
			e.r.Inconclusive(fmt.Sprintf("etcd put routes: %v", err))
			return false
		}
		ops = ops[n:]
	}
	e.r.Count("lease_keys_written", int64(len(wants)))
	deadline := time.Now().Add(5 * c27Watchdog)
	for _, w := range wants {
		for e.router.LookupOwner(w.topic, w.part) != w.id {
			if time.Now().After(deadline) {
				e.r.Inconclusive("the router did not observe all lease keys (watchdog)")
				return false
			}
			time.Sleep(500 * time.Microsecond)
		}
	}
	return true
}

// ---------------------------------------------------------------- fake broker

type c27Broker struct {
	env      *c27Env
	run      *c27Run
	idx      int
	ln       net.Listener
	addr     string
	port     int32
	mu       sync.Mutex
	accepts  int
	reqs     int
	arrivals map[string]int
	events   []*c27Event
	conns    map[net.Conn]struct{}
	wg       sync.WaitGroup
}

type c27Run struct {
	cs      *c27Case
	env     *c27Env
	brokers []*c27Broker
	store   *metadata.InMemoryStore
	meta    metadata.ClusterMetadata
	byID    map[[16]byte]string // every topic id of the case -> canonical name
	learned sync.Map
	rngMu   sync.Mutex
	rng     *rand.Rand
}

func (b *c27Broker) serve() {
	defer b.wg.Done()
	for {
		c, err := b.ln.Accept()
		if err != nil {
			return
		}
		b.mu.Lock()
		b.conns[c] = struct{}{}
		b.mu.Unlock()
		b.wg.Add(1)
		go b.handle(c)
	}
}

func (b *c27Broker) logEvent(ev *c27Event) {
	b.mu.Lock()
	b.events = append(b.events, ev)
	b.mu.Unlock()
}

func (b *c27Broker) handle(c net.Conn) {
	defer b.wg.Done()
	defer func() {
		c.Close()
		b.mu.Lock()
		delete(b.conns, c)
		b.mu.Unlock()
	}()
	plan := b.run.cs.Plans[b.idx]
	b.mu.Lock()
	ai := b.accepts
	b.accepts++
	b.mu.Unlock()
	if ai < len(plan.CloseOnAccept) && plan.CloseOnAccept[ai] {
		b.logEvent(&c27Event{Seq: b.env.seq.Add(1), Broker: b.idx, Conn: ai, Kind: "accept_close", Mode: c27AcceptClose})
		return
	}
	for {
		payload, err := pwReadFrame(c)
		if err != nil {
			return
		}
		seq := b.env.seq.Add(1)
		h, req, perr := pwParseRequest(payload)
		if perr != nil {
			ev := &c27Event{Seq: seq, Broker: b.idx, Conn: ai, Kind: "undecodable", Err: perr.Error()}
			if h != nil {
				ev.API, ev.Version, ev.Corr = h.Key, h.Version, h.Corr
			}
			b.logEvent(ev)
			return
		}
		b.mu.Lock()
		ri := b.reqs
		b.reqs++
		b.mu.Unlock()
		mode := c27Normal
		if ri < len(plan.ReqModes) && plan.ReqModes[ri] != "" {
			mode = plan.ReqModes[ri]
		}
		ev := &c27Event{Seq: seq, Broker: b.idx, Conn: ai, Kind: "request", API: h.Key, Version: h.Version, Corr: h.Corr, Mode: mode}
		var resp kmsg.Response
		noReply := false
		switch r := req.(type) {
		case *kmsg.ProduceRequest:
			ev.Acks = r.Acks
			resp = b.onProduce(ev, r, mode)
			noReply = r.Acks == 0
		case *kmsg.FetchRequest:
			resp = b.onFetch(ev, r, mode)
		default:
			ev.Kind = "undecodable"
			ev.Err = fmt.Sprintf("unexpected api key %d", h.Key)
			b.logEvent(ev)
			return
		}
		b.logEvent(ev) // logged before anything is sent back: the request has been received and processed
		if noReply {
			ev.Delivered = "none"
			if mode != c27Normal {
				return
			}
			continue
		}
		if mode == c27CloseAfterRead {
			ev.Delivered = "none"
			return
		}
		out := pwEncodeResponse(resp, h.Corr)
		switch mode {
		case c27ShortBody:
			b.run.rngMu.Lock()
			cut := 0
			if len(out) > 1 {
				cut = b.run.rng.Intn(len(out) - 1)
			}
			b.run.rngMu.Unlock()
			out = out[:cut]
		case c27Garbage:
			b.run.rngMu.Lock()
			g := make([]byte, b.run.rng.Intn(48))
			b.run.rng.Read(g)
			b.run.rngMu.Unlock()
			out = g
		}
		if mode == c27TruncFrame {
			ev.ReplySeq = b.env.seq.Add(1)
			ev.Delivered = "malformed"
			frame := make([]byte, 4, 4+len(out))
			frame[0], frame[1], frame[2], frame[3] = byte((len(out)+7)>>24), byte((len(out)+7)>>16), byte((len(out)+7)>>8), byte(len(out)+7)
			frame = append(frame, out...)
			_, _ = c.Write(frame)
			return
		}
		// what did we really say? reference-decode the bytes that go on the wire
		ev.Delivered, ev.Reply = b.run.referenceDecode(h.Key, h.Version, out)
		ev.ReplySeq = b.env.seq.Add(1)
		if err := pwWriteFrame(c, out); err != nil {
			ev.Delivered = "none"
			ev.Err = "write: " + err.Error()
			return
		}
		if mode == c27ReplyThenClose {
			return
		}
	}
}

func (run *c27Run) canonicalTopic(name string, id [16]byte, version int16, api int16) string {
	if api == 1 && version >= 13 {
		if n, ok := run.byID[id]; ok {
			return n
		}
		return "id:" + hex.EncodeToString(id[:])
	}
	return name
}

func (run *c27Run) referenceDecode(api, version int16, payload []byte) (string, []c27ReplyEntry) {
	entries := []c27ReplyEntry{}
	switch api {
	case 0:
		resp := kmsg.NewPtrProduceResponse()
		resp.Version = version
		if _, err := pwDecodeResponse(payload, resp); err != nil {
			return "malformed", nil
		}
		for _, t := range resp.Topics {
			for _, p := range t.Partitions {
				entries = append(entries, c27ReplyEntry{TP: c27TPKey(t.Topic, p.Partition), Code: p.ErrorCode, Token: p.BaseOffset})
			}
		}
	case 1:
		resp := kmsg.NewPtrFetchResponse()
		resp.Version = version
		if _, err := pwDecodeResponse(payload, resp); err != nil {
			return "malformed", nil
		}
		for _, t := range resp.Topics {
			name := run.canonicalTopic(t.Topic, t.TopicID, version, 1)
			for _, p := range t.Partitions {
				entries = append(entries, c27ReplyEntry{TP: c27TPKey(name, p.Partition), Code: p.ErrorCode, Token: p.HighWatermark})
			}
		}
	}
	return "reply", entries
}

// disposition decides what the broker does with one partition of one request.
func (b *c27Broker) disposition(tp string) int16 {
	plan := b.run.cs.Plans[b.idx]
	b.mu.Lock()
	k := b.arrivals[tp]
	b.arrivals[tp]++
	b.mu.Unlock()
	if codes, ok := plan.Inject[tp]; ok && k < len(codes) && codes[k] != 0 {
		return codes[k]
	}
	owner, ok := b.run.cs.TrueOwner[tp]
	if ok && owner == b.idx {
		return 0
	}
	return c27NotLeader
}

func (b *c27Broker) clientReq(corr int32) *c27Req {
	for i := range b.run.cs.Reqs {
		if b.run.cs.Reqs[i].Corr == corr {
			return &b.run.cs.Reqs[i]
		}
	}
	return nil
}

// sibling returns a partition the client asked for in the same client request
// but which is not part of this sub-request (ok=false if none).
func (b *c27Broker) sibling(corr int32, have map[string]bool) (string, int32, bool) {
	cr := b.clientReq(corr)
	if cr == nil {
		return "", 0, false
	}
	for _, t := range cr.Topics {
		for _, p := range t.Parts {
			if !have[c27TPKey(t.Topic, p.Part)] {
				return t.Topic, p.Part, true
			}
		}
	}
	return "", 0, false
}

// c27EncodeLegacy renders a v0/v1 message set (what Produce v0-v2 carries).
func c27EncodeLegacy(ids []string, magic byte) []byte {
	var out []byte
	for i, id := range ids {
		var m []byte
		m = append(m, magic, 0)
		if magic == 1 {
			m = binary.BigEndian.AppendUint64(m, uint64(1700000000000+int64(i)))
		}
		m = binary.BigEndian.AppendUint32(m, 1)
		m = append(m, 'k')
		m = binary.BigEndian.AppendUint32(m, uint32(len(id)))
		m = append(m, id...)
		out = binary.BigEndian.AppendUint64(out, uint64(i))
		out = binary.BigEndian.AppendUint32(out, uint32(len(m)+4))
		out = binary.BigEndian.AppendUint32(out, crc32.ChecksumIEEE(m))
		out = append(out, m...)
	}
	return out
}

func c27DecodeLegacy(b []byte) ([]string, error) {
	var ids []string
	for len(b) > 0 {
		if len(b) < 12 {
			return ids, fmt.Errorf("message set: short entry header")
		}
		size := int(binary.BigEndian.Uint32(b[8:]))
		b = b[12:]
		if size < 6 || size > len(b) {
			return ids, fmt.Errorf("message set: bad message size %d", size)
		}
		m := b[:size]
		b = b[size:]
		if crc32.ChecksumIEEE(m[4:]) != binary.BigEndian.Uint32(m) {
			return ids, fmt.Errorf("message set: crc mismatch")
		}
		magic := m[4]
		m = m[6:]
		if magic == 1 {
			if len(m) < 8 {
				return ids, fmt.Errorf("message set: short timestamp")
			}
			m = m[8:]
		}
		for f := 0; f < 2; f++ {
			if len(m) < 4 {
				return ids, fmt.Errorf("message set: short field")
			}
			l := int(int32(binary.BigEndian.Uint32(m)))
			m = m[4:]
			if l < 0 {
				continue
			}
			if l > len(m) {
				return ids, fmt.Errorf("message set: field overruns")
			}
			if f == 1 {
				ids = append(ids, string(m[:l]))
			}
			m = m[l:]
		}
	}
	return ids, nil
}

func c27RecordIDs(records []byte, version int16) ([]string, error) {
	if version < 3 {
		return c27DecodeLegacy(records)
	}
	batches, err := kbatch.DecodeAll(records)
	if err != nil {
		return nil, err
	}
	var ids []string
	for _, bt := range batches {
		for _, rec := range bt.Records {
			ids = append(ids, string(rec.Value))
		}
	}
	return ids, nil
}

func (b *c27Broker) onProduce(ev *c27Event, req *kmsg.ProduceRequest, mode string) kmsg.Response {
	resp := kmsg.NewPtrProduceResponse()
	resp.Version = req.Version
	have := map[string]bool{}
	n := 0
	for _, t := range req.Topics {
		rt := kmsg.NewProduceResponseTopic()
		rt.Topic = t.Topic
		for _, p := range t.Partitions {
			tp := c27TPKey(t.Topic, p.Partition)
			have[tp] = true
			ids, err := c27RecordIDs(p.Records, req.Version)
			if err != nil {
				ev.Err = fmt.Sprintf("records of %s undecodable: %v", tp, err)
			}
			code := b.disposition(tp)
			token := ev.Seq*64 + int64(n)
			n++
			ev.Parts = append(ev.Parts, c27PartEv{TP: tp, IDs: ids, Code: code, Token: token})
			rp := kmsg.NewProduceResponseTopicPartition()
			rp.Partition = p.Partition
			rp.ErrorCode = code
			rp.BaseOffset = -1
			if code == 0 {
				rp.BaseOffset = token
			}
			rt.Partitions = append(rt.Partitions, rp)
		}
		resp.Topics = append(resp.Topics, rt)
	}
	switch mode {
	case c27Omit:
		if len(resp.Topics) > 0 && len(resp.Topics[0].Partitions) > 0 {
			resp.Topics[0].Partitions = resp.Topics[0].Partitions[1:]
			if len(resp.Topics[0].Partitions) == 0 {
				resp.Topics = resp.Topics[1:]
			}
		}
	case c27Dup:
		if len(resp.Topics) > 0 && len(resp.Topics[0].Partitions) > 0 {
			resp.Topics[0].Partitions = append(resp.Topics[0].Partitions, resp.Topics[0].Partitions[0])
		}
	case c27DupReplace:
		done := false
		for ti := range resp.Topics {
			if ps := resp.Topics[ti].Partitions; len(ps) >= 2 {
				ps[len(ps)-1] = ps[0]
				done = true
				break
			}
		}
		if !done && len(resp.Topics) > 0 && len(resp.Topics[0].Partitions) > 0 {
			resp.Topics[0].Partitions = append(resp.Topics[0].Partitions, resp.Topics[0].Partitions[0])
		}
	case c27ExtraForeign, c27ExtraSibling:
		topic, part := "", int32(77)
		if len(req.Topics) > 0 {
			topic = req.Topics[0].Topic
		}
		if mode == c27ExtraSibling {
			if st, sp, ok := b.sibling(ev.Corr, have); ok {
				topic, part = st, sp
			}
		}
		rp := kmsg.NewProduceResponseTopicPartition()
		rp.Partition = part
		rp.ErrorCode = 0
		rp.BaseOffset = ev.Seq*64 + 63
		found := false
		for i := range resp.Topics {
			if resp.Topics[i].Topic == topic {
				resp.Topics[i].Partitions = append(resp.Topics[i].Partitions, rp)
				found = true
				break
			}
		}
		if !found {
			rt := kmsg.NewProduceResponseTopic()
			rt.Topic = topic
			rt.Partitions = append(rt.Partitions, rp)
			resp.Topics = append(resp.Topics, rt)
		}
	}
	return resp
}

func (b *c27Broker) onFetch(ev *c27Event, req *kmsg.FetchRequest, mode string) kmsg.Response {
	resp := kmsg.NewPtrFetchResponse()
	resp.Version = req.Version
	resp.SessionID = req.SessionID
	have := map[string]bool{}
	n := 0
	for _, t := range req.Topics {
		name := b.run.canonicalTopic(t.Topic, t.TopicID, req.Version, 1)
		b.run.maybeLearn(name)
		rt := kmsg.NewFetchResponseTopic()
		rt.Topic = t.Topic
		rt.TopicID = t.TopicID
		for _, p := range t.Partitions {
			tp := c27TPKey(name, p.Partition)
			have[tp] = true
			code := b.disposition(tp)
			token := ev.Seq*64 + int64(n)
			n++
			ev.Parts = append(ev.Parts, c27PartEv{TP: tp, Code: code, Token: token})
			rp := kmsg.NewFetchResponseTopicPartition()
			rp.Partition = p.Partition
			rp.ErrorCode = code
			rp.HighWatermark = -1
			if code == 0 {
				rp.HighWatermark = token
				rp.LastStableOffset = token
				rp.RecordBatches = kbatch.Encode(kbatch.Batch{Magic: 2, BaseOffset: p.FetchOffset, ProducerID: -1, ProducerEpoch: -1, BaseSequence: -1,
					Records: []kbatch.Record{{Value: []byte(fmt.Sprintf("served-%d", token))}}})
			}
			rt.Partitions = append(rt.Partitions, rp)
		}
		resp.Topics = append(resp.Topics, rt)
	}
	switch mode {
	case c27Omit:
		if len(resp.Topics) > 0 && len(resp.Topics[0].Partitions) > 0 {
			resp.Topics[0].Partitions = resp.Topics[0].Partitions[1:]
			if len(resp.Topics[0].Partitions) == 0 {
				resp.Topics = resp.Topics[1:]
			}
		}
	case c27Dup:
		if len(resp.Topics) > 0 && len(resp.Topics[0].Partitions) > 0 {
			resp.Topics[0].Partitions = append(resp.Topics[0].Partitions, resp.Topics[0].Partitions[0])
		}
	case c27DupReplace:
		done := false
		for ti := range resp.Topics {
			if ps := resp.Topics[ti].Partitions; len(ps) >= 2 {
				ps[len(ps)-1] = ps[0]
				done = true
				break
			}
		}
		if !done && len(resp.Topics) > 0 && len(resp.Topics[0].Partitions) > 0 {
			resp.Topics[0].Partitions = append(resp.Topics[0].Partitions, resp.Topics[0].Partitions[0])
		}
	case c27ExtraForeign, c27ExtraSibling:
		var topic string
		var tid [16]byte
		part := int32(77)
		if len(req.Topics) > 0 {
			topic, tid = req.Topics[0].Topic, req.Topics[0].TopicID
		}
		if mode == c27ExtraSibling {
			if st, sp, ok := b.sibling(ev.Corr, have); ok {
				part = sp
				topic = st
				tid = [16]byte{}
				for _, ct := range b.run.cs.Topics {
					if ct.Name == st {
						tid = ct.id
					}
				}
			}
		}
		rp := kmsg.NewFetchResponseTopicPartition()
		rp.Partition = part
		rp.HighWatermark = ev.Seq*64 + 63
		found := false
		for i := range resp.Topics {
			same := resp.Topics[i].Topic == topic
			if req.Version >= 13 {
				same = resp.Topics[i].TopicID == tid
			}
			if same {
				resp.Topics[i].Partitions = append(resp.Topics[i].Partitions, rp)
				found = true
				break
			}
		}
		if !found {
			rt := kmsg.NewFetchResponseTopic()
			rt.Topic = topic
			rt.TopicID = tid
			rt.Partitions = append(rt.Partitions, rp)
			resp.Topics = append(resp.Topics, rt)
		}
	}
	return resp
}

// maybeLearn publishes a topic into the metadata store the first time a broker
// sees a request for it (LearnMidflight): the proxy's next metadata refresh,
// which happens while this very client request is in flight, then knows it.
func (run *c27Run) maybeLearn(name string) {
	want := false
	for _, n := range run.cs.LearnMidflight {
		if n == name {
			want = true
		}
	}
	if !want || run.store == nil {
		return
	}
	if _, done := run.learned.LoadOrStore(name, true); done {
		return
	}
	m := run.meta
	for _, t := range run.cs.Topics {
		if t.Name == name {
			m.Topics = append(append([]kmsg.MetadataResponseTopic(nil), m.Topics...), c27MetaTopic(t))
		}
	}
	run.store.Update(m)
}

func c27MetaTopic(t c27Topic) kmsg.MetadataResponseTopic {
	mt := kmsg.NewMetadataResponseTopic()
	mt.Topic = kmsg.StringPtr(t.Name)
	mt.TopicID = t.id
	for p := int32(0); p < 4; p++ {
		mp := kmsg.NewMetadataResponseTopicPartition()
		mp.Partition = p
		mp.Leader = 1
		mp.Replicas = []int32{1}
		mp.ISR = []int32{1}
		mt.Partitions = append(mt.Partitions, mp)
	}
	return mt
}

// ---------------------------------------------------------------- running a case

type c27Reply struct {
	Status  string          // ok | no_reply | undecodable | not_expected(acks=0)
	Err     string          `json:",omitempty"`
	Corr    int32           `json:",omitempty"`
	Entries []c27ReplyEntry // flattened
}

type c27Outcome struct {
	Replies []c27Reply
	Events  []*c27Event
	Panic   string
	Aborted string // non-empty: inconclusive (watchdog)
}

func (e *c27Env) startBrokers(run *c27Run) error {
	for i := 0; i < run.cs.NB; i++ {
		ln, err := net.Listen("tcp", "127.0.0.1:0")
		if err != nil {
			return err
		}
		b := &c27Broker{env: e, run: run, idx: i, ln: ln, addr: ln.Addr().String(), port: int32(ln.Addr().(*net.TCPAddr).Port),
			arrivals: map[string]int{}, conns: map[net.Conn]struct{}{}}
		run.brokers = append(run.brokers, b)
		b.wg.Add(1)
		go b.serve()
	}
	return nil
}

func (e *c27Env) stopBrokers(run *c27Run) bool {
	for _, b := range run.brokers {
		b.ln.Close()
	}
	done := make(chan struct{})
	go func() {
		for _, b := range run.brokers {
			b.wg.Wait()
		}
		close(done)
	}()
	select {
	case <-done:
		return true
	case <-time.After(c27Watchdog):
		for _, b := range run.brokers {
			b.mu.Lock()
			for c := range b.conns {
				c.Close()
			}
			b.mu.Unlock()
		}
		<-done
		return false
	}
}

func (e *c27Env) buildProxy(run *c27Run) *proxy {
	cs := run.cs
	p := &proxy{
		advertisedHost: "proxy.verif",
		advertisedPort: 19092,
		logger:         pwDiscardLogger(),
		dialTimeout:    5 * time.Second,
		cacheTTL:       time.Hour,
		apiVersions:    generateProxyApiVersions(),
		brokerAddrs:    make(map[string]string),
		topicNames:     make(map[[16]byte]string),
		backendRetries: 2,
		backendBackoff: time.Millisecond,
	}
	var meta metadata.ClusterMetadata
	var addrs []string
	if cs.DeadBackend {
		// listed first so that round-robin really runs into it
		meta.Brokers = append(meta.Brokers, kmsg.MetadataResponseBroker{NodeID: 8, Host: "127.0.0.1", Port: e.deadPort})
		addrs = append(addrs, e.deadAddr)
	}
	for i, b := range run.brokers {
		meta.Brokers = append(meta.Brokers, kmsg.MetadataResponseBroker{NodeID: int32(i + 1), Host: "127.0.0.1", Port: b.port})
		addrs = append(addrs, b.addr)
	}
	if !cs.DeadBackend {
		// the dead broker id stays resolvable for routes that point at it
		meta.Brokers = append(meta.Brokers, kmsg.MetadataResponseBroker{NodeID: 8, Host: "127.0.0.1", Port: e.deadPort})
	}
	meta.ControllerID = 1
	for _, t := range cs.Topics {
		if t.InStore {
			meta.Topics = append(meta.Topics, c27MetaTopic(t))
		}
	}
	run.meta = meta
	if cs.Store {
		run.store = metadata.NewInMemoryStore(meta)
		p.store = run.store
	}
	if cs.StaticBackends || !cs.Store {
		p.backends = addrs
		p.setCachedBackends(addrs)
		p.touchHealthy()
	}
	p.setReady(true)
	if cs.Router {
		p.router = e.router
	}
	if cs.Store {
		p.refreshMetadataCache(context.Background()) // what initMetadataCache does at start-up
	}
	return p
}

func (e *c27Env) runCase(cs *c27Case, seedRng *rand.Rand) *c27Outcome {
	out := &c27Outcome{}
	run := &c27Run{cs: cs, env: e, byID: map[[16]byte]string{}, rng: rand.New(rand.NewSource(seedRng.Int63()))}
	for _, t := range cs.Topics {
		run.byID[t.id] = t.Name
	}
	if err := e.startBrokers(run); err != nil {
		e.t.Fatalf("listen: %v", err)
	}
	p := e.buildProxy(run)
	c1, c2 := net.Pipe()
	done := make(chan struct{})
	go func() {
		defer close(done)
		defer func() {
			if v := recover(); v != nil {
				out.Panic = fmt.Sprint(v)
				c2.Close()
			}
		}()
		p.handleConnection(context.Background(), c2)
	}()
	for i := range cs.Reqs {
		rq := &cs.Reqs[i]
		frame := c27EncodeClientReq(cs, rq)
		_ = c1.SetDeadline(time.Now().Add(c27Watchdog))
		if _, err := c1.Write(frame); err != nil {
			if ne, ok := err.(net.Error); ok && ne.Timeout() {
				out.Aborted = "client write watchdog"
			}
			out.Replies = append(out.Replies, c27Reply{Status: "no_reply", Err: "write: " + err.Error()})
			break
		}
		if cs.API == "produce" && rq.Acks == 0 {
			out.Replies = append(out.Replies, c27Reply{Status: "not_expected"})
			continue
		}
		payload, err := pwReadFrame(c1)
		if err != nil {
			if ne, ok := err.(net.Error); ok && ne.Timeout() {
				out.Aborted = "client read watchdog"
			}
			out.Replies = append(out.Replies, c27Reply{Status: "no_reply", Err: err.Error()})
			break
		}
		out.Replies = append(out.Replies, run.decodeClientReply(rq, payload))
	}
	c1.Close()
	select {
	case <-done:
	case <-time.After(c27Watchdog):
		out.Aborted = "handleConnection did not return (watchdog)"
	}
	if !e.stopBrokers(run) && out.Aborted == "" {
		out.Aborted = "broker handlers did not drain (watchdog)"
	}
	for _, b := range run.brokers {
		out.Events = append(out.Events, b.events...)
	}
	sort.Slice(out.Events, func(i, j int) bool { return out.Events[i].Seq < out.Events[j].Seq })
	return out
}

func (run *c27Run) decodeClientReply(rq *c27Req, payload []byte) c27Reply {
	rep := c27Reply{Status: "ok"}
	if run.cs.API == "produce" {
		resp := kmsg.NewPtrProduceResponse()
		resp.Version = rq.Version
		corr, err := pwDecodeResponse(payload, resp)
		rep.Corr = corr
		if err != nil {
			return c27Reply{Status: "undecodable", Err: err.Error(), Corr: corr}
		}
		for _, t := range resp.Topics {
			for _, p := range t.Partitions {
				rep.Entries = append(rep.Entries, c27ReplyEntry{TP: c27TPKey(t.Topic, p.Partition), Code: p.ErrorCode, Token: p.BaseOffset})
			}
		}
		return rep
	}
	resp := kmsg.NewPtrFetchResponse()
	resp.Version = rq.Version
	corr, err := pwDecodeResponse(payload, resp)
	rep.Corr = corr
	if err != nil {
		return c27Reply{Status: "undecodable", Err: err.Error(), Corr: corr}
	}
	for _, t := range resp.Topics {
		name := run.canonicalTopic(t.Topic, t.TopicID, rq.Version, 1)
		for _, p := range t.Partitions {
			rep.Entries = append(rep.Entries, c27ReplyEntry{TP: c27TPKey(name, p.Partition), Code: p.ErrorCode, Token: p.HighWatermark})
		}
	}
	return rep
}

func c27EncodeClientReq(cs *c27Case, rq *c27Req) []byte {
	topicID := func(name string) [16]byte {
		for _, t := range cs.Topics {
			if t.Name == name {
				return t.id
			}
		}
		return [16]byte{}
	}
	if cs.API == "produce" {
		req := kmsg.NewPtrProduceRequest()
		req.Version = rq.Version
		req.Acks = rq.Acks
		req.TimeoutMillis = 30000
		for _, t := range rq.Topics {
			rt := kmsg.NewProduceRequestTopic()
			rt.Topic = t.Topic
			for _, p := range t.Parts {
				rp := kmsg.NewProduceRequestTopicPartition()
				rp.Partition = p.Part
				if rq.Version < 3 {
					magic := byte(0)
					if rq.Version == 2 {
						magic = 1
					}
					rp.Records = c27EncodeLegacy(p.IDs, magic)
				} else {
					b := kbatch.Batch{Magic: 2, ProducerID: -1, ProducerEpoch: -1, BaseSequence: -1, FirstTimestamp: 1700000000000, MaxTimestamp: 1700000000000}
					for i, id := range p.IDs {
						b.Records = append(b.Records, kbatch.Record{OffsetDelta: int32(i), Key: []byte("k"), Value: []byte(id)})
					}
					rp.Records = kbatch.Encode(b)
				}
				rt.Partitions = append(rt.Partitions, rp)
			}
			req.Topics = append(req.Topics, rt)
		}
		return pwEncodeRequest(req, rq.Corr, "verif-c27")
	}
	req := kmsg.NewPtrFetchRequest()
	req.Version = rq.Version
	req.ReplicaID = -1
	req.MaxWaitMillis = 100
	req.MinBytes = 1
	req.MaxBytes = 1 << 20
	req.SessionEpoch = -1
	for _, t := range rq.Topics {
		rt := kmsg.NewFetchRequestTopic()
		if rq.Version >= 13 {
			rt.TopicID = topicID(t.Topic)
		} else {
			rt.Topic = t.Topic
		}
		for _, p := range t.Parts {
			rp := kmsg.NewFetchRequestTopicPartition()
			rp.Partition = p.Part
			rp.FetchOffset = int64(rq.Corr)*100 + int64(p.Part)
			rp.PartitionMaxBytes = 1 << 20
			rt.Partitions = append(rt.Partitions, rp)
		}
		req.Topics = append(req.Topics, rt)
	}
	return pwEncodeRequest(req, rq.Corr, "verif-c27")
}

// ---------------------------------------------------------------- oracle

type c27Verdict struct {
	Class   string
	Summary string
}

func c27Count(entries []c27ReplyEntry) map[string]int {
	m := map[string]int{}
	for _, e := range entries {
		m[e.TP]++
	}
	return m
}

// c27Judge applies the statement of C27 to one client request of a finished
// case. events are all broker events of the case in stamp order.
func c27Judge(cs *c27Case, rq *c27Req, rep c27Reply, events []*c27Event) []c27Verdict {
	var vs []c27Verdict
	api := cs.API
	mine := []*c27Event{}
	for _, ev := range events {
		if ev.Kind == "request" && ev.Corr == rq.Corr {
			mine = append(mine, ev)
		}
	}
	requested := map[string]int{}
	var order []string
	for _, t := range rq.Topics {
		for _, p := range t.Parts {
			k := c27TPKey(t.Topic, p.Part)
			if requested[k] == 0 {
				order = append(order, k)
			}
			requested[k]++
		}
	}
	evCount := func(ev *c27Event) (parts map[string]int, reply map[string]int) {
		parts = map[string]int{}
		for _, p := range ev.Parts {
			parts[p.TP]++
		}
		return parts, c27Count(ev.Reply)
	}

	expectReply := !(api == "produce" && rq.Acks == 0)
	if expectReply {
		switch rep.Status {
		case "no_reply":
			vs = append(vs, c27Verdict{api + "_no_reply", fmt.Sprintf("the proxy closed the client connection without answering %d requested partitions (%s)", len(order), rep.Err)})
		case "undecodable":
			vs = append(vs, c27Verdict{api + "_reply_undecodable", "the proxy's reply does not decode at the request version: " + rep.Err})
		case "ok":
			if rep.Corr != rq.Corr {
				vs = append(vs, c27Verdict{api + "_reply_correlation_mismatch", fmt.Sprintf("the frame that answers correlation id %d carries correlation id %d: the client has no reply to its request", rq.Corr, rep.Corr)})
				break
			}
			got := c27Count(rep.Entries)
			// (1) exactly one entry per requested topic-partition.
			// The class names the symptom unless the witness itself shows the cause: a well-formed broker
			// reply whose partition set differs from what that broker was asked (mirrors), or a topic name
			// that the metadata cache learned while the request was in flight.
			mirrors := api + "_reply_mirrors_broker_reply_shape"
			for _, k := range order {
				if got[k] == 0 {
					cls := api + "_reply_missing_partition"
					for i := len(mine) - 1; i >= 0; i-- {
						parts, reply := evCount(mine[i])
						if parts[k] > 0 {
							if mine[i].Delivered == "reply" && reply[k] == 0 {
								cls = mirrors
							} else if mine[i].Delivered == "reply" && api == "fetch" && rq.Version >= 13 && c27LearnedMidflight(cs, k) {
								for _, re := range mine[i].Reply {
									if re.TP == k && re.Code == c27NotLeader {
										cls = "fetch_reply_missing_partition:topic_name_learned_midflight"
									}
								}
							}
							break
						}
					}
					vs = append(vs, c27Verdict{cls, fmt.Sprintf("requested %s has no entry in the proxy's reply", k)})
				} else if got[k] > requested[k] {
					cls := api + "_reply_duplicate_partition"
					for _, ev := range mine {
						parts, reply := evCount(ev)
						if ev.Delivered == "reply" && reply[k] > parts[k] {
							cls = mirrors
						}
					}
					vs = append(vs, c27Verdict{cls, fmt.Sprintf("requested %s has %d entries in the proxy's reply", k, got[k])})
				}
			}
			var extra []string
			for k := range got {
				if requested[k] == 0 {
					extra = append(extra, k)
				}
			}
			sort.Strings(extra)
			for _, k := range extra {
				cls := api + "_reply_unrequested_partition"
				for _, ev := range mine {
					parts, reply := evCount(ev)
					if ev.Delivered == "reply" && reply[k] > parts[k] {
						cls = mirrors
					}
				}
				vs = append(vs, c27Verdict{cls, fmt.Sprintf("the proxy's reply has an entry for %s which was not requested", k)})
			}
			// (2) success only if a broker reported success for it
			for _, en := range rep.Entries {
				if en.Code != 0 {
					continue
				}
				ok := false
				for _, ev := range mine {
					if ev.Delivered != "reply" {
						continue
					}
					for _, re := range ev.Reply {
						if re.TP == en.TP && re.Code == 0 {
							ok = true // the statement asks for "a broker reported success for it", not for equal payload fields
						}
					}
				}
				if !ok {
					vs = append(vs, c27Verdict{api + "_success_without_broker_success", fmt.Sprintf("%s reported successful (token %d) but no broker delivered a success reply for it", en.TP, en.Token)})
				}
			}
		}
	}
	if api != "produce" {
		return vs
	}
	// (3) a produce partition is re-sent only after the previous send of it was answered NOT_LEADER
	for _, k := range order {
		var sends []*c27Event
		for _, ev := range mine {
			for _, p := range ev.Parts {
				if p.TP == k {
					sends = append(sends, ev)
					break
				}
			}
		}
		for i := 1; i < len(sends); i++ {
			prev, cur := sends[i-1], sends[i]
			answered := false
			if prev.Delivered == "reply" && prev.ReplySeq != 0 && prev.ReplySeq < cur.Seq {
				for _, re := range prev.Reply {
					if re.TP == k && re.Code == c27NotLeader {
						answered = true
					}
				}
			}
			if !answered {
				how := "after_" + prev.Delivered
				if prev.Delivered == "reply" {
					how = "after_other_answer"
				}
				vs = append(vs, c27Verdict{"produce_resent_without_not_leader:" + how, fmt.Sprintf("%s was sent to broker %d (seq %d) and then again to broker %d (seq %d) although the first send was not answered NOT_LEADER_OR_FOLLOWER (mode %s, delivered=%s)", k, prev.Broker, prev.Seq, cur.Broker, cur.Seq, prev.Mode, prev.Delivered)})
			}
		}
	}
	// (4) no record is written twice: each record id is in at most one broker request whose partition the broker wrote
	for _, t := range rq.Topics {
		for _, p := range t.Parts {
			for _, id := range p.IDs {
				var where []string
				for _, ev := range events {
					if ev.Kind != "request" {
						continue
					}
					for _, pe := range ev.Parts {
						if pe.Code != 0 {
							continue
						}
						for _, x := range pe.IDs {
							if x == id {
								where = append(where, fmt.Sprintf("broker %d seq %d %s", ev.Broker, ev.Seq, pe.TP))
							}
						}
					}
				}
				if len(where) > 1 {
					vs = append(vs, c27Verdict{"produce_record_written_twice", fmt.Sprintf("record %q was written %d times: %v", id, len(where), where)})
				}
			}
		}
	}
	return vs
}

func c27LearnedMidflight(cs *c27Case, tp string) bool {
	for _, n := range cs.LearnMidflight {
		if len(tp) > len(n) && tp[:len(n)] == n && tp[len(n)] == '/' {
			return true
		}
	}
	return false
}

// ---------------------------------------------------------------- bookkeeping shared by both legs

func (e *c27Env) executeAndJudge(ci int, cs *c27Case, rng *rand.Rand) {
	r := e.r
	out := e.runCase(cs, rng)
	replay := func() map[string]any {
		var evs []any
		for _, ev := range out.Events {
			evs = append(evs, ev)
		}
		return map[string]any{"case_index": ci, "case": cs, "replies": out.Replies, "broker_events": evs}
	}
	if out.Panic != "" {
		r.Violation(cs.API+"_proxy_panic", "handleConnection panicked: "+out.Panic, replay())
	}
	if out.Aborted != "" {
		r.Inconclusive(fmt.Sprintf("case %d (%s): %s", ci, cs.Name, out.Aborted))
		r.Case(cs.Name, false)
		return
	}
	nontrivial := false
	sends, faults, notLeaders, accClose := 0, 0, 0, 0
	for _, ev := range out.Events {
		switch ev.Kind {
		case "accept_close":
			accClose++
			r.Count(cs.API+"_broker_closed_on_accept", 1)
		case "undecodable":
			r.Count(cs.API+"_undecodable_requests_at_broker", 1)
			r.Inconclusive(fmt.Sprintf("case %d (%s): a broker could not decode what the proxy sent: %s", ci, cs.Name, ev.Err))
		case "request":
			sends++
			r.Count(cs.API+"_broker_requests", 1)
			r.Count(cs.API+"_mode_"+ev.Mode, 1)
			r.Count(cs.API+"_delivered_"+ev.Delivered, 1)
			if ev.Mode != c27Normal {
				faults++
			}
			for _, p := range ev.Parts {
				if p.Code == c27NotLeader {
					notLeaders++
				}
			}
			if ev.Err != "" && ev.Delivered != "none" {
				r.Inconclusive(fmt.Sprintf("case %d (%s): broker-side decode problem: %s", ci, cs.Name, ev.Err))
			}
		}
	}
	for i := range cs.Reqs {
		if i >= len(out.Replies) {
			break
		}
		rq, rep := &cs.Reqs[i], out.Replies[i]
		for _, v := range c27Judge(cs, rq, rep, out.Events) {
			r.Violation(v.Class, fmt.Sprintf("%s v%d corr %d: %s", cs.API, rq.Version, rq.Corr, v.Summary), replay())
		}
		// coverage of what the property is about
		perTP := map[string]int{}
		brokersHit := map[int]bool{}
		for _, ev := range out.Events {
			if ev.Kind == "request" && ev.Corr == rq.Corr {
				brokersHit[ev.Broker] = true
				for _, p := range ev.Parts {
					perTP[p.TP]++
				}
			}
		}
		if len(brokersHit) > 1 {
			r.Count(cs.API+"_requests_fanned_out_to_several_brokers", 1)
			nontrivial = true
		}
		for _, n := range perTP {
			if n > 1 {
				r.Count(cs.API+"_partitions_sent_more_than_once", 1)
				nontrivial = true
			}
		}
		for _, en := range rep.Entries {
			switch en.Code {
			case 0:
				r.Count(cs.API+"_reply_entries_success", 1)
			case c27NotLeader:
				r.Count(cs.API+"_reply_entries_not_leader_after_retries", 1)
			case c27TimedOut:
				r.Count(cs.API+"_reply_entries_request_timed_out", 1)
			default:
				r.Count(cs.API+"_reply_entries_other_error", 1)
			}
		}
		r.Count(cs.API+"_client_requests", 1)
		r.Seen(cs.API+"_versions", fmt.Sprint(rq.Version))
		if cs.API == "produce" && rq.Acks == 0 {
			r.Count("produce_acks0_requests", 1)
		}
		if rq.Version >= 13 && cs.API == "fetch" {
			r.Count(cs.API+"_client_requests_by_topic_id", 1)
		}
	}
	if faults > 0 || notLeaders > 0 || accClose > 0 {
		nontrivial = true
	}
	if faults > 0 {
		r.Count(cs.API+"_cases_with_delivery_fault", 1)
	}
	if notLeaders > 0 {
		r.Count(cs.API+"_cases_with_not_leader", 1)
	}
	r.Seen(cs.API+"_route_states", fmt.Sprintf("router=%v store=%v static=%v dead=%v", cs.Router, cs.Store, cs.StaticBackends, cs.DeadBackend))
	sig, _ := json.Marshal(cs)
	r.Case(string(sig), nontrivial)
	if ci%97 == 3 {
		r.Sample(map[string]any{"case": cs, "replies": out.Replies, "broker_events": out.Events})
	}
}

// ---------------------------------------------------------------- case construction

func c27MkTopic(name string, inStore bool) c27Topic {
	id := metadata.TopicIDForName("verif-c27/" + name)
	return c27Topic{Name: name, ID: hex.EncodeToString(id[:]), InStore: inStore, id: id}
}

func (e *c27Env) newIDs(n int) []string {
	ids := make([]string, n)
	for i := range ids {
		ids[i] = fmt.Sprintf("rec-%d", e.recSeq.Add(1))
	}
	return ids
}

var c27Versions = map[string][]int16{"produce": {0, 1, 2, 3, 4, 5, 6, 7, 8, 9}, "fetch": {11, 12, 13}}

// c27Matrix enumerates the fault matrix: routing state x fault mode x fault
// placement x version for a one-partition request, a three-broker fan-out with
// one faulty broker, and the nobody-leads-it case.
func (e *c27Env) c27Matrix(api string) []*c27Case {
	var out []*c27Case
	vers := []int16{3, 9}
	if api == "fetch" {
		vers = []int16{11, 13}
	}
	if e.r.Thorough() {
		vers = []int16{0, 2, 3, 7, 9}
		if api == "fetch" {
			vers = []int16{11, 12, 13}
		}
	}
	modes := append([]string{c27AcceptClose}, c27ReqModes...)
	routes := []string{"known", "stale", "none", "nil_router", "unknown_id", "dead_addr"}
	n := 0
	next := func(kind string) *c27Case {
		n++
		return &c27Case{Name: fmt.Sprintf("mx%d-%s", n, kind), API: api, NB: 2, Router: true, Store: true, StaticBackends: true,
			TrueOwner: map[string]int{}, Route: map[string]string{}}
	}
	setMode := func(cs *c27Case, b int, mode string) {
		for len(cs.Plans) < cs.NB {
			cs.Plans = append(cs.Plans, c27BrokerPlan{})
		}
		if mode == c27AcceptClose {
			cs.Plans[b].CloseOnAccept = []bool{true}
		} else {
			cs.Plans[b].ReqModes = []string{mode}
		}
	}
	for _, ver := range vers {
		for _, route := range routes {
			for _, mode := range modes {
				for _, place := range []string{"all", "owner", "non_owner"} {
					cs := next(fmt.Sprintf("single-%s-%s-%s-v%d", route, mode, place, ver))
					topic := c27MkTopic(cs.Name+".t", true)
					cs.Topics = []c27Topic{topic}
					tp := c27TPKey(topic.Name, 0)
					cs.TrueOwner[tp] = 0
					switch route {
					case "known":
						cs.Route[tp] = "1"
					case "stale":
						cs.Route[tp] = "2"
					case "none":
					case "nil_router":
						cs.Router = false
					case "unknown_id":
						cs.Route[tp] = "9"
					case "dead_addr":
						cs.Route[tp] = "8"
					}
					cs.Plans = make([]c27BrokerPlan, 2)
					if place == "all" || place == "owner" {
						setMode(cs, 0, mode)
					}
					if place == "all" || place == "non_owner" {
						setMode(cs, 1, mode)
					}
					rq := c27Req{Version: ver, Acks: -1, Corr: int32(1000 + n), Topics: []c27ReqTopic{{Topic: topic.Name, Parts: []c27ReqPart{{Part: 0}}}}}
					if api == "produce" {
						rq.Topics[0].Parts[0].IDs = e.newIDs(2)
					}
					cs.Reqs = []c27Req{rq}
					out = append(out, cs)
				}
			}
		}
		// fan-out over three brokers, one of them faulty
		for _, mode := range modes {
			for fb := 0; fb < 3; fb++ {
				cs := next(fmt.Sprintf("fanout-%s-b%d-v%d", mode, fb, ver))
				cs.NB = 3
				cs.Plans = make([]c27BrokerPlan, 3)
				t1, t2 := c27MkTopic(cs.Name+".a", true), c27MkTopic(cs.Name+".b", true)
				cs.Topics = []c27Topic{t1, t2}
				rq := c27Req{Version: ver, Acks: 1, Corr: int32(1000 + n)}
				rq.Topics = []c27ReqTopic{{Topic: t1.Name}, {Topic: t2.Name}}
				for i := 0; i < 3; i++ {
					for ti, t := range []c27Topic{t1, t2} {
						tp := c27TPKey(t.Name, int32(i))
						cs.TrueOwner[tp] = (i + ti) % 3
						cs.Route[tp] = fmt.Sprint((i+ti)%3 + 1)
						part := c27ReqPart{Part: int32(i)}
						if api == "produce" {
							part.IDs = e.newIDs(1 + i%2)
						}
						rq.Topics[ti].Parts = append(rq.Topics[ti].Parts, part)
					}
				}
				setMode(cs, fb, mode)
				cs.Reqs = []c27Req{rq}
				out = append(out, cs)
			}
		}
		// nobody leads the partition: retries run out
		for _, route := range []string{"known", "none"} {
			cs := next(fmt.Sprintf("leaderless-%s-v%d", route, ver))
			cs.Plans = make([]c27BrokerPlan, 2)
			topic := c27MkTopic(cs.Name+".t", true)
			cs.Topics = []c27Topic{topic}
			rq := c27Req{Version: ver, Acks: -1, Corr: int32(1000 + n), Topics: []c27ReqTopic{{Topic: topic.Name}}}
			for i := int32(0); i < 2; i++ {
				tp := c27TPKey(topic.Name, i)
				cs.TrueOwner[tp] = -1
				if i == 1 {
					cs.TrueOwner[tp] = 1
				}
				if route == "known" {
					cs.Route[tp] = "1"
				}
				part := c27ReqPart{Part: i}
				if api == "produce" {
					part.IDs = e.newIDs(1)
				}
				rq.Topics[0].Parts = append(rq.Topics[0].Parts, part)
			}
			cs.Reqs = []c27Req{rq}
			out = append(out, cs)
		}
	}
	return out
}

var c27TopicPool = []string{"orders", "pay.ments", "t:0", "événements", "a", "logs_2026", "x-y"}
var c27InjectCodes = []int16{2, 3, 7, 19, 87}

// c27GenCase draws one PRNG case.
func (e *c27Env) c27GenCase(api string, ci int, rng *rand.Rand) *c27Case {
	cs := &c27Case{Name: fmt.Sprintf("g%d", ci), API: api, NB: 2 + rng.Intn(2), TrueOwner: map[string]int{}, Route: map[string]string{}}
	cs.Router = rng.Intn(100) < 85
	cs.Store = rng.Intn(100) < 93
	cs.StaticBackends = !cs.Store || rng.Intn(2) == 0
	cs.DeadBackend = rng.Intn(100) < 15
	nt := 1 + rng.Intn(3)
	perm := rng.Perm(len(c27TopicPool))
	for i := 0; i < nt; i++ {
		inStore := true
		if api == "fetch" && rng.Intn(100) < 20 {
			inStore = false
		}
		cs.Topics = append(cs.Topics, c27MkTopic(fmt.Sprintf("g%d.%s", ci, c27TopicPool[perm[i]]), inStore))
	}
	for _, t := range cs.Topics {
		for p := int32(0); p < 4; p++ {
			tp := c27TPKey(t.Name, p)
			if rng.Intn(100) < 88 {
				cs.TrueOwner[tp] = rng.Intn(cs.NB)
			} else {
				cs.TrueOwner[tp] = -1
			}
			switch x := rng.Intn(100); {
			case x < 45:
				if o := cs.TrueOwner[tp]; o >= 0 {
					cs.Route[tp] = fmt.Sprint(o + 1)
				} else {
					cs.Route[tp] = fmt.Sprint(rng.Intn(cs.NB) + 1)
				}
			case x < 67:
				cs.Route[tp] = fmt.Sprint(rng.Intn(cs.NB) + 1) // possibly stale
			case x < 85:
			case x < 92:
				cs.Route[tp] = "9"
			default:
				cs.Route[tp] = "8"
			}
		}
		if api == "fetch" && !t.InStore && cs.Store && rng.Intn(100) < 50 {
			cs.LearnMidflight = append(cs.LearnMidflight, t.Name)
		}
	}
	cs.Plans = make([]c27BrokerPlan, cs.NB)
	hostile := rng.Intn(100) < 70
	for b := range cs.Plans {
		pl := &cs.Plans[b]
		if hostile && rng.Intn(100) < 12 {
			pl.CloseOnAccept = []bool{true}
			if rng.Intn(3) == 0 {
				pl.CloseOnAccept = []bool{false, true}
			}
		}
		if hostile {
			for j := 0; j < 4; j++ {
				m := c27Normal
				if rng.Intn(100) < 30 {
					m = c27ReqModes[1+rng.Intn(len(c27ReqModes)-1)]
				}
				pl.ReqModes = append(pl.ReqModes, m)
			}
		}
		for _, t := range cs.Topics {
			for p := int32(0); p < 4; p++ {
				if rng.Intn(100) < 8 {
					if pl.Inject == nil {
						pl.Inject = map[string][]int16{}
					}
					code := c27InjectCodes[rng.Intn(len(c27InjectCodes))]
					if rng.Intn(3) == 0 {
						code = c27NotLeader // transient refusal by whoever is asked first, also the true owner
					}
					pl.Inject[c27TPKey(t.Name, p)] = []int16{code}
				}
			}
		}
	}
	nreq := 1 + rng.Intn(3)
	vers := c27Versions[api]
	for q := 0; q < nreq; q++ {
		rq := c27Req{Version: vers[rng.Intn(len(vers))], Acks: []int16{1, -1, 1, -1, 1, -1, 1, 0}[rng.Intn(8)], Corr: int32(ci*10 + q + 1)}
		if api == "fetch" {
			rq.Acks = 0
		}
		tperm := rng.Perm(len(cs.Topics))
		ntq := 1 + rng.Intn(len(cs.Topics))
		for i := 0; i < ntq; i++ {
			t := cs.Topics[tperm[i]]
			pperm := rng.Perm(4)
			np := 1 + rng.Intn(4)
			rt := c27ReqTopic{Topic: t.Name}
			for j := 0; j < np; j++ {
				part := c27ReqPart{Part: int32(pperm[j])}
				if api == "produce" {
					part.IDs = e.newIDs(1 + rng.Intn(3))
				}
				rt.Parts = append(rt.Parts, part)
			}
			// occasionally the same topic is split over two topic entries of the request
			if len(rt.Parts) >= 2 && rng.Intn(100) < 6 && !(api == "fetch" && rq.Version >= 13) {
				k := 1 + rng.Intn(len(rt.Parts)-1)
				rq.Topics = append(rq.Topics, c27ReqTopic{Topic: t.Name, Parts: rt.Parts[:k]})
				rt.Parts = rt.Parts[k:]
			}
			rq.Topics = append(rq.Topics, rt)
		}
		cs.Reqs = append(cs.Reqs, rq)
	}
	return cs
}

const c27Rule = "per client request: the decoded reply's (topic, partition) multiset equals the requested one (topic ids mapped back for fetch v13); an entry with error code 0 must carry the unique offset/high-watermark token of a success entry in a well-formed reply some fake broker delivered for that request; for produce, in the brokers' stamped request logs every send of a partition after the first must come after a delivered, decodable NOT_LEADER_OR_FOLLOWER answer to the previous send of that partition; every unique record id occurs in at most one broker request whose partition the broker decided to write (whether or not its reply survived)"

func c27Run1(t *testing.T, r *verifkit.Run, e *c27Env, api string, quick, thorough int) {
	cases := e.c27Matrix(api)
	r.Note(api+"_matrix_cases", len(cases))
	n := r.N(quick, thorough)
	for ci := len(cases); len(cases) < ci+n; {
		cases = append(cases, e.c27GenCase(api, len(cases), r.Rand(c27Off(api)+len(cases))))
	}
	if !e.setRoutesAll(cases) {
		return
	}
	// cases are independent (own proxy, own brokers, own topic names): four at a time
	var wg sync.WaitGroup
	next := atomic.Int64{}
	for w := 0; w < 4; w++ {
		wg.Add(1)
		go func() {
			defer wg.Done()
			for {
				ci := int(next.Add(1)) - 1
				if ci >= len(cases) {
					return
				}
				e.executeAndJudge(ci, cases[ci], r.Rand(c27Off(api)+1_000_000+ci))
			}
		}()
	}
	wg.Wait()
	r.Floor(api+"_cases_with_delivery_fault", 50)
	r.Floor(api+"_cases_with_not_leader", 50)
	r.Floor(api+"_partitions_sent_more_than_once", 30)
	r.Floor(api+"_requests_fanned_out_to_several_brokers", 30)
	r.Floor(api+"_reply_entries_success", 100)
	r.Floor(api+"_reply_entries_request_timed_out", 20)
	r.Floor(api+"_reply_entries_not_leader_after_retries", 5)
	r.Floor(api+"_versions", int64(len(c27Versions[api])))
}

func c27Off(api string) int {
	if api == "fetch" {
		return 50_000_000
	}
	return 0
}

func c27Leg(t *testing.T, quickP, thoroughP, quickF, thoroughF int) {
	r := verifkit.Start(t, "C27", "fanout")
	defer r.Finish(c27Rule+"; non-trivial = the client request fanned out to several brokers, or a partition was sent more than once, or a broker faulted / answered NOT_LEADER / closed on accept",
		"fake brokers decide write/NOT_LEADER by a per-case true-owner table and log a request the moment it is fully read: 'written' means the broker received the partition and decided code 0, even if the connection then died",
		"a send the broker never read (closed on accept, refused connection, dead pooled connection) is a failure before send: re-sending elsewhere is allowed by the statement",
		"replies of a broker are classified by decoding the very bytes it sent with kmsg: a damaged reply that still decodes counts as the reply it decodes to",
		"one etcd + one PartitionRouter per leg, unique topic names per case; the router's own LookupOwner is the sentinel that a lease key has been applied",
		"client/broker socket watchdogs (60 s) only ever yield inconclusive")
	e := c27NewEnv(t, r)
	c27Run1(t, r, e, "produce", quickP, thoroughP)
	c27Run1(t, r, e, "fetch", quickF, thoroughF)
}
