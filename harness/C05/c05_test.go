//go:build verif

package main

import (
	"context"
	"encoding/binary"
	"fmt"
	"strings"
	"sync"
	"testing"
	"testing/synctest"

	"github.com/KafScale/platform/internal/verifkit"
	"github.com/KafScale/platform/pkg/metadata"
	"github.com/KafScale/platform/pkg/protocol"
	"github.com/KafScale/platform/pkg/storage"
)

// c05MaxStored is 1 + the largest last-offset recorded in the footer of any
// .kfs object of the partition (0 when there is none).
func c05MaxStored(v *vS3, topic string, part int32) int64 {
	max := int64(0)
	for _, k := range v.keys(fmt.Sprintf("default/%s/%d/", topic, part)) {
		if !strings.HasSuffix(k, ".kfs") {
			continue
		}
		b, _ := v.get(k)
		if len(b) < 16 || string(b[len(b)-4:]) != "END!" {
			continue
		}
		if last := int64(binary.BigEndian.Uint64(b[len(b)-12:len(b)-4])) + 1; last > max {
			max = last
		}
	}
	return max
}

type c05Witness struct {
	Config   map[string]any `json:"config"`
	Schedule []string       `json:"schedule"`
	Store    []storeEvent   `json:"store_events"`
	S3Events []vS3Event     `json:"s3_events"`
	Why      string         `json:"why"`
}

func c05Class(why string, s *scenario) string {
	faults := 0
	for _, l := range s.trace {
		if strings.HasPrefix(l, "fail") {
			faults++
		}
	}
	switch {
	case strings.HasPrefix(why, "regressed"):
		return "published_end_offset_regressed_by_reordered_flush_callbacks"
	case strings.HasPrefix(why, "ahead") && faults > 0:
		return "published_end_offset_ahead_of_s3_after_failed_upload"
	case strings.HasPrefix(why, "ahead"):
		return "published_end_offset_ahead_of_s3_without_fault"
	}
	return "other"
}

func TestVerifC05Sched(t *testing.T) {
	r := verifkit.Start(t, "C05", "sched")
	defer r.Finish("same scenario family as C01 (2-3 producers x 1-3 batches, 1-2 partitions, buffer/index/cache variations, <=2 upload faults incl. fail-after-effect); after EVERY scheduler step the published end offset of each partition is compared with its previous value and with 1+max footer last-offset of the partition's .kfs objects; distinct = schedule signature; non-trivial = the run delivered >=2 UpdateOffsets for one partition and (had a fault or a flush that found nothing to flush)",
		"fake S3: atomic puts; published offset = real InMemoryStore.NextOffset")
	n := r.N(700, 60000)
	for ci := 0; ci < n; ci++ {
		rng := r.Rand(ci)
		cfg := c01Cfg(rng, 2+rng.Intn(2), 1+rng.Intn(3), int32(1+rng.Intn(2)))
		var sig string
		nontrivial := false
		synctest.Test(t, func(t *testing.T) {
			s := newScenario(t, cfg)
			prev := map[string]int64{}
			reported := map[string]bool{}
			s.onQuiescent = func(s *scenario) {
				for topic, parts := range cfg.Topics {
					for p := int32(0); p < parts; p++ {
						key := fmt.Sprintf("%s/%d", topic, p)
						next, err := s.hub.inner.NextOffset(context.Background(), topic, p)
						if err != nil {
							continue
						}
						r.Count("invariant_evaluations", 1)
						why := ""
						if next < prev[key] {
							why = fmt.Sprintf("regressed: %s end offset %d -> %d", key, prev[key], next)
						} else if max := c05MaxStored(s.s3, topic, p); next > max {
							why = fmt.Sprintf("ahead: %s end offset %d > %d = 1 + last offset stored in S3", key, next, max)
						}
						prev[key] = next
						if why != "" {
							cls := c05Class(why, s)
							if !reported[cls] {
								reported[cls] = true
								r.Violation(cls, why, c05Witness{Config: c01CfgSummary(cfg), Schedule: append([]string(nil), s.trace...), Store: s.hub.events, S3Events: s.s3.events, Why: why})
							}
						}
					}
				}
			}
			s.run(&rngChooser{rng: rng, faultProb: 0.25})
			s.teardown()
			sig = traceSig(s.trace)
			per := map[string]int{}
			emptyFlush := false
			lastSeen := map[string]int64{}
			for _, e := range s.hub.events {
				k := fmt.Sprintf("%s/%d", e.Topic, e.Partition)
				per[k]++
				if v, ok := lastSeen[k]; ok && v == e.Last {
					emptyFlush = true // a Flush that found nothing new re-published the same offset
				}
				lastSeen[k] = e.Last
			}
			multi := false
			for _, c := range per {
				if c >= 2 {
					multi = true
				}
			}
			nontrivial = multi && (s.faults > 0 || emptyFlush)
			if emptyFlush {
				r.Count("cases_with_flush_that_found_nothing", 1)
			}
			if s.faults > 0 {
				r.Count("cases_with_fault", 1)
			}
			if s.cancels > 0 {
				r.Count("cases_with_ctx_cancel", 1)
			}
			r.Count("update_offsets_delivered", int64(len(s.hub.events)))
			// count out-of-order deliveries actually explored
			lastDelivered := map[string]int64{}
			for _, e := range s.hub.events {
				k := fmt.Sprintf("%s/%d", e.Topic, e.Partition)
				if e.Last < lastDelivered[k] {
					r.Count("update_offsets_delivered_out_of_order", 1)
				}
				if e.Last > lastDelivered[k] {
					lastDelivered[k] = e.Last
				}
			}
		})
		r.Case(fmt.Sprint(ci, sig), nontrivial)
		r.Seen("schedules", sig)
		if ci < 2 {
			r.Sample(map[string]any{"config": c01CfgSummary(cfg), "schedule": strings.Split(sig, " ")})
		}
	}
	r.Floor("invariant_evaluations", 1000)
	r.Floor("cases_with_fault", 20)
}

// c05AtomicStore evaluates the invariant inside UpdateOffsets, atomically with
// the S3 fake (same lock), for the real-concurrency leg.
type c05AtomicStore struct {
	metadata.Store
	inner *metadata.InMemoryStore
	v     *vS3
	mu    sync.Mutex
	prev  map[string]int64
	bad   []string
	calls int
}

func (s *c05AtomicStore) UpdateOffsets(ctx context.Context, topic string, part int32, last int64) error {
	s.mu.Lock()
	defer s.mu.Unlock()
	s.calls++
	err := s.inner.UpdateOffsets(ctx, topic, part, last)
	key := fmt.Sprintf("%s/%d", topic, part)
	next := last + 1
	if next < s.prev[key] {
		s.bad = append(s.bad, fmt.Sprintf("regressed: %s end offset %d -> %d", key, s.prev[key], next))
	} else if max := c05MaxStored(s.v, topic, part); next > max {
		s.bad = append(s.bad, fmt.Sprintf("ahead: %s end offset %d > %d = 1 + last offset stored in S3", key, next, max))
	}
	s.prev[key] = next
	return err
}

func TestVerifC05Stress(t *testing.T) {
	r := verifkit.Start(t, "C05", "stress")
	defer r.Finish("real goroutines (no bubble): 8 producers x 6 produce requests on one partition of a fresh handler per case, ungated fake S3 with ~10% failing uploads decided by the case PRNG; the invariant is evaluated inside every UpdateOffsets call under the store wrapper's lock; non-trivial = case with >= 20 UpdateOffsets calls and at least one failed upload",
		"interleavings are whatever the Go scheduler produces; uploads are atomic in the fake")
	n := r.N(150, 8000)
	for ci := 0; ci < n; ci++ {
		rng := r.Rand(ci)
		v := newVS3()
		inst := &instance{}
		brokerInfo := protocol.MetadataBroker{NodeID: 1, Host: "127.0.0.1", Port: 9092}
		meta := metadataForBroker(brokerInfo)
		meta.Topics = nil
		inner := metadata.NewInMemoryStore(meta)
		if _, err := inner.CreateTopic(context.Background(), metadata.TopicSpec{Name: "t", NumPartitions: 1, ReplicationFactor: 1}); err != nil {
			t.Fatal(err)
		}
		st := &c05AtomicStore{Store: inner, inner: inner, v: v, prev: map[string]int64{}}
		failEvery := 7 + rng.Intn(8)
		fs3 := &c05FlakyS3{s3View: &s3View{v: v, inst: inst}, every: failEvery}
		h := newHandler(st, fs3, brokerInfo, discardLogger())
		h.flushOnAck = true
		h.autoCreateTopics = false
		h.logConfig.Buffer = storage.WriteBufferConfig{MaxBytes: 1 << 30}
		if rng.Intn(2) == 0 {
			h.logConfig.Buffer = storage.WriteBufferConfig{MaxMessages: 4}
		}
		h.logConfig.Segment.IndexIntervalMessages = 2
		var wg sync.WaitGroup
		for p := 0; p < 8; p++ {
			batches := make([][]byte, 6)
			for b := range batches {
				batches[b] = mkBatch(rng, fmt.Sprintf("c%d/p%d/%d", ci, p, b), 1+rng.Intn(3), 8)
			}
			wg.Add(1)
			go func(p int, batches [][]byte) {
				defer wg.Done()
				for b, raw := range batches {
					plogExec(h, inst, p, b, plogReq{Kind: "produce", Topic: "t", Partition: 0, Acks: -1, Batch: raw})
				}
			}(p, batches)
		}
		wg.Wait()
		h.coordinator.Stop()
		st.mu.Lock()
		calls, bad := st.calls, append([]string(nil), st.bad...)
		st.mu.Unlock()
		r.Count("update_offsets_judged", int64(calls))
		r.Count("failed_uploads", int64(fs3.failed()))
		for _, why := range bad {
			cls := "published_end_offset_ahead_of_s3_under_concurrency"
			if strings.HasPrefix(why, "regressed") {
				cls = "published_end_offset_regressed_under_concurrency"
			}
			r.Violation(cls, why, map[string]any{"case": ci, "producers": 8, "requests_each": 6, "fail_every": failEvery, "all": bad, "s3_events_tail": tailEvents(v, 30)})
		}
		r.Case(fmt.Sprint(ci, calls, fs3.failed()), calls >= 20 && fs3.failed() > 0)
		if ci == 0 {
			r.Sample(map[string]any{"producers": 8, "requests_each": 6, "fail_every": failEvery, "update_offsets_calls": calls})
		}
	}
	r.Floor("update_offsets_judged", 1000)
}

func tailEvents(v *vS3, n int) []vS3Event {
	v.mu.Lock()
	defer v.mu.Unlock()
	if len(v.events) > n {
		return append([]vS3Event(nil), v.events[len(v.events)-n:]...)
	}
	return append([]vS3Event(nil), v.events...)
}

type c05FlakyS3 struct {
	*s3View
	every int
	mu    sync.Mutex
	n     int
	nfail int
}

func (f *c05FlakyS3) failed() int { f.mu.Lock(); defer f.mu.Unlock(); return f.nfail }
func (f *c05FlakyS3) shouldFail() bool {
	f.mu.Lock()
	defer f.mu.Unlock()
	f.n++
	if f.n%f.every == 0 {
		f.nfail++
		return true
	}
	return false
}
func (f *c05FlakyS3) UploadSegment(ctx context.Context, key string, body []byte) error {
	if f.shouldFail() {
		return errInjected
	}
	return f.s3View.UploadSegment(ctx, key, body)
}
func (f *c05FlakyS3) UploadIndex(ctx context.Context, key string, body []byte) error {
	if f.shouldFail() {
		return errInjected
	}
	return f.s3View.UploadIndex(ctx, key, body)
}
