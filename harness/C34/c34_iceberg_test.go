//go:build verif

package decoder

import (
	"path/filepath"
	"testing"
	"time"

	"github.com/KafScale/platform/addons/processors/iceberg-processor/internal/verifc34"
	"github.com/KafScale/platform/addons/processors/iceberg-processor/internal/verifkit"
)

func c34Targets() []verifc34.Target {
	return []verifc34.Target{
		{Name: "decodeSegment", Variants: 1, Fn: func(in *verifc34.Input, _ int) (int, error) {
			recs, err := decodeSegment(in.Data, "t", 0)
			return len(recs), err
		}},
		{Name: "parseIndex", Variants: 1, Fn: func(in *verifc34.Input, _ int) (int, error) {
			es, err := parseIndex(in.Data)
			return len(es), err
		}},
	}
}

// TestVerifC34Child is the crashbox child entry point (a no-op unless spawned by the parent).
func TestVerifC34Child(t *testing.T) {
	if !verifc34.IsChild() {
		t.Skip("crashbox child only")
	}
	if err := verifc34.ChildMain(c34Targets()); err != nil {
		t.Fatalf("crashbox child: %v", err)
	}
}

func TestVerifC34Iceberg(t *testing.T) {
	r := verifkit.Start(t, "C34", "iceberg")
	defer r.Finish("crashbox over the Iceberg processor's decodeSegment (segments container: broker-written valid segments, the attribute sweep (every attributes bit pattern on otherwise valid batches, broker-written and harness-wrapped), broker-written segments carrying hostile client batches, harness-wrapped mutations, every-byte truncations, noise) and parseIndex (indexes container): each call runs in a child process that logs the input index first, hands the input over as a fresh exact-capacity slice (cap == len, so an over-read of the buffer end panics instead of reading slack), recovers panics and measures TotalAlloc; violation = panic, process death (fatal error / RLIMIT_AS), > 64 MiB allocated by one call on an input <= 64 KiB, or a call that does not return (CPU-time rule below); class = decoder + innermost function of the decoder + the allocating/indexing expression on that source line; non-trivial = input passes size/magic/framing so per-batch parsing is reached. The child also logs the return of every call; the parent polls which call is open and the child's consumed CPU time (utime+stime from /proc/<pid>/stat): a call that stays open while the child burns 20 s of CPU time (inputs are <= 64 KiB) is a hang candidate: the child is killed, the input is re-run alone in a fresh child under the same CPU-time rule (with a SIGQUIT goroutine dump for information), and only if it again burns 20 s of CPU without returning is it a violation, class decoder_does_not_return:<decoder>.<entry point>, with the input bytes as replay; the remaining inputs continue in a new child; at most 3 hang investigations per leg, a further candidate is killed, reported inconclusive and ends the target. Elapsed time decides nothing: a child that stalls without consuming CPU only trips the 10-minute wall-clock watchdog (inconclusive; at most 2 per target).",
		"'returns records or an error' is read operationally as: one call on an input of at most 64 KiB consumes less than 20 s of CPU time (returning calls take micro- to milliseconds); decided on the child's CPU time, never on elapsed time, and only when reproduced alone in a fresh child",
		"child address space capped at 4 GiB (RLIMIT_AS) so that a giant allocation fails in the child instead of exhausting the machine; the race detector is off in this leg because it cannot run under RLIMIT_AS",
		"parseIndex is not called by the processor's Decode today (dead code in the decoder package); its findings are reported under their own class")
	dir := verifc34.CorpusDir()
	work := filepath.Join(filepath.Dir(dir), "c34work-iceberg")
	base := verifc34.Config{Dir: work, ChildTest: "^TestVerifC34Child$", Batch: 4000, ASLimit: 4 << 30, Timeout: 10 * time.Minute, MaxDeaths: r.N(150, 1500)}
	hangBudget := verifc34.DefaultHangBudget // hang investigations (kill + confirm alone) for the whole leg
	base.HangBudget = &hangBudget
	seg := base
	seg.Corpus, seg.Target = filepath.Join(dir, "segments"), "decodeSegment"
	if err := verifc34.Drive(r, seg, "iceberg", func(in *verifc34.Input) bool { return verifc34.ReachesBatchParser(in.Data) }); err != nil {
		t.Fatalf("harness: %v", err)
	}
	idx := base
	idx.Corpus, idx.Target = filepath.Join(dir, "indexes"), "parseIndex"
	if err := verifc34.Drive(r, idx, "iceberg_index", func(in *verifc34.Input) bool { return len(in.Data) >= 16 && string(in.Data[:4]) == "IDX\x00" }); err != nil {
		t.Fatalf("harness: %v", err)
	}
	r.Floor("decodeSegment_calls", 1000)
	r.Floor("decodeSegment_calls_returning_items", 20)
	r.Floor("parseIndex_calls", 100)
}
