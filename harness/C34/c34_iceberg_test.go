//go:build verif

package decoder

import (
	"path/filepath"
	"testing"
	"time"

	"github.com/KafScale/platform/addons/processors/iceberg-processor/internal/verifc34"
	"github.com/KafScale/platform/addons/processors/iceberg-processor/internal/verifkit"
)

func c34Targets() []verifc34.Target {
	return []verifc34.Target{
		{Name: "decodeSegment", Variants: 1, Fn: func(in *verifc34.Input, _ int) (int, error) {
			recs, err := decodeSegment(in.Data, "t", 0)
			return len(recs), err
		}},
		{Name: "parseIndex", Variants: 1, Fn: func(in *verifc34.Input, _ int) (int, error) {
			es, err := parseIndex(in.Data)
			return len(es), err
		}},
	}
}

// TestVerifC34Child is the crashbox child entry point (a no-op unless spawned by the parent).
func TestVerifC34Child(t *testing.T) {
	if !verifc34.IsChild() {
		t.Skip("crashbox child only")
	}
	if err := verifc34.ChildMain(c34Targets()); err != nil {
		t.Fatalf("crashbox child: %v", err)
	}
}

func TestVerifC34Iceberg(t *testing.T) {
	r := verifkit.Start(t, "C34", "iceberg")
	defer r.Finish("crashbox over the Iceberg processor's decodeSegment (segments container: broker-written segments carrying hostile client batches, harness-wrapped mutations, every-byte truncations, noise) and parseIndex (indexes container): each call runs in a child process that logs the input index first, hands the input over as a fresh exact-capacity slice (cap == len, so an over-read of the buffer end panics instead of reading slack), recovers panics and measures TotalAlloc; violation = panic, process death (fatal error / RLIMIT_AS), or > 64 MiB allocated by one call on an input <= 64 KiB; class = decoder + innermost function of the decoder + the allocating/indexing expression on that source line; non-trivial = input passes size/magic/framing so per-batch parsing is reached",
		"child address space capped at 4 GiB (RLIMIT_AS) so that a giant allocation fails in the child instead of exhausting the machine; the race detector is off in this leg because it cannot run under RLIMIT_AS",
		"parseIndex is not called by the processor's Decode today (dead code in the decoder package); its findings are reported under their own class")
	dir := verifc34.CorpusDir()
	work := filepath.Join(filepath.Dir(dir), "c34work-iceberg")
	base := verifc34.Config{Dir: work, ChildTest: "^TestVerifC34Child$", Batch: 4000, ASLimit: 4 << 30, Timeout: 10 * time.Minute, MaxDeaths: r.N(150, 1500)}
	seg := base
	seg.Corpus, seg.Target = filepath.Join(dir, "segments"), "decodeSegment"
	if err := verifc34.Drive(r, seg, "iceberg", func(in *verifc34.Input) bool { return verifc34.ReachesBatchParser(in.Data) }); err != nil {
		t.Fatalf("harness: %v", err)
	}
	idx := base
	idx.Corpus, idx.Target = filepath.Join(dir, "indexes"), "parseIndex"
	if err := verifc34.Drive(r, idx, "iceberg_index", func(in *verifc34.Input) bool { return len(in.Data) >= 16 && string(in.Data[:4]) == "IDX\x00" }); err != nil {
		t.Fatalf("harness: %v", err)
	}
	r.Floor("decodeSegment_calls", 1000)
	r.Floor("decodeSegment_calls_returning_items", 20)
	r.Floor("parseIndex_calls", 100)
}
