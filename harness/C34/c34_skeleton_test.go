//go:build verif

package decoder

import (
	"context"
	"os"
	"path/filepath"
	"testing"
	"time"

	"github.com/KafScale/platform/addons/processors/skeleton/internal/verifc34"
	"github.com/KafScale/platform/addons/processors/skeleton/internal/verifkit"
)

// The skeleton decoder's whole API is Decode(ctx, segmentKey, indexKey); it is handed hostile
// segments the only way it can be: as keys naming files that hold them.
func c34Targets() []verifc34.Target {
	return []verifc34.Target{
		// the input's bytes are written to <work>/segment-00000000000000000000.kfs / .index and Decode gets those paths
		{Name: "Decode", Variants: 1, Fn: func(in *verifc34.Input, _ int) (int, error) {
			dir := os.Getenv("C34_SKELETON_FILES")
			p := filepath.Join(dir, "segment-00000000000000000000.kfs")
			q := filepath.Join(dir, "segment-00000000000000000000.index")
			if err := os.WriteFile(p, in.Data, 0o644); err != nil {
				panic("harness: " + err.Error())
			}
			if err := os.WriteFile(q, in.Aux, 0o644); err != nil {
				panic("harness: " + err.Error())
			}
			got, err := New().Decode(context.Background(), p, q)
			return len(got), err
		}},
		// the input's bytes ARE the key strings
		{Name: "DecodeKey", Variants: 1, Fn: func(in *verifc34.Input, _ int) (int, error) {
			got, err := New().Decode(context.Background(), string(in.Data), string(in.Data))
			return len(got), err
		}},
	}
}

// TestVerifC34Child is the crashbox child entry point (a no-op unless spawned by the parent).
func TestVerifC34Child(t *testing.T) {
	if !verifc34.IsChild() {
		t.Skip("crashbox child only")
	}
	if err := verifc34.ChildMain(c34Targets()); err != nil {
		t.Fatalf("crashbox child: %v", err)
	}
}

func TestVerifC34Skeleton(t *testing.T) {
	r := verifkit.Start(t, "C34", "skeleton")
	defer r.Finish("crashbox over the skeleton decoder: Decode(ctx, segmentKey, indexKey) is called in a child process with keys naming files that hold the first inputs of the hostile segments container (broker-written valid segments, the whole attribute sweep: every attributes bit pattern on otherwise valid batches) and with hostile key strings; the child logs the input index before the call and the return after it, recovers panics and measures TotalAlloc; the parent watches the child's progress and CPU time; violation = panic, process death, > 64 MiB allocated by one call, or a call that does not return (20 s of CPU time consumed inside one call, confirmed by re-running that input alone in a fresh child with the same rule; class decoder_does_not_return:skeleton.<entry point>). The decoder is a placeholder that reads no bytes, so every case is trivial by construction and is counted as such (non-trivial = the call returned at least one batch)",
		"no byte-level entry point exists in the skeleton decoder",
		"'never returns' is decided on CPU time, not elapsed time: a child that makes no progress without consuming CPU (machine load, blocked) only trips the wall-clock watchdog, which is inconclusive")
	dir := verifc34.CorpusDir()
	work := filepath.Join(filepath.Dir(dir), "c34work-skeleton")
	files := filepath.Join(work, "files")
	if err := os.MkdirAll(files, 0o755); err != nil {
		t.Fatal(err)
	}
	t.Setenv("C34_SKELETON_FILES", files)
	kw, err := verifc34.NewWriter(filepath.Join(work, "keys"))
	if err != nil {
		t.Fatal(err)
	}
	for _, k := range []string{"", "/", "..", "default/t/0/segment-99999999999999999999999.kfs", "default/t/-1/segment-.kfs", "\x00", string(make([]byte, 70000))} {
		kw.Add(verifc34.Input{Label: "key", Data: []byte(k)})
	}
	if err := kw.Close(); err != nil {
		t.Fatal(err)
	}
	hangBudget := verifc34.DefaultHangBudget // hang investigations (kill + confirm alone) for the whole leg
	base := verifc34.Config{Dir: work, ChildTest: "^TestVerifC34Child$", Batch: 4000, Timeout: 10 * time.Minute, MaxDeaths: r.N(150, 1500), HangBudget: &hangBudget}
	never := func(*verifc34.Input) bool { return false } // the placeholder reads nothing: honest count
	seg := base
	seg.Corpus, seg.Target, seg.Limit = filepath.Join(dir, "segments"), "Decode", r.N(800, 8000) // valid segments, the whole attribute sweep, then hostile ones
	if err := verifc34.Drive(r, seg, "skeleton", never); err != nil {
		t.Fatalf("harness: %v", err)
	}
	keys := base
	keys.Corpus, keys.Target = filepath.Join(work, "keys"), "DecodeKey"
	if err := verifc34.Drive(r, keys, "skeleton", never); err != nil {
		t.Fatalf("harness: %v", err)
	}
	r.Sample(map[string]any{"note": "placeholder decoder returns (nil, nil) without reading"})
	r.Floor("Decode_calls", 700)
	r.Floor("DecodeKey_calls", 7)
}
