//go:build verif

package decoder

import (
	"context"
	"fmt"
	"os"
	"path/filepath"
	"testing"

	"github.com/KafScale/platform/addons/processors/skeleton/internal/verifc34"
	"github.com/KafScale/platform/addons/processors/skeleton/internal/verifkit"
)

// TestVerifC34Skeleton: the skeleton decoder's whole API is Decode(ctx, segmentKey, indexKey);
// it is handed hostile segments the only way it can be: as keys naming files that hold them.
func TestVerifC34Skeleton(t *testing.T) {
	r := verifkit.Start(t, "C34", "skeleton")
	defer r.Finish("skeleton decoder: Decode(ctx, segmentKey, indexKey) is called under recover() with keys naming files that hold the first inputs of the hostile segments container (and with hostile key strings); violation = panic. The decoder is a placeholder that reads no bytes, so every case is trivial by construction and is counted as such (non-trivial = the call returned at least one batch)",
		"no byte-level entry point exists in the skeleton decoder; allocation is not measured here")
	dir := verifc34.CorpusDir()
	n := r.N(200, 2000)
	ins, err := verifc34.Read(filepath.Join(dir, "segments"), 0, n)
	if err != nil {
		t.Fatalf("harness: %v", err)
	}
	tmp := filepath.Join(filepath.Dir(dir), "c34work-skeleton")
	if err := os.MkdirAll(tmp, 0o755); err != nil {
		t.Fatal(err)
	}
	d := New()
	call := func(sig, segKey, idxKey string) {
		var got []Batch
		func() {
			defer func() {
				if p := recover(); p != nil {
					r.Violation("skeleton.Decode.panic", fmt.Sprintf("Decode(%q, %q) panicked: %v", segKey, idxKey, p), map[string]any{"segment_key": segKey, "index_key": idxKey})
				}
			}()
			got, _ = d.Decode(context.Background(), segKey, idxKey)
		}()
		r.Case(sig, len(got) > 0)
		r.Count("decode_calls", 1)
	}
	for i := range ins {
		p := filepath.Join(tmp, fmt.Sprintf("segment-%020d.kfs", i))
		if err := os.WriteFile(p, ins[i].Data, 0o644); err != nil {
			t.Fatal(err)
		}
		q := filepath.Join(tmp, fmt.Sprintf("segment-%020d.index", i))
		if err := os.WriteFile(q, ins[i].Aux, 0o644); err != nil {
			t.Fatal(err)
		}
		call(fmt.Sprintf("file/%d/%s", i, ins[i].Label), p, q)
	}
	for i, k := range []string{"", "/", "..", "default/t/0/segment-99999999999999999999999.kfs", "default/t/-1/segment-.kfs", "\x00", string(make([]byte, 70000))} {
		call(fmt.Sprintf("key/%d", i), k, k)
	}
	r.Sample(map[string]any{"calls": len(ins) + 7, "note": "placeholder decoder returns (nil, nil) without reading"})
}
