//go:build verif

package main

import (
	"bytes"
	"compress/gzip"
	"context"
	"encoding/binary"
	"fmt"
	"hash/crc32"
	"io"
	"log/slog"
	"math/rand"
	"sort"
	"strings"
	"testing"

	"github.com/KafScale/platform/internal/verifc34"
	"github.com/KafScale/platform/internal/verifkit"
	"github.com/KafScale/platform/pkg/metadata"
	"github.com/KafScale/platform/pkg/protocol"
	"github.com/KafScale/platform/pkg/storage"
	"github.com/twmb/franz-go/pkg/kmsg"
)

// ---- a record-batch encoder in which every length/count field can be overridden

func c34PutVarint(b []byte, v int64) []byte {
	u := uint64(v<<1) ^ uint64(v>>63)
	for u >= 0x80 {
		b = append(b, byte(u)|0x80)
		u >>= 7
	}
	return append(b, byte(u))
}

type c34Var struct {
	v   int64
	raw []byte // emitted verbatim when set
}

func (x c34Var) put(b []byte) []byte {
	if x.raw != nil {
		return append(b, x.raw...)
	}
	return c34PutVarint(b, x.v)
}

type c34Hdr struct {
	klen c34Var
	k    []byte
	vlen c34Var
	v    []byte
}

type c34Rec struct {
	length *c34Var // nil: computed
	attr   byte
	ts, od c34Var
	klen   c34Var
	key    []byte
	vlen   c34Var
	val    []byte
	hcount c34Var
	hdrs   []c34Hdr
}

type c34Batch struct {
	batchLen *int32 // nil: computed
	attrs    int16
	lod      int32
	first    int64
	max      int64
	count    int32
	badCRC   bool
	recs     []c34Rec
	tail     []byte
}

func (r *c34Rec) body() []byte {
	b := []byte{r.attr}
	b = r.ts.put(b)
	b = r.od.put(b)
	b = r.klen.put(b)
	b = append(b, r.key...)
	b = r.vlen.put(b)
	b = append(b, r.val...)
	b = r.hcount.put(b)
	for _, h := range r.hdrs {
		b = h.klen.put(b)
		b = append(b, h.k...)
		b = h.vlen.put(b)
		b = append(b, h.v...)
	}
	return b
}

var c34Castagnoli = crc32.MakeTable(crc32.Castagnoli)

// encode returns the batch bytes and the byte positions of field boundaries inside them.
func (x *c34Batch) encode() ([]byte, []int) {
	out := make([]byte, 61)
	bounds := []int{0, 8, 12, 16, 17, 21, 23, 27, 35, 43, 51, 53, 57, 61}
	for i := range x.recs {
		body := x.recs[i].body()
		if x.recs[i].length != nil {
			out = x.recs[i].length.put(out)
		} else {
			out = c34PutVarint(out, int64(len(body)))
		}
		bounds = append(bounds, len(out))
		out = append(out, body...)
		bounds = append(bounds, len(out))
	}
	out = append(out, x.tail...)
	out[16] = 2
	binary.BigEndian.PutUint16(out[21:], uint16(x.attrs))
	binary.BigEndian.PutUint32(out[23:], uint32(x.lod))
	binary.BigEndian.PutUint64(out[27:], uint64(x.first))
	binary.BigEndian.PutUint64(out[35:], uint64(x.max))
	binary.BigEndian.PutUint64(out[43:], ^uint64(0))
	binary.BigEndian.PutUint16(out[51:], 0xffff)
	binary.BigEndian.PutUint32(out[53:], 0xffffffff)
	binary.BigEndian.PutUint32(out[57:], uint32(x.count))
	if x.batchLen != nil {
		binary.BigEndian.PutUint32(out[8:], uint32(*x.batchLen))
	} else {
		binary.BigEndian.PutUint32(out[8:], uint32(len(out)-12))
	}
	crc := crc32.Checksum(out[21:], c34Castagnoli)
	if x.badCRC {
		crc ^= 0x5a5a5a5a
	}
	binary.BigEndian.PutUint32(out[17:], crc)
	return out, bounds
}

func c34Valid(rng *rand.Rand, maxRecs int) *c34Batch {
	n := 1 + rng.Intn(maxRecs)
	first := int64(1_700_000_000_000) + rng.Int63n(1000000)
	b := &c34Batch{first: first, max: first, count: int32(n), lod: int32(n - 1)}
	for i := 0; i < n; i++ {
		r := c34Rec{od: c34Var{v: int64(i)}, ts: c34Var{v: int64(i * rng.Intn(50))}}
		if first+r.ts.v > b.max {
			b.max = first + r.ts.v
		}
		r.key = []byte(fmt.Sprintf("k%d", rng.Intn(9)))
		r.klen.v = int64(len(r.key))
		if rng.Intn(5) == 0 {
			r.key, r.klen.v = nil, -1
		}
		r.val = make([]byte, rng.Intn(40))
		rng.Read(r.val)
		r.vlen.v = int64(len(r.val))
		if rng.Intn(6) == 0 {
			r.val, r.vlen.v = nil, -1
		}
		nh := rng.Intn(4)
		for h := 0; h < nh; h++ {
			hd := c34Hdr{k: []byte(fmt.Sprintf("h%d", h)), v: []byte(fmt.Sprintf("v%d", rng.Intn(99)))}
			hd.klen.v, hd.vlen.v = int64(len(hd.k)), int64(len(hd.v))
			if rng.Intn(5) == 0 {
				hd.v, hd.vlen.v = nil, -1
			}
			r.hdrs = append(r.hdrs, hd)
		}
		r.hcount.v = int64(len(r.hdrs))
		b.recs = append(b.recs, r)
	}
	return b
}

// c34Giant is the share (percent) of hostile values that are expected to kill the process outright
// (tens of GiB asked from the allocator). A death costs a child respawn, so the quick tier keeps
// them rare; the sites they hit are the same ones the panic/over-allocation values hit.
var c34Giant = 1

// hostile values for varint length/count fields (§3.5: 0 / -1 / 2^31-1 / 2^63, huge and negative
// counts, over-long varints) plus sizes just above the property's 64 MiB bound, scaled by the
// element size the field multiplies (1 for byte lengths, ~40 for header counts)
func c34HostileVarint(rng *rand.Rand, actual int64, elem int64) c34Var {
	if rng.Intn(100) < c34Giant {
		return c34Var{v: []int64{1<<31 - 1, 1 << 33, 1 << 33, 1 << 35, 1 << 40}[rng.Intn(5)]}
	}
	switch x := rng.Intn(100); {
	case x < 8:
		return c34Var{v: 0}
	case x < 16:
		return c34Var{v: -1}
	case x < 20:
		return c34Var{v: -2 - rng.Int63n(1000)}
	case x < 26:
		return c34Var{v: actual + 1}
	case x < 30:
		return c34Var{v: actual - 1}
	case x < 46:
		return c34Var{v: 65536 + rng.Int63n(1<<20)/elem}
	case x < 47: // rare: touching > 64 MiB costs ~0.5 s of page faults per call on this kind of VM; the fixed cases above cover every site once
		return c34Var{v: (70_000_000 + rng.Int63n(30_000_000)) / elem} // just above 64 MiB once multiplied by the element size
	case x < 62:
		return c34Var{v: 1 << 62}
	case x < 70:
		return c34Var{v: 1<<63 - 1}
	case x < 76:
		return c34Var{v: -1 << 63}
	case x < 80:
		return c34Var{v: -(1 << 31)}
	case x < 84: // over-long encodings of the actual value
		raw := c34PutVarint(nil, actual)
		raw[len(raw)-1] |= 0x80
		pad := 1 + rng.Intn(12)
		for i := 0; i < pad-1; i++ {
			raw = append(raw, 0x80)
		}
		return c34Var{raw: append(raw, 0x00)}
	case x < 88:
		return c34Var{raw: []byte{0xff, 0xff, 0xff, 0xff, 0xff, 0xff, 0xff, 0xff, 0xff, 0x01}}
	case x < 91:
		return c34Var{raw: []byte{0xff, 0xff, 0xff, 0xff, 0xff, 0xff, 0xff, 0xff, 0xff, 0xff, 0xff, 0x7f}}
	case x < 94:
		return c34Var{raw: []byte{0x80, 0x80, 0x80, 0x80, 0x80, 0x80, 0x80, 0x80, 0x80, 0x80, 0x80}} // never terminates
	case x < 97:
		return c34Var{raw: []byte{0xff, 0xff, 0xff, 0xff, 0x0f}} // 5-byte int32 edge
	default:
		return c34Var{raw: []byte{}} // field missing
	}
}

func c34HostileInt32(rng *rand.Rand, actual int32) int32 {
	if rng.Intn(100) < c34Giant {
		return []int32{1<<31 - 1, 200_000_000}[rng.Intn(2)]
	}
	if rng.Intn(30) == 0 {
		return 700_000
	}
	return []int32{0, -1, 1, actual + 1, actual - 1, 2, 3, -1 << 31, 65536, -1000}[rng.Intn(10)]
}

// c34Mutate applies 1-2 structure-aware mutations and returns a label naming them.
func c34Mutate(rng *rand.Rand, b *c34Batch) string {
	var labels []string
	nm := 1 + rng.Intn(2)
	for m := 0; m < nm; m++ {
		ri := rng.Intn(len(b.recs))
		r := &b.recs[ri]
		switch f := rng.Intn(14); f {
		case 0:
			b.count = c34HostileInt32(rng, b.count)
			labels = append(labels, fmt.Sprintf("record_count=%d", b.count))
		case 1:
			v := c34HostileInt32(rng, 100)
			b.batchLen = &v
			labels = append(labels, fmt.Sprintf("batch_length=%d", v))
		case 2:
			v := c34HostileVarint(rng, 30, 1)
			r.length = &v
			labels = append(labels, fmt.Sprintf("rec%d.length=%s", ri, v.desc()))
		case 3:
			r.klen = c34HostileVarint(rng, r.klen.v, 1)
			labels = append(labels, fmt.Sprintf("rec%d.key_len=%s", ri, r.klen.desc()))
		case 4:
			r.vlen = c34HostileVarint(rng, r.vlen.v, 1)
			labels = append(labels, fmt.Sprintf("rec%d.value_len=%s", ri, r.vlen.desc()))
		case 5, 6:
			r.hcount = c34HostileVarint(rng, r.hcount.v, 40)
			labels = append(labels, fmt.Sprintf("rec%d.header_count=%s", ri, r.hcount.desc()))
		case 7:
			if len(r.hdrs) == 0 {
				r.hdrs = append(r.hdrs, c34Hdr{k: []byte("h"), v: []byte("v"), klen: c34Var{v: 1}, vlen: c34Var{v: 1}})
				r.hcount.v = 1
			}
			h := &r.hdrs[rng.Intn(len(r.hdrs))]
			h.klen = c34HostileVarint(rng, h.klen.v, 1)
			labels = append(labels, fmt.Sprintf("rec%d.header_key_len=%s", ri, h.klen.desc()))
		case 8:
			if len(r.hdrs) == 0 {
				r.hdrs = append(r.hdrs, c34Hdr{k: []byte("h"), v: []byte("v"), klen: c34Var{v: 1}, vlen: c34Var{v: 1}})
				r.hcount.v = 1
			}
			h := &r.hdrs[rng.Intn(len(r.hdrs))]
			h.vlen = c34HostileVarint(rng, h.vlen.v, 1)
			labels = append(labels, fmt.Sprintf("rec%d.header_value_len=%s", ri, h.vlen.desc()))
		case 9:
			r.ts = c34HostileVarint(rng, r.ts.v, 1)
			labels = append(labels, fmt.Sprintf("rec%d.ts_delta=%s", ri, r.ts.desc()))
		case 10:
			r.od = c34HostileVarint(rng, r.od.v, 1)
			labels = append(labels, fmt.Sprintf("rec%d.offset_delta=%s", ri, r.od.desc()))
		case 11:
			b.attrs = []int16{1, 2, 3, 4, 0x10, 0x20, -1}[rng.Intn(7)]
			labels = append(labels, fmt.Sprintf("attributes=%#x", uint16(b.attrs)))
		case 12:
			b.max = b.first + []int64{-1, 0, 1 << 40, -1 << 62, 1 << 62}[rng.Intn(5)]
			if rng.Intn(2) == 0 {
				b.first = []int64{-1 << 63, 1<<63 - 1, 0, -1}[rng.Intn(4)]
			}
			labels = append(labels, fmt.Sprintf("first/max_timestamp=%d/%d", b.first, b.max))
		case 13:
			b.tail = make([]byte, 1+rng.Intn(30))
			rng.Read(b.tail)
			labels = append(labels, fmt.Sprintf("trailing=%d", len(b.tail)))
		}
	}
	// the restore scanner only parses records when first <= T < max: keep that reachable
	if rng.Intn(3) == 0 && b.max <= b.first {
		b.max = b.first + 1000
	}
	return strings.Join(labels, ",")
}

func (x c34Var) desc() string {
	if x.raw != nil {
		return fmt.Sprintf("raw:%x", x.raw)
	}
	return fmt.Sprint(x.v)
}

// ---- attribute sweep: every attributes bit pattern on otherwise VALID batches

// c34AttrPatterns is the fixed list of 16-bit attributes words: every single bit; compression codes
// 0..7 alone and together with every combination of the timestamp-type (0x08), transactional (0x10)
// and control (0x20) bits and with the delete-horizon bit (0x40); unused bits (0x80..0x8000) alone,
// all together and on top of each flag; all ones; then n PRNG-chosen words.
func c34AttrPatterns(rng *rand.Rand, n int) []uint16 {
	var out []uint16
	seen := map[uint16]bool{}
	add := func(a uint16) {
		if !seen[a] {
			seen[a] = true
			out = append(out, a)
		}
	}
	for _, flags := range []uint16{0x20, 0x30, 0x10, 0x08, 0x00, 0x18, 0x28, 0x38, 0x40, 0x60, 0x78} { // control first: a scanner may skip such batches
		for code := uint16(0); code < 8; code++ {
			add(flags | code)
		}
	}
	for k := 0; k < 16; k++ {
		add(1 << k)
	}
	for _, a := range []uint16{0xffff, 0x7fff, 0xff80, 0xff80 | 0x20, 0xff80 | 0x10, 0xff80 | 0x08, 0xfff8, 0xffe0, 0xffdf, 0x8020, 0x0120, 0x00a0} {
		add(a)
	}
	for i := 0; i < n; i++ {
		add(uint16(rng.Intn(1 << 16)))
	}
	return out
}

func c34AttrDesc(a uint16) string {
	d := fmt.Sprintf("attributes=%#04x(compression=%d", a, a&7)
	for _, f := range []struct {
		bit  uint16
		name string
	}{{0x08, "log_append_time"}, {0x10, "transactional"}, {0x20, "control"}, {0x40, "delete_horizon"}} {
		if a&f.bit != 0 {
			d += "," + f.name
		}
	}
	if u := a &^ 0x7f; u != 0 {
		d += fmt.Sprintf(",unused=%#04x", u)
	}
	return d + ")"
}

// c34Timed is a valid batch of 2..4 records whose timestamps span first .. first+1000 ms (deltas 0, ..,
// 1000), so that the restore cut-offs the pitr leg derives from the segment's first batch (first,
// first + 500 ms) fall inside it and the per-record scanning path is taken. marker: the records look
// like transaction markers (key = version 0 + type 0/1, value = version 0 + coordinator epoch).
func c34Timed(rng *rand.Rand, first int64, attrs uint16, marker bool) *c34Batch {
	n := 2 + rng.Intn(3)
	b := &c34Batch{first: first, max: first + 1000, count: int32(n), lod: int32(n - 1), attrs: int16(attrs)}
	for i := 0; i < n; i++ {
		r := c34Rec{od: c34Var{v: int64(i)}, ts: c34Var{v: int64(i * 1000 / (n - 1))}}
		if marker {
			r.key = []byte{0, 0, 0, byte(rng.Intn(2))}
			r.val = []byte{0, 0, 0, 0, 0, byte(rng.Intn(9))}
		} else {
			r.key = []byte(fmt.Sprintf("k%d", rng.Intn(9)))
			r.val = make([]byte, 1+rng.Intn(24))
			rng.Read(r.val)
			if rng.Intn(3) == 0 {
				r.hdrs = []c34Hdr{{k: []byte("h"), v: []byte("x"), klen: c34Var{v: 1}, vlen: c34Var{v: 1}}}
				r.hcount.v = 1
			}
		}
		r.klen.v, r.vlen.v = int64(len(r.key)), int64(len(r.val))
		b.recs = append(b.recs, r)
	}
	return b
}

// c34GzipRecords returns batch bytes whose records section is really gzip-compressed (what a
// compression code 1 batch of a real client looks like): header of w, gzip(records of w), CRC redone.
func c34GzipRecords(w []byte) []byte {
	var z bytes.Buffer
	zw := gzip.NewWriter(&z)
	zw.Write(w[61:])
	zw.Close()
	out := append(append([]byte(nil), w[:61]...), z.Bytes()...)
	binary.BigEndian.PutUint32(out[8:], uint32(len(out)-12))
	binary.BigEndian.PutUint32(out[17:], crc32.Checksum(out[21:], c34Castagnoli))
	return out
}

// c34Wrap assembles a segment file the way the spec lays it out (harness-side, for the
// "every byte string" half of the quantifier).
func c34Wrap(base int64, count int32, body []byte, last int64) []byte {
	out := make([]byte, 32, 48+len(body))
	copy(out, "KAFS")
	binary.BigEndian.PutUint16(out[4:], 1)
	binary.BigEndian.PutUint64(out[8:], uint64(base))
	binary.BigEndian.PutUint32(out[16:], uint32(count))
	binary.BigEndian.PutUint64(out[20:], 1_700_000_000_000)
	out = append(out, body...)
	foot := make([]byte, 16)
	binary.BigEndian.PutUint32(foot, crc32.Checksum(body, c34Castagnoli))
	binary.BigEndian.PutUint64(foot[4:], uint64(last))
	copy(foot[12:], "END!")
	return append(out, foot...)
}

func c34Index(entries [][2]int64, count int32, interval int32) []byte {
	out := make([]byte, 16)
	copy(out, "IDX\x00")
	binary.BigEndian.PutUint16(out[4:], 1)
	binary.BigEndian.PutUint32(out[6:], uint32(count))
	binary.BigEndian.PutUint32(out[10:], uint32(interval))
	for _, e := range entries {
		var b [12]byte
		binary.BigEndian.PutUint64(b[:], uint64(e[0]))
		binary.BigEndian.PutUint32(b[8:], uint32(e[1]))
		out = append(out, b[:]...)
	}
	return out
}

// c34RuntFrame is a batch frame (8-byte base offset, 4-byte batch length, content) whose batch
// length L is shorter than a record-batch header needs (frame 12+L < 61 for L <= 48) or just
// reaches it (L = 49..60): content is noise, zeros, or the start of a well-formed batch header.
// have < L gives a frame whose declared length runs past the bytes present.
func c34RuntFrame(rng *rand.Rand, base int64, L, have int) []byte {
	f := make([]byte, 12+have)
	binary.BigEndian.PutUint64(f, uint64(base))
	binary.BigEndian.PutUint32(f[8:], uint32(L))
	switch rng.Intn(3) {
	case 0:
		rng.Read(f[12:])
	case 1: // zeros
	default:
		w, _ := c34Valid(rng, 1).encode()
		copy(f[12:], w[12:])
	}
	return f
}

// c34RawSegment is c34Wrap without the footer: header + body.
func c34RawSegment(base int64, count int32, body []byte) []byte {
	s := c34Wrap(base, count, body, 0)
	return s[:len(s)-16]
}

// TestVerifC34Gen is stage 1: it writes the two input containers ($VERIF_SCRATCH/c34corpus/
// segments, indexes) that the crashbox legs of every module run against.
func TestVerifC34Gen(t *testing.T) {
	r := verifkit.Start(t, "C34", "gen")
	defer r.Finish("stage 1 (corpus): (b) hostile record batches - valid batches with 1-2 structure-aware mutations (record count, batch length, record length, key/value/header lengths and header count set to 0/-1/off-by-one/64Ki..1Mi/just above 64 MiB/2^31-1/2^31/2^32/2^35/2^63-1/-2^63, over-long, unterminated and missing varints, compression bits, extreme timestamps, trailing bytes, bad CRC) and raw noise >= 61 bytes - are sent through the real handler.handleProduce (acks -1/0) and every segment+index object the broker then wrote is collected: exactly what a client can plant; attribute sweep: every attributes word of a fixed list (compression codes 0..7 alone and combined with every combination of the timestamp-type 0x08, transactional 0x10 and control 0x20 bits and with delete-horizon 0x40; every single bit 0..15; unused bits alone, all together and on top of each flag; 0xffff; plus PRNG words) on an otherwise valid, CRC-correct batch of 2..4 records spanning first .. first + 1000 ms, alone in its segment and between / before / after ordinary batches, with transaction-marker shaped records where the control bit is set and a really gzip-compressed records section where the code says gzip, each broker-written (through handleProduce) and harness-wrapped; (a) byte strings: the same hostile batches wrapped by the harness in spec-conformant and mutated segment header/footer, every-byte truncations of small valid segments (file cut, and body cut with footer re-attached), bit flips, pure noise with and without magic/framing; runt / minimal frames (batch length 1..60 in turn, also lengths running past the bytes present and bare / partial frame headers) as the last thing in the segment: exactly at the end of the body before a valid or a broken footer, at the end of a footer-less file, running into the footer, followed by a little padding, two in a row, after 0..2 well-formed batches, and - through the broker - as the bytes a client appends to an accepted batch whose own length field stops short of them; index files: broker-written, count field set to hostile values, truncations, noise, k whole entries + a 1..11-byte partial entry with count k-1/k/k+1, header cut at every byte. This leg only generates; the crashbox legs judge. non-trivial = input reaches per-batch parsing (passes size/magic/framing)",
		"the broker's whole validation of a produced batch is len >= 61 (NewRecordBatchFromBytes); measured here: the share of hostile batches handleProduce acknowledged")
	dir := verifc34.CorpusDir()
	ctx := context.Background()
	c34Giant = r.N(1, 2)
	t.Setenv("KAFSCALE_FLUSH_INTERVAL_MS", "86400000")
	s3 := storage.NewMemoryS3Client()
	broker := protocol.MetadataBroker{NodeID: 1, Host: "localhost", Port: 19092}
	h := newHandler(metadata.NewInMemoryStore(metadataForBroker(broker)), s3, broker, slog.New(slog.NewTextHandler(io.Discard, nil)))
	segW, err := verifc34.NewWriter(dir + "/segments")
	if err != nil {
		t.Fatal(err)
	}
	idxW, err := verifc34.NewWriter(dir + "/indexes")
	if err != nil {
		t.Fatal(err)
	}
	addSeg := func(label string, seg, idx []byte) {
		if len(seg)+len(idx) > verifc34.MaxInput {
			r.Count("inputs_dropped_over_64KiB", 1)
			return
		}
		segW.Add(verifc34.Input{Label: label, Data: seg, Aux: idx})
		r.Case(verifkit.Hash(label, len(seg), crc32.ChecksumIEEE(seg)), verifc34.ReachesBatchParser(seg))
		r.Count("segment_inputs", 1)
		r.Count("segment_inputs_"+label[:strings.IndexByte(label, '/')], 1)
		if verifc34.ReachesBatchParser(seg) {
			r.Count("segment_inputs_reaching_batch_parser", 1)
		}
	}
	addIdx := func(label string, idx []byte) {
		idxW.Add(verifc34.Input{Label: label, Data: idx})
		r.Count("index_inputs", 1)
	}
	produce := func(topic string, acks int16, wire []byte) bool {
		req := &kmsg.ProduceRequest{Acks: acks, TimeoutMillis: 1000, Topics: []kmsg.ProduceRequestTopic{{Topic: topic,
			Partitions: []kmsg.ProduceRequestTopicPartition{{Partition: 0, Records: append([]byte(nil), wire...)}}}}}
		payload, err := h.handleProduce(ctx, &protocol.RequestHeader{CorrelationID: 1, APIVersion: 7}, req)
		if err != nil {
			t.Fatalf("harness: handleProduce: %v", err)
		}
		if acks == 0 {
			r.Count("hostile_batches_sent_with_acks_0_no_verdict", 1)
			return false
		}
		resp := kmsg.NewPtrProduceResponse()
		resp.SetVersion(7)
		if len(payload) < 4 || resp.ReadFrom(payload[4:]) != nil || len(resp.Topics) != 1 || len(resp.Topics[0].Partitions) != 1 {
			t.Fatalf("harness: cannot read produce response")
		}
		return resp.Topics[0].Partitions[0].ErrorCode == 0
	}
	collect := func(topic, label string) int {
		plog, err := h.getPartitionLog(ctx, topic, 0)
		if err != nil {
			t.Fatalf("harness: getPartitionLog: %v", err)
		}
		if err := plog.Flush(ctx); err != nil {
			t.Fatalf("harness: Flush: %v", err)
		}
		objs, _ := s3.ListSegments(ctx, "default/"+topic+"/0/")
		sort.Slice(objs, func(i, j int) bool { return objs[i].Key < objs[j].Key })
		for i, o := range objs {
			seg, _ := s3.DownloadSegment(ctx, o.Key, nil)
			idx, _ := s3.DownloadIndex(ctx, strings.TrimSuffix(o.Key, ".kfs")+".index")
			addSeg(fmt.Sprintf("%s#%d", label, i), seg, idx)
			if idx != nil && i == 0 {
				addIdx(label, idx)
			}
			_ = s3.DeleteSegment(ctx, o.Key)
		}
		return len(objs)
	}

	// valid, broker-written
	nValid := r.N(20, 200)
	for i := 0; i < nValid; i++ {
		rng := r.Rand(i)
		topic := fmt.Sprintf("c34v-%d", i)
		nb := 1 + rng.Intn(3)
		for k := 0; k < nb; k++ {
			wire, _ := c34Valid(rng, 1+rng.Intn(12)).encode()
			acks := int16(-1)
			if rng.Intn(2) == 0 {
				acks = 0
			}
			if !produce(topic, acks, wire) && acks != 0 {
				t.Fatalf("harness: broker refused a valid batch")
			}
		}
		collect(topic, "valid/broker")
	}
	// attribute sweep: every attributes bit pattern (control, transactional, timestamp type, compression
	// codes 0..7, delete horizon, unused bits, PRNG words) on an otherwise valid, CRC-correct batch whose
	// timestamps make every restore path reachable: alone in its segment, between / before / after
	// ordinary batches (a scanner that skips or special-cases such a batch must still move on to the
	// next frame), as transaction-marker shaped records where the control bit is set, and with a really
	// gzip-compressed records section where the code says gzip; each both broker-written (the client
	// batch goes through handleProduce) and harness-wrapped
	pats := c34AttrPatterns(r.Rand(900000), r.N(24, 400))
	for i, a := range pats {
		rng := r.Rand(900001 + i)
		first := int64(1_700_000_000_000) + rng.Int63n(1000000)
		desc := c34AttrDesc(a)
		r.Seen("attribute_patterns", fmt.Sprintf("%#04x", a))
		type shape struct {
			name string
			ws   [][]byte
		}
		plain := func() []byte { w, _ := c34Timed(rng, first, 0, false).encode(); return w }
		special := func(marker bool) []byte { w, _ := c34Timed(rng, first, a, marker).encode(); return w }
		shapes := []shape{{name: "alone", ws: [][]byte{special(false)}}}
		switch i % 3 {
		case 0:
			shapes = append(shapes, shape{name: "between_ordinary_batches", ws: [][]byte{plain(), special(false), plain()}})
		case 1:
			shapes = append(shapes, shape{name: "before_ordinary_batch", ws: [][]byte{special(false), plain()}})
		default:
			shapes = append(shapes, shape{name: "after_ordinary_batch", ws: [][]byte{plain(), special(false)}})
		}
		if a&0x20 != 0 {
			shapes = append(shapes, shape{name: "marker_records_between_ordinary_batches", ws: [][]byte{plain(), special(true), plain()}})
		}
		if a&7 == 1 {
			shapes = append(shapes, shape{name: "gzip_records_after_ordinary_batch", ws: [][]byte{plain(), c34GzipRecords(special(false))}})
		}
		for si, sh := range shapes {
			var body []byte
			total := int32(0)
			for _, w := range sh.ws {
				total += int32(binary.BigEndian.Uint32(w[57:61]))
			}
			// broker-written
			topic := fmt.Sprintf("c34a-%d-%d", i, si)
			for k, w := range sh.ws {
				acks := int16(0)
				if k == len(sh.ws)-1 {
					acks = -1
				}
				r.Count("attr_batches_sent", 1)
				if produce(topic, acks, w) {
					r.Count("attr_batches_acknowledged", 1)
				}
			}
			if collect(topic, "attrs/broker:"+desc+","+sh.name) == 0 {
				r.Count("attr_topics_without_a_segment", 1)
			}
			// harness-wrapped: base offsets patched the way the broker lays batches out
			off := int64(0)
			for _, w := range sh.ws {
				w = append([]byte(nil), w...)
				binary.BigEndian.PutUint64(w, uint64(off))
				off += int64(binary.BigEndian.Uint32(w[57:61]))
				body = append(body, w...)
			}
			addSeg("attrs/wrapped:"+desc+","+sh.name, c34Wrap(0, total, body, int64(total)-1), c34Index([][2]int64{{0, 32}}, 1, 100))
		}
	}
	// (b) fixed minimal hostile batches first: one valid one-record batch {key "k", value "v", one header h=x} with one field changed
	one := func() *c34Batch {
		first := int64(1_700_000_000_000)
		return &c34Batch{first: first, max: first, count: 1, recs: []c34Rec{{klen: c34Var{v: 1}, key: []byte("k"), vlen: c34Var{v: 1}, val: []byte("v"),
			hcount: c34Var{v: 1}, hdrs: []c34Hdr{{klen: c34Var{v: 1}, k: []byte("h"), vlen: c34Var{v: 1}, v: []byte("x")}}}}}
	}
	fixed := []struct {
		label string
		mut   func(b *c34Batch)
	}{
		{"header_count=-1", func(b *c34Batch) { b.recs[0].hcount = c34Var{v: -1} }},
		{"header_count=2000000", func(b *c34Batch) { b.recs[0].hcount = c34Var{v: 2_000_000} }},
		{"record_count=700000", func(b *c34Batch) { b.count = 700_000 }},
		{"record_count=2147483647", func(b *c34Batch) { b.count = 1<<31 - 1 }},
		{"record_length=4611686018427387904", func(b *c34Batch) { b.recs[0].length = &c34Var{v: 1 << 62} }},
		{"record_length=80000000", func(b *c34Batch) { b.recs[0].length = &c34Var{v: 80_000_000} }},
		{"key_len=4611686018427387904", func(b *c34Batch) { b.recs[0].klen = c34Var{v: 1 << 62} }},
		{"value_len=80000000", func(b *c34Batch) { b.recs[0].vlen = c34Var{v: 80_000_000} }},
		{"header_value_len=80000000", func(b *c34Batch) { b.recs[0].hdrs[0].vlen = c34Var{v: 80_000_000} }},
	}
	for i, f := range fixed {
		b := one()
		f.mut(b)
		wire, _ := b.encode()
		topic := fmt.Sprintf("c34f-%d", i)
		r.Count("hostile_batches_sent", 1)
		if produce(topic, -1, wire) {
			r.Count("hostile_batches_acknowledged", 1)
		}
		collect(topic, "broker/fixed:"+f.label)
	}
	// (b) hostile batches through the broker
	nHostile := r.N(400, 5000)
	accepted := 0
	for i := 0; i < nHostile; i++ {
		rng := r.Rand(100000 + i)
		topic := fmt.Sprintf("c34h-%d", i)
		nb := 1
		if rng.Intn(5) == 0 {
			nb = 2 + rng.Intn(2)
		}
		var labels []string
		for k := 0; k < nb; k++ {
			var wire []byte
			var label string
			switch x := rng.Intn(20); {
			case x < 16:
				b := c34Valid(rng, 1+rng.Intn(6))
				label = c34Mutate(rng, b)
				b.badCRC = rng.Intn(8) == 0
				wire, _ = b.encode()
			case x < 18: // a valid batch cut somewhere (still >= 61 bytes, or the broker refuses it)
				b := c34Valid(rng, 1+rng.Intn(4))
				full, _ := b.encode()
				cut := 50 + rng.Intn(len(full)-49)
				wire = full[:cut]
				label = fmt.Sprintf("client_truncated=%d/%d", cut, len(full))
			default:
				wire = make([]byte, 61+rng.Intn(300))
				rng.Read(wire)
				if rng.Intn(2) == 0 { // plausible framing, noise inside
					binary.BigEndian.PutUint32(wire[8:], uint32(len(wire)-12))
					binary.BigEndian.PutUint16(wire[21:], 0)
					binary.BigEndian.PutUint32(wire[57:], uint32(rng.Intn(5)))
				}
				label = "client_noise"
			}
			acks := int16(-1)
			if k < nb-1 {
				acks = 0
			}
			ok := produce(topic, acks, wire)
			r.Count("hostile_batches_sent", 1)
			if ok {
				accepted++
				r.Count("hostile_batches_acknowledged", 1)
			}
			labels = append(labels, label)
		}
		collect(topic, "broker/"+strings.Join(labels, "+"))
	}
	// (b) a client batch the broker accepts (>= 61 bytes) whose own batch-length field stops short of
	// the bytes sent: what follows is read by every segment scanner as further frames, so the client
	// chooses them: a runt / minimal frame (batch length 1..60, or a length running past the end, or a
	// bare/partial frame header) that ends exactly where the broker-written segment body ends
	nTail := r.N(120, 1200)
	for i := 0; i < nTail; i++ {
		rng := r.Rand(600000 + i)
		topic := fmt.Sprintf("c34t-%d", i)
		nb := 1 + rng.Intn(2)
		var label string
		for k := 0; k < nb; k++ {
			b := c34Valid(rng, 1+rng.Intn(4))
			if k == nb-1 {
				head, _ := b.encode()
				bl := int32(len(head) - 12)
				b.batchLen = &bl
				L := 1 + i%60
				switch m := rng.Intn(8); {
				case m < 5:
					b.tail = c34RuntFrame(rng, int64(b.count), L, L)
					label = fmt.Sprintf("runt_tail(batch_length=%d)", L)
				case m < 6:
					have := rng.Intn(L)
					b.tail = c34RuntFrame(rng, int64(b.count), L, have)
					label = fmt.Sprintf("runt_tail(batch_length=%d,present=%d)", L, have)
				case m < 7:
					b.tail = c34RuntFrame(rng, int64(b.count), L, 0)[:1+rng.Intn(12)]
					label = fmt.Sprintf("runt_tail(frame_header_bytes=%d)", len(b.tail))
				default: // two runts in a row
					L2 := 1 + rng.Intn(14)
					b.tail = append(c34RuntFrame(rng, int64(b.count), L, L), c34RuntFrame(rng, int64(b.count)+1, L2, L2)...)
					label = fmt.Sprintf("runt_tail(batch_length=%d)+runt", L)
				}
			}
			wire, _ := b.encode()
			acks := int16(-1)
			if k < nb-1 {
				acks = 0
			}
			r.Count("hostile_batches_sent", 1)
			if produce(topic, acks, wire) {
				accepted++
				r.Count("hostile_batches_acknowledged", 1)
				if k == nb-1 {
					r.Count("runt_tail_batches_acknowledged", 1)
				}
			}
		}
		collect(topic, "broker/"+label)
	}
	// (a) harness-wrapped byte strings
	nMut := r.N(500, 5000)
	for i := 0; i < nMut; i++ {
		rng := r.Rand(200000 + i)
		var body []byte
		var labels []string
		nb := 1 + rng.Intn(2)
		total := int32(0)
		for k := 0; k < nb; k++ {
			b := c34Valid(rng, 1+rng.Intn(5))
			if k == nb-1 || rng.Intn(2) == 0 {
				labels = append(labels, c34Mutate(rng, b))
			}
			w, _ := b.encode()
			body = append(body, w...)
			total += int32(len(b.recs))
		}
		seg := c34Wrap(0, total, body, int64(total)-1)
		switch rng.Intn(8) {
		case 0:
			seg = seg[:len(seg)-16] // no footer
			labels = append(labels, "no_footer")
		case 1:
			binary.BigEndian.PutUint32(seg[16:], uint32(c34HostileInt32(rng, total)))
			labels = append(labels, "segment_message_count")
		case 2:
			rng.Read(seg[len(seg)-16 : len(seg)-4])
			labels = append(labels, "footer_noise")
		}
		idx := c34Index([][2]int64{{0, 32}}, 1, 100)
		addSeg("mut/"+strings.Join(labels, ","), seg, idx)
	}
	// truncation at every byte of small valid segments: the file cut, and the body cut with header/footer intact
	nTrunc := r.N(2, 8)
	for i := 0; i < nTrunc; i++ {
		rng := r.Rand(300000 + i)
		b := c34Valid(rng, 1+rng.Intn(3))
		w, bounds := b.encode()
		seg := c34Wrap(0, b.count, w, int64(b.count)-1)
		idx := c34Index([][2]int64{{0, 32}}, 1, 100)
		for cut := 0; cut < len(seg); cut++ {
			addSeg(fmt.Sprintf("trunc/file@%d/%d", cut, len(seg)), seg[:cut], idx)
		}
		isBound := map[int]bool{}
		for _, p := range bounds {
			isBound[p] = true
		}
		for cut := 0; cut < len(w); cut++ {
			kind := "byte"
			if isBound[cut] {
				kind = "field_boundary"
			}
			// keep the batch length field as the client wrote it (beyond the cut) and, separately, fixed up to the cut
			addSeg(fmt.Sprintf("trunc/body@%d/%d(%s)", cut, len(w), kind), c34Wrap(0, b.count, w[:cut], int64(b.count)-1), idx)
			if cut >= 61 {
				fixed := append([]byte(nil), w[:cut]...)
				binary.BigEndian.PutUint32(fixed[8:], uint32(cut-12))
				addSeg(fmt.Sprintf("trunc/body_len_fixed@%d/%d(%s)", cut, len(w), kind), c34Wrap(0, b.count, fixed, int64(b.count)-1), idx)
			}
		}
	}
	// bit flips and noise
	nNoise := r.N(300, 3000)
	for i := 0; i < nNoise; i++ {
		rng := r.Rand(400000 + i)
		switch rng.Intn(5) {
		case 0:
			b := make([]byte, rng.Intn(2048))
			rng.Read(b)
			addSeg("noise/pure", b, nil)
		case 1:
			b := make([]byte, 48+rng.Intn(1024))
			rng.Read(b)
			copy(b, "KAFS")
			addSeg("noise/magic", b, nil)
		case 2:
			body := make([]byte, 61+rng.Intn(512))
			rng.Read(body)
			binary.BigEndian.PutUint32(body[8:], uint32(len(body)-12))
			binary.BigEndian.PutUint16(body[21:], uint16(rng.Intn(2))<<4)
			binary.BigEndian.PutUint32(body[57:], uint32(rng.Intn(8)))
			addSeg("noise/framed", c34Wrap(0, 1, body, 0), nil)
		default:
			bb := c34Valid(rng, 1+rng.Intn(4))
			w, _ := bb.encode()
			nf := 1 + rng.Intn(4)
			for k := 0; k < nf; k++ {
				p := 12 + rng.Intn(len(w)-12)
				w[p] ^= 1 << uint(rng.Intn(8))
			}
			binary.BigEndian.PutUint32(w[8:], uint32(len(w)-12))
			addSeg("noise/bitflip", c34Wrap(0, bb.count, w, int64(bb.count)-1), c34Index([][2]int64{{0, 32}}, 1, 100))
		}
	}
	// runt / minimal frames (batch length 1..60, every value in turn) as the LAST thing a scanner meets:
	// at the very end of the body (footer intact, i.e. right before the footer), at the end of the file
	// (no footer, or the frame running into / through the footer), followed only by a few bytes of padding,
	// and as the only frame of a minimal segment; after 0..2 well-formed batches whose timestamps lie
	// below / around / above the cut-offs the restore legs use
	nRunt := r.N(480, 4800)
	for i := 0; i < nRunt; i++ {
		rng := r.Rand(700000 + i)
		L := 1 + i%60
		var body []byte
		total := int32(0)
		np := rng.Intn(3)
		for k := 0; k < np; k++ {
			b := c34Valid(rng, 1+rng.Intn(4))
			w, _ := b.encode()
			body = append(body, w...)
			total += b.count
		}
		idx := c34Index([][2]int64{{0, 32}}, 1, 100)
		pre := fmt.Sprintf("runt/after_%d_batches,batch_length=%d,", np, L)
		last := int64(total) - 1
		switch pl := (i / 60) % 8; pl {
		case 0: // exactly at the end of the body, valid footer behind it
			addSeg(pre+"body_end", c34Wrap(0, total, append(body, c34RuntFrame(rng, int64(total), L, L)...), last), idx)
		case 1: // the same with a footer of noise / zeros (CRC and magic wrong)
			seg := c34Wrap(0, total, append(body, c34RuntFrame(rng, int64(total), L, L)...), last)
			if rng.Intn(2) == 0 {
				rng.Read(seg[len(seg)-16:])
			} else {
				copy(seg[len(seg)-16:], make([]byte, 16))
			}
			addSeg(pre+"body_end_bad_footer", seg, idx)
		case 2: // at the end of the file: no footer at all (scanners take the last 16 bytes for it)
			addSeg(pre+"file_end_no_footer", append(c34RawSegment(0, total, body), c34RuntFrame(rng, int64(total), L, L)...), idx)
		case 3: // declared length runs 1..16 bytes into the footer, or exactly to the end of the file
			over := 1 + rng.Intn(16)
			have := L - over
			if have < 0 {
				have = 0
			}
			addSeg(fmt.Sprintf("%sinto_footer_by_%d", pre, L-have), c34Wrap(0, total, append(body, c34RuntFrame(rng, int64(total), L, have)...), last), idx)
		case 4: // runt, then 1..30 bytes of zero / noise padding, then the footer
			pad := make([]byte, 1+rng.Intn(30))
			if rng.Intn(2) == 0 {
				rng.Read(pad)
			}
			addSeg(fmt.Sprintf("%spadding_%d_before_footer", pre, len(pad)), c34Wrap(0, total, append(append(body, c34RuntFrame(rng, int64(total), L, L)...), pad...), last), idx)
		case 5: // a bare or partial frame header (1..12 bytes) is all that is left of the body
			h := c34RuntFrame(rng, int64(total), L, 0)[:1+rng.Intn(12)]
			addSeg(fmt.Sprintf("%sframe_header_bytes=%d_at_body_end", pre, len(h)), c34Wrap(0, total, append(body, h...), last), idx)
		case 6: // two runts back to back at the end
			L2 := 1 + rng.Intn(14)
			fr := append(c34RuntFrame(rng, int64(total), L, L), c34RuntFrame(rng, int64(total)+1, L2, L2)...)
			addSeg(pre+"two_runts_at_body_end", c34Wrap(0, total, append(body, fr...), last), idx)
		default: // the runt paired with a runt index: the index object ends in a partial entry
			full := c34Index([][2]int64{{0, 32}, {100, 1032}}, 2, 100)
			addSeg(pre+"body_end,index_partial_entry", c34Wrap(0, total, append(body, c34RuntFrame(rng, int64(total), L, L)...), last), full[:len(full)-1-rng.Intn(11)])
		}
	}
	// index files whose last entry is a runt: k whole entries + 1..11 bytes, count claiming k / k+1 / k-1;
	// a header cut at every byte; a header alone with a count
	nIdxRunt := r.N(120, 600)
	for i := 0; i < nIdxRunt; i++ {
		rng := r.Rand(800000 + i)
		k := rng.Intn(5)
		var es [][2]int64
		for e := 0; e < k; e++ {
			es = append(es, [2]int64{int64(e * 100), int64(32 + e*1000)})
		}
		part := 1 + i%11
		claim := int32(k) + int32(rng.Intn(3)) - 1
		if claim < 0 {
			claim = 1
		}
		full := c34Index(append(es, [2]int64{int64(k * 100), int64(32 + k*1000)}), claim, 100)
		addIdx(fmt.Sprintf("idx/runt_entry(%d whole+%d bytes,count=%d)", k, part, claim), full[:16+12*k+part])
	}
	for cut := 0; cut <= 16; cut++ {
		addIdx(fmt.Sprintf("idx/header_cut@%d", cut), c34Index(nil, 1, 100)[:cut])
	}
	// index files
	nIdx := r.N(150, 1500)
	for i := 0; i < nIdx; i++ {
		rng := r.Rand(500000 + i)
		ne := rng.Intn(6)
		var es [][2]int64
		for k := 0; k < ne; k++ {
			es = append(es, [2]int64{int64(k * 100), int64(32 + k*1000)})
		}
		switch rng.Intn(6) {
		case 0:
			addIdx("idx/valid", c34Index(es, int32(ne), 100))
		case 1, 2:
			c := []int32{-1, 0, int32(ne) + 1, int32(ne) - 1, -2, 65536, 7, 100}[rng.Intn(8)]
			if rng.Intn(12) == 0 {
				c = 5_000_000
			}
			if rng.Intn(100) < c34Giant {
				c = 1<<31 - 1
			}
			addIdx(fmt.Sprintf("idx/count=%d(entries %d)", c, ne), c34Index(es, c, 100))
		case 3:
			full := c34Index(es, int32(ne), 100)
			cut := rng.Intn(len(full) + 1)
			addIdx(fmt.Sprintf("idx/trunc@%d/%d", cut, len(full)), full[:cut])
		case 4:
			b := make([]byte, rng.Intn(200))
			rng.Read(b)
			if len(b) >= 6 && rng.Intn(6) == 0 {
				copy(b, "IDX\x00\x00\x01")
			}
			addIdx("idx/noise", b)
		default:
			full := c34Index(es, int32(ne), c34HostileInt32(rng, 100))
			binary.BigEndian.PutUint16(full[4:], uint16(rng.Intn(3)))
			addIdx("idx/version_interval", full)
		}
	}
	if err := segW.Close(); err != nil {
		t.Fatal(err)
	}
	if err := idxW.Close(); err != nil {
		t.Fatal(err)
	}
	r.Note("hostile_batches_acknowledged_by_broker", fmt.Sprintf("%d", accepted))
	r.Sample(map[string]any{"segments_container": segW.N, "indexes_container": idxW.N})
	r.Floor("segment_inputs_runt", 400)
	r.Floor("segment_inputs_attrs", 400)
	r.Floor("attribute_patterns", 120)
	r.Floor("segment_inputs_broker", 200)
	r.Floor("segment_inputs_reaching_batch_parser", 1000)
}
