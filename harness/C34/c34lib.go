//go:build verif

// Package verifc34 is the module-independent part of the C34 harness: the input
// container written by stage 1, and the crashbox (HARNESS_GUIDE rule 9): inputs
// are run in a child process (the re-executed test binary) that logs the index of
// each input before the call, recovers panics, measures runtime.MemStats.TotalAlloc
// per call and attributes an over-allocation to its allocation site through the
// runtime's memory profile; the parent attributes a process death to the last logged
// index and reads the crashing frame from the child's stderr. The child also logs the return
// of each call; the parent watches which call is open and the child's consumed CPU time, and
// takes a call that stays open over HangCPU of CPU time (never elapsed time) for one that does
// not return, once the same happens with the input alone in a fresh child. Stdlib only; overlaid
// at <module>/internal/verifc34 in every module.
package verifc34

import (
	"bufio"
	"encoding/binary"
	"encoding/json"
	"errors"
	"fmt"
	"io"
	"os"
	"os/exec"
	"path/filepath"
	"regexp"
	"runtime"
	"runtime/debug"
	"strconv"
	"strings"
	"syscall"
	"time"
)

// ---------------------------------------------------------------- container

// Input is one byte string handed to a target (Aux: the index object that goes with a segment, if any).
type Input struct {
	Label string
	Data  []byte
	Aux   []byte
}

// CorpusDir is where stage 1 leaves the corpus for the later legs of the same run.
func CorpusDir() string {
	s := os.Getenv("VERIF_SCRATCH")
	if s == "" {
		s = os.TempDir()
	}
	return filepath.Join(s, "c34corpus")
}

// Writer appends inputs to <path> and their start offsets to <path>.idx.
type Writer struct {
	f, x *os.File
	w, v *bufio.Writer
	off  int64
	N    int
}

func NewWriter(path string) (*Writer, error) {
	if err := os.MkdirAll(filepath.Dir(path), 0o755); err != nil {
		return nil, err
	}
	f, err := os.Create(path)
	if err != nil {
		return nil, err
	}
	x, err := os.Create(path + ".idx")
	if err != nil {
		return nil, err
	}
	return &Writer{f: f, x: x, w: bufio.NewWriter(f), v: bufio.NewWriter(x)}, nil
}

func (w *Writer) Add(in Input) {
	var o [8]byte
	binary.BigEndian.PutUint64(o[:], uint64(w.off))
	w.v.Write(o[:])
	put := func(b []byte) {
		var l [4]byte
		binary.BigEndian.PutUint32(l[:], uint32(len(b)))
		w.w.Write(l[:])
		w.w.Write(b)
		w.off += 4 + int64(len(b))
	}
	put([]byte(in.Label))
	put(in.Data)
	put(in.Aux)
	w.N++
}

func (w *Writer) Close() error {
	if err := w.w.Flush(); err != nil {
		return err
	}
	if err := w.v.Flush(); err != nil {
		return err
	}
	w.x.Close()
	return w.f.Close()
}

// Count returns the number of inputs in the container.
func Count(path string) (int, error) {
	st, err := os.Stat(path + ".idx")
	if err != nil {
		return 0, err
	}
	return int(st.Size() / 8), nil
}

// Read returns inputs [from, to).
func Read(path string, from, to int) ([]Input, error) {
	x, err := os.ReadFile(path + ".idx")
	if err != nil {
		return nil, err
	}
	n := len(x) / 8
	if to > n {
		to = n
	}
	if from >= to {
		return nil, nil
	}
	f, err := os.Open(path)
	if err != nil {
		return nil, err
	}
	defer f.Close()
	if _, err := f.Seek(int64(binary.BigEndian.Uint64(x[8*from:])), io.SeekStart); err != nil {
		return nil, err
	}
	rd := bufio.NewReaderSize(f, 1<<20)
	get := func() ([]byte, error) {
		var l [4]byte
		if _, err := io.ReadFull(rd, l[:]); err != nil {
			return nil, err
		}
		b := make([]byte, binary.BigEndian.Uint32(l[:]))
		_, err := io.ReadFull(rd, b)
		return b, err
	}
	out := make([]Input, 0, to-from)
	for i := from; i < to; i++ {
		l, err := get()
		if err != nil {
			return nil, err
		}
		d, err := get()
		if err != nil {
			return nil, err
		}
		a, err := get()
		if err != nil {
			return nil, err
		}
		if len(a) == 0 {
			a = nil
		}
		out = append(out, Input{Label: string(l), Data: d, Aux: a})
	}
	return out, nil
}

// Exact returns a copy of b whose capacity equals its length (nil stays nil). Go bounds a
// reslice b[i:j] by cap(b), not len(b): a decoder that peeks past the end of its input reads
// whatever happens to follow in a buffer with spare capacity (append / io.ReadAll / pooled
// buffers round capacities up) and only panics when there is none, as with a download buffer
// sized by Content-Length. Every byte string a crashbox child hands to the code under test goes
// through Exact, so an over-read of even one byte is a panic here.
func Exact(b []byte) []byte {
	if b == nil {
		return nil
	}
	c := make([]byte, len(b)) // cap(make([]byte, n)) == n whatever size class the allocator picks
	copy(c, b)
	return c[:len(b):len(b)]
}

// ReachesBatchParser says whether a segment passes the outer framing every decoder
// applies (size, magic, first frame inside the body, >= 61 bytes), i.e. whether the
// call gets to per-batch/per-record parsing. Used only for the honest "non-trivial" count.
func ReachesBatchParser(seg []byte) bool {
	if len(seg) < 48 || string(seg[:4]) != "KAFS" {
		return false
	}
	body := seg[32 : len(seg)-16]
	if len(body) < 61 {
		return false
	}
	l := int(binary.BigEndian.Uint32(body[8:12]))
	return l > 0 && 12+l <= len(body) && 12+l >= 61
}

// ---------------------------------------------------------------- crashbox

const (
	// AllocLimit is the per-call allocation bound of the property's operational reading
	// (DESIGN.md C34): an input of at most MaxInput bytes must not make one call allocate more.
	AllocLimit = 64 << 20
	MaxInput   = 64 << 10
)

// Site is the innermost frame of the code under test at a panic / fatal error / giant allocation.
type Site struct {
	Func string `json:"func"`
	File string `json:"file"`
	Line int    `json:"line"`
	Text string `json:"text"` // the source line
}

// Result is the outcome of one call.
type Result struct {
	Idx     int    `json:"i"`
	Variant int    `json:"v"`
	Outcome string `json:"o"` // ok | err | panic | overalloc | death | death_unattributed | timeout | hang | hang_not_investigated
	Items   int    `json:"n,omitempty"`
	Err     string `json:"e,omitempty"`
	Msg     string `json:"m,omitempty"` // panic value / fatal error line
	Alloc   uint64 `json:"a,omitempty"`
	Micros  int64  `json:"us,omitempty"`  // wall time of the call incl. site attribution
	CallUs  int64  `json:"cus,omitempty"` // wall time of the call alone
	Site    *Site  `json:"s,omitempty"`
	CPUMs   int64  `json:"cpu_ms,omitempty"` // hang: CPU time the child consumed inside the call before it was killed
}

// TargetFn runs the code under test once. items = how many records/entries/batches it returned.
type TargetFn func(in *Input, variant int) (items int, err error)

// Target is one entry point of the code under test.
type Target struct {
	Name     string
	Variants int // calls per input (>=1)
	Fn       TargetFn
}

func repoRoot() string {
	r := os.Getenv("VERIF_REPO")
	if r == "" {
		r = "/repo"
	}
	return filepath.Clean(r) + string(filepath.Separator)
}

func underTest(file string) bool {
	if !strings.HasPrefix(file, repoRoot()) {
		return false
	}
	base := filepath.Base(file)
	return !strings.HasPrefix(base, "zz_verif_") && !strings.Contains(file, "/internal/verif")
}

func sourceLine(file string, line int) string {
	b, err := os.ReadFile(file)
	if err != nil {
		return ""
	}
	ls := strings.Split(string(b), "\n")
	if line < 1 || line > len(ls) {
		return ""
	}
	return strings.TrimSpace(ls[line-1])
}

func siteFromPCs(pcs []uintptr) *Site {
	fr := runtime.CallersFrames(pcs)
	for {
		f, more := fr.Next()
		if f.Function != "" && underTest(f.File) {
			return &Site{Func: f.Function, File: f.File, Line: f.Line, Text: sourceLine(f.File, f.Line)}
		}
		if !more {
			return nil
		}
	}
}

var reFrameFile = regexp.MustCompile(`^\s+(/\S+\.go):(\d+)`)

// siteFromTraceback finds the innermost frame of the code under test in a Go crash dump.
func siteFromTraceback(txt string) (*Site, string) {
	msg := ""
	lines := strings.Split(txt, "\n")
	start := 0
	for i, l := range lines {
		if strings.HasPrefix(l, "fatal error:") || strings.HasPrefix(l, "panic:") || strings.HasPrefix(l, "runtime: out of memory") || strings.HasPrefix(l, "SIGSEGV") || strings.HasPrefix(l, "signal:") {
			if msg == "" {
				msg = strings.TrimSpace(l)
				start = i
			}
			if strings.HasPrefix(l, "fatal error:") {
				msg = strings.TrimSpace(l)
				break
			}
		}
	}
	for i := start + 1; i < len(lines); i++ {
		m := reFrameFile.FindStringSubmatch(lines[i])
		if m == nil || i == 0 {
			continue
		}
		if underTest(m[1]) {
			ln, _ := strconv.Atoi(m[2])
			fn := strings.TrimSpace(lines[i-1])
			if j := strings.LastIndex(fn, "("); j > 0 {
				fn = fn[:j]
			}
			return &Site{Func: fn, File: m[1], Line: ln, Text: sourceLine(m[1], ln)}, msg
		}
	}
	return nil, msg
}

var reNonAlnum = regexp.MustCompile(`[^A-Za-z0-9]+`)

// SiteClass renders "<func>.<slug of the allocation/indexing expression on that line>": stable
// under line-number shifts, distinct per site.
func SiteClass(s *Site) string {
	if s == nil {
		return "unknown_site"
	}
	fn := s.Func
	if i := strings.LastIndex(fn, "/"); i >= 0 {
		fn = fn[i+1:]
	}
	if i := strings.Index(fn, "."); i >= 0 {
		fn = fn[i+1:]
	}
	fn = strings.Trim(reNonAlnum.ReplaceAllString(fn, "_"), "_")
	expr := s.Text
	if i := strings.Index(expr, "make("); i >= 0 {
		depth := 0
		for j := i + 4; j < len(expr); j++ {
			if expr[j] == '(' {
				depth++
			}
			if expr[j] == ')' {
				depth--
				if depth == 0 {
					expr = expr[i : j+1]
					break
				}
			}
		}
	}
	if expr == "" {
		expr = "line_unreadable"
	}
	slug := strings.Trim(reNonAlnum.ReplaceAllString(expr, "_"), "_")
	if len(slug) > 60 {
		slug = slug[:60]
	}
	return fn + "." + slug
}

// ---- child side

type memSnap map[string]int64

func stackKey(pcs []uintptr) string {
	var b strings.Builder
	for _, p := range pcs {
		b.WriteString(strconv.FormatUint(uint64(p), 16))
		b.WriteByte(',')
	}
	return b.String()
}

func snapshot() (memSnap, map[string][]uintptr) {
	runtime.GC()
	runtime.GC() // the profile is published with a two-cycle delay
	n, _ := runtime.MemProfile(nil, true)
	recs := make([]runtime.MemProfileRecord, n+64)
	n, ok := runtime.MemProfile(recs, true)
	if !ok {
		return nil, nil
	}
	s := memSnap{}
	st := map[string][]uintptr{}
	for _, r := range recs[:n] {
		k := stackKey(r.Stack())
		s[k] += r.AllocBytes
		st[k] = append([]uintptr(nil), r.Stack()...)
	}
	return s, st
}

// lastSnap is the profile as of the previous attribution (nil: process start, all zero).
var lastSnap memSnap

// allocSite attributes the over-allocation of the call that just returned. First try, no
// re-run: publish the profile (two GCs) and look at what each stack allocated since the
// previous attribution; if exactly one stack accounts for more than half the bound, that is
// the site. Otherwise (several heavy stacks, e.g. earlier passing calls piled up on another
// one) fall back to the exact method: re-run the deterministic call between two snapshots.
func allocSite(call func()) *Site {
	after, stacks := snapshot()
	var heavy []string
	for k, v := range after {
		if v-lastSnap[k] > AllocLimit/2 {
			heavy = append(heavy, k)
		}
	}
	lastSnap = after
	if len(heavy) == 1 {
		return siteFromPCs(stacks[heavy[0]])
	}
	before := after
	func() {
		defer func() { _ = recover() }()
		call()
	}()
	after, stacks = snapshot()
	lastSnap = after
	var best string
	var bestDelta int64
	for k, v := range after {
		if d := v - before[k]; d > bestDelta {
			best, bestDelta = k, d
		}
	}
	if best == "" {
		return nil
	}
	return siteFromPCs(stacks[best])
}

func init() {
	if os.Getenv("C34_CHILD_CORPUS") != "" {
		// every allocation of >= 64 KiB is sampled, so a > 64 MiB one always is
		runtime.MemProfileRate = 64 << 10
	}
}

// IsChild reports whether this process is a crashbox child.
func IsChild() bool { return os.Getenv("C34_CHILD_CORPUS") != "" }

// ChildMain runs inputs [C34_CHILD_FROM, C34_CHILD_TO) of the corpus against the named
// target. It never returns an error for a misbehaving target: that is recorded.
func ChildMain(targets []Target) error {
	corpus := os.Getenv("C34_CHILD_CORPUS")
	from, _ := strconv.Atoi(os.Getenv("C34_CHILD_FROM"))
	fromVar, _ := strconv.Atoi(os.Getenv("C34_CHILD_FROM_VARIANT"))
	to, _ := strconv.Atoi(os.Getenv("C34_CHILD_TO"))
	var tg *Target
	for i := range targets {
		if targets[i].Name == os.Getenv("C34_CHILD_TARGET") {
			tg = &targets[i]
		}
	}
	if tg == nil {
		return fmt.Errorf("unknown target %q", os.Getenv("C34_CHILD_TARGET"))
	}
	// a child whose parent is gone (go test timeout, kill) must not outlive it: a call that never
	// returns would otherwise spin on this machine for ever
	go func(parent int) {
		for {
			time.Sleep(time.Second)
			if os.Getppid() != parent {
				os.Exit(3)
			}
		}
	}(os.Getppid())
	_ = syscall.Setrlimit(syscall.RLIMIT_CORE, &syscall.Rlimit{}) // GOTRACEBACK=crash children abort: no core files
	if lim, _ := strconv.ParseUint(os.Getenv("C34_CHILD_AS_LIMIT"), 10, 64); lim > 0 {
		// backstop: an allocation the machine cannot afford fails here instead of taking the box down
		_ = syscall.Setrlimit(syscall.RLIMIT_AS, &syscall.Rlimit{Cur: lim, Max: lim})
	}
	// no soft memory limit: with a multi-GiB live object it makes the collector run back to back;
	// RLIMIT_AS above is the backstop
	debug.SetGCPercent(100)
	inputs, err := Read(corpus, from, to)
	if err != nil {
		return err
	}
	prog, err := os.OpenFile(os.Getenv("C34_CHILD_PROGRESS"), os.O_CREATE|os.O_WRONLY|os.O_APPEND, 0o644)
	if err != nil {
		return err
	}
	defer prog.Close()
	out, err := os.OpenFile(os.Getenv("C34_CHILD_OUT"), os.O_CREATE|os.O_WRONLY|os.O_APPEND, 0o644)
	if err != nil {
		return err
	}
	defer out.Close()
	nv := tg.Variants
	if nv < 1 {
		nv = 1
	}
	var ms runtime.MemStats
	oneCall := os.Getenv("C34_CHILD_ONE_CALL") == "1"
	calls := 0
	for k := range inputs {
		stored := &inputs[k]
		for v := 0; v < nv; v++ {
			// a fresh exact-capacity copy per call: no spare capacity behind the input, and a target
			// that scribbles on its input cannot change what the next variant sees
			in := &Input{Label: stored.Label, Data: Exact(stored.Data), Aux: Exact(stored.Aux)}
			if cap(in.Data) != len(in.Data) || cap(in.Aux) != len(in.Aux) {
				return fmt.Errorf("harness: input %d is not an exact-capacity slice (len %d cap %d / len %d cap %d)", from+k, len(in.Data), cap(in.Data), len(in.Aux), cap(in.Aux))
			}
			if k == 0 && v < fromVar {
				continue
			}
			if oneCall && calls > 0 {
				return nil
			}
			calls++
			idx := from + k
			fmt.Fprintf(prog, "%d %d\n", idx, v) // unbuffered: on disk before the call
			res := Result{Idx: idx, Variant: v, Outcome: "ok"}
			runtime.ReadMemStats(&ms)
			a0 := ms.TotalAlloc
			t0 := time.Now()
			func() {
				defer func() {
					if p := recover(); p != nil {
						res.Outcome = "panic"
						res.Msg = fmt.Sprint(p)
						pcs := make([]uintptr, 64)
						n := runtime.Callers(2, pcs)
						res.Site = siteFromPCs(pcs[:n])
					}
				}()
				n, err := tg.Fn(in, v)
				res.Items = n
				if err != nil {
					res.Outcome = "err"
					res.Err = err.Error()
					if len(res.Err) > 200 {
						res.Err = res.Err[:200]
					}
				}
			}()
			fmt.Fprintf(prog, "r %d %d\n", idx, v) // the call returned (or its panic was recovered)
			res.CallUs = time.Since(t0).Microseconds()
			runtime.ReadMemStats(&ms)
			res.Alloc = ms.TotalAlloc - a0
			if res.Outcome != "panic" && res.Alloc > AllocLimit && len(in.Data)+len(in.Aux) <= MaxInput {
				res.Outcome = "overalloc"
				res.Site = allocSite(func() { _, _ = tg.Fn(in, v) })
			}
			res.Micros = time.Since(t0).Microseconds()
			b, _ := json.Marshal(res)
			out.Write(append(b, '\n'))
		}
	}
	return nil
}

// ---- parent side

// Config of one crashbox run.
type Config struct {
	Corpus    string // container path
	Target    string
	Variants  int
	Dir       string // work dir for progress/out/stderr files
	ChildTest string // -test.run pattern of the child entry point
	Batch     int    // inputs per child
	Limit     int    // run only the first Limit inputs of the container (0 = all)
	ASLimit   uint64 // RLIMIT_AS of the child, 0 = none
	Timeout   time.Duration
	MaxDeaths int // stop re-spawning after this many deaths (rest reported as skipped)
	// HangCPU is the CPU time (user+system of the whole child, read from /proc/<pid>/stat) one call may
	// burn without returning before it is taken for a call that does not return. 0 = DefaultHangCPU.
	HangCPU time.Duration
	// HangBudget is the number of hang investigations (kill + re-run alone) still allowed; shared by the
	// targets of a leg through the pointer. nil = DefaultHangBudget for this run alone.
	HangBudget *int
	// MaxTimeouts stops the run after this many wall-clock watchdog firings (each decides nothing and
	// costs Timeout). 0 = 2.
	MaxTimeouts int
}

const (
	// DefaultHangCPU: inputs are at most MaxInput (64 KiB) bytes; a returning call takes micro- to
	// milliseconds of CPU, the slowest ones (tens of MiB allocated) well under a second. 20 s of CPU
	// time is > 300 us per input byte. CPU time, unlike wall time, does not grow with machine load.
	DefaultHangCPU    = 20 * time.Second
	DefaultHangBudget = 3
)

func (c Config) hangCPU() time.Duration {
	if c.HangCPU == 0 {
		return DefaultHangCPU
	}
	return c.HangCPU
}

// Stats of a run.
type Stats struct {
	Children, Deaths, Timeouts, Skipped, FlakyDeaths, Unattributed int
	HangCandidates, Hangs, HangsNotReproduced, HangsOverBudget     int
}

// procCPU returns user+system CPU time consumed so far by all threads of a process.
func procCPU(pid int) (time.Duration, bool) {
	b, err := os.ReadFile("/proc/" + strconv.Itoa(pid) + "/stat")
	if err != nil {
		return 0, false
	}
	s := string(b)
	i := strings.LastIndexByte(s, ')') // the command name may hold spaces and parentheses
	if i < 0 {
		return 0, false
	}
	f := strings.Fields(s[i+1:]) // f[0] = field 3 (state); utime = field 14, stime = field 15
	if len(f) < 13 {
		return 0, false
	}
	ut, e1 := strconv.ParseInt(f[11], 10, 64)
	st, e2 := strconv.ParseInt(f[12], 10, 64)
	if e1 != nil || e2 != nil {
		return 0, false
	}
	return time.Duration(ut+st) * (time.Second / 100), true // USER_HZ is 100 on Linux
}

// progressLines returns the complete lines at the end of a progress file (at most the last 4 KiB).
func progressLines(path string) []string {
	f, err := os.Open(path)
	if err != nil {
		return nil
	}
	defer f.Close()
	st, err := f.Stat()
	if err != nil || st.Size() == 0 {
		return nil
	}
	off := st.Size() - 4096
	if off < 0 {
		off = 0
	}
	buf := make([]byte, st.Size()-off)
	n, _ := f.ReadAt(buf, off)
	txt := string(buf[:n])
	if j := strings.LastIndexByte(txt, '\n'); j >= 0 {
		txt = txt[:j] // drop a torn last line
	} else {
		return nil
	}
	ls := strings.Split(txt, "\n")
	if off > 0 && len(ls) > 0 {
		ls = ls[1:] // the first one may have lost its head
	}
	return ls
}

// inCall reports the (index, variant) the child logged before a call that has not been logged as returned.
func inCall(path string) (int, int, bool) {
	ls := progressLines(path)
	if len(ls) == 0 || strings.HasPrefix(ls[len(ls)-1], "r") {
		return 0, 0, false
	}
	var i, v int
	if _, err := fmt.Sscanf(ls[len(ls)-1], "%d %d", &i, &v); err != nil {
		return 0, 0, false
	}
	return i, v, true
}

type childEnd struct {
	runErr   error
	timedOut bool          // the wall-clock watchdog fired: decides nothing
	hang     bool          // one call burnt HangCPU of CPU time without returning
	hi, hv   int           // that call
	hangCPU  time.Duration // CPU time observed inside it (a lower bound)
	cpu      time.Duration // CPU time of the child over its whole life
}

// runChild starts one child and watches it: every 100 ms it reads which call the child is in (the
// line logged before the call, no return line after it) and the CPU time the child has consumed. The
// decision "does not return" is made on CPU time accumulated while the same call stays open, never on
// elapsed time; the polling interval only bounds how late the decision is noticed. dump: ask the
// runtime for the goroutine stacks (SIGQUIT under GOTRACEBACK=crash) before killing a hanging child.
func runChild(cfg Config, env []string, errp string, prog string, dump bool) (childEnd, error) {
	var end childEnd
	cmd := exec.Command(os.Args[0], "-test.run="+cfg.ChildTest, "-test.count=1", "-test.timeout=0")
	cmd.Env = env
	ef, err := os.Create(errp)
	if err != nil {
		return end, err
	}
	defer ef.Close()
	cmd.Stdout, cmd.Stderr = ef, ef
	if err := cmd.Start(); err != nil {
		return end, err
	}
	done := make(chan error, 1)
	go func() { done <- cmd.Wait() }()
	finish := func(e error) {
		end.runErr = e
		if ps := cmd.ProcessState; ps != nil {
			end.cpu = ps.UserTime() + ps.SystemTime()
		}
	}
	kill := func() {
		_ = cmd.Process.Kill()
		finish(<-done)
	}
	tick := time.NewTicker(100 * time.Millisecond)
	defer tick.Stop()
	watchdog := time.NewTimer(cfg.Timeout)
	defer watchdog.Stop()
	have := false
	var ci, cv int
	var cpu0 time.Duration
	for {
		select {
		case e := <-done:
			finish(e)
			return end, nil
		case <-watchdog.C:
			end.timedOut = true
			kill()
			return end, nil
		case <-tick.C:
			i, v, open := inCall(prog)
			if !open {
				have = false
				continue
			}
			cpu, ok := procCPU(cmd.Process.Pid)
			if !ok {
				continue
			}
			if !have || i != ci || v != cv {
				// first sight of this call: CPU spent in it before now is not counted
				have, ci, cv, cpu0 = true, i, v, cpu
				continue
			}
			if cpu-cpu0 < cfg.HangCPU {
				continue
			}
			end.hang, end.hi, end.hv, end.hangCPU = true, i, v, cpu-cpu0
			if dump {
				_ = cmd.Process.Signal(syscall.SIGQUIT)
				select {
				case e := <-done:
					finish(e)
					return end, nil
				case <-time.After(20 * time.Second): // scheduling aid only: the dump is informational
				}
			}
			kill()
			return end, nil
		}
	}
}

// Run executes every input of the corpus against the target in child processes.
func Run(cfg Config) ([]Result, Stats, error) {
	var st Stats
	n, err := Count(cfg.Corpus)
	if err != nil {
		return nil, st, err
	}
	if cfg.Limit > 0 && n > cfg.Limit {
		n = cfg.Limit
	}
	if err := os.MkdirAll(cfg.Dir, 0o755); err != nil {
		return nil, st, err
	}
	if cfg.Variants < 1 {
		cfg.Variants = 1
	}
	if cfg.Batch <= 0 {
		cfg.Batch = 2000
	}
	if cfg.Timeout == 0 {
		cfg.Timeout = 5 * time.Minute
	}
	if cfg.HangCPU == 0 {
		cfg.HangCPU = DefaultHangCPU
	}
	if cfg.HangBudget == nil {
		b := DefaultHangBudget
		cfg.HangBudget = &b
	}
	if cfg.MaxTimeouts == 0 {
		cfg.MaxTimeouts = 2
	}
	var results []Result
	from, fromVar := 0, 0
	single := false  // re-run exactly one call alone (a death the traceback does not pin on the code under test, or a hang candidate)
	confirm := false // the single call is the confirmation run of a hang candidate
	var firstHangCPU time.Duration
	retried := map[[2]int]bool{}
	next := func(i, v int) (int, int) {
		if v+1 >= cfg.Variants {
			return i + 1, 0
		}
		return i, v + 1
	}
	for spawn := 0; from < n; spawn++ {
		to := from + cfg.Batch
		if to > n {
			to = n
		}
		one := "0"
		if single {
			to, one = from+1, "1"
		}
		tag := fmt.Sprintf("%s-%04d", cfg.Target, spawn)
		prog := filepath.Join(cfg.Dir, tag+".progress")
		outp := filepath.Join(cfg.Dir, tag+".out")
		errp := filepath.Join(cfg.Dir, tag+".stderr")
		tb := "all"
		if confirm {
			tb = "crash" // on SIGQUIT every thread dumps the goroutine it is running: shows where the call spins
		}
		env := append(os.Environ(),
			"C34_CHILD_CORPUS="+cfg.Corpus, "C34_CHILD_TARGET="+cfg.Target,
			"C34_CHILD_FROM="+strconv.Itoa(from), "C34_CHILD_FROM_VARIANT="+strconv.Itoa(fromVar), "C34_CHILD_TO="+strconv.Itoa(to),
			"C34_CHILD_ONE_CALL="+one, "C34_CHILD_PROGRESS="+prog, "C34_CHILD_OUT="+outp, "C34_CHILD_AS_LIMIT="+strconv.FormatUint(cfg.ASLimit, 10),
			"GOTRACEBACK="+tb, "GOMAXPROCS=4")
		end, err := runChild(cfg, env, errp, prog, confirm)
		if err != nil {
			return results, st, err
		}
		runErr, timedOut := end.runErr, end.timedOut
		st.Children++
		got, perr := readResults(outp)
		if perr != nil {
			return results, st, perr
		}
		results = append(results, got...)
		if end.hang {
			// one call burnt HangCPU of CPU time without returning
			if !confirm {
				st.HangCandidates++
				if *cfg.HangBudget <= 0 {
					// no investigation left: decided nothing for this input nor for the ones behind it
					st.HangsOverBudget++
					results = append(results, Result{Idx: end.hi, Variant: end.hv, Outcome: "hang_not_investigated", CPUMs: end.hangCPU.Milliseconds()})
					from, fromVar = next(end.hi, end.hv)
					st.Skipped = n - from
					break
				}
				*cfg.HangBudget--
				from, fromVar, single, confirm, firstHangCPU = end.hi, end.hv, true, true, end.hangCPU
				continue
			}
			// alone in a fresh child it again consumed HangCPU without returning: the input does it
			txt, _ := os.ReadFile(errp)
			site, _ := siteFromTraceback(string(txt))
			st.Hangs++
			results = append(results, Result{Idx: end.hi, Variant: end.hv, Outcome: "hang", Site: site, CPUMs: end.hangCPU.Milliseconds(),
				Msg: fmt.Sprintf("the call had not returned after %.1f s of CPU time in a child running a batch of inputs, and again not after %.1f s of CPU time alone in a fresh child (killed both times)", firstHangCPU.Seconds(), end.hangCPU.Seconds())})
			single, confirm = false, false
			from, fromVar = next(end.hi, end.hv)
			continue
		}
		if runErr == nil {
			if single {
				if confirm {
					st.HangsNotReproduced++ // its result (ok/err) is in got
				} else {
					st.FlakyDeaths++
				}
				single, confirm = false, false
				from, fromVar = next(from, fromVar)
				continue
			}
			from, fromVar = to, 0
			continue
		}
		// the child did not finish: the last logged (index, variant) is the culprit
		li, lv, ok := lastProgress(prog)
		if !ok {
			tail, _ := os.ReadFile(errp)
			return results, st, fmt.Errorf("crashbox child for %s failed before its first input: %v\n%s", cfg.Target, runErr, lastBytes(tail, 1500))
		}
		done := len(got) > 0 && got[len(got)-1].Idx == li && got[len(got)-1].Variant == lv
		if done {
			// died after recording its last result (e.g. at exit): nothing to attribute
			tail, _ := os.ReadFile(errp)
			return results, st, fmt.Errorf("crashbox child for %s exited abnormally after input %d: %v\n%s", cfg.Target, li, runErr, lastBytes(tail, 1500))
		}
		if confirm {
			st.HangsNotReproduced++ // the confirmation run ended otherwise (death / watchdog): judged as such below
			confirm = false
		}
		txt, _ := os.ReadFile(errp)
		res := Result{Idx: li, Variant: lv, Outcome: "death", CPUMs: end.cpu.Milliseconds()}
		if timedOut {
			res.Outcome = "timeout"
			st.Timeouts++
		} else {
			st.Deaths++
		}
		site, msg := siteFromTraceback(string(txt))
		res.Site = site
		res.Msg = msg
		if res.Msg == "" {
			res.Msg = runErr.Error()
		}
		if site == nil && !timedOut && !retried[[2]int{li, lv}] {
			// the dump does not show the code under test (e.g. the runtime failed to start a thread under
			// RLIMIT_AS, the kernel killed the child): only a death that repeats when the input is run
			// alone in a fresh child is attributed to the input
			retried[[2]int{li, lv}] = true
			st.Deaths--
			from, fromVar, single = li, lv, true
			continue
		}
		single = false
		if site == nil && !timedOut {
			// died twice, and neither dump shows the code under test: the harness cannot tell the input
			// from the environment (thread/process limits, kernel OOM killer): decided nothing for it
			res.Outcome = "death_unattributed"
			st.Unattributed++
		}
		results = append(results, res)
		from, fromVar = next(li, lv)
		if from < n && ((cfg.MaxDeaths > 0 && st.Deaths+st.Timeouts >= cfg.MaxDeaths) || st.Timeouts >= cfg.MaxTimeouts) {
			st.Skipped = n - from
			break
		}
	}
	return results, st, nil
}

func lastBytes(b []byte, n int) string {
	if len(b) > n {
		b = b[len(b)-n:]
	}
	return string(b)
}

func readResults(path string) ([]Result, error) {
	f, err := os.Open(path)
	if err != nil {
		if errors.Is(err, os.ErrNotExist) {
			return nil, nil
		}
		return nil, err
	}
	defer f.Close()
	var out []Result
	sc := bufio.NewScanner(f)
	sc.Buffer(make([]byte, 1<<20), 1<<24)
	for sc.Scan() {
		var r Result
		if json.Unmarshal(sc.Bytes(), &r) != nil {
			continue // a torn last line of a dying child
		}
		out = append(out, r)
	}
	return out, sc.Err()
}

// lastProgress returns the last (index, variant) logged before a call ("r ..." lines mark returns).
func lastProgress(path string) (int, int, bool) {
	b, err := os.ReadFile(path)
	if err != nil {
		return 0, 0, false
	}
	ls := strings.Split(strings.TrimSpace(string(b)), "\n")
	for k := len(ls) - 1; k >= 0; k-- {
		if ls[k] == "" || strings.HasPrefix(ls[k], "r") {
			continue
		}
		var i, v int
		if _, err := fmt.Sscanf(ls[k], "%d %d", &i, &v); err != nil {
			return 0, 0, false
		}
		return i, v, true
	}
	return 0, 0, false
}

// Finding is a violation of the property derived from a Result.
type Finding struct {
	Class   string
	Summary string
	Replay  map[string]any
}

// Judge turns a result into a finding (or nil): a panic, a process death, more than AllocLimit bytes
// allocated by one call on an input of at most MaxInput bytes, or a call that does not return
// (outcome "hang": HangCPU of CPU time consumed inside the one call, twice, the second time alone
// in a fresh child). decoder names the code under test (sql, iceberg, pitr, ...), fn the entry point.
func Judge(decoder, fn string, res Result, in *Input) *Finding {
	switch res.Outcome {
	case "panic", "death", "overalloc", "hang":
	default:
		return nil
	}
	where := "unknown site"
	if res.Site != nil {
		where = fmt.Sprintf("%s (%s:%d) `%s`", res.Site.Func, strings.TrimPrefix(res.Site.File, repoRoot()), res.Site.Line, res.Site.Text)
	}
	rp := map[string]any{"target": decoder, "entry_point": fn, "variant": res.Variant, "outcome": res.Outcome, "message": res.Msg, "alloc_bytes": res.Alloc, "site": res.Site, "input_label": in.Label, "input_len": len(in.Data), "input_index": res.Idx}
	if len(in.Data) <= 4096 || res.Outcome == "hang" {
		rp["input_bytes"] = in.Data
		if len(in.Aux) > 0 && len(in.Aux) <= 1024 {
			rp["aux_bytes"] = in.Aux
		}
	}
	if res.Outcome == "hang" {
		// the class names the decoder and its entry point only: where a spinning goroutine happens to be
		// when it is sampled differs from run to run, so the sampled frame is given as information
		rp["cpu_ms_in_call_when_killed"] = res.CPUMs
		rp["sampled_frame_when_killed"] = res.Site
		return &Finding{Class: "decoder_does_not_return:" + decoder + "." + fn,
			Summary: fmt.Sprintf("%s %s does not return on a %d-byte input [%s]: %s; goroutine sampled at %s", decoder, fn, len(in.Data), in.Label, res.Msg, where), Replay: rp}
	}
	cls := decoder + "." + SiteClass(res.Site)
	what := map[string]string{"panic": "panics", "death": "kills the process", "overalloc": fmt.Sprintf("allocates %d MiB in one call", res.Alloc>>20)}[res.Outcome]
	return &Finding{Class: cls, Summary: fmt.Sprintf("%s %s on a %d-byte input [%s] at %s: %s", decoder, what, len(in.Data), in.Label, where, res.Msg), Replay: rp}
}

// Reporter is the part of *verifkit.Run the driver needs (the kit's import path differs per module).
type Reporter interface {
	Violation(class, summary string, replay any)
	Count(name string, n int64)
	Case(sig string, nontrivial bool)
	Inconclusive(reason string)
	Sample(v any)
}

// Drive runs one target over one container in the crashbox and reports every call as a case
// and every panic / death / over-allocation as a violation classed by decoder and site.
func Drive(r Reporter, cfg Config, class string, nontrivial func(*Input) bool) error {
	results, st, err := Run(cfg)
	if err != nil {
		return err
	}
	r.Count(cfg.Target+"_children", int64(st.Children))
	r.Count(cfg.Target+"_child_deaths", int64(st.Deaths))
	r.Count(cfg.Target+"_child_deaths_not_reproduced_alone", int64(st.FlakyDeaths))
	r.Count(cfg.Target+"_hang_candidates", int64(st.HangCandidates))
	r.Count(cfg.Target+"_hangs_confirmed_alone", int64(st.Hangs))
	if st.Timeouts > 0 {
		r.Inconclusive(fmt.Sprintf("%s: %d crashbox children hit the %s wall-clock watchdog without one call having consumed %s of CPU time", cfg.Target, st.Timeouts, cfg.Timeout, cfg.hangCPU()))
	}
	if st.HangsNotReproduced > 0 {
		r.Inconclusive(fmt.Sprintf("%s: %d calls consumed %s of CPU time without returning in a child running a batch of inputs, but not when re-run alone in a fresh child; not attributed", cfg.Target, st.HangsNotReproduced, cfg.hangCPU()))
	}
	if st.HangsOverBudget > 0 {
		r.Inconclusive(fmt.Sprintf("%s: a call consumed %s of CPU time without returning after the leg's hang investigations were used up; killed, not confirmed, not attributed", cfg.Target, cfg.hangCPU()))
	}
	if st.Unattributed > 0 {
		r.Inconclusive(fmt.Sprintf("%s: %d inputs killed the child twice without a frame of the code under test in the crash dump (see scratch dir); not attributed", cfg.Target, st.Unattributed))
	}
	if st.Skipped > 0 {
		r.Inconclusive(fmt.Sprintf("%s: %d inputs not run after %d child deaths, %d watchdog firings, %d confirmed hangs", cfg.Target, st.Skipped, st.Deaths, st.Timeouts, st.Hangs))
	}
	n, _ := Count(cfg.Corpus)
	if cfg.Limit > 0 && n > cfg.Limit {
		n = cfg.Limit
	}
	const chunk = 2000
	ri := 0
	sampled := 0
	var maxOK uint64
	for from := 0; from < n; from += chunk {
		ins, err := Read(cfg.Corpus, from, from+chunk)
		if err != nil {
			return err
		}
		for ; ri < len(results) && results[ri].Idx < from+len(ins); ri++ {
			res := results[ri]
			in := &ins[res.Idx-from]
			nt := nontrivial == nil || nontrivial(in)
			r.Case(fmt.Sprintf("%s/%d/%d/%s", cfg.Target, res.Idx, res.Variant, in.Label), nt)
			r.Count(cfg.Target+"_calls", 1)
			r.Count(cfg.Target+"_outcome_"+res.Outcome, 1)
			if res.Items > 0 {
				r.Count(cfg.Target+"_calls_returning_items", 1)
			}
			if (res.Outcome == "ok" || res.Outcome == "err") && res.Alloc > maxOK {
				maxOK = res.Alloc
			}
			if f := Judge(class, cfg.Target, res, in); f != nil {
				r.Violation(f.Class, f.Summary, f.Replay)
			} else if sampled < 2 && nt {
				sampled++
				r.Sample(map[string]any{"target": cfg.Target, "input_label": in.Label, "input_len": len(in.Data), "outcome": res.Outcome, "items": res.Items, "error": res.Err, "alloc_bytes": res.Alloc})
			}
		}
	}
	r.Count(cfg.Target+"_max_alloc_bytes_of_a_passing_call", int64(maxOK))
	return nil
}
