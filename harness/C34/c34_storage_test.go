//go:build verif

package storage

import (
	"context"
	"encoding/binary"
	"math"
	"path/filepath"
	"testing"
	"time"

	"github.com/KafScale/platform/internal/verifc34"
	"github.com/KafScale/platform/internal/verifkit"
)

// c34Cutoff picks the restore time for a variant: +inf (whole-batch path), the first batch's
// own first timestamp and a little later (per-record scanning path: first <= T < max), -inf.
func c34Cutoff(seg []byte, variant int) int64 {
	first := int64(0)
	if len(seg) >= 32+35 {
		first = int64(binary.BigEndian.Uint64(seg[32+27 : 32+35]))
	}
	switch variant {
	case 0:
		return math.MaxInt64
	case 1:
		return first
	case 2:
		if first < math.MaxInt64-500 {
			return first + 500
		}
		return first
	default:
		return math.MinInt64
	}
}

func c34Targets() []verifc34.Target {
	return []verifc34.Target{
		{Name: "collectRecoverableBatches", Variants: 4, Fn: func(in *verifc34.Input, v int) (int, error) {
			bs, err := collectRecoverableBatches(in.Data, c34Cutoff(in.Data, v))
			return len(bs), err
		}},
		{Name: "buildRestorePlan", Variants: 1, Fn: func(in *verifc34.Input, v int) (int, error) {
			idx := in.Aux
			if idx == nil {
				idx = []byte("IDX\x00\x00\x01\x00\x00\x00\x00\x00\x00\x00\x64\x00\x00")
			}
			plan, err := buildRestorePlan(in.Data, idx, time.UnixMilli(c34Cutoff(in.Data, 1+v)), time.UnixMilli(1_700_000_000_000))
			if err != nil || plan == nil || !plan.keep {
				return 0, err
			}
			return 1, nil
		}},
		{Name: "RecoverTopicToTimestamp", Variants: 2, Fn: func(in *verifc34.Input, v int) (int, error) {
			s3 := NewMemoryS3Client()
			ctx := context.Background()
			_ = s3.UploadSegment(ctx, segmentObjectKey("default", "src", 0, 0), in.Data)
			if in.Aux != nil {
				_ = s3.UploadIndex(ctx, segmentIndexKey("default", "src", 0, 0), in.Aux)
			}
			T := c34Cutoff(in.Data, v*2) // +inf, first+500
			if T == 0 {
				T = 1
			}
			res, err := RecoverTopicToTimestamp(ctx, s3, TopicRecoveryConfig{SourceTopic: "src", TargetTopic: "dst", RestoreTo: time.UnixMilli(T)})
			if err != nil {
				return 0, err
			}
			return res.SegmentsCopied, nil
		}},
		{Name: "ParseIndex", Variants: 1, Fn: func(in *verifc34.Input, _ int) (int, error) {
			es, err := ParseIndex(in.Data)
			return len(es), err
		}},
	}
}

// TestVerifC34Child is the crashbox child entry point (a no-op unless spawned by the parent).
func TestVerifC34Child(t *testing.T) {
	if !verifc34.IsChild() {
		t.Skip("crashbox child only")
	}
	if err := verifc34.ChildMain(c34Targets()); err != nil {
		t.Fatalf("crashbox child: %v", err)
	}
}

func TestVerifC34Storage(t *testing.T) {
	r := verifkit.Start(t, "C34", "pitr")
	defer r.Finish("crashbox over the restore scanner in pkg/storage: collectRecoverableBatches(segment, T) with T in {+inf, first batch's first timestamp, that + 500 ms, -inf} (whole-batch path, per-record scanRecord path, nothing kept), buildRestorePlan(segment, index, T), the whole RecoverTopicToTimestamp over an S3 fake holding the hostile segment+index, and ParseIndex on the index container; same corpus, child-process containment, panic / death / > 64 MiB per call oracle and site classes as the processor legs; non-trivial = input passes size/magic/framing",
		"child address space capped at 4 GiB (RLIMIT_AS); race detector off in this leg for that reason")
	dir := verifc34.CorpusDir()
	work := filepath.Join(filepath.Dir(dir), "c34work-storage")
	base := verifc34.Config{Dir: work, ChildTest: "^TestVerifC34Child$", Batch: 4000, ASLimit: 4 << 30, Timeout: 10 * time.Minute, MaxDeaths: r.N(150, 1500)}
	reach := func(in *verifc34.Input) bool { return verifc34.ReachesBatchParser(in.Data) }
	for _, tg := range c34Targets()[:3] {
		c := base
		c.Corpus, c.Target, c.Variants = filepath.Join(dir, "segments"), tg.Name, tg.Variants
		if err := verifc34.Drive(r, c, "pitr", reach); err != nil {
			t.Fatalf("harness: %v", err)
		}
	}
	idx := base
	idx.Corpus, idx.Target = filepath.Join(dir, "indexes"), "ParseIndex"
	if err := verifc34.Drive(r, idx, "storage_index", func(in *verifc34.Input) bool { return len(in.Data) >= 16 && string(in.Data[:4]) == "IDX\x00" }); err != nil {
		t.Fatalf("harness: %v", err)
	}
	r.Floor("collectRecoverableBatches_calls", 3000)
	r.Floor("collectRecoverableBatches_calls_returning_items", 50)
	r.Floor("RecoverTopicToTimestamp_calls_returning_items", 20)
	r.Floor("ParseIndex_calls", 100)
}
