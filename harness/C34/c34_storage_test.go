//go:build verif

package storage

import (
	"context"
	"encoding/binary"
	"math"
	"path/filepath"
	"testing"
	"time"

	"github.com/KafScale/platform/internal/verifc34"
	"github.com/KafScale/platform/internal/verifkit"
)

// c34Cutoff picks the restore time for a variant: +inf (whole-batch path), the first batch's
// own first timestamp and a little later (per-record scanning path: first <= T < max), -inf.
func c34Cutoff(seg []byte, variant int) int64 {
	first := int64(0)
	if len(seg) >= 32+35 {
		first = int64(binary.BigEndian.Uint64(seg[32+27 : 32+35]))
	}
	switch variant {
	case 0:
		return math.MaxInt64
	case 1:
		return first
	case 2:
		if first < math.MaxInt64-500 {
			return first + 500
		}
		return first
	default:
		return math.MinInt64
	}
}

// c34ExactS3 is the in-memory S3 fake with downloads delivered the way a Content-Length sized
// read delivers them: a buffer with no spare capacity behind the object (MemoryS3Client itself
// returns append([]byte(nil), data...), whose capacity the allocator rounds up to a size class,
// so an over-read of the object lands in slack bytes instead of failing).
type c34ExactS3 struct{ *MemoryS3Client }

func (s c34ExactS3) DownloadSegment(ctx context.Context, key string, rng *ByteRange) ([]byte, error) {
	b, err := s.MemoryS3Client.DownloadSegment(ctx, key, rng)
	return verifc34.Exact(b), err
}

func (s c34ExactS3) DownloadIndex(ctx context.Context, key string) ([]byte, error) {
	b, err := s.MemoryS3Client.DownloadIndex(ctx, key)
	return verifc34.Exact(b), err
}

// c34S3 picks how the restore receives its bytes: 0 = the repo's fake as it is (size-class
// rounded copies), 1 = exact-capacity copies.
func c34S3(mode int) (S3Client, *MemoryS3Client) {
	m := NewMemoryS3Client()
	if mode == 1 {
		return c34ExactS3{m}, m
	}
	return m, m
}

var c34DefaultIndex = []byte("IDX\x00\x00\x01\x00\x00\x00\x00\x00\x00\x00\x64\x00\x00")

func c34Targets() []verifc34.Target {
	return []verifc34.Target{
		{Name: "collectRecoverableBatches", Variants: 4, Fn: func(in *verifc34.Input, v int) (int, error) {
			bs, err := collectRecoverableBatches(in.Data, c34Cutoff(in.Data, v))
			return len(bs), err
		}},
		// variants: 0..2 = the crashbox's exact-capacity bytes with T = first batch's first timestamp,
		// that + 500 ms, +inf; 3, 4 = T = +inf with segment and index fetched from the S3 fake the way
		// RecoverTopicToTimestamp fetches them (3: exact-capacity downloads, 4: the fake's own copies)
		{Name: "buildRestorePlan", Variants: 5, Fn: func(in *verifc34.Input, v int) (int, error) {
			seg, idx := in.Data, in.Aux
			if idx == nil {
				idx = verifc34.Exact(c34DefaultIndex)
			}
			cut := []int{1, 2, 0, 0, 0}[v]
			if v >= 3 {
				s3, mem := c34S3(4 - v)
				ctx := context.Background()
				sk, ik := segmentObjectKey("default", "src", 0, 0), segmentIndexKey("default", "src", 0, 0)
				_ = mem.UploadSegment(ctx, sk, seg)
				_ = mem.UploadIndex(ctx, ik, idx)
				var err error
				if seg, err = s3.DownloadSegment(ctx, sk, nil); err != nil {
					return 0, err
				}
				if idx, err = s3.DownloadIndex(ctx, ik); err != nil {
					return 0, err
				}
			}
			plan, err := buildRestorePlan(seg, idx, time.UnixMilli(c34Cutoff(in.Data, cut)), time.UnixMilli(1_700_000_000_000))
			if err != nil || plan == nil || !plan.keep {
				return 0, err
			}
			return 1, nil
		}},
		// variants: bit 0 = T (+inf, first + 500 ms), bit 1 = S3 delivery (the fake's own copies, exact-capacity copies)
		{Name: "RecoverTopicToTimestamp", Variants: 4, Fn: func(in *verifc34.Input, v int) (int, error) {
			s3, mem := c34S3(v >> 1)
			ctx := context.Background()
			_ = mem.UploadSegment(ctx, segmentObjectKey("default", "src", 0, 0), in.Data)
			if in.Aux != nil {
				_ = mem.UploadIndex(ctx, segmentIndexKey("default", "src", 0, 0), in.Aux)
			}
			T := c34Cutoff(in.Data, (v&1)*2) // +inf, first+500
			if T == 0 {
				T = 1
			}
			res, err := RecoverTopicToTimestamp(ctx, s3, TopicRecoveryConfig{SourceTopic: "src", TargetTopic: "dst", RestoreTo: time.UnixMilli(T)})
			if err != nil {
				return 0, err
			}
			return res.SegmentsCopied, nil
		}},
		{Name: "ParseIndex", Variants: 1, Fn: func(in *verifc34.Input, _ int) (int, error) {
			es, err := ParseIndex(in.Data)
			return len(es), err
		}},
	}
}

// TestVerifC34Child is the crashbox child entry point (a no-op unless spawned by the parent).
func TestVerifC34Child(t *testing.T) {
	if !verifc34.IsChild() {
		t.Skip("crashbox child only")
	}
	if err := verifc34.ChildMain(c34Targets()); err != nil {
		t.Fatalf("crashbox child: %v", err)
	}
}

func TestVerifC34Storage(t *testing.T) {
	r := verifkit.Start(t, "C34", "pitr")
	defer r.Finish("crashbox over the restore scanner in pkg/storage: collectRecoverableBatches(segment, T) with T in {+inf, first batch's first timestamp, that + 500 ms, -inf} (whole-batch path, per-record scanRecord path, nothing kept), buildRestorePlan(segment, index, T) with T in {first, first + 500 ms, +inf} on the crashbox's exact-capacity bytes and with T = +inf on bytes downloaded from the in-memory S3 fake (once delivering exact-capacity copies like a Content-Length sized read, once its own size-class rounded copies), the whole RecoverTopicToTimestamp (T in {+inf, first + 500 ms}) over the S3 fake holding the hostile segment+index in both delivery modes, and ParseIndex on the index container; every input is handed over as a fresh slice whose capacity equals its length, so a read past the end of the object (e.g. a header peek on a runt frame at the end of the body) is a panic rather than a read of slack bytes; same corpus (incl. the attribute sweep whose batches span first .. first + 1000 ms so that both cut-offs fall inside them), child-process containment, panic / death / > 64 MiB per call / does-not-return oracle and site classes as the processor legs; non-trivial = input passes size/magic/framing. The child also logs the return of every call; the parent polls which call is open and the child's consumed CPU time (utime+stime from /proc/<pid>/stat): a call that stays open while the child burns 20 s of CPU time (inputs are <= 64 KiB) is a hang candidate: the child is killed, the input is re-run alone in a fresh child under the same CPU-time rule (with a SIGQUIT goroutine dump for information), and only if it again burns 20 s of CPU without returning is it a violation, class decoder_does_not_return:<decoder>.<entry point>, with the input bytes as replay; the remaining inputs continue in a new child; at most 3 hang investigations per leg, a further candidate is killed, reported inconclusive and ends the target. Elapsed time decides nothing: a child that stalls without consuming CPU only trips the 10-minute wall-clock watchdog (inconclusive; at most 2 per target).",
		"'returns records or an error' is read operationally as: one call on an input of at most 64 KiB consumes less than 20 s of CPU time (returning calls take micro- to milliseconds); decided on the child's CPU time, never on elapsed time, and only when reproduced alone in a fresh child",
		"child address space capped at 4 GiB (RLIMIT_AS); race detector off in this leg for that reason")
	dir := verifc34.CorpusDir()
	work := filepath.Join(filepath.Dir(dir), "c34work-storage")
	base := verifc34.Config{Dir: work, ChildTest: "^TestVerifC34Child$", Batch: 4000, ASLimit: 4 << 30, Timeout: 10 * time.Minute, MaxDeaths: r.N(150, 1500)}
	hangBudget := verifc34.DefaultHangBudget // hang investigations (kill + confirm alone) for the whole leg
	base.HangBudget = &hangBudget
	reach := func(in *verifc34.Input) bool { return verifc34.ReachesBatchParser(in.Data) }
	for _, tg := range c34Targets()[:3] {
		c := base
		c.Corpus, c.Target, c.Variants = filepath.Join(dir, "segments"), tg.Name, tg.Variants
		if err := verifc34.Drive(r, c, "pitr", reach); err != nil {
			t.Fatalf("harness: %v", err)
		}
	}
	idx := base
	idx.Corpus, idx.Target = filepath.Join(dir, "indexes"), "ParseIndex"
	if err := verifc34.Drive(r, idx, "storage_index", func(in *verifc34.Input) bool { return len(in.Data) >= 16 && string(in.Data[:4]) == "IDX\x00" }); err != nil {
		t.Fatalf("harness: %v", err)
	}
	r.Floor("collectRecoverableBatches_calls", 3000)
	r.Floor("collectRecoverableBatches_calls_returning_items", 50)
	r.Floor("RecoverTopicToTimestamp_calls_returning_items", 20)
	r.Floor("ParseIndex_calls", 100)
}
