//go:build verif

package broker

import (
	"fmt"
	"testing"

	"github.com/KafScale/platform/internal/verifkit"
)

// Bounded-exhaustive leg: every sequence of a fixed length of joins, a leave,
// expiries and commits/heartbeats/syncs sent with the member's current identity
// or with the FIRST (member id, generation) it was ever told.
func TestVerifC13Enum(t *testing.T) {
	r := verifkit.Start(t, "C13", "enum")
	gSeedSalt = r.Seed
	sub := []string{"ta"}
	spec := gEnumSpec{
		Cfg: gConfig{Topics: map[string]int{"ta": 2}, Universe: []string{"ta"}, M: 2,
			SessionMs: []int64{10000, 10000}, RebalMs: []int64{3000, 3000}, CleanupMs: 1000},
		Alphabet: []gOp{
			{K: "join", Slot: 0, Sub: sub}, {K: "join", Slot: 1, Sub: sub},
			{K: "leave", Slot: 0},
			{K: "advance", DtMs: 4000}, {K: "advance", DtMs: 11000},
			{K: "commit", Slot: 0, Topic: "ta", Part: 0},
			{K: "commit", Slot: 0, Topic: "ta", Part: 0, Ident: "stale", Pick: 0},
			{K: "commit", Slot: 1, Topic: "ta", Part: 0, Ident: "stale", Pick: 0},
			{K: "hb", Slot: 0, Ident: "stale", Pick: 0},
			{K: "sync", Slot: 0, Ident: "stale", Pick: 0},
		},
		Names: []string{"J0", "J1", "L0", "+4s", "+11s", "C0", "C0first", "C1first", "H0first", "S0first"},
		Depth: r.N(3, 5),
		Preambles: map[string][]gOp{
			"empty":   nil,
			"stable2": {{K: "join", Slot: 0, Sub: sub}, {K: "join", Slot: 1, Sub: sub}, {K: "settle"}},
			// member 0 formed the group alone and was expired (group record deleted); member 1 then re-created it
			"reborn": {{K: "join", Slot: 0, Sub: sub}, {K: "settle"}, {K: "advance", DtMs: 11000}, {K: "join", Slot: 1, Sub: sub}, {K: "settle"}},
		},
		DepthFor: map[string]int{"reborn": r.N(2, 4)},
	}
	defer r.Finish(fmt.Sprintf("bounded-exhaustive: ALL %d sequences of length %d (hence every shorter one as a prefix) over the alphabet %v, started from the empty group and from a settled Stable group of 2 members, plus all sequences of length %d started from a group that member 0 had formed alone, was expired from (group record deleted) and that member 1 then re-created (member 0 still remembers its old id and generation), are run on the real coordinator on virtual time and judged by the C13 observer of leg 'group' ('first' = the request carries the first (member id, generation) pair that member was ever told, which is stale as soon as the group has moved on; the observer also tracks membership per client, see leg 'group'). non-trivial = sequence in which a formerly valid identity was rejected and a current member's commit was accepted", spec.total(), spec.Depth, spec.Names, spec.depth("reborn")))
	var cur *c13Obs
	gEnumerate(t, spec, func(seq string) []gObserver {
		cur = &c13Obs{r: r, model: map[c13Key]int64{{"ta", 0}: 0}, removedBy: map[string]string{}}
		return []gObserver{cur.observe, func(w *gWorld, ev *gEvent) { r.Seen("group_states", w.stateSig(ev.After)) }}
	}, func(seq string, w *gWorld) {
		if w.blocked {
			r.Inconclusive("sequence " + seq + ": a coordinator call never returned")
		}
		r.Case(seq, cur.staleFormer > 0 && cur.acceptedCurrent > 0)
		r.Count("stale_requests_rejected", int64(cur.staleRejected))
		r.Count("current_commits_accepted", int64(cur.acceptedCurrent))
		if cur.staleFormer > 0 && cur.acceptedCurrent > 0 {
			r.Sample(map[string]any{"sequence": seq, "run": gWitness(w, -1, nil)})
		}
	})
	r.Exhaustive(true)
	r.Note("sequences", spec.total())
	r.Floor("stale_requests_rejected", 500)
	r.Floor("stale_requests_from_formerly_valid_identity_rejected", int64(r.N(50, 500)))
}
