//go:build verif

package broker

import (
	"fmt"
	"math/rand"
	"testing"

	"github.com/KafScale/platform/internal/verifkit"
)

type c13Key struct {
	T string
	P int32
}

type c13Obs struct {
	r       *verifkit.Run
	flagged bool

	lastGen    int32 // highest generation reported by a join reply in this incarnation of the group
	haveGen    bool
	failedOver bool
	model      map[c13Key]int64  // topic/partition -> offset of the last commit answered 0
	removedBy  map[string]string // member id -> "expiry" | "leave" (how it stopped being a member)

	// identity by ACTOR (client slot), not by the strings it presents: live[slot][id] = the membership this
	// client obtained under member id `id` (a join reply handed it that id and the stored group listed it) is
	// still going: it has not left (leave answered 0) and the id has been in the stored group at every
	// observation since. Once ended it stays ended until the client joins again and is handed that id.
	live map[int]map[string]bool
	// overlapped pair in progress: bookkeeping as it was when the pair started (a request of the pair is
	// judged by what held when it was sent, the other request may have changed it since)
	pair       int
	liveAtPair map[int]map[string]bool
	pairGen    int32
	pairHave   bool

	staleRejected, staleFormer, acceptedCurrent, staleFromExpired, staleCommits, departedAfterRebirth int
}

func (o *c13Obs) violate(w *gWorld, ev *gEvent, class, summary string, extra map[string]any) {
	if o.flagged {
		return
	}
	o.flagged = true
	if o.failedOver {
		class = "after_failover:" + class
	}
	o.r.Violation(class, summary, gWitness(w, ev.I, extra))
}

func (o *c13Obs) everTold(w *gWorld, id string, gen int32) bool {
	for _, s := range w.slots {
		for _, h := range s.Hist {
			if h.ID == id && h.Gen == gen {
				return true
			}
		}
	}
	return false
}

// ownID: was this client itself ever handed member id `id` by a join reply?
func c13OwnID(w *gWorld, slot int, id string) bool {
	if slot < 0 || slot >= len(w.slots) || id == "" {
		return false
	}
	for _, h := range w.slots[slot].Hist {
		if h.ID == id {
			return true
		}
	}
	return false
}

func c13CopyLive(m map[int]map[string]bool) map[int]map[string]bool {
	out := map[int]map[string]bool{}
	for s, ids := range m {
		out[s] = map[string]bool{}
		for id, v := range ids {
			out[s][id] = v
		}
	}
	return out
}

func (o *c13Obs) observe(w *gWorld, ev *gEvent) {
	b, a := ev.Before, ev.After
	if o.live == nil {
		o.live = map[int]map[string]bool{}
	}
	if ev.K == "failover" {
		o.failedOver = true
	}
	live := o.live
	if ev.overlapped() {
		if ev.Pair != o.pair {
			o.pair, o.liveAtPair, o.pairGen, o.pairHave = ev.Pair, c13CopyLive(o.live), o.lastGen, o.haveGen
		}
		live = o.liveAtPair
	}
	absentSeen := false
	for _, c := range ev.afters() {
		if !c.Exists {
			absentSeen = true
		}
	}
	// how did members disappear (bookkeeping only, for coverage)
	for id := range b.Members {
		if !a.has(id) {
			if ev.K == "leave" && ev.ReqID == id {
				o.removedBy[id] = "leave"
			} else {
				o.removedBy[id] = "expiry"
			}
		}
	}
	defer func() {
		// actor bookkeeping, applied after the event was judged
		switch ev.K {
		case "join":
			if ev.MemberID != "" && (ev.Code == 0 || ev.Code == 27) && a.has(ev.MemberID) {
				if o.live[ev.Slot] == nil {
					o.live[ev.Slot] = map[string]bool{}
				}
				o.live[ev.Slot][ev.MemberID] = true
			}
		case "leave":
			if ev.Code == 0 && o.live[ev.Slot] != nil {
				o.live[ev.Slot][ev.ReqID] = false
			}
		}
		for _, ids := range o.live {
			for id, v := range ids {
				if v && !a.has(id) {
					ids[id] = false
				}
			}
		}
		if !a.Exists || (ev.overlapped() && absentSeen) {
			// the group is gone (or was gone at some instant of an overlapped pair): a later incarnation may start over
			o.haveGen = false
		}
	}()
	switch ev.K {
	case "join":
		if ev.Code >= 0 {
			o.r.Count("generations_reported", 1)
			have, floor := o.haveGen, o.lastGen
			if ev.overlapped() {
				// two requests in flight: their replies may arrive in either order; each is compared with what
				// had been reported before the pair started
				have, floor = o.pairHave && !absentSeen, o.pairGen
			}
			if have && ev.Gen < floor {
				o.violate(w, ev, "generation_decreased", fmt.Sprintf("join reply reports generation %d after the same group reported %d", ev.Gen, floor), nil)
			}
			if !o.haveGen || ev.Gen > o.lastGen {
				o.lastGen, o.haveGen = ev.Gen, true
			}
		}
	case "hb", "sync", "commit":
		if ev.Code < 0 {
			return
		}
		// by the stored record: overlapped requests are "current" if they were in ANY snapshot of the pair
		current := false
		for _, c := range ev.befores() {
			if c.Exists && c.has(ev.ReqID) && c.Gen == ev.ReqGen {
				current = true
			}
		}
		// by actor: the client presents a member id it was once handed itself, but that membership has ended
		// and it has not joined again since. Whoever holds that id string now, this client is not a member.
		departed := c13OwnID(w, ev.Slot, ev.ReqID) && !live[ev.Slot][ev.ReqID]
		if current && !departed {
			if ev.K == "commit" && ev.Code == 0 {
				o.model[c13Key{ev.Topic, ev.Part}] = ev.Offset
				o.acceptedCurrent++
			}
			if ev.Code == 0 {
				o.r.Count("current_member_requests_accepted", 1)
			}
			break
		}
		reason := "stale_generation"
		if !b.Exists {
			reason = "no_such_group"
		} else if !b.has(ev.ReqID) {
			reason = "unknown_member"
		}
		if current && departed {
			reason = "former_member_whose_id_was_handed_out_again"
		}
		o.r.Count("stale_"+ev.K+"_"+reason, 1)
		former := o.everTold(w, ev.ReqID, ev.ReqGen)
		if ev.Code == 0 {
			if current && departed {
				o.violate(w, ev, fmt.Sprintf("%s_accepted_%s", ev.K, reason),
					fmt.Sprintf("%s from client %d with (%q, generation %d) answered 0: that client's membership under this id ended (it left, or the id was observed absent from the stored group) and it has not joined since; the id is now held by another client. group record before the request: generation=%d members=%v", ev.K, ev.Slot, ev.ReqID, ev.ReqGen, b.Gen, b.memberIDs()), nil)
				return
			}
			o.violate(w, ev, fmt.Sprintf("%s_accepted_%s", ev.K, reason),
				fmt.Sprintf("%s from (%q, generation %d) answered 0; group record before the request: exists=%v generation=%d members=%v", ev.K, ev.ReqID, ev.ReqGen, b.Exists, b.Gen, b.memberIDs()), nil)
			return
		}
		o.staleRejected++
		if former {
			o.staleFormer++
			o.r.Count("stale_requests_from_formerly_valid_identity_rejected", 1)
		}
		if departed && b.Exists {
			o.departedAfterRebirth++
			o.r.Count("requests_by_departed_client_with_own_old_identity_while_group_exists_rejected", 1)
		}
		if ev.K == "commit" {
			o.staleCommits++
			if o.removedBy[ev.ReqID] == "expiry" && former {
				o.staleFromExpired++
				o.r.Count("stale_commit_from_expired_member_rejected", 1)
			}
			if ev.CommitCalls != 0 {
				o.violate(w, ev, "rejected_commit_wrote_offset", fmt.Sprintf("commit from (%q, %d) answered %d but the coordinator called CommitConsumerOffset %d times", ev.ReqID, ev.ReqGen, ev.Code, ev.CommitCalls), nil)
				return
			}
			if ev.overlapped() {
				break // the other request of the pair may be an accepted commit: the read-back is left to later requests
			}
			// read back: neither the target nor any offset ever accepted moved
			for k, want := range o.model {
				if got := w.storedOffset(k.T, k.P); got != want {
					o.violate(w, ev, "rejected_commit_changed_offset", fmt.Sprintf("%s/%d reads %d after a rejected commit to %s/%d, last accepted commit was %d", k.T, k.P, got, ev.Topic, ev.Part, want), nil)
					return
				}
			}
		}
	}
}

// c13GenRebirth: the group dies and is born again. Clients of a first incarnation all leave or fall silent
// until the coordinator has removed the last of them (the group record is deleted); OTHER clients then form
// the group anew; the departed ones come back with what they remember (their member id and every generation
// they were told) and send heartbeats, syncs and commits; some of them then join properly and act again.
func c13GenRebirth(rng *rand.Rand, p gProfile, group string) (gConfig, []gOp) {
	cfg := gGenConfig(rng, p, group)
	cfg.M = 2 + rng.Intn(3)
	for len(cfg.SessionMs) < cfg.M {
		cfg.SessionMs = append(cfg.SessionMs, p.Sessions[rng.Intn(len(p.Sessions))])
		cfg.RebalMs = append(cfg.RebalMs, cfg.RebalMs[0])
	}
	cfg.SessionMs, cfg.RebalMs = cfg.SessionMs[:cfg.M], cfg.RebalMs[:cfg.M]
	maxS := int64(0)
	for _, s := range cfg.SessionMs {
		if s > maxS {
			maxS = s
		}
	}
	var ops []gOp
	commit := func(slot int, ident string) gOp {
		return gOp{K: "commit", Slot: slot, Topic: cfg.Universe[rng.Intn(len(cfg.Universe))], Part: int32(rng.Intn(5)), Ident: ident, Pick: rng.Intn(64)}
	}
	k := 1 + rng.Intn(cfg.M-1) // clients 0..k-1 form the first incarnation
	for i := 0; i < k; i++ {
		ops = append(ops, gOp{K: "join", Slot: i, Sub: gRandSub(rng, cfg.Universe)})
	}
	if rng.Intn(4) != 0 {
		ops = append(ops, gOp{K: "settle"})
		for i := 0; i < k; i++ {
			if rng.Intn(2) == 0 {
				ops = append(ops, commit(i, ""))
			}
		}
	}
	if rng.Intn(3) == 0 { // a few more generations before the end
		ops = append(ops, gOp{K: "join", Slot: rng.Intn(k), Sub: gRandSub(rng, cfg.Universe)}, gOp{K: "settle"})
	}
	mode := rng.Intn(3) // 0 everybody leaves, 1 everybody falls silent, 2 mixed
	for i := 0; i < k; i++ {
		if mode == 0 || (mode == 2 && rng.Intn(2) == 0) {
			ops = append(ops, gOp{K: "leave", Slot: i})
		}
	}
	if mode != 0 || rng.Intn(2) == 0 {
		ops = append(ops, gOp{K: "advance", DtMs: maxS + 2*cfg.CleanupMs + rng.Int63n(2000)})
	}
	nNew := 1 + rng.Intn(cfg.M-k)
	for j := k; j < k+nNew; j++ {
		ops = append(ops, gOp{K: "join", Slot: j, Sub: gRandSub(rng, cfg.Universe)})
	}
	if rng.Intn(5) != 0 {
		ops = append(ops, gOp{K: "settle"})
	}
	for j := k; j < k+nNew; j++ {
		if rng.Intn(2) == 0 {
			ops = append(ops, commit(j, ""))
		}
	}
	for i := 0; i < k; i++ {
		for n := 1 + rng.Intn(3); n > 0; n-- {
			ident := []string{"", "stale", "stale"}[rng.Intn(3)]
			switch rng.Intn(3) {
			case 0:
				ops = append(ops, gOp{K: "hb", Slot: i, Ident: ident, Pick: rng.Intn(64)})
			case 1:
				ops = append(ops, gOp{K: "sync", Slot: i, Ident: ident, Pick: rng.Intn(64)})
			default:
				ops = append(ops, commit(i, ident))
			}
		}
	}
	if rng.Intn(2) == 0 { // a departed client joins properly and acts again
		i := rng.Intn(k)
		ops = append(ops, gOp{K: "join", Slot: i}, gOp{K: "settle"}, commit(i, ""), gOp{K: "hb", Slot: i})
	}
	sp := p
	sp.MinOps, sp.MaxOps = 0, 8
	ops = append(ops, gGenOps(rng, sp, cfg)...)
	return cfg, ops
}

func TestVerifC13(t *testing.T) {
	r := verifkit.Start(t, "C13", "group")
	gSeedSalt = r.Seed
	defer r.Finish("real GroupCoordinator over the real InMemoryStore behind a recording store decorator, on synctest virtual time; PRNG op lists with hostile identities: heartbeat/sync/commit are sent with the member's own (id, generation), with any pair it was told earlier (before a rebalance, before it left, before it was expired), with another member's id, an invented id, an empty id, generation+-1. A request is 'not of the current generation' iff, in the group record stored before it, the group is absent, the id is not a member or the generation differs. Such a request must get a non-zero code; a commit among them must cause zero CommitConsumerOffset calls and the target offset must read back as the last commit answered 0 (every commit carries a unique offset). Generations in JoinGroup replies never decrease between two observations of the group being absent. Membership is also tracked per CLIENT (actor), whatever strings it presents: a client whose membership under a member id ended (its LeaveGroup was answered 0, or that id was observed absent from the stored group / the group record was deleted) and that has not joined again and been handed that id since is not a member; a heartbeat/sync/commit it sends with that id must be rejected even if the stored group lists the same id string again (for another client). A third of the single-group cases are teardown/rebirth scenarios: all clients of a first incarnation leave or fall silent until the group record is deleted, OTHER clients re-create the group, settle and commit, then the departed clients send heartbeats/syncs/commits with their last and with every earlier (id, generation), and some of them join properly and act again. A low-weight failover op is included; violations seen only after a failover get the class prefix after_failover:. non-trivial = case where a formerly valid identity was rejected and a current member's commit was accepted",
		"group record in the store (written by the coordinator on every change) is the ground truth for 'current generation'", "a request by a listed member that carries the current generation but has not re-joined it yet is not judged (the statement does not say)")
	p := gDefaultProfile
	p.PStale = 0.45
	p.WCommit = 22
	p.WHB = 10
	p.WSync = 14
	p.WFailover = 2
	p.WLeave = 6
	n := r.N(600, 25000)
	seen := func(w *gWorld, ev *gEvent) { r.Seen("group_states", w.stateSig(ev.After)) }
	mk := func(w *gWorld) *c13Obs {
		o := &c13Obs{r: r, model: map[c13Key]int64{}, removedBy: map[string]string{}}
		// baseline of every offset a case can touch, read before the first request
		for _, tp := range w.cfg.Universe {
			for pt := int32(0); pt < 5; pt++ {
				o.model[c13Key{tp, pt}] = w.storedOffset(tp, pt)
			}
		}
		return o
	}
	account := func(ci int, w *gWorld, o *c13Obs) {
		if w.blocked {
			r.Inconclusive(fmt.Sprintf("case %d: a coordinator call never returned", ci))
		}
		r.Case(gOpsSig(w), o.staleFormer > 0 && o.acceptedCurrent > 0)
		r.Count("steps", int64(len(w.log)))
		r.Count("stale_requests_rejected", int64(o.staleRejected))
		r.Count("stale_commits_checked_against_store", int64(o.staleCommits))
		r.Count("current_commits_accepted", int64(o.acceptedCurrent))
		if ci < 2 {
			r.Sample(gWitness(w, -1, nil))
		}
	}
	for ci := 0; ci < n; ci++ {
		rng := r.Rand(ci)
		if ci%3 == 2 { // two groups served by one coordinator, interleaved (no failover in this mode)
			cfgs, ops := gGenPair(rng, p, fmt.Sprintf("g%d", ci))
			var os [2]*c13Obs
			ws := gRunPair(t, cfgs, ops, int64(ci)*100000, func(i int, w *gWorld) {
				os[i] = mk(w)
				w.obs = append(w.obs, os[i].observe, seen)
			})
			account(ci, ws[0], os[0])
			account(ci, ws[1], os[1])
			r.Count("cases_with_two_groups_on_one_coordinator", 1)
			continue
		}
		var cfg gConfig
		var ops []gOp
		if ci%3 == 1 { // the group dies, other clients re-create it, the departed come back with their old identities
			cfg, ops = c13GenRebirth(rng, p, fmt.Sprintf("g%d", ci))
			r.Count("cases_group_torn_down_and_recreated", 1)
		} else {
			cfg = gGenConfig(rng, p, fmt.Sprintf("g%d", ci))
			ops = gGenOps(rng, p, cfg)
		}
		var o *c13Obs
		w := gRunCase(t, cfg, ops, int64(ci)*100000, func(w *gWorld) {
			o = mk(w)
			w.obs = append(w.obs, o.observe, seen)
		})
		account(ci, w, o)
	}
	r.Floor("requests_by_departed_client_with_own_old_identity_while_group_exists_rejected", 100)
	r.Floor("stale_requests_rejected", 1000)
	r.Floor("stale_requests_from_formerly_valid_identity_rejected", 150)
	r.Floor("stale_commit_from_expired_member_rejected", 10)
	r.Floor("current_commits_accepted", 200)
	r.Floor("group_states", 12)
	r.Exhaustive(false) // a sample of histories; the bounded-exhaustive part is leg enum
}

// Overlap leg: two requests in flight. See harness/_shared/group/overlap_test.go.
func TestVerifC13Overlap(t *testing.T) {
	r := verifkit.Start(t, "C13", "overlap")
	gSeedSalt = r.Seed
	gRealTimerStart()
	defer r.Finish("real GroupCoordinator over the real InMemoryStore behind the recording store decorator, synctest virtual time, TWO requests in flight: PRNG scenarios for 2-4 clients in which the group is brought into some phase and then a pair (A,B) of requests by different clients is overlapped: the decorator parks one store call of A (CommitConsumerOffset of a commit, PutConsumerGroup of a heartbeat / join / sync / leave, Metadata of the leader's sync, FetchConsumerGroup; before or after the real store executed it), B (leave, new member, re-join, time advance that expires sessions = a rebalance; or heartbeat / sync / commit with own, stale, foreign or invented identity) is sent while A is parked, then A is released; settle rounds and ordinary requests with hostile identities follow. If the coordinator holds a lock across A's store call (TryLock probe of its mutex fields) B is simply sent after A and everything is judged as in leg 'group'. Otherwise both replies are judged after both have arrived: a heartbeat/sync/commit of the pair counts as 'of the current generation' if the stored group listed its (id, generation) in ANY boundary snapshot taken while A was in flight (it was current when it was checked; a rebalance that overtakes it does not make the reply wrong), and must be rejected, with zero CommitConsumerOffset calls attributable to it (calls are attributed by the unique offset each commit carries), if it was in none, or if the sending client's membership under that id had ended before the pair started. Generations in the two join replies of a pair are each compared with what had been reported before the pair. The offset read-back after a rejected commit is done at sequential requests only. non-trivial = case in which B ran inside A's store call, a stale identity was rejected and a current member's commit was accepted",
		"group record in the store (written by the coordinator on every change) is the ground truth for 'current generation'", "a request by a listed member that carries the current generation but has not re-joined it yet is not judged (the statement does not say)", "the real-time bound under which B is awaited while A is parked is a scheduling aid: if it expires nothing is judged and the case is cut")
	p := gDefaultOvlProfile
	p.PStale = 0.35
	p.WA = map[string]int{"syncleader": 2, "sync": 2, "join": 3, "joinresub": 1, "joinfresh": 1, "hb": 4, "commit": 10, "leave": 1}
	p.WB = map[string]int{"leave": 5, "joinfresh": 3, "joinresub": 2, "join": 1, "hb": 2, "commit": 4, "sync": 2, "expire": 3}
	n := r.N(500, 8000)
	for ci := 0; ci < n; ci++ {
		rng := r.Rand(ci)
		cfg, ops := gGenOverlapCase(rng, p, fmt.Sprintf("o%d", ci))
		var o *c13Obs
		w := gRunCase(t, cfg, ops, int64(ci)*100000, func(w *gWorld) {
			o = &c13Obs{r: r, model: map[c13Key]int64{}, removedBy: map[string]string{}}
			for _, tp := range w.cfg.Universe {
				for pt := int32(0); pt < 5; pt++ {
					o.model[c13Key{tp, pt}] = w.storedOffset(tp, pt)
				}
			}
			w.obs = append(w.obs, o.observe, func(w *gWorld, ev *gEvent) { r.Seen("group_states", w.stateSig(ev.After)) })
		})
		if w.blocked {
			r.Inconclusive(fmt.Sprintf("case %d: a coordinator call never returned", ci))
		}
		r.Case(gOpsSig(w), w.ovl.Inside > 0 && o.staleRejected > 0 && o.acceptedCurrent > 0)
		r.Count("steps", int64(len(w.log)))
		r.Count("stale_requests_rejected", int64(o.staleRejected))
		r.Count("stale_commits_checked_against_store", int64(o.staleCommits))
		r.Count("current_commits_accepted", int64(o.acceptedCurrent))
		for _, e := range w.log {
			if e.Ovl == "A" && e.K == "commit" && e.Code == 0 && !gTruthEqual(e.Cands[0], e.Cands[len(e.Cands)-1]) {
				r.Count("accepted_commits_overtaken_by_a_group_change_while_in_the_store_call", 1)
			}
		}
		gOvlAccount(w, r.Count, r.Seen)
		if ci < 2 {
			r.Sample(gWitness(w, -1, nil))
		}
	}
	r.Floor("stale_requests_rejected", 300)
	r.Floor("current_commits_accepted", 200)
	r.Floor("overlap_a_parked", int64(r.N(200, 3000)))
	r.Floor("overlap_b_ran_inside_a_store_call", int64(r.N(50, 800))) // CommitConsumerOffset is called without the coordinator's lock
	r.Floor("accepted_commits_overtaken_by_a_group_change_while_in_the_store_call", 10)
	r.Exhaustive(false)
}
