//go:build verif

package broker

import (
	"fmt"
	"testing"

	"github.com/KafScale/platform/internal/verifkit"
)

type c13Key struct {
	T string
	P int32
}

type c13Obs struct {
	r       *verifkit.Run
	flagged bool

	lastGen    int32 // highest generation reported by a join reply in this incarnation of the group
	haveGen    bool
	failedOver bool
	model      map[c13Key]int64  // topic/partition -> offset of the last commit answered 0
	removedBy  map[string]string // member id -> "expiry" | "leave" (how it stopped being a member)

	staleRejected, staleFormer, acceptedCurrent, staleFromExpired, staleCommits int
}

func (o *c13Obs) violate(w *gWorld, ev *gEvent, class, summary string, extra map[string]any) {
	if o.flagged {
		return
	}
	o.flagged = true
	if o.failedOver {
		class = "after_failover:" + class
	}
	o.r.Violation(class, summary, gWitness(w, ev.I, extra))
}

func (o *c13Obs) everTold(w *gWorld, id string, gen int32) bool {
	for _, s := range w.slots {
		for _, h := range s.Hist {
			if h.ID == id && h.Gen == gen {
				return true
			}
		}
	}
	return false
}

func (o *c13Obs) observe(w *gWorld, ev *gEvent) {
	b, a := ev.Before, ev.After
	if ev.K == "failover" {
		o.failedOver = true
	}
	// how did members disappear (bookkeeping only, for coverage)
	for id := range b.Members {
		if !a.has(id) {
			if ev.K == "leave" && ev.ReqID == id {
				o.removedBy[id] = "leave"
			} else {
				o.removedBy[id] = "expiry"
			}
		}
	}
	switch ev.K {
	case "join":
		if ev.Code >= 0 {
			o.r.Count("generations_reported", 1)
			if o.haveGen && ev.Gen < o.lastGen {
				o.violate(w, ev, "generation_decreased", fmt.Sprintf("join reply reports generation %d after the same group reported %d", ev.Gen, o.lastGen), nil)
			}
			if !o.haveGen || ev.Gen > o.lastGen {
				o.lastGen, o.haveGen = ev.Gen, true
			}
		}
	case "hb", "sync", "commit":
		if ev.Code < 0 {
			return
		}
		current := b.Exists && b.has(ev.ReqID) && b.Gen == ev.ReqGen
		if current {
			if ev.K == "commit" && ev.Code == 0 {
				o.model[c13Key{ev.Topic, ev.Part}] = ev.Offset
				o.acceptedCurrent++
			}
			if ev.Code == 0 {
				o.r.Count("current_member_requests_accepted", 1)
			}
			break
		}
		reason := "stale_generation"
		if !b.Exists {
			reason = "no_such_group"
		} else if !b.has(ev.ReqID) {
			reason = "unknown_member"
		}
		o.r.Count("stale_"+ev.K+"_"+reason, 1)
		former := o.everTold(w, ev.ReqID, ev.ReqGen)
		if ev.Code == 0 {
			o.violate(w, ev, fmt.Sprintf("%s_accepted_%s", ev.K, reason),
				fmt.Sprintf("%s from (%q, generation %d) answered 0; group record before the request: exists=%v generation=%d members=%v", ev.K, ev.ReqID, ev.ReqGen, b.Exists, b.Gen, b.memberIDs()), nil)
			return
		}
		o.staleRejected++
		if former {
			o.staleFormer++
			o.r.Count("stale_requests_from_formerly_valid_identity_rejected", 1)
		}
		if ev.K == "commit" {
			o.staleCommits++
			if o.removedBy[ev.ReqID] == "expiry" && former {
				o.staleFromExpired++
				o.r.Count("stale_commit_from_expired_member_rejected", 1)
			}
			if ev.CommitCalls != 0 {
				o.violate(w, ev, "rejected_commit_wrote_offset", fmt.Sprintf("commit from (%q, %d) answered %d but the coordinator called CommitConsumerOffset %d times", ev.ReqID, ev.ReqGen, ev.Code, ev.CommitCalls), nil)
				return
			}
			// read back: neither the target nor any offset ever accepted moved
			for k, want := range o.model {
				if got := w.storedOffset(k.T, k.P); got != want {
					o.violate(w, ev, "rejected_commit_changed_offset", fmt.Sprintf("%s/%d reads %d after a rejected commit to %s/%d, last accepted commit was %d", k.T, k.P, got, ev.Topic, ev.Part, want), nil)
					return
				}
			}
		}
	}
	if !a.Exists {
		// the group is gone: a later incarnation may start over
		o.haveGen = false
	}
}

func TestVerifC13(t *testing.T) {
	r := verifkit.Start(t, "C13", "group")
	gSeedSalt = r.Seed
	defer r.Finish("real GroupCoordinator over the real InMemoryStore behind a recording store decorator, on synctest virtual time; PRNG op lists with hostile identities: heartbeat/sync/commit are sent with the member's own (id, generation), with any pair it was told earlier (before a rebalance, before it left, before it was expired), with another member's id, an invented id, an empty id, generation+-1. A request is 'not of the current generation' iff, in the group record stored before it, the group is absent, the id is not a member or the generation differs. Such a request must get a non-zero code; a commit among them must cause zero CommitConsumerOffset calls and the target offset must read back as the last commit answered 0 (every commit carries a unique offset). Generations in JoinGroup replies never decrease between two observations of the group being absent. A low-weight failover op is included; violations seen only after a failover get the class prefix after_failover:. non-trivial = case where a formerly valid identity was rejected and a current member's commit was accepted",
		"group record in the store (written by the coordinator on every change) is the ground truth for 'current generation'", "a request by a listed member that carries the current generation but has not re-joined it yet is not judged (the statement does not say)")
	p := gDefaultProfile
	p.PStale = 0.45
	p.WCommit = 22
	p.WHB = 10
	p.WSync = 14
	p.WFailover = 2
	p.WLeave = 6
	n := r.N(600, 25000)
	seen := func(w *gWorld, ev *gEvent) { r.Seen("group_states", w.stateSig(ev.After)) }
	mk := func(w *gWorld) *c13Obs {
		o := &c13Obs{r: r, model: map[c13Key]int64{}, removedBy: map[string]string{}}
		// baseline of every offset a case can touch, read before the first request
		for _, tp := range w.cfg.Universe {
			for pt := int32(0); pt < 5; pt++ {
				o.model[c13Key{tp, pt}] = w.storedOffset(tp, pt)
			}
		}
		return o
	}
	account := func(ci int, w *gWorld, o *c13Obs) {
		if w.blocked {
			r.Inconclusive(fmt.Sprintf("case %d: a coordinator call never returned", ci))
		}
		r.Case(gOpsSig(w), o.staleFormer > 0 && o.acceptedCurrent > 0)
		r.Count("steps", int64(len(w.log)))
		r.Count("stale_requests_rejected", int64(o.staleRejected))
		r.Count("stale_commits_checked_against_store", int64(o.staleCommits))
		r.Count("current_commits_accepted", int64(o.acceptedCurrent))
		if ci < 2 {
			r.Sample(gWitness(w, -1, nil))
		}
	}
	for ci := 0; ci < n; ci++ {
		rng := r.Rand(ci)
		if ci%3 == 2 { // two groups served by one coordinator, interleaved (no failover in this mode)
			cfgs, ops := gGenPair(rng, p, fmt.Sprintf("g%d", ci))
			var os [2]*c13Obs
			ws := gRunPair(t, cfgs, ops, int64(ci)*100000, func(i int, w *gWorld) {
				os[i] = mk(w)
				w.obs = append(w.obs, os[i].observe, seen)
			})
			account(ci, ws[0], os[0])
			account(ci, ws[1], os[1])
			r.Count("cases_with_two_groups_on_one_coordinator", 1)
			continue
		}
		cfg := gGenConfig(rng, p, fmt.Sprintf("g%d", ci))
		ops := gGenOps(rng, p, cfg)
		var o *c13Obs
		w := gRunCase(t, cfg, ops, int64(ci)*100000, func(w *gWorld) {
			o = mk(w)
			w.obs = append(w.obs, o.observe, seen)
		})
		account(ci, w, o)
	}
	r.Floor("stale_requests_rejected", 1000)
	r.Floor("stale_requests_from_formerly_valid_identity_rejected", 150)
	r.Floor("stale_commit_from_expired_member_rejected", 10)
	r.Floor("current_commits_accepted", 200)
	r.Floor("group_states", 12)
	r.Exhaustive(false) // a sample of histories; the bounded-exhaustive part is leg enum
}
