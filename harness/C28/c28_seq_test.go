//go:build verif

package main

// C28, legs "mutations" and "concurrent".
//
// The "metadata" leg gives every proxy a store that never changes and talks to
// it from one goroutine. A proxy lives long: the cluster metadata behind it
// changes between requests (topics deleted, re-created under a new id, renamed,
// grown, errored, healed), its own background refresh runs at arbitrary points,
// and many client connections are served at once. These two legs generate that:
//
//   mutations:  one proxy + one store per case; a generated sequence of store
//               mutations, cache refresh ticks and Metadata requests (by name /
//               by id / all, ids and names of topics that existed earlier
//               included) over two connections; every reply is judged against
//               what the store answers NOW.
//   concurrent: one proxy + one store per round, many client goroutines with
//               one connection each and pairwise disjoint topic sets, all
//               requesting at once between barriers; the store is mutated only
//               at the barriers, so "what the store answers now" is well defined
//               for every reply.
//
// The oracle is the one of the "metadata" leg (c28JudgeMetadataReply).

import (
	"context"
	"encoding/hex"
	"fmt"
	"math/rand"
	"reflect"
	"runtime"
	"sort"
	"sync"
	"sync/atomic"
	"testing"

	"github.com/KafScale/platform/internal/verifkit"
	"github.com/KafScale/platform/pkg/metadata"
	"github.com/twmb/franz-go/pkg/kmsg"
)

// ---------------------------------------------------------------- store mutations

// c28World is the harness's knowledge of one store over time: what it holds
// now, and every topic name / id it ever held.
type c28World struct {
	store     *metadata.InMemoryStore
	cur       metadata.ClusterMetadata // the store's current full answer (deep copy)
	histNames []string
	histIDs   [][16]byte
	nameSeen  map[string]bool
	idSeen    map[[16]byte]bool
	// names / ids whose answer changed (or vanished, or appeared) by a mutation
	dirtyNames map[string]bool
	dirtyIDs   map[[16]byte]bool
	dirtyAll   bool // brokers / controller / whole snapshot changed
	// ids the proxy had the opportunity to learn while they were in the store
	shownIDs map[[16]byte]bool
	fresh    int
}

func c28NewWorld(snap metadata.ClusterMetadata) *c28World {
	w := &c28World{store: metadata.NewInMemoryStore(snap), nameSeen: map[string]bool{}, idSeen: map[[16]byte]bool{},
		dirtyNames: map[string]bool{}, dirtyIDs: map[[16]byte]bool{}, shownIDs: map[[16]byte]bool{}}
	w.sync(false)
	return w
}

func c28TopicFingerprint(t kmsg.MetadataResponseTopic) string {
	v := c28View(t, 12)
	return fmt.Sprintf("%s|%d|%v", v.key(), v.Err, v.Parts)
}

// sync re-reads the store and records history; with diff it marks what changed.
func (w *c28World) sync(diff bool) {
	all, err := w.store.Metadata(context.Background(), nil)
	if err != nil {
		panic(err)
	}
	if diff {
		oldByName := map[string]string{}
		oldByID := map[[16]byte]string{}
		for _, t := range w.cur.Topics {
			oldByName[*t.Topic] = c28TopicFingerprint(t)
			oldByID[t.TopicID] = c28TopicFingerprint(t)
		}
		newByName := map[string]string{}
		newByID := map[[16]byte]string{}
		for _, t := range all.Topics {
			newByName[*t.Topic] = c28TopicFingerprint(t)
			newByID[t.TopicID] = c28TopicFingerprint(t)
		}
		for n, f := range oldByName {
			if newByName[n] != f {
				w.dirtyNames[n] = true
			}
		}
		for n, f := range newByName {
			if oldByName[n] != f {
				w.dirtyNames[n] = true
			}
		}
		for id, f := range oldByID {
			if newByID[id] != f {
				w.dirtyIDs[id] = true
			}
		}
		for id, f := range newByID {
			if oldByID[id] != f {
				w.dirtyIDs[id] = true
			}
		}
		if !reflect.DeepEqual(w.cur.Brokers, all.Brokers) || w.cur.ControllerID != all.ControllerID {
			w.dirtyAll = true
		}
	}
	w.cur = *all
	for _, t := range all.Topics {
		if !w.nameSeen[*t.Topic] {
			w.nameSeen[*t.Topic] = true
			w.histNames = append(w.histNames, *t.Topic)
		}
		if !w.idSeen[t.TopicID] {
			w.idSeen[t.TopicID] = true
			w.histIDs = append(w.histIDs, t.TopicID)
		}
	}
}

// shown records that the proxy looked (or may have looked) at the store now.
func (w *c28World) shown() {
	for _, t := range w.cur.Topics {
		w.shownIDs[t.TopicID] = true
	}
}

func (w *c28World) hasName(n string) bool {
	for _, t := range w.cur.Topics {
		if *t.Topic == n {
			return true
		}
	}
	return false
}

func (w *c28World) hasID(id [16]byte) bool {
	for _, t := range w.cur.Topics {
		if t.TopicID == id {
			return true
		}
	}
	return false
}

func (w *c28World) brokerIDs() []int32 {
	var out []int32
	for _, b := range w.cur.Brokers {
		out = append(out, b.NodeID)
	}
	return out
}

// freeName returns a topic name the store does not hold: preferably one it held
// earlier (re-creation), else one from the pool, else a new one.
func (w *c28World) freeName(rng *rand.Rand, preferOld bool) string {
	var cands []string
	if preferOld {
		for _, n := range w.histNames {
			if !w.hasName(n) {
				cands = append(cands, n)
			}
		}
	}
	if len(cands) == 0 {
		for _, n := range c28Names {
			if !w.hasName(n) {
				cands = append(cands, n)
			}
		}
	}
	if len(cands) == 0 || rng.Intn(8) == 0 {
		w.fresh++
		return fmt.Sprintf("fresh-%d", w.fresh)
	}
	return cands[rng.Intn(len(cands))]
}

// c28CloneState deep-copies a cluster metadata value (harness side).
func c28CloneState(m metadata.ClusterMetadata) metadata.ClusterMetadata {
	out := m
	out.Brokers = append([]kmsg.MetadataResponseBroker(nil), m.Brokers...)
	out.Topics = make([]kmsg.MetadataResponseTopic, len(m.Topics))
	for i, t := range m.Topics {
		nt := t
		n := *t.Topic
		nt.Topic = &n
		nt.Partitions = make([]kmsg.MetadataResponseTopicPartition, len(t.Partitions))
		for j, p := range t.Partitions {
			np := p
			np.Replicas = append([]int32(nil), p.Replicas...)
			np.ISR = append([]int32(nil), p.ISR...)
			np.OfflineReplicas = append([]int32(nil), p.OfflineReplicas...)
			nt.Partitions[j] = np
		}
		out.Topics[i] = nt
	}
	return out
}

var c28MutationKinds = []string{
	"delete_api", "delete", "recreate_new_id", "change_id", "rename_keep_id", "grow_api", "grow", "shrink",
	"topic_error", "partition_change", "add_api", "add", "swap_ids", "brokers", "new_snapshot",
}

// mutate applies one generated change to the store and returns its description.
// Whatever the store makes of it (its own mutators may refuse), the harness
// re-reads the store afterwards: the store's answer is the reference.
func (w *c28World) mutate(rng *rand.Rand) (string, string) {
	ctx := context.Background()
	kind := c28MutationKinds[rng.Intn(len(c28MutationKinds))]
	if len(w.cur.Topics) == 0 && kind != "new_snapshot" && kind != "brokers" && kind != "add_api" {
		kind = []string{"recreate_new_id", "add"}[rng.Intn(2)]
	}
	next := c28CloneState(w.cur)
	pick := func() int { return rng.Intn(len(next.Topics)) }
	bids := w.brokerIDs()
	pickNodes := func() []int32 {
		n := 1 + rng.Intn(len(bids))
		p := rng.Perm(len(bids))
		out := make([]int32, n)
		for i := range out {
			out[i] = bids[p[i]]
		}
		return out
	}
	desc := kind
	update := true
	switch kind {
	case "delete_api":
		n := *next.Topics[pick()].Topic
		err := w.store.DeleteTopic(ctx, n)
		desc = fmt.Sprintf("store.DeleteTopic(%q) -> %v", n, err)
		update = false
	case "delete":
		i := pick()
		desc = fmt.Sprintf("Update: topic %q removed", *next.Topics[i].Topic)
		next.Topics = append(next.Topics[:i], next.Topics[i+1:]...)
	case "recreate_new_id":
		n := w.freeName(rng, true)
		t := c28GenTopic(rng, n, bids)
		for t.TopicID == ([16]byte{}) || w.idSeen[t.TopicID] {
			rng.Read(t.TopicID[:])
		}
		if len(t.Partitions) == 0 {
			t.ErrorCode = 0
			t.Partitions = append(t.Partitions, c28GenPartition(rng, 0, bids, pickNodes))
		}
		desc = fmt.Sprintf("Update: topic %q (re-)created with new id %x, %d partitions", n, t.TopicID, len(t.Partitions))
		next.Topics = append(next.Topics, t)
	case "change_id":
		i := pick()
		var id [16]byte
		rng.Read(id[:])
		id[0] |= 1
		desc = fmt.Sprintf("Update: topic %q id %x -> %x", *next.Topics[i].Topic, next.Topics[i].TopicID, id)
		next.Topics[i].TopicID = id
	case "rename_keep_id":
		i := pick()
		n := w.freeName(rng, false)
		desc = fmt.Sprintf("Update: topic %q renamed to %q, id %x kept", *next.Topics[i].Topic, n, next.Topics[i].TopicID)
		next.Topics[i].Topic = kmsg.StringPtr(n)
	case "grow_api":
		i := pick()
		n := *next.Topics[i].Topic
		cnt := int32(len(next.Topics[i].Partitions) + 1 + rng.Intn(3))
		err := w.store.CreatePartitions(ctx, n, cnt)
		desc = fmt.Sprintf("store.CreatePartitions(%q, %d) -> %v", n, cnt, err)
		update = false
	case "grow":
		i := pick()
		maxp := int32(-1)
		for _, p := range next.Topics[i].Partitions {
			if p.Partition > maxp {
				maxp = p.Partition
			}
		}
		k := 1 + rng.Intn(3)
		for j := 0; j < k; j++ {
			mp := c28GenPartition(rng, 0, bids, pickNodes)
			maxp++
			mp.Partition = maxp
			next.Topics[i].Partitions = append(next.Topics[i].Partitions, mp)
		}
		desc = fmt.Sprintf("Update: topic %q grown by %d partitions to %d", *next.Topics[i].Topic, k, len(next.Topics[i].Partitions))
	case "shrink":
		i := pick()
		if l := len(next.Topics[i].Partitions); l > 0 {
			next.Topics[i].Partitions = next.Topics[i].Partitions[:rng.Intn(l)]
		}
		desc = fmt.Sprintf("Update: topic %q cut to %d partitions", *next.Topics[i].Topic, len(next.Topics[i].Partitions))
	case "topic_error":
		i := pick()
		old := next.Topics[i].ErrorCode
		if old != 0 && rng.Intn(2) == 0 {
			next.Topics[i].ErrorCode = 0
		} else {
			next.Topics[i].ErrorCode = c28TopicErrs[rng.Intn(len(c28TopicErrs))]
		}
		desc = fmt.Sprintf("Update: topic %q error code %d -> %d", *next.Topics[i].Topic, old, next.Topics[i].ErrorCode)
	case "partition_change":
		i := pick()
		if l := len(next.Topics[i].Partitions); l > 0 {
			j := rng.Intn(l)
			p := &next.Topics[i].Partitions[j]
			switch rng.Intn(3) {
			case 0:
				p.LeaderEpoch++
				p.Leader = bids[rng.Intn(len(bids))]
			case 1:
				if p.ErrorCode != 0 {
					p.ErrorCode = 0
				} else {
					p.ErrorCode = c28PartErrs[rng.Intn(len(c28PartErrs))]
				}
			default:
				p.LeaderEpoch = int32(rng.Intn(100000))
				p.Replicas = pickNodes()
				p.ISR = pickNodes()
			}
			desc = fmt.Sprintf("Update: topic %q partition %d now err=%d leader=%d epoch=%d", *next.Topics[i].Topic, p.Partition, p.ErrorCode, p.Leader, p.LeaderEpoch)
		} else {
			next.Topics[i].Partitions = append(next.Topics[i].Partitions, c28GenPartition(rng, 0, bids, pickNodes))
			desc = fmt.Sprintf("Update: topic %q gets its first partition", *next.Topics[i].Topic)
		}
	case "add_api":
		n := w.freeName(rng, rng.Intn(2) == 0)
		np := int32(1 + rng.Intn(4))
		update = false
		if w.hasID(metadata.TopicIDForName(n)) { // CreateTopic derives the id from the name; a renamed topic may still hold it
			desc = fmt.Sprintf("store.CreateTopic(%q) -- skipped: its name-derived id is held by another topic", n)
			break
		}
		_, err := w.store.CreateTopic(ctx, metadata.TopicSpec{Name: n, NumPartitions: np, ReplicationFactor: 1})
		desc = fmt.Sprintf("store.CreateTopic(%q, %d partitions) -> %v", n, np, err)
	case "add":
		n := w.freeName(rng, rng.Intn(2) == 0)
		t := c28GenTopic(rng, n, bids)
		for t.TopicID != ([16]byte{}) && w.hasID(t.TopicID) {
			rng.Read(t.TopicID[:])
		}
		desc = fmt.Sprintf("Update: topic %q added (id %x, err %d, %d partitions)", n, t.TopicID, t.ErrorCode, len(t.Partitions))
		next.Topics = append(next.Topics, t)
	case "swap_ids":
		if len(next.Topics) >= 2 {
			i := pick()
			j := pick()
			for j == i {
				j = pick()
			}
			next.Topics[i].TopicID, next.Topics[j].TopicID = next.Topics[j].TopicID, next.Topics[i].TopicID
			desc = fmt.Sprintf("Update: topics %q and %q exchange their ids", *next.Topics[i].Topic, *next.Topics[j].Topic)
		} else {
			i := pick()
			var id [16]byte
			rng.Read(id[:])
			id[0] |= 1
			next.Topics[i].TopicID = id
			desc = fmt.Sprintf("Update: topic %q id -> %x", *next.Topics[i].Topic, id)
		}
	case "brokers":
		fresh := c28GenSnapshot(rng)
		next.Brokers = fresh.Brokers
		next.ControllerID = fresh.ControllerID
		nb := w.brokerIDsOf(fresh)
		for i := range next.Topics {
			for j := range next.Topics[i].Partitions {
				p := &next.Topics[i].Partitions[j]
				p.Leader = nb[rng.Intn(len(nb))]
				p.Replicas = []int32{p.Leader}
				p.ISR = []int32{p.Leader}
				p.OfflineReplicas = nil
				p.LeaderEpoch++
			}
		}
		desc = fmt.Sprintf("Update: brokers replaced by %v, controller %d, every partition re-led with epoch+1", nb, next.ControllerID)
	case "new_snapshot":
		next = c28GenSnapshot(rng)
		desc = fmt.Sprintf("Update: whole snapshot replaced (%d topics)", len(next.Topics))
	}
	if update {
		if why := c28IllFormed(next); why != "" {
			return kind, desc + " -- skipped: " + why
		}
		w.store.Update(next)
	}
	w.sync(true)
	if why := c28IllFormed(w.cur); why != "" {
		panic("c28 harness: store state became ill-formed after " + desc + ": " + why)
	}
	return kind, desc
}

// c28IllFormed: a cluster metadata value in which two topics share a name or an
// (effective) id has no single answer to a by-name / by-id question; the
// generator never installs one.
func c28IllFormed(m metadata.ClusterMetadata) string {
	names := map[string]bool{}
	ids := map[[16]byte]bool{}
	for _, t := range m.Topics {
		id := t.TopicID
		if id == ([16]byte{}) {
			id = metadata.TopicIDForName(*t.Topic)
		}
		if names[*t.Topic] {
			return "two topics named " + *t.Topic
		}
		if ids[id] {
			return fmt.Sprintf("two topics with id %x", id)
		}
		names[*t.Topic] = true
		ids[id] = true
	}
	return ""
}

func (w *c28World) brokerIDsOf(m metadata.ClusterMetadata) []int32 {
	var out []int32
	for _, b := range m.Brokers {
		out = append(out, b.NodeID)
	}
	return out
}

// genRequest generates one Metadata request about the store as it is and as it was.
func (w *c28World) genRequest(rng *rand.Rand, metaMin, metaMax int16) *c28MetaReq {
	mr := &c28MetaReq{}
	if metaMax >= 10 && rng.Intn(10) < 6 {
		lo := metaMin
		if lo < 10 {
			lo = 10
		}
		mr.Version = lo + int16(rng.Intn(int(metaMax-lo)+1))
	} else {
		mr.Version = metaMin + int16(rng.Intn(int(metaMax-metaMin)+1))
	}
	k := rng.Intn(20)
	switch {
	case k < 3:
		mr.Kind = "all"
	case k < 9 || mr.Version < 10:
		mr.Kind = "names"
		for i, cnt := 0, rng.Intn(4); i <= cnt; i++ {
			switch x := rng.Intn(20); {
			case x < 12 && len(w.cur.Topics) > 0:
				mr.Names = append(mr.Names, *w.cur.Topics[rng.Intn(len(w.cur.Topics))].Topic)
			case x < 17 && len(w.histNames) > 0:
				mr.Names = append(mr.Names, w.histNames[rng.Intn(len(w.histNames))])
			default:
				mr.Names = append(mr.Names, fmt.Sprintf("ghost-%d", rng.Intn(5)))
			}
		}
	default:
		mr.Kind = "ids"
		for i, cnt := 0, rng.Intn(4); i <= cnt; i++ {
			var id [16]byte
			switch x := rng.Intn(20); {
			case x < 9 && len(w.cur.Topics) > 0:
				id = w.cur.Topics[rng.Intn(len(w.cur.Topics))].TopicID
			case x < 17 && len(w.histIDs) > 0:
				id = w.histIDs[rng.Intn(len(w.histIDs))]
			default:
				rng.Read(id[:])
				id[0] |= 1
			}
			dup := false
			for _, x := range mr.ids {
				if x == id {
					dup = true
				}
			}
			if dup || id == ([16]byte{}) {
				continue
			}
			mr.ids = append(mr.ids, id)
			mr.IDs = append(mr.IDs, hex.EncodeToString(id[:]))
		}
		if len(mr.ids) == 0 {
			var id [16]byte
			rng.Read(id[:])
			id[0] |= 1
			mr.ids = append(mr.ids, id)
			mr.IDs = append(mr.IDs, hex.EncodeToString(id[:]))
		}
	}
	return mr
}

// touchesDirty: does the request ask about something a mutation changed?
func (w *c28World) touchesDirty(mr *c28MetaReq) bool {
	if w.dirtyAll && len(w.cur.Topics) > 0 {
		return true
	}
	switch mr.Kind {
	case "all":
		return len(w.dirtyNames) > 0
	case "names":
		for _, n := range mr.Names {
			if w.dirtyNames[n] {
				return true
			}
		}
	case "ids":
		for _, id := range mr.ids {
			if w.dirtyIDs[id] {
				return true
			}
		}
	}
	return false
}

// c28Exchange sends one Metadata request on cc and judges the decoded reply
// against the store's current answer. It returns the findings and "" , or a
// non-empty abort reason ("watchdog: …" is inconclusive, everything else has
// been reported).
func c28Exchange(r *verifkit.Run, cc *c28Conn, store metadata.Store, mr *c28MetaReq, corr int32, px c28Proxy, replay map[string]any) (fs []c28Finding, expected []c28TopicView, abort string) {
	expected, unknownIDs, err := c28Expected(store, mr)
	if err != nil {
		return nil, nil, "watchdog: store: " + err.Error()
	}
	payload, st, err := cc.roundTrip(pwEncodeRequest(c28BuildMetaReq(mr), corr, "verif-c28"))
	if err != nil {
		return nil, expected, "watchdog: " + err.Error()
	}
	if st == "closed" {
		cls := "metadata_no_reply"
		if *cc.pan != "" {
			cls = "metadata_panic"
			replay["panic"] = *cc.pan
		}
		r.Violation(cls, fmt.Sprintf("ready proxy closed the connection on Metadata v%d %s", mr.Version, mr.Kind), replay)
		return nil, expected, "closed"
	}
	resp := kmsg.NewPtrMetadataResponse()
	resp.Version = mr.Version
	if _, derr := pwDecodeResponse(payload, resp); derr != nil {
		r.Violation("metadata_reply_undecodable", fmt.Sprintf("Metadata v%d reply does not decode: %v", mr.Version, derr), replay)
		return nil, expected, "undecodable"
	}
	fs, got := c28JudgeMetadataReply(resp, mr, expected, unknownIDs, px)
	replay["reply_topics"] = c28ViewsText(got)
	replay["store_answer"] = c28ViewsText(expected)
	return fs, expected, ""
}

func c28ViewsText(vs []c28TopicView) []string {
	out := make([]string, 0, len(vs))
	for _, v := range vs {
		out = append(out, fmt.Sprintf("%q id=%x err=%d parts=%v", v.Name, v.ID, v.Err, v.Parts))
	}
	if len(out) > 24 {
		out = append(out[:24], fmt.Sprintf("… %d more", len(out)-24))
	}
	return out
}

// ---------------------------------------------------------------- leg: mutations

const c28RuleMutations = "MUTATIONS: per case one ready proxy over one metadata.InMemoryStore that starts from a generated snapshot; a generated sequence of 10-18 steps on that one proxy instance: store mutations (topic deleted through DeleteTopic or Update, deleted/new name (re-)created under a never used id, id of a live topic changed, two topics exchanging ids, rename keeping the id, partition growth through CreatePartitions or Update, partitions cut, topic error code set/cleared, partition error / leader / epoch change, topic added through CreateTopic or Update, broker set + controller replaced, whole snapshot replaced), runs of the proxy's own metadata-cache refresh (what its 10 s ticker does) and Metadata requests all / by name / by topic id at v0..v12 over two client connections, where names and ids are drawn from the store's current topics, from every topic it held earlier in the case, and from unknown ones; each decoded reply is judged by the oracle of the metadata leg against what the store answers at that moment (no request is in flight while the store changes): only the proxy as broker/controller/leader/replica, topics + ids + error codes + partitions + leader epochs equal to the store's current answer, a requested id the store does not hold now = one errored partition-less entry carrying that id; non-trivial = at least one mutation and one earlier reply precede the request on this proxy and the request asks about a topic name / id whose answer a mutation changed"

func TestVerifC28Mutations(t *testing.T) {
	r := verifkit.Start(t, "C28", "mutations")
	defer r.Finish(c28RuleMutations,
		"the cluster metadata is what metadata.InMemoryStore.Metadata answers at the moment of the request; the harness is sequential in this leg, so that moment is unambiguous",
		"calling proxy.refreshMetadataCache between requests stands for the proxy's background ticker firing at that point",
		"for a requested topic id the store does not hold, the statement fixes no error code: any errored, partition-less entry carrying the requested id is accepted")
	metaMin, metaMax, ok := c28AdvertisedRange(3)
	if !ok {
		t.Fatalf("proxy does not advertise Metadata")
	}
	n := r.N(450, 15000)
	ctx := context.Background()
	for ci := 0; ci < n; ci++ {
		rng := r.Rand(ci)
		snap := c28GenSnapshot(rng)
		for len(snap.Topics) < 2 { // something to mutate
			snap = c28GenSnapshot(rng)
		}
		w := c28NewWorld(snap)
		px := c28Proxy{Host: []string{"proxy.example.com", "10.1.2.3", "p", "broker-1.cluster.local"}[rng.Intn(4)], Port: []int32{9092, 19092, 443, 9093}[rng.Intn(4)]}
		p := c28NewProxy(w.store, px, true)
		if rng.Intn(2) == 0 {
			p.refreshMetadataCache(ctx) // what initMetadataCache does at start-up
			w.shown()
		}
		conns := []*c28Conn{c28Open(p), c28Open(p)}
		var trace []string
		steps := 10 + rng.Intn(9)
		mutated, replied := 0, 0
		aborted := false
		for s := 0; s < steps && !aborted; s++ {
			x := rng.Intn(100)
			switch {
			case s > 0 && x < 35:
				kind, desc := w.mutate(rng)
				trace = append(trace, fmt.Sprintf("step %d: %s", s, desc))
				mutated++
				r.Count("mutations", 1)
				r.Seen("mutation_kinds", kind)
				r.Count("mut_"+kind, 1)
			case s > 0 && x < 42:
				p.refreshMetadataCache(ctx)
				w.shown()
				trace = append(trace, fmt.Sprintf("step %d: proxy metadata-cache refresh (ticker)", s))
				r.Count("cache_refresh_ticks", 1)
			default:
				mr := w.genRequest(rng, metaMin, metaMax)
				connIdx := rng.Intn(len(conns))
				trace = append(trace, fmt.Sprintf("step %d: conn %d Metadata v%d %s names=%q ids=%v", s, connIdx, mr.Version, mr.Kind, mr.Names, mr.IDs))
				replay := map[string]any{"case": ci, "proxy": px, "initial_snapshot": c28DescribeSnapshot(&snap),
					"steps": append([]string(nil), trace...), "store_now": c28DescribeSnapshot(&w.cur), "request": mr}
				// scenario bookkeeping before the exchange
				vanishedShown, currentID := false, false
				for _, id := range mr.ids {
					switch {
					case w.hasID(id):
						currentID = true
					case w.shownIDs[id]:
						vanishedShown = true
					}
				}
				nontrivial := mutated > 0 && replied > 0 && w.touchesDirty(mr)
				fs, expected, abort := c28Exchange(r, conns[connIdx], w.store, mr, int32(ci*64+s+1), px, replay)
				if abort != "" {
					if len(abort) >= 8 && abort[:8] == "watchdog" {
						r.Inconclusive(fmt.Sprintf("mutations case %d step %d: %s", ci, s, abort))
					}
					aborted = true
					break
				}
				w.shown()
				replied++
				seen := map[string]bool{}
				for _, f := range fs {
					if seen[f.Class] {
						continue
					}
					seen[f.Class] = true
					r.Violation(f.Class, fmt.Sprintf("after %d store mutation(s): Metadata v%d %s: %s", mutated, mr.Version, mr.Kind, f.Msg), replay)
				}
				r.Count("metadata_replies", 1)
				r.Count("metadata_"+mr.Kind, 1)
				if mutated > 0 {
					r.Count("replies_after_mutation", 1)
				}
				if nontrivial {
					r.Count("replies_about_changed_topics", 1)
					r.Count("replies_about_changed_topics_"+mr.Kind, 1)
				}
				if vanishedShown {
					r.Count("by_id_for_id_gone_from_store_after_proxy_saw_it", 1)
				}
				if currentID && mutated > 0 {
					r.Count("by_id_for_live_id_after_mutation", 1)
				}
				withParts := false
				for _, e := range expected {
					if len(e.Parts) > 0 {
						withParts = true
					}
				}
				if withParts && nontrivial {
					r.Count("replies_about_changed_topics_with_partitions", 1)
				}
				r.Seen("version_x_kind", fmt.Sprintf("v%d/%s", mr.Version, mr.Kind))
				r.Case(verifkit.Hash(c28DescribeSnapshot(&snap), trace, px), nontrivial)
				if ci < 2 && nontrivial {
					r.Sample(replay)
				}
			}
		}
		for _, cc := range conns {
			if !cc.close() {
				r.Inconclusive(fmt.Sprintf("mutations case %d: handleConnection did not return (watchdog)", ci))
			}
			if *cc.pan != "" && !aborted {
				r.Violation("metadata_panic", "handleConnection panicked: "+*cc.pan, map[string]any{"case": ci, "steps": trace})
			}
		}
	}
	r.Floor("replies_about_changed_topics", 300)
	r.Floor("replies_about_changed_topics_ids", 80)
	r.Floor("replies_about_changed_topics_names", 40)
	r.Floor("replies_about_changed_topics_all", 20)
	r.Floor("by_id_for_id_gone_from_store_after_proxy_saw_it", 60)
	r.Floor("by_id_for_live_id_after_mutation", 60)
	r.Floor("mutation_kinds", int64(len(c28MutationKinds)))
	r.Floor("cache_refresh_ticks", 30)
}

// ---------------------------------------------------------------- leg: concurrent

const c28RuleConcurrent = "CONCURRENT: per round one ready proxy over one metadata.InMemoryStore holding the topics of 3-6 client applications x 12-40 topics each (names and ids unique per application, 0-5 partitions with generated errors/epochs); every application has 3-6 connections, each a goroutine driving handleConnection over its own in-memory connection and asking only about random subsets of its application's topics (by name, by id — names and ids its topics had before a delete / re-creation / id change / rename included —, plus a few all-topics requests) at v0..v12; all 9-36 connections fire their pre-generated request lists at once from a barrier, 2-3 phases per round, and between phases (no request in flight) the store is mutated (topics deleted, re-created under new ids, id changed, grown, errored, epochs bumped, renamed) and sometimes the proxy's cache refresh is run; per phase the Go scheduler is perturbed by a PRNG-chosen GOMAXPROCS (1,2,3,4,8,all) and a loop of stop-the-world events (runtime.ReadMemStats) or forced GCs, which preempt handlers at arbitrary points; each decoded reply is judged by the oracle of the metadata leg against what the store answers for that request during that phase, so a reply carrying another request's topics, ids, partitions, error codes or epochs is a violation; the race detector is on (a report from non-harness code makes the run exit 3 when no violation was seen); non-trivial = the request selected a topic with partitions and at least one other connection's request was in flight between its send and its reply"

type c28Client struct {
	idx     int
	names   []string    // names this client owns (current + former)
	ids     [][16]byte  // ids this client owns (current + former)
	nameSet map[string]bool
}

func TestVerifC28Concurrent(t *testing.T) {
	r := verifkit.Start(t, "C28", "concurrent")
	defer r.Finish(c28RuleConcurrent,
		"the store is only mutated while no request is in flight, so every reply has exactly one reference answer (metadata.InMemoryStore.Metadata during that phase)",
		"for a requested topic id the store does not hold, any errored, partition-less entry carrying the requested id is accepted",
		"overlap is measured by the harness (another client between send and receive), not controlled: the interleavings inside the proxy are whatever the Go scheduler produces under -race")
	metaMin, metaMax, ok := c28AdvertisedRange(3)
	if !ok {
		t.Fatalf("proxy does not advertise Metadata")
	}
	rounds := r.N(4, 40)
	ctx := context.Background()
	defaultProcs := runtime.GOMAXPROCS(0)
	defer runtime.GOMAXPROCS(defaultProcs)
	for round := 0; round < rounds; round++ {
		rng := r.Rand(round)
		base := c28GenSnapshot(rng)
		base.Topics = nil
		bids := make([]int32, 0, len(base.Brokers))
		for _, b := range base.Brokers {
			bids = append(bids, b.NodeID)
		}
		nClients := 3 + rng.Intn(4)      // client applications = pairwise disjoint topic sets
		connsPerClient := 3 + rng.Intn(4) // connections (goroutines) per application
		perClient := 12 + rng.Intn(29)
		nConns := nClients * connsPerClient
		clients := make([]*c28Client, nClients)
		for c := range clients {
			cl := &c28Client{idx: c, nameSet: map[string]bool{}}
			for k := 0; k < perClient; k++ {
				name := fmt.Sprintf("c%02d-%s-%02d", c, []string{"orders", "événements", "t_1", "logs"}[rng.Intn(4)], k)
				tp := c28GenTopic(rng, name, bids)
				base.Topics = append(base.Topics, tp)
				cl.names = append(cl.names, name)
				cl.nameSet[name] = true
			}
			clients[c] = cl
		}
		rng.Shuffle(len(base.Topics), func(i, j int) { base.Topics[i], base.Topics[j] = base.Topics[j], base.Topics[i] })
		w := c28NewWorld(base)
		owner := func(name string) *c28Client {
			var c int
			if _, err := fmt.Sscanf(name, "c%02d-", &c); err != nil || c < 0 || c >= len(clients) {
				return nil
			}
			return clients[c]
		}
		recordIDs := func() {
			for _, tp := range w.cur.Topics {
				if cl := owner(*tp.Topic); cl != nil {
					known := false
					for _, id := range cl.ids {
						if id == tp.TopicID {
							known = true
						}
					}
					if !known {
						cl.ids = append(cl.ids, tp.TopicID)
					}
				}
			}
		}
		recordIDs()
		px := c28Proxy{Host: []string{"proxy.example.com", "10.1.2.3", "p"}[rng.Intn(3)], Port: []int32{9092, 19092, 443}[rng.Intn(3)]}
		p := c28NewProxy(w.store, px, true)
		if rng.Intn(2) == 0 {
			p.refreshMetadataCache(ctx)
		}
		conns := make([]*c28Conn, nConns)
		for c := range conns {
			conns[c] = c28Open(p)
		}
		phases := 2 + rng.Intn(2)
		perPhase := r.N(420, 900)/nConns + 1 // requests per connection and phase: about the same number of requests per phase whatever the fan-out
		var trace []string
		dead := make([]bool, nConns)
		for ph := 0; ph < phases; ph++ {
			if ph > 0 {
				// mutate some clients' topics while nothing is in flight
				nm := 3 + rng.Intn(12)
				for m := 0; m < nm; m++ {
					trace = append(trace, fmt.Sprintf("before phase %d: %s", ph, c28ConcMutate(rng, w, clients)))
					r.Count("mutations_between_phases", 1)
				}
				recordIDs()
				if rng.Intn(3) == 0 {
					p.refreshMetadataCache(ctx)
					trace = append(trace, fmt.Sprintf("before phase %d: proxy metadata-cache refresh", ph))
				}
			}
			// request lists are generated up front from the per-round PRNG: fixed case list
			lists := make([][]*c28MetaReq, nConns)
			for c := range lists {
				for q := 0; q < perPhase; q++ {
					lists[c] = append(lists[c], c28ConcRequest(rng, w, clients[c%nClients], metaMin, metaMax))
				}
			}
			var inflight, sends atomic.Int64
			start := make(chan struct{})
			var wg sync.WaitGroup
			// scheduling perturbation for this phase (never part of the oracle)
			perturb := []string{"none", "stw", "stw", "gc"}[rng.Intn(4)]
			procs := []int{4, 4, 4, 3, 2, 8, 1, 0}[rng.Intn(8)] // 0 = as many Ps as the box gives
			if procs > 0 {
				runtime.GOMAXPROCS(procs)
			} else {
				runtime.GOMAXPROCS(defaultProcs)
			}
			stopPerturb := c28Perturb(perturb, start)
			r.Count("phases_perturb_"+perturb, 1)
			r.Seen("perturbations", fmt.Sprintf("%s/procs=%d", perturb, procs))
			for c := range conns {
				if dead[c] {
					continue
				}
				wg.Add(1)
				go func(c int) {
					defer wg.Done()
					<-start
					for q, mr := range lists[c] {
						replay := map[string]any{"round": round, "phase": ph, "connection": c, "client": c % nClients, "request_no": q, "clients": nClients, "connections": nConns, "topics_per_client": perClient, "gomaxprocs": procs, "perturbation": perturb,
							"proxy": px, "between_phases": append([]string(nil), trace...), "request": mr}
						before := sends.Load()
						others := inflight.Add(1) - 1
						sends.Add(1)
						fs, expected, abort := c28Exchange(r, conns[c], w.store, mr, int32(round*1_000_000+ph*100_000+c*1000+q+1), px, replay)
						inflight.Add(-1)
						overlapped := others > 0 || sends.Load()-before > 1
						if abort != "" {
							if len(abort) >= 8 && abort[:8] == "watchdog" {
								r.Inconclusive(fmt.Sprintf("concurrent round %d phase %d connection %d: %s", round, ph, c, abort))
							}
							dead[c] = true
							return
						}
						seen := map[string]bool{}
						for _, f := range fs {
							if seen[f.Class] {
								continue
							}
							seen[f.Class] = true
							r.Violation(f.Class, fmt.Sprintf("%d connections of %d clients at once: client %d Metadata v%d %s: %s", nConns, nClients, c%nClients, mr.Version, mr.Kind, f.Msg), replay)
						}
						withParts := false
						for _, e := range expected {
							if len(e.Parts) > 0 {
								withParts = true
							}
						}
						r.Count("metadata_replies", 1)
						r.Count("metadata_"+mr.Kind, 1)
						if overlapped {
							r.Count("replies_overlapping_another_clients_request", 1)
						}
						if ph > 0 {
							r.Count("replies_after_mutation", 1)
						}
						r.Seen("version_x_kind", fmt.Sprintf("v%d/%s", mr.Version, mr.Kind))
						r.Case(verifkit.Hash(round, ph, c, q, mr.Version, mr.Kind, mr.Names, mr.IDs), withParts && overlapped)
						if round == 0 && ph == 1 && c == 0 && q < 2 {
							r.Sample(replay)
						}
					}
				}(c)
			}
			close(start)
			wg.Wait()
			stopPerturb()
		}
		for c, cc := range conns {
			if !cc.close() {
				r.Inconclusive(fmt.Sprintf("concurrent round %d: handleConnection of client %d did not return (watchdog)", round, c))
			}
			if *cc.pan != "" {
				r.Violation("metadata_panic", "handleConnection panicked: "+*cc.pan, map[string]any{"round": round, "client": c})
			}
		}
		r.Count("rounds", 1)
		r.Count("client_connections", int64(nConns))
	}
	r.Floor("metadata_replies", 3000)
	r.Floor("replies_overlapping_another_clients_request", 2000)
	r.Floor("metadata_ids", 300)
	r.Floor("metadata_names", 300)
	r.Floor("replies_after_mutation", 500)
}

// c28Perturb shakes the Go scheduler while a phase runs: "stw" stops and
// restarts the world in a loop (runtime.ReadMemStats), which preempts every
// running goroutine at an arbitrary point and resumes it on whatever P picks it
// up; "gc" does the same with full collections (which also age sync.Pools).
// Correct code cannot tell the difference; a window in which one request's
// reply is still referenced by state another request can reach becomes much
// more likely to be hit. The returned function stops the perturbation.
func c28Perturb(mode string, start <-chan struct{}) func() {
	if mode == "none" {
		return func() {}
	}
	stop := make(chan struct{})
	done := make(chan struct{})
	go func() {
		defer close(done)
		<-start
		var ms runtime.MemStats
		for i := 0; ; i++ {
			select {
			case <-stop:
				return
			default:
			}
			if mode == "gc" && i%8 == 0 {
				runtime.GC()
			} else {
				runtime.ReadMemStats(&ms)
			}
			runtime.Gosched()
		}
	}()
	return func() { close(stop); <-done }
}

// c28ConcMutate changes one topic of the store; names keep their owner prefix.
func c28ConcMutate(rng *rand.Rand, w *c28World, clients []*c28Client) string {
	next := c28CloneState(w.cur)
	bids := w.brokerIDs()
	pickNodes := func() []int32 { return []int32{bids[rng.Intn(len(bids))]} }
	desc := ""
	// a former name of some client that is not in the store now
	var gone []string
	for _, cl := range clients {
		for _, n := range cl.names {
			if !w.hasName(n) {
				gone = append(gone, n)
			}
		}
	}
	sort.Strings(gone)
	k := rng.Intn(7)
	if len(next.Topics) == 0 {
		k = 1
	}
	if k == 1 && len(gone) == 0 {
		k = 0
	}
	switch k {
	case 0: // delete
		i := rng.Intn(len(next.Topics))
		desc = fmt.Sprintf("topic %q (id %x) deleted", *next.Topics[i].Topic, next.Topics[i].TopicID)
		next.Topics = append(next.Topics[:i], next.Topics[i+1:]...)
	case 1: // re-create under a new id
		n := gone[rng.Intn(len(gone))]
		tp := c28GenTopic(rng, n, bids)
		for tp.TopicID == ([16]byte{}) || w.idSeen[tp.TopicID] {
			rng.Read(tp.TopicID[:])
		}
		desc = fmt.Sprintf("topic %q re-created with new id %x", n, tp.TopicID)
		next.Topics = append(next.Topics, tp)
	case 2: // id change
		i := rng.Intn(len(next.Topics))
		var id [16]byte
		rng.Read(id[:])
		id[0] |= 1
		desc = fmt.Sprintf("topic %q id %x -> %x", *next.Topics[i].Topic, next.Topics[i].TopicID, id)
		next.Topics[i].TopicID = id
	case 3: // growth
		i := rng.Intn(len(next.Topics))
		maxp := int32(-1)
		for _, p := range next.Topics[i].Partitions {
			if p.Partition > maxp {
				maxp = p.Partition
			}
		}
		mp := c28GenPartition(rng, 0, bids, pickNodes)
		mp.Partition = maxp + 1
		next.Topics[i].Partitions = append(next.Topics[i].Partitions, mp)
		desc = fmt.Sprintf("topic %q grown to %d partitions", *next.Topics[i].Topic, len(next.Topics[i].Partitions))
	case 4: // topic error
		i := rng.Intn(len(next.Topics))
		if next.Topics[i].ErrorCode != 0 {
			next.Topics[i].ErrorCode = 0
		} else {
			next.Topics[i].ErrorCode = c28TopicErrs[rng.Intn(len(c28TopicErrs))]
		}
		desc = fmt.Sprintf("topic %q error code -> %d", *next.Topics[i].Topic, next.Topics[i].ErrorCode)
	case 5: // epoch bumps
		i := rng.Intn(len(next.Topics))
		for j := range next.Topics[i].Partitions {
			next.Topics[i].Partitions[j].LeaderEpoch++
		}
		desc = fmt.Sprintf("topic %q every leader epoch +1", *next.Topics[i].Topic)
	default: // rename within the owner's name space, id kept
		i := rng.Intn(len(next.Topics))
		old := *next.Topics[i].Topic
		var c int
		fmt.Sscanf(old, "c%02d-", &c)
		n := fmt.Sprintf("c%02d-renamed-%d", c, len(clients[c].names))
		clients[c].names = append(clients[c].names, n)
		clients[c].nameSet[n] = true
		next.Topics[i].Topic = kmsg.StringPtr(n)
		desc = fmt.Sprintf("topic %q renamed to %q, id %x kept", old, n, next.Topics[i].TopicID)
	}
	if why := c28IllFormed(next); why != "" {
		return desc + " -- skipped: " + why
	}
	w.store.Update(next)
	w.sync(true)
	return desc
}

// c28ConcRequest: a request of client cl about its own topics only.
func c28ConcRequest(rng *rand.Rand, w *c28World, cl *c28Client, metaMin, metaMax int16) *c28MetaReq {
	mr := &c28MetaReq{}
	if metaMax >= 10 && rng.Intn(10) < 6 {
		lo := metaMin
		if lo < 10 {
			lo = 10
		}
		mr.Version = lo + int16(rng.Intn(int(metaMax-lo)+1))
	} else {
		mr.Version = metaMin + int16(rng.Intn(int(metaMax-metaMin)+1))
	}
	k := rng.Intn(40)
	switch {
	case k < 1:
		mr.Kind = "all"
	case k < 20 || mr.Version < 10 || len(cl.ids) == 0:
		mr.Kind = "names"
		cnt := 1 + rng.Intn(len(cl.names))
		if rng.Intn(3) > 0 {
			cnt = len(cl.names) - rng.Intn(3)
			if cnt < 1 {
				cnt = 1
			}
		}
		for _, i := range rng.Perm(len(cl.names))[:cnt] {
			mr.Names = append(mr.Names, cl.names[i])
		}
	default:
		mr.Kind = "ids"
		cnt := 1 + rng.Intn(len(cl.ids))
		if rng.Intn(3) > 0 {
			cnt = len(cl.ids) - rng.Intn(3)
			if cnt < 1 {
				cnt = 1
			}
		}
		for _, i := range rng.Perm(len(cl.ids))[:cnt] {
			mr.ids = append(mr.ids, cl.ids[i])
			mr.IDs = append(mr.IDs, hex.EncodeToString(cl.ids[i][:]))
		}
	}
	return mr
}
