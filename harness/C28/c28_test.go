//go:build verif

package main

// C28 — "Proxy metadata points clients at the proxy, topology intact".
//
// Workload: generated cluster metadata snapshots in a real metadata.InMemoryStore
// behind a real `proxy`, driven through handleConnection with Metadata requests
// (all topics / by name / by topic id) at every advertised version, FindCoordinator,
// and every kind of not-ready reply. Monitor: the decoded replies.

import (
	"context"
	"encoding/hex"
	"fmt"
	"math/rand"
	"net"
	"reflect"
	"sort"
	"testing"
	"time"

	"github.com/KafScale/platform/internal/verifkit"
	"github.com/KafScale/platform/pkg/metadata"
	"github.com/twmb/franz-go/pkg/kmsg"
)

const c28Watchdog = 600 * time.Second // generous: firing is "inconclusive", and the concurrent leg deliberately starves the scheduler on a box that may be loaded

type c28Proxy struct {
	Host string
	Port int32
}

// ---------------------------------------------------------------- snapshot generator

var c28Names = []string{"orders", "payments", "__consumer_offsets", "événements", "a.b", "t_1", "X", "logs-2026", "üñï", "z"}
var c28TopicErrs = []int16{3, 5, 17, 29, 39}
var c28PartErrs = []int16{5, 9, 6, 72}

func c28GenSnapshot(rng *rand.Rand) metadata.ClusterMetadata {
	var m metadata.ClusterMetadata
	nb := 1 + rng.Intn(4)
	ids := rng.Perm(7)
	var brokerIDs []int32
	for i := 0; i < nb; i++ {
		id := int32(ids[i]) // 0..6: a real broker may well have node id 0, like the proxy's advertised node
		brokerIDs = append(brokerIDs, id)
		b := kmsg.NewMetadataResponseBroker()
		b.NodeID = id
		b.Host = fmt.Sprintf("broker-%d.cluster.local", id)
		b.Port = 9092 + id
		if rng.Intn(2) == 0 {
			b.Rack = kmsg.StringPtr(fmt.Sprintf("rack-%d", rng.Intn(3)))
		}
		m.Brokers = append(m.Brokers, b)
	}
	m.ControllerID = brokerIDs[rng.Intn(nb)]
	if rng.Intn(3) > 0 {
		m.ClusterID = kmsg.StringPtr(fmt.Sprintf("cluster-%d", rng.Intn(1000)))
	}
	nt := rng.Intn(7)
	perm := rng.Perm(len(c28Names))
	for i := 0; i < nt; i++ {
		m.Topics = append(m.Topics, c28GenTopic(rng, c28Names[perm[i]], brokerIDs))
	}
	return m
}

// c28GenTopic generates one topic of a cluster metadata snapshot whose real
// brokers are brokerIDs.
func c28GenTopic(rng *rand.Rand, name string, brokerIDs []int32) kmsg.MetadataResponseTopic {
	nb := len(brokerIDs)
	pickNodes := func() []int32 {
		n := 1 + rng.Intn(nb)
		p := rng.Perm(nb)
		out := make([]int32, n)
		for i := range out {
			out[i] = brokerIDs[p[i]]
		}
		return out
	}
	t := kmsg.NewMetadataResponseTopic()
	t.Topic = kmsg.StringPtr(name)
	if rng.Intn(3) > 0 {
		rng.Read(t.TopicID[:])
	} // else zero: the store derives an id from the name
	t.IsInternal = rng.Intn(5) == 0
	errored := rng.Intn(100) < 25
	if errored {
		t.ErrorCode = c28TopicErrs[rng.Intn(len(c28TopicErrs))]
	}
	np := rng.Intn(6)
	if errored && rng.Intn(2) == 0 {
		np = 0
	}
	for p := 0; p < np; p++ {
		t.Partitions = append(t.Partitions, c28GenPartition(rng, int32(p), brokerIDs, pickNodes))
	}
	return t
}

func c28GenPartition(rng *rand.Rand, p int32, brokerIDs []int32, pickNodes func() []int32) kmsg.MetadataResponseTopicPartition {
	nb := len(brokerIDs)
	mp := kmsg.NewMetadataResponseTopicPartition()
	mp.Partition = p
	if rng.Intn(10) == 0 {
		mp.Partition = p*3 + 1 // sparse partition numbers
	}
	if rng.Intn(100) < 15 {
		mp.ErrorCode = c28PartErrs[rng.Intn(len(c28PartErrs))]
	}
	mp.Leader = brokerIDs[rng.Intn(nb)]
	if mp.ErrorCode != 0 && rng.Intn(2) == 0 {
		mp.Leader = -1
	}
	switch rng.Intn(4) {
	case 0:
		mp.LeaderEpoch = -1
	case 1:
		mp.LeaderEpoch = 0
	default:
		mp.LeaderEpoch = int32(rng.Intn(100000))
	}
	mp.Replicas = pickNodes()
	mp.ISR = pickNodes()
	if rng.Intn(4) == 0 {
		mp.OfflineReplicas = pickNodes()
	}
	return mp
}

func c28DescribeSnapshot(m *metadata.ClusterMetadata) map[string]any {
	var brokers []string
	for _, b := range m.Brokers {
		brokers = append(brokers, fmt.Sprintf("%d@%s:%d", b.NodeID, b.Host, b.Port))
	}
	var topics []any
	for _, t := range m.Topics {
		var parts []string
		for _, p := range t.Partitions {
			parts = append(parts, fmt.Sprintf("p%d err=%d leader=%d epoch=%d replicas=%v isr=%v offline=%v", p.Partition, p.ErrorCode, p.Leader, p.LeaderEpoch, p.Replicas, p.ISR, p.OfflineReplicas))
		}
		name := "<nil>"
		if t.Topic != nil {
			name = *t.Topic
		}
		topics = append(topics, map[string]any{"name": name, "id": hex.EncodeToString(t.TopicID[:]), "err": t.ErrorCode, "internal": t.IsInternal, "partitions": parts})
	}
	return map[string]any{"brokers": brokers, "controller": m.ControllerID, "topics": topics}
}

// ---------------------------------------------------------------- node-naming oracle (reflection over the decoded reply)

type c28Finding struct {
	Class string
	Msg   string
}

var c28NodeFields = map[string]bool{"NodeID": true, "ControllerID": true, "Leader": true, "LeaderID": true, "PreferredReadReplica": true}
var c28NodeLists = map[string]bool{"Replicas": true, "ISR": true, "OfflineReplicas": true}

// c28WalkNodes visits every field of a decoded kmsg response that names a
// cluster node: the proxy is node 0 at (host, port); -1 names nobody.
func c28WalkNodes(v reflect.Value, path string, px c28Proxy, out *[]c28Finding) {
	switch v.Kind() {
	case reflect.Ptr, reflect.Interface:
		if !v.IsNil() {
			c28WalkNodes(v.Elem(), path, px, out)
		}
	case reflect.Slice:
		if v.Type().Elem().Kind() == reflect.Struct {
			for i := 0; i < v.Len(); i++ {
				c28WalkNodes(v.Index(i), fmt.Sprintf("%s[%d]", path, i), px, out)
			}
		}
	case reflect.Struct:
		t := v.Type()
		if _, hasNode := t.FieldByName("NodeID"); hasNode {
			if _, hasHost := t.FieldByName("Host"); hasHost {
				if _, hasPort := t.FieldByName("Port"); hasPort {
					id := int32(v.FieldByName("NodeID").Int())
					host := v.FieldByName("Host").String()
					port := int32(v.FieldByName("Port").Int())
					switch {
					case id == 0 && (host != px.Host || port != px.Port):
						*out = append(*out, c28Finding{"node_endpoint_not_the_proxy", fmt.Sprintf("%s: node 0 advertised at %q:%d, the proxy is %q:%d", path, host, port, px.Host, px.Port)})
					case id == -1 && !((host == "" || host == px.Host) && (port == 0 || port == -1 || port == px.Port)):
						*out = append(*out, c28Finding{"node_endpoint_not_the_proxy", fmt.Sprintf("%s: node -1 carries endpoint %q:%d", path, host, port)})
					}
				}
			}
		}
		for i := 0; i < t.NumField(); i++ {
			f := t.Field(i)
			fv := v.Field(i)
			if !f.IsExported() {
				continue
			}
			fp := path + "." + f.Name
			switch {
			case c28NodeFields[f.Name] && fv.Kind() == reflect.Int32:
				if id := fv.Int(); id != 0 && id != -1 {
					*out = append(*out, c28Finding{"non_proxy_node_named", fmt.Sprintf("%s = %d (the proxy is node 0)", fp, id)})
				}
			case c28NodeLists[f.Name] && fv.Kind() == reflect.Slice && fv.Type().Elem().Kind() == reflect.Int32:
				for j := 0; j < fv.Len(); j++ {
					if id := fv.Index(j).Int(); id != 0 {
						*out = append(*out, c28Finding{"non_proxy_node_named", fmt.Sprintf("%s = %v (the proxy is node 0)", fp, fv.Interface())})
						break
					}
				}
			default:
				c28WalkNodes(fv, fp, px, out)
			}
		}
	}
}

// ---------------------------------------------------------------- topology oracle

type c28TopicView struct {
	Name  string // "" when null / absent
	ID    [16]byte
	Err   int16
	Parts []string // sorted "partition/err/epoch"
}

func c28View(t kmsg.MetadataResponseTopic, version int16) c28TopicView {
	v := c28TopicView{Err: t.ErrorCode}
	if t.Topic != nil {
		v.Name = *t.Topic
	}
	if version >= 10 {
		v.ID = t.TopicID
	}
	for _, p := range t.Partitions {
		epoch := int32(0)
		if version >= 7 {
			epoch = p.LeaderEpoch
		}
		v.Parts = append(v.Parts, fmt.Sprintf("%d/%d/%d", p.Partition, p.ErrorCode, epoch))
	}
	sort.Strings(v.Parts)
	return v
}

func (v c28TopicView) key() string { return fmt.Sprintf("%q|%x", v.Name, v.ID) }

// c28Topology compares the reply's topics with the cluster metadata's answer.
func c28Topology(expected, got []c28TopicView, unknownIDs map[[16]byte]bool, version int16) []c28Finding {
	var out []c28Finding
	exp := map[string][]c28TopicView{}
	for _, e := range expected {
		exp[e.key()] = append(exp[e.key()], e)
	}
	for _, g := range got {
		if version >= 10 && unknownIDs[g.ID] {
			// a requested id the cluster does not know: the statement fixes no error code, only that it is not presented as a healthy topic
			if g.Err == 0 || len(g.Parts) > 0 {
				out = append(out, c28Finding{"unknown_topic_id_answered_as_topic", fmt.Sprintf("requested unknown topic id %x answered with err=%d and %d partitions", g.ID, g.Err, len(g.Parts))})
			}
			if unknownIDs[g.ID] {
				delete(unknownIDs, g.ID)
			}
			continue
		}
		k := g.key()
		cands := exp[k]
		if len(cands) == 0 {
			// same name, other id? same id, other name?
			cls := "topic_set_changed"
			for _, e := range expected {
				if e.Name == g.Name && e.ID != g.ID {
					cls = "topic_id_changed"
				}
			}
			out = append(out, c28Finding{cls, fmt.Sprintf("reply topic %s (err=%d, %d partitions) is not in the cluster metadata's answer", k, g.Err, len(g.Parts))})
			continue
		}
		e := cands[0]
		exp[k] = cands[1:]
		if e.Err != g.Err {
			out = append(out, c28Finding{"topic_error_code_changed", fmt.Sprintf("topic %s: error code %d in the cluster metadata, %d in the reply", k, e.Err, g.Err)})
		}
		if fmt.Sprint(e.Parts) != fmt.Sprint(g.Parts) {
			cls := "partition_set_changed"
			if len(e.Parts) == len(g.Parts) {
				cls = "partition_error_or_epoch_changed"
			}
			out = append(out, c28Finding{cls, fmt.Sprintf("topic %s: partitions (partition/err/epoch) %v in the cluster metadata, %v in the reply", k, e.Parts, g.Parts)})
		}
	}
	for k, rest := range exp {
		for range rest {
			out = append(out, c28Finding{"topic_set_changed", fmt.Sprintf("topic %s of the cluster metadata's answer is missing from the reply", k)})
		}
	}
	for id := range unknownIDs {
		out = append(out, c28Finding{"topic_set_changed", fmt.Sprintf("requested unknown topic id %x has no entry in the reply", id)})
	}
	return out
}

// ---------------------------------------------------------------- driving the proxy

type c28Conn struct {
	c1   net.Conn
	done chan struct{}
	pan  *string
}

func c28Open(p *proxy) *c28Conn {
	c1, c2 := net.Pipe()
	cc := &c28Conn{c1: c1, done: make(chan struct{}), pan: new(string)}
	go func() {
		defer close(cc.done)
		defer func() {
			if v := recover(); v != nil {
				*cc.pan = fmt.Sprint(v)
				c2.Close()
			}
		}()
		p.handleConnection(context.Background(), c2)
	}()
	return cc
}

// roundTrip returns (payload, "", nil) | (nil, "closed", nil) | watchdog error
func (cc *c28Conn) roundTrip(frame []byte) ([]byte, string, error) {
	_ = cc.c1.SetDeadline(time.Now().Add(c28Watchdog))
	if _, err := cc.c1.Write(frame); err != nil {
		if ne, ok := err.(net.Error); ok && ne.Timeout() {
			return nil, "", err
		}
		return nil, "closed", nil
	}
	payload, err := pwReadFrame(cc.c1)
	if err != nil {
		if ne, ok := err.(net.Error); ok && ne.Timeout() {
			return nil, "", err
		}
		return nil, "closed", nil
	}
	return payload, "", nil
}

func (cc *c28Conn) close() bool {
	cc.c1.Close()
	select {
	case <-cc.done:
		return true
	case <-time.After(c28Watchdog):
		return false
	}
}

func c28NewProxy(store metadata.Store, px c28Proxy, ready bool) *proxy {
	p := &proxy{
		advertisedHost: px.Host,
		advertisedPort: px.Port,
		store:          store,
		logger:         pwDiscardLogger(),
		dialTimeout:    2 * time.Second,
		cacheTTL:       time.Hour,
		apiVersions:    generateProxyApiVersions(),
		brokerAddrs:    make(map[string]string),
		topicNames:     make(map[[16]byte]string),
		backendRetries: 1,
		backendBackoff: time.Millisecond,
	}
	p.setReady(ready)
	return p
}

func c28AdvertisedRange(key int16) (int16, int16, bool) {
	for _, k := range generateProxyApiVersions() {
		if k.ApiKey == key && k.MinVersion >= 0 {
			return k.MinVersion, k.MaxVersion, true
		}
	}
	return 0, 0, false
}

type c28MetaReq struct {
	Kind    string   `json:"kind"` // all | names | ids
	Version int16    `json:"version"`
	Names   []string `json:"names,omitempty"`
	IDs     []string `json:"ids,omitempty"`
	ids     [][16]byte
}

func c28BuildMetaReq(mr *c28MetaReq) *kmsg.MetadataRequest {
	req := kmsg.NewPtrMetadataRequest()
	req.Version = mr.Version
	req.AllowAutoTopicCreation = false
	switch mr.Kind {
	case "all":
		req.Topics = nil // null array (v1+) / empty array (v0): all topics
	case "names":
		req.Topics = []kmsg.MetadataRequestTopic{}
		for _, n := range mr.Names {
			t := kmsg.NewMetadataRequestTopic()
			t.Topic = kmsg.StringPtr(n)
			req.Topics = append(req.Topics, t)
		}
	case "ids":
		req.Topics = []kmsg.MetadataRequestTopic{}
		for _, id := range mr.ids {
			t := kmsg.NewMetadataRequestTopic()
			t.TopicID = id
			if mr.Version < 12 {
				t.Topic = kmsg.StringPtr("")
			}
			req.Topics = append(req.Topics, t)
		}
	}
	return req
}

// c28Expected asks the store the question the request asks: the topics the
// cluster metadata holds for it right now (as views at the request version) and
// the requested topic ids it does not know.
func c28Expected(store metadata.Store, mr *c28MetaReq) ([]c28TopicView, map[[16]byte]bool, error) {
	var expected []c28TopicView
	unknownIDs := map[[16]byte]bool{}
	switch mr.Kind {
	case "all":
		all, err := store.Metadata(context.Background(), nil)
		if err != nil {
			return nil, nil, err
		}
		for _, tp := range all.Topics {
			expected = append(expected, c28View(tp, mr.Version))
		}
	case "names":
		ans, err := store.Metadata(context.Background(), mr.Names)
		if err != nil {
			return nil, nil, err
		}
		for _, tp := range ans.Topics {
			expected = append(expected, c28View(tp, mr.Version))
		}
	case "ids":
		all, err := store.Metadata(context.Background(), nil)
		if err != nil {
			return nil, nil, err
		}
		for _, id := range mr.ids {
			found := false
			for _, tp := range all.Topics {
				if tp.TopicID == id {
					expected = append(expected, c28View(tp, mr.Version))
					found = true
				}
			}
			if !found {
				unknownIDs[id] = true
			}
		}
	}
	return expected, unknownIDs, nil
}

// c28JudgeMetadataReply is the oracle for one decoded ready Metadata reply:
// only the proxy as broker / controller / leader / replica, and the topology
// the store answers for the same question.
func c28JudgeMetadataReply(resp *kmsg.MetadataResponse, mr *c28MetaReq, expected []c28TopicView, unknownIDs map[[16]byte]bool, px c28Proxy) ([]c28Finding, []c28TopicView) {
	var fs []c28Finding
	// brokers: only the proxy, and at least it
	if len(resp.Brokers) == 0 {
		fs = append(fs, c28Finding{"metadata_names_no_broker", "ready metadata reply lists no broker at all"})
	}
	for _, b := range resp.Brokers {
		if b.NodeID != 0 || b.Host != px.Host || b.Port != px.Port {
			fs = append(fs, c28Finding{"broker_list_not_only_the_proxy", fmt.Sprintf("broker list has %d@%q:%d; the proxy is 0@%q:%d", b.NodeID, b.Host, b.Port, px.Host, px.Port)})
		}
	}
	if len(resp.Brokers) > 1 {
		fs = append(fs, c28Finding{"broker_list_not_only_the_proxy", fmt.Sprintf("broker list has %d entries", len(resp.Brokers))})
	}
	if mr.Version >= 1 && resp.ControllerID != 0 {
		fs = append(fs, c28Finding{"controller_not_the_proxy", fmt.Sprintf("controller id %d", resp.ControllerID)})
	}
	var nodeFs []c28Finding
	for ti := range resp.Topics {
		var one []c28Finding
		c28WalkNodes(reflect.ValueOf(&resp.Topics[ti]), fmt.Sprintf("Topics[%d]", ti), px, &one)
		if len(one) > 0 && resp.Topics[ti].ErrorCode != 0 {
			for i := range one {
				one[i].Class = "errored_topic_partitions_name_real_brokers"
			}
		}
		nodeFs = append(nodeFs, one...)
	}
	fs = append(fs, nodeFs...)
	var got []c28TopicView
	for _, tp := range resp.Topics {
		got = append(got, c28View(tp, mr.Version))
	}
	fs = append(fs, c28Topology(expected, got, unknownIDs, mr.Version)...)
	return fs, got
}

// ---------------------------------------------------------------- the ready leg

const c28RuleReady = "READY: per generated snapshot (1-4 real brokers with node ids 0..6, 0-6 topics of which ~25% carry a topic error with or without partitions, explicit or derived topic ids, partition errors, leader -1, leader epochs -1/0/n, sparse partition numbers) a ready proxy answers Metadata all/by-name/by-id at v0..v12 and FindCoordinator v3 on one connection; the decoded reply must list exactly the advertised (node 0, host, port) as broker(s), controller 0 (v1+), every node-naming field (Leader, Replicas, ISR, OfflineReplicas, NodeID/Host/Port triples, found by reflection over the kmsg struct) must be 0 or -1, and the multiset of topics (name, id at v10+, error code, partitions as partition/error/leader-epoch at v7+) must equal what the store answers for the same question (unknown topic ids: one errored, partition-less entry each); non-trivial = snapshot has a topic with partitions and the request selected at least one such topic"

const c28RuleNotReady = "NOT READY: a proxy that is not ready (and a ready proxy whose only backend refuses connections) is sent one request of every API it advertises, at every advertised version, over generated snapshots; whatever reply comes back is decoded at the request version and every node-naming field (NodeID/Host/Port triples, ControllerID, Leader, LeaderID, PreferredReadReplica, Replicas, ISR, OfflineReplicas — found by reflection) must be the proxy (0, host, port) or -1; non-trivial = the reply is of a kind that has node-naming fields (Metadata, FindCoordinator, Fetch, Produce)"

func TestVerifC28(t *testing.T) {
	r := verifkit.Start(t, "C28", "metadata")
	defer r.Finish(c28RuleReady+" || "+c28RuleNotReady,
		"the cluster metadata is what metadata.InMemoryStore.Metadata answers (EtcdStore delegates to the same type); mixed name+id requests and the empty-list request are outside the statement's three request kinds",
		"leader -1 is accepted as naming nobody",
		"a closed connection without a reply in the not-ready part is counted, not judged: the statement speaks about replies",
		"the topology clause is not applied to not-ready replies (no cluster metadata is consulted for them)")
	c28Ready(t, r)
	c28NotReady(t, r)
}

func c28Ready(t *testing.T, r *verifkit.Run) {
	n := r.N(700, 25000)
	metaMin, metaMax, ok := c28AdvertisedRange(3)
	if !ok {
		t.Fatalf("proxy does not advertise Metadata")
	}
	fcMin, fcMax, fcOK := c28AdvertisedRange(10)
	for ci := 0; ci < n; ci++ {
		rng := r.Rand(ci)
		snap := c28GenSnapshot(rng)
		store := metadata.NewInMemoryStore(snap)
		px := c28Proxy{Host: []string{"proxy.example.com", "10.1.2.3", "p", "broker-1.cluster.local", ""}[rng.Intn(5)], Port: []int32{9092, 19092, 443, 9093}[rng.Intn(4)]}
		if ci%50 != 0 && px.Host == "" {
			px.Host = "kafscale-proxy"
		}
		p := c28NewProxy(store, px, true)
		cc := c28Open(p)
		all, err := store.Metadata(context.Background(), nil)
		if err != nil {
			t.Fatalf("store: %v", err)
		}
		nreq := 3 + rng.Intn(4)
		aborted := false
		for q := 0; q < nreq && !aborted; q++ {
			corr := int32(ci*16 + q + 1)
			if fcOK && rng.Intn(6) == 0 {
				// FindCoordinator
				ver := fcMin + int16(rng.Intn(int(fcMax-fcMin)+1))
				req := kmsg.NewPtrFindCoordinatorRequest()
				req.Version = ver
				req.CoordinatorKey = fmt.Sprintf("group-%d", rng.Intn(50))
				req.CoordinatorType = int8(rng.Intn(2))
				if ver >= 4 {
					req.CoordinatorKeys = []string{req.CoordinatorKey}
				}
				payload, st, err := cc.roundTrip(pwEncodeRequest(req, corr, "verif-c28"))
				if err != nil {
					r.Inconclusive(fmt.Sprintf("case %d: watchdog on FindCoordinator: %v", ci, err))
					aborted = true
					break
				}
				replay := map[string]any{"case": ci, "proxy": px, "request": fmt.Sprintf("FindCoordinator v%d key=%s", ver, req.CoordinatorKey)}
				if st == "closed" {
					r.Violation("find_coordinator_no_reply", "ready proxy closed the connection on FindCoordinator", replay)
					aborted = true
					break
				}
				resp := kmsg.NewPtrFindCoordinatorResponse()
				resp.Version = ver
				if _, err := pwDecodeResponse(payload, resp); err != nil {
					r.Violation("find_coordinator_reply_undecodable", err.Error(), replay)
					continue
				}
				var fs []c28Finding
				c28WalkNodes(reflect.ValueOf(resp), "FindCoordinatorResponse", px, &fs)
				if ver <= 3 && resp.ErrorCode == 0 && (resp.NodeID != 0 || resp.Host != px.Host || resp.Port != px.Port) {
					fs = append(fs, c28Finding{"coordinator_not_the_proxy", fmt.Sprintf("coordinator %d@%q:%d", resp.NodeID, resp.Host, resp.Port)})
				}
				for _, f := range fs {
					r.Violation("coordinator:"+f.Class, f.Msg, replay)
				}
				r.Count("find_coordinator_replies", 1)
				r.Case(fmt.Sprintf("fc/%d/%s/%d/%s", ver, px.Host, px.Port, req.CoordinatorKey), true)
				continue
			}
			// Metadata
			mr := &c28MetaReq{Version: metaMin + int16(rng.Intn(int(metaMax-metaMin)+1))}
			switch k := rng.Intn(10); {
			case k < 3:
				mr.Kind = "all"
			case k < 7 || mr.Version < 10:
				mr.Kind = "names"
				for i, cnt := 0, rng.Intn(5); i <= cnt; i++ {
					if len(snap.Topics) > 0 && rng.Intn(4) > 0 {
						mr.Names = append(mr.Names, *snap.Topics[rng.Intn(len(snap.Topics))].Topic)
					} else {
						mr.Names = append(mr.Names, fmt.Sprintf("ghost-%d", rng.Intn(5)))
					}
				}
			default:
				mr.Kind = "ids"
				for i, cnt := 0, rng.Intn(5); i <= cnt; i++ {
					var id [16]byte
					if len(all.Topics) > 0 && rng.Intn(4) > 0 {
						id = all.Topics[rng.Intn(len(all.Topics))].TopicID
					} else {
						rng.Read(id[:])
						id[0] |= 1
					}
					dup := false
					for _, x := range mr.ids {
						if x == id {
							dup = true
						}
					}
					if dup {
						continue
					}
					mr.ids = append(mr.ids, id)
					mr.IDs = append(mr.IDs, hex.EncodeToString(id[:]))
				}
			}
			// what the cluster metadata answers to this question
			expected, unknownIDs, err := c28Expected(store, mr)
			if err != nil {
				t.Fatalf("store: %v", err)
			}
			replay := map[string]any{"case": ci, "proxy": px, "snapshot": c28DescribeSnapshot(&snap), "request": mr}
			payload, st, err := cc.roundTrip(pwEncodeRequest(c28BuildMetaReq(mr), corr, "verif-c28"))
			if err != nil {
				r.Inconclusive(fmt.Sprintf("case %d: watchdog on Metadata: %v", ci, err))
				aborted = true
				break
			}
			if st == "closed" {
				cls := "metadata_no_reply"
				if *cc.pan != "" {
					cls = "metadata_panic"
					replay["panic"] = *cc.pan
				}
				r.Violation(cls, fmt.Sprintf("ready proxy closed the connection on Metadata v%d %s", mr.Version, mr.Kind), replay)
				aborted = true
				break
			}
			resp := kmsg.NewPtrMetadataResponse()
			resp.Version = mr.Version
			gotCorr, derr := pwDecodeResponse(payload, resp)
			if derr != nil {
				r.Violation("metadata_reply_undecodable", fmt.Sprintf("Metadata v%d reply does not decode: %v", mr.Version, derr), replay)
				continue
			}
			_ = gotCorr
			fs, got := c28JudgeMetadataReply(resp, mr, expected, unknownIDs, px)
			seen := map[string]bool{}
			for _, f := range fs {
				if seen[f.Class] {
					continue
				}
				seen[f.Class] = true
				r.Violation(f.Class, fmt.Sprintf("Metadata v%d %s: %s", mr.Version, mr.Kind, f.Msg), replay)
			}
			withParts := false
			erroredWithParts := false
			for _, e := range expected {
				if len(e.Parts) > 0 {
					withParts = true
					if e.Err != 0 {
						erroredWithParts = true
					}
				}
			}
			r.Count("metadata_replies", 1)
			r.Count("metadata_"+mr.Kind, 1)
			r.Count(fmt.Sprintf("metadata_v%d", mr.Version), 1)
			r.Count("reply_topics", int64(len(got)))
			if erroredWithParts {
				r.Count("replies_with_errored_topic_with_partitions", 1)
			}
			if len(unknownIDs) == 0 && mr.Kind == "ids" {
				r.Count("metadata_ids_all_answered", 1)
			}
			r.Seen("version_x_kind", fmt.Sprintf("v%d/%s", mr.Version, mr.Kind))
			r.Case(verifkit.Hash(c28DescribeSnapshot(&snap), mr, px), withParts)
			if ci < 3 && q == 0 {
				r.Sample(replay)
			}
		}
		if !cc.close() {
			r.Inconclusive(fmt.Sprintf("case %d: handleConnection did not return (watchdog)", ci))
		}
		if *cc.pan != "" && !aborted {
			r.Violation("metadata_panic", "handleConnection panicked: "+*cc.pan, map[string]any{"case": ci, "snapshot": c28DescribeSnapshot(&snap)})
		}
	}
	r.Floor("metadata_all", 50)
	r.Floor("metadata_names", 50)
	r.Floor("metadata_ids", 30)
	r.Floor("find_coordinator_replies", 30)
	r.Floor("replies_with_errored_topic_with_partitions", 20)
	r.Floor("version_x_kind", 13+13+3)
}

// ---------------------------------------------------------------- the not-ready leg

// c28NotReadyRequests builds one request of every kind the proxy can answer
// while not ready, at the given version, naming topics of the snapshot.
func c28NotReadyRequest(key, version int16, rng *rand.Rand, topics []string, ids [][16]byte) kmsg.Request {
	topic := func() string {
		if len(topics) == 0 {
			return "orders"
		}
		return topics[rng.Intn(len(topics))]
	}
	req := kmsg.RequestForKey(key)
	req.SetVersion(version)
	switch r := req.(type) {
	case *kmsg.MetadataRequest:
		r.Default()
		r.Version = version
		switch rng.Intn(3) {
		case 0:
			r.Topics = nil
		case 1:
			for i := 0; i <= rng.Intn(3); i++ {
				t := kmsg.NewMetadataRequestTopic()
				t.Topic = kmsg.StringPtr(topic())
				r.Topics = append(r.Topics, t)
			}
		default:
			for i := 0; i <= rng.Intn(3); i++ {
				t := kmsg.NewMetadataRequestTopic()
				t.Topic = kmsg.StringPtr(topic())
				if version >= 10 && len(ids) > 0 {
					t.TopicID = ids[rng.Intn(len(ids))]
					if version >= 12 {
						t.Topic = nil
					}
				}
				r.Topics = append(r.Topics, t)
			}
		}
	case *kmsg.FindCoordinatorRequest:
		r.Default()
		r.Version = version
		r.CoordinatorKey = "g"
		if version >= 4 {
			r.CoordinatorKeys = []string{"g"}
		}
	case *kmsg.ProduceRequest:
		r.Default()
		r.Version = version
		r.Acks = 1
		t := kmsg.NewProduceRequestTopic()
		t.Topic = topic()
		p := kmsg.NewProduceRequestTopicPartition()
		p.Partition = int32(rng.Intn(3))
		t.Partitions = append(t.Partitions, p)
		r.Topics = append(r.Topics, t)
	case *kmsg.FetchRequest:
		r.Default()
		r.Version = version
		t := kmsg.NewFetchRequestTopic()
		t.Topic = topic()
		if len(ids) > 0 {
			t.TopicID = ids[rng.Intn(len(ids))]
		}
		p := kmsg.NewFetchRequestTopicPartition()
		p.Partition = int32(rng.Intn(3))
		t.Partitions = append(t.Partitions, p)
		r.Topics = append(r.Topics, t)
	case *kmsg.ListOffsetsRequest:
		r.Default()
		r.Version = version
		t := kmsg.NewListOffsetsRequestTopic()
		t.Topic = topic()
		p := kmsg.NewListOffsetsRequestTopicPartition()
		p.Partition = 0
		t.Partitions = append(t.Partitions, p)
		r.Topics = append(r.Topics, t)
	case *kmsg.JoinGroupRequest:
		r.Default()
		r.Version = version
		r.Group = "g"
		r.ProtocolType = "consumer"
	case *kmsg.SyncGroupRequest:
		r.Default()
		r.Version = version
		r.Group = "g"
	case *kmsg.HeartbeatRequest:
		r.Default()
		r.Version = version
		r.Group = "g"
	case *kmsg.LeaveGroupRequest:
		r.Default()
		r.Version = version
		r.Group = "g"
	case *kmsg.OffsetCommitRequest:
		r.Default()
		r.Version = version
		r.Group = "g"
		t := kmsg.NewOffsetCommitRequestTopic()
		t.Topic = topic()
		p := kmsg.NewOffsetCommitRequestTopicPartition()
		t.Partitions = append(t.Partitions, p)
		r.Topics = append(r.Topics, t)
	case *kmsg.OffsetFetchRequest:
		r.Default()
		r.Version = version
		r.Group = "g"
		t := kmsg.NewOffsetFetchRequestTopic()
		t.Topic = topic()
		t.Partitions = []int32{0, 1}
		r.Topics = append(r.Topics, t)
	case *kmsg.OffsetForLeaderEpochRequest:
		r.Default()
		r.Version = version
		t := kmsg.NewOffsetForLeaderEpochRequestTopic()
		t.Topic = topic()
		p := kmsg.NewOffsetForLeaderEpochRequestTopicPartition()
		t.Partitions = append(t.Partitions, p)
		r.Topics = append(r.Topics, t)
	case *kmsg.DescribeGroupsRequest:
		r.Default()
		r.Version = version
		r.Groups = []string{"g", "h"}
	case *kmsg.ListGroupsRequest:
		r.Default()
		r.Version = version
	case *kmsg.DescribeConfigsRequest:
		r.Default()
		r.Version = version
		res := kmsg.NewDescribeConfigsRequestResource()
		res.ResourceType = 2
		res.ResourceName = topic()
		r.Resources = append(r.Resources, res)
	case *kmsg.AlterConfigsRequest:
		r.Default()
		r.Version = version
		res := kmsg.NewAlterConfigsRequestResource()
		res.ResourceType = 2
		res.ResourceName = topic()
		r.Resources = append(r.Resources, res)
	case *kmsg.CreatePartitionsRequest:
		r.Default()
		r.Version = version
		t := kmsg.NewCreatePartitionsRequestTopic()
		t.Topic = topic()
		t.Count = 4
		r.Topics = append(r.Topics, t)
	case *kmsg.CreateTopicsRequest:
		r.Default()
		r.Version = version
		t := kmsg.NewCreateTopicsRequestTopic()
		t.Topic = topic()
		t.NumPartitions = 1
		t.ReplicationFactor = 1
		r.Topics = append(r.Topics, t)
	case *kmsg.DeleteTopicsRequest:
		r.Default()
		r.Version = version
		r.TopicNames = []string{topic()}
		t := kmsg.NewDeleteTopicsRequestTopic()
		t.Topic = kmsg.StringPtr(topic())
		r.Topics = append(r.Topics, t)
	case *kmsg.DeleteGroupsRequest:
		r.Default()
		r.Version = version
		r.Groups = []string{"g"}
	default:
		return nil
	}
	return req
}

func c28NotReady(t *testing.T, r *verifkit.Run) {
	deadAddr, release, err := pwDeadAddr()
	if err != nil {
		t.Fatalf("dead address: %v", err)
	}
	defer release()
	type apiRange struct{ key, min, max int16 }
	var apis []apiRange
	for _, k := range generateProxyApiVersions() {
		if k.MinVersion >= 0 && k.ApiKey != 18 {
			apis = append(apis, apiRange{k.ApiKey, k.MinVersion, k.MaxVersion})
		}
	}
	rounds := r.N(6, 150)
	ci := 0
	for round := 0; round < rounds; round++ {
		for _, a := range apis {
			for ver := a.min; ver <= a.max; ver++ {
				for _, state := range []string{"not_ready", "backend_down"} {
					ci++
					rng := r.Rand(10_000_000 + ci)
					snap := c28GenSnapshot(rng)
					store := metadata.NewInMemoryStore(snap)
					all, _ := store.Metadata(context.Background(), nil)
					var names []string
					var ids [][16]byte
					for _, tp := range all.Topics {
						names = append(names, *tp.Topic)
						ids = append(ids, tp.TopicID)
					}
					px := c28Proxy{Host: []string{"proxy.example.com", "10.1.2.3", "p"}[rng.Intn(3)], Port: []int32{9092, 19092}[rng.Intn(2)]}
					p := c28NewProxy(store, px, state == "backend_down")
					if state == "backend_down" {
						if a.key == 3 || a.key == 10 {
							continue // answered locally when ready: covered by the metadata leg
						}
						p.backends = []string{deadAddr}
					}
					req := c28NotReadyRequest(a.key, ver, rng, names, ids)
					if req == nil {
						r.Count("api_without_generator", 1)
						continue
					}
					name := kmsg.NameForKey(a.key)
					cc := c28Open(p)
					payload, st, err := cc.roundTrip(pwEncodeRequest(req, int32(ci), "verif-c28"))
					if !cc.close() {
						r.Inconclusive(fmt.Sprintf("%s v%d %s: handleConnection did not return (watchdog)", name, ver, state))
					}
					replay := map[string]any{"api": name, "version": ver, "state": state, "proxy": px, "snapshot": c28DescribeSnapshot(&snap), "request": fmt.Sprintf("%+v", req)}
					if err != nil {
						r.Inconclusive(fmt.Sprintf("%s v%d %s: watchdog: %v", name, ver, state, err))
						continue
					}
					if *cc.pan != "" {
						replay["panic"] = *cc.pan
						r.Violation("notready_panic", fmt.Sprintf("%s v%d %s: handleConnection panicked: %s", name, ver, state, *cc.pan), replay)
						continue
					}
					if st == "closed" {
						r.Count(state+"_closed_without_reply", 1)
						r.Seen(state+"_apis_closed_without_reply", name)
						r.Case(fmt.Sprintf("%s/%d/%s/closed", name, ver, state), false)
						continue
					}
					resp := req.ResponseKind()
					resp.SetVersion(ver)
					if _, derr := pwDecodeResponse(payload, resp); derr != nil {
						r.Violation("notready_reply_undecodable", fmt.Sprintf("%s v%d %s reply does not decode: %v", name, ver, state, derr), replay)
						continue
					}
					var fs []c28Finding
					c28WalkNodes(reflect.ValueOf(resp), name+"Response", px, &fs)
					seen := map[string]bool{}
					for _, f := range fs {
						if seen[f.Class] {
							continue
						}
						seen[f.Class] = true
						r.Violation("notready:"+f.Class, fmt.Sprintf("%s v%d %s: %s", name, ver, state, f.Msg), replay)
					}
					hasNodes := a.key == 3 || a.key == 10 || a.key == 1 || a.key == 0
					r.Count(state+"_replies", 1)
					r.Seen(state+"_apis_replied", name)
					r.Seen("api_x_version_x_state", fmt.Sprintf("%s/%d/%s", name, ver, state))
					r.Case(fmt.Sprintf("%s/%d/%s/%s", name, ver, state, verifkit.Hash(payload)), hasNodes)
					if ci%41 == 0 {
						r.Sample(map[string]any{"api": name, "version": ver, "state": state, "reply": fmt.Sprintf("%+v", resp)})
					}
				}
			}
		}
	}
	r.Floor("not_ready_replies", 40)
	r.Floor("not_ready_apis_replied", 15)
}
