//go:build verif

package main

import (
	"fmt"
	"math/rand"
	"strings"
	"testing"
	"testing/synctest"

	"github.com/KafScale/platform/internal/verifkit"
)

// c06Chooser replays a fixed fault-free schedule (PRNG over the non-fault
// actions) and turns the k-th boundary completion into a crash.
type c06Chooser struct {
	base    *rngChooser
	k       int    // index of the completion to crash at; -1 = never
	variant string // crashbefore | crashafter
	seen    int
	crashed bool
	ops     []string // labels of completions seen (the boundary-operation sequence)
	// an interrupted upload that is NOT a crash: the first completion of kind failKind at or after completion failAt
	// fails (failVariant "fail" = without effect, "failafter" = object stored, error reported); "" = none
	failKind    string
	failVariant string
	failAt      int
	picks       int
	failed      bool
	failedOp    string
}

func (c *c06Chooser) pick(labels []string) int {
	i := c.base.pick(labels)
	l := labels[i]
	if strings.HasPrefix(l, "ok:") {
		n := c.picks
		c.picks++
		if c.failKind != "" && !c.failed && n >= c.failAt && strings.Contains(l, ":"+c.failKind+":") {
			want := c.failVariant + ":" + strings.TrimPrefix(l, "ok:")
			for j, x := range labels {
				if x == want {
					c.failed = true
					c.failedOp = x
					return j
				}
			}
		}
		idx := c.seen
		c.seen++
		c.ops = append(c.ops, strings.TrimPrefix(l, "ok:"))
		if !c.crashed && idx == c.k {
			want := c.variant + ":" + strings.TrimPrefix(l, "ok:")
			for j, x := range labels {
				if x == want {
					c.crashed = true
					return j
				}
			}
		}
	}
	return i
}

func c06History(rng *rand.Rand, hi int) plogCfg {
	cfg := plogCfg{
		Topics:        map[string]int32{"t": 2},
		Gated:         []string{"upload_segment", "upload_index", "update_offsets"},
		FaultKinds:    []outcome{outCrashBefore, outCrashAfter},
		FaultOn:       []string{"upload_segment", "upload_index", "update_offsets"},
		CrashBudget:   1,
		FlushOnAck:    true,
		IndexInterval: []int32{1, 100}[rng.Intn(2)],
		CacheBytes:    []int{0, 1 << 20}[rng.Intn(2)],
		MaxSteps:      800,
	}
	switch rng.Intn(3) {
	case 0:
		cfg.BufferMaxBytes = 1 << 30
	case 1:
		cfg.BufferMaxBatch = 1
	case 2:
		cfg.BufferMaxMsgs = 3
	}
	nprod := 2 + rng.Intn(2)
	for p := 0; p < nprod; p++ {
		var reqs []plogReq
		for b := 0; b < 3-(nprod-2); b++ {
			id := fmt.Sprintf("h%d/p%d/%d", hi, p, b)
			n := 1 + rng.Intn(3)
			part := int32(0)
			if rng.Intn(4) == 0 {
				part = 1
			}
			reqs = append(reqs, plogReq{Kind: "produce", Topic: "t", Partition: part, Acks: -1, Batch: mkBatch(rng, id, n, rng.Intn(16)), BatchID: id, NRecords: n})
		}
		cfg.Actors = append(cfg.Actors, reqs)
	}
	var fetches []plogReq
	for i := 0; i < 6; i++ {
		fetches = append(fetches, plogReq{Kind: "fetch", Topic: "t", Partition: 0, Offset: int64(rng.Intn(8)), MaxBytes: 1 << 20})
	}
	cfg.Actors = append(cfg.Actors, fetches)
	return cfg
}

// c06Fail is the non-crash upload failure of a history (Kind "" = none).
type c06Fail struct {
	Kind, Variant string
	At            int
}

func c06FailPlan(rng *rand.Rand) c06Fail {
	if rng.Intn(2) == 0 {
		return c06Fail{}
	}
	return c06Fail{Kind: []string{"upload_index", "upload_index", "upload_segment"}[rng.Intn(3)], Variant: []string{"fail", "failafter"}[rng.Intn(2)], At: rng.Intn(8)}
}

type c06Ack struct {
	Res      plogRes
	PreCrash bool
}

// c06Frames splits a fetch reply into [base,last] ranges (well-formed batches only here).
func c06Frames(rec []byte) [][2]int64 {
	var out [][2]int64
	p := 0
	for p+61 <= len(rec) {
		n := 12 + int(int32(uint32(rec[p+8])<<24|uint32(rec[p+9])<<16|uint32(rec[p+10])<<8|uint32(rec[p+11])))
		if n < 61 || p+n > len(rec) {
			break
		}
		base := int64(uint64(rec[p])<<56 | uint64(rec[p+1])<<48 | uint64(rec[p+2])<<40 | uint64(rec[p+3])<<32 | uint64(rec[p+4])<<24 | uint64(rec[p+5])<<16 | uint64(rec[p+6])<<8 | uint64(rec[p+7]))
		lod := int64(int32(uint32(rec[p+23])<<24 | uint32(rec[p+24])<<16 | uint32(rec[p+25])<<8 | uint32(rec[p+26])))
		out = append(out, [2]int64{base, base + lod})
		p += n
	}
	return out
}

func c06Contains(rec, sent []byte) bool {
	p := 0
	for p+61 <= len(rec) {
		n := 12 + int(int32(uint32(rec[p+8])<<24|uint32(rec[p+9])<<16|uint32(rec[p+10])<<8|uint32(rec[p+11])))
		if n < 61 || p+n > len(rec) {
			return false
		}
		if sameBatchIgnoringBase(rec[p:p+n], sent) {
			return true
		}
		p += n
	}
	return false
}

// c06Run runs history cfg with a crash at completion k (k<0: fault-free) and applies the oracles.
func c06Run(t *testing.T, r *verifkit.Run, cfg plogCfg, fp c06Fail, seed int64, k int, variant string) (ops []string, crashedAt string) {
	synctest.Test(t, func(t *testing.T) {
		ch := &c06Chooser{base: &rngChooser{rng: rand.New(rand.NewSource(seed))}, k: k, variant: variant, failKind: fp.Kind, failVariant: fp.Variant, failAt: fp.At}
		if fp.Kind != "" {
			cfg.FaultKinds = append(append([]outcome(nil), cfg.FaultKinds...), outFailBefore, outFailAfter)
			cfg.FaultBudget = 1
		}
		s := newScenario(t, cfg)
		var acks []c06Ack
		maxShown := map[int32]int64{0: -1, 1: -1} // highest offset acknowledged or returned to a consumer, per partition
		preCrashShown := map[int32]int64{0: -1, 1: -1}
		crashed := false
		reported := map[string]bool{}
		witness := func(why string) map[string]any {
			return map[string]any{"config": c01CfgSummary(cfg), "schedule": append([]string(nil), s.trace...), "crash": fmt.Sprintf("%s at boundary op #%d", variant, k), "failed_upload": ch.failedOp, "why": why, "s3_keys": s.s3.keys("default/"), "store_events": s.hub.events}
		}
		readBack := func(when string) {
			h, inst := s.hs[s.cur], s.insts[s.cur]
			for _, a := range acks {
				f := plogExec(h, inst, 98, 0, plogReq{Kind: "fetch", Topic: a.Res.Req.Topic, Partition: a.Res.Req.Partition, Offset: a.Res.Base, MaxBytes: 1 << 20})
				r.Count("readbacks", 1)
				if f.Err != "" || f.Code != 0 || !c06Contains(f.Records, a.Res.Req.Batch) {
					cls := "acked_record_unreadable_after_crash:" + variant + "_" + opKind(crashedAt)
					if !reported[cls] {
						reported[cls] = true
						why := fmt.Sprintf("%s: batch %s acknowledged at offset %d before the crash; fetch on the new broker -> code=%d err=%q %d bytes, batch not in the reply", when, a.Res.Req.BatchID, a.Res.Base, f.Code, f.Err, len(f.Records))
						r.Violation(cls, why, witness(why))
					}
				} else if fr := c06Frames(f.Records); len(fr) == 0 || fr[0][0] > a.Res.Base {
					cls := "acked_record_moved_after_crash:" + variant + "_" + opKind(crashedAt)
					if !reported[cls] {
						reported[cls] = true
						why := fmt.Sprintf("%s: batch %s acknowledged at %d is no longer served at that offset", when, a.Res.Req.BatchID, a.Res.Base)
						r.Violation(cls, why, witness(why))
					}
				}
			}
		}
		s.onReply = func(s *scenario, res plogRes) {
			if res.Err != "" || res.NoReply {
				return
			}
			p := res.Req.Partition
			switch res.Req.Kind {
			case "produce":
				if res.Code != 0 {
					return
				}
				r.Count("acks", 1)
				last := res.Base + int64(res.Req.NRecords) - 1
				// offsets acknowledged or returned to a consumer BEFORE the crash must never be handed out again by
				// the new broker (post-crash acknowledgements complete in any order, so compare with the frozen maximum)
				if crashed && res.Inst == s.cur && res.Base <= preCrashShown[p] {
					cls := "offset_reused_after_crash:" + variant + "_" + opKind(crashedAt)
					if !reported[cls] {
						reported[cls] = true
						why := fmt.Sprintf("after the crash batch %s was acknowledged at offset %d, but offset %d had already been acknowledged or returned to a consumer before the crash", res.Req.BatchID, res.Base, preCrashShown[p])
						r.Violation(cls, why, witness(why))
					}
				}
				if last > maxShown[p] {
					maxShown[p] = last
				}
				for _, prev := range acks {
					if prev.Res.Req.Partition == p && res.Base <= prev.Res.Base+int64(prev.Res.Req.NRecords)-1 && prev.Res.Base <= last {
						cls := "two_acks_overlap:" + variant + "_" + opKind(crashedAt)
						if !reported[cls] {
							reported[cls] = true
							why := fmt.Sprintf("batch %s acknowledged at [%d,%d] overlaps batch %s acknowledged at %d", res.Req.BatchID, res.Base, last, prev.Res.Req.BatchID, prev.Res.Base)
							r.Violation(cls, why, witness(why))
						}
					}
				}
				acks = append(acks, c06Ack{Res: res, PreCrash: !crashed})
			case "fetch":
				if res.Code != 0 {
					return
				}
				for _, fr := range c06Frames(res.Records) {
					r.Count("frames_shown_to_consumer", 1)
					if fr[1] > maxShown[p] {
						maxShown[p] = fr[1]
					}
				}
			}
		}
		s.onRestart = func(s *scenario) {
			crashed = true
			crashedAt = s.trace[len(s.trace)-1]
			for p, v := range maxShown {
				preCrashShown[p] = v
			}
			gated := s.sc.gated
			s.sc.gated = map[string]bool{} // read back immediately, before anything else happens
			readBack("right after restart")
			s.sc.gated = gated
		}
		s.run(ch)
		s.sc.gated = map[string]bool{}
		if k >= 0 && !crashed {
			r.Count("crash_point_not_reached", 1)
		}
		// final read-back through yet another fresh broker: nothing acked before OR after the crash may be lost
		s.insts[s.cur].kill()
		s.newInstance()
		readBack("at the end, after a further clean restart")
		s.teardown()
		ops = ch.ops
		if ch.failed {
			r.Count("runs_with_a_failed_upload_before_the_crash_or_restart", 1)
			r.Seen("failed_uploads", fp.Variant+"@"+fp.Kind)
		}
		if crashed {
			r.Seen("crash_points", variant+"@"+opKind(crashedAt))
		}
	})
	return
}

func opKind(label string) string {
	// "crashafter:a1:upload_index:default/t/0/2.index" -> upload_index
	parts := strings.Split(label, ":")
	if len(parts) >= 3 {
		return parts[2]
	}
	return label
}

func TestVerifC06Crash(t *testing.T) {
	r := verifkit.Start(t, "C06", "crash")
	defer r.Finish("history = 2 producers x 3 batches or 3 producers x 2 batches (1-3 records) on 2 partitions + 1 consumer issuing 6 fetches, buffer thresholds {never, every append, 3 msgs}, index interval {1,100}, cache on/off, one fixed interleaving per history; half of the histories also contain ONE interrupted upload that is not a crash (the first upload_index / upload_segment at or after a PRNG-chosen boundary operation fails, with or without the object having been stored; the produce is answered with an error and a later flush retries); it is run crash-free to obtain its boundary-operation sequence o_0..o_n-1 (upload_segment, upload_index, update_offsets), then re-run for EVERY k in 0..n-1 in two variants: crash just before o_k, and o_k's effect applied with the broker dead before learning it. evaluations = crash runs + baseline runs; distinct = (history, k, variant); non-trivial = crash run in which the crash point was reached and >= 1 acknowledgement preceded it",
		"fake S3 atomic puts; surviving metadata store = real InMemoryStore", "the interleaving of each history is fixed by a PRNG over non-fault actions; C01/C05 explore interleavings")
	nh := r.N(40, 1200)
	for hi := 0; hi < nh; hi++ {
		rng := r.Rand(hi)
		cfg := c06History(rng, hi)
		seed := rng.Int63()
		fp := c06FailPlan(rng)
		ops, _ := c06Run(t, r, cfg, fp, seed, -1, "")
		r.Case(fmt.Sprint("baseline", hi), false)
		r.Count("boundary_ops_in_baselines", int64(len(ops)))
		if hi == 0 {
			r.Sample(map[string]any{"config": c01CfgSummary(cfg), "boundary_ops": ops})
		}
		for k := range ops {
			for _, variant := range []string{"crashbefore", "crashafter"} {
				before := r.Violated()
				_, at := c06Run(t, r, cfg, fp, seed, k, variant)
				r.Case(fmt.Sprint(hi, k, variant), at != "" && k > 0)
				_ = before
			}
		}
	}
	r.Exhaustive(true)
	r.Floor("readbacks", 200)
	r.Floor("acks", 200)
}
