//go:build verif

package main

import (
	"context"
	"fmt"
	"math/rand"
	"sync"
	"sync/atomic"
	"testing"
	"time"

	"github.com/KafScale/platform/internal/verifkit"
	"github.com/KafScale/platform/pkg/broker"
	"github.com/KafScale/platform/pkg/cache"
	"github.com/KafScale/platform/pkg/metadata"
	"github.com/KafScale/platform/pkg/protocol"
	"github.com/KafScale/platform/pkg/storage"
)

// c41S3 adds real jitter and rare failures to the shared fake, and counts paths.
type c41S3 struct {
	*s3View
	seed      int64
	ctr       atomic.Int64
	full      atomic.Int64
	ranged    atomic.Int64
	uploads   atomic.Int64
	failed    atomic.Int64
	failEvery int // 0 = ~1% of uploads fail; k = one in k
}

func (c *c41S3) jitter() (fail bool) {
	n := c.ctr.Add(1)
	x := uint64(n*2654435761) ^ uint64(c.seed)
	d := time.Duration(x%200) * time.Microsecond
	if c.failEvery > 0 {
		d *= 4 // wider flush windows in the failure-heavy repetitions
	}
	time.Sleep(d)
	if c.failEvery > 0 {
		return x%uint64(c.failEvery) == 0
	}
	return x%97 == 0
}
func (c *c41S3) UploadSegment(ctx context.Context, key string, body []byte) error {
	if c.jitter() {
		c.failed.Add(1)
		return errInjected
	}
	c.uploads.Add(1)
	return c.s3View.UploadSegment(ctx, key, body)
}
func (c *c41S3) UploadIndex(ctx context.Context, key string, body []byte) error {
	if c.jitter() {
		c.failed.Add(1)
		return errInjected
	}
	return c.s3View.UploadIndex(ctx, key, body)
}
func (c *c41S3) DownloadSegment(ctx context.Context, key string, rng *storage.ByteRange) ([]byte, error) {
	c.jitter()
	if rng == nil {
		c.full.Add(1)
	} else {
		c.ranged.Add(1)
	}
	return c.s3View.DownloadSegment(ctx, key, rng)
}

func TestVerifC41Stress(t *testing.T) {
	r := verifkit.Start(t, "C41", "stress")
	defer r.Finish("repetition = fresh handler; 8 producers x 12 produce requests (acks -1/1/0 mixed), 6 fetchers x 40 fetches at random offsets and byte limits, 2 ListOffsets callers, all on 2 partitions of one topic; buffer flush threshold 2 batches, index interval 2, cache 1200 bytes (about 3 segments), read-ahead 2, S3 calls sleep 0-200us and ~1% of uploads fail (25% in the buffered-mode repetitions, so that the upload-failure path runs while fetchers read the flush window); the race detector watches; non-trivial = repetition in which prefetch downloads, cache hits and evictions all occurred",
		"a clean run means no race was observed on these executions")
	n := r.N(30, 1500)
	for ci := 0; ci < n; ci++ {
		rng := r.Rand(ci)
		v := newVS3()
		inst := &instance{}
		brokerInfo := protocol.MetadataBroker{NodeID: 1, Host: "127.0.0.1", Port: 9092}
		meta := metadataForBroker(brokerInfo)
		meta.Topics = nil
		store := metadata.NewInMemoryStore(meta)
		if _, err := store.CreateTopic(context.Background(), metadata.TopicSpec{Name: "t", NumPartitions: 2, ReplicationFactor: 1}); err != nil {
			t.Fatal(err)
		}
		s3 := &c41S3{s3View: &s3View{v: v, inst: inst}, seed: rng.Int63()}
		if ci%3 == 0 {
			s3.failEvery = 4 // buffered mode: many failed flushes while fetchers read the unflushed tail / flush window
		}
		h := newHandler(store, s3, brokerInfo, discardLogger())
		h.flushOnAck = ci%3 != 0 // every third repetition runs the buffered (flush-disabled) mode
		// the S3 health gate (C25's subject) must not answer the fetches of this workload with back-pressure codes
		// while a quarter of the uploads fail: thresholds that error rates cannot reach
		h.s3Health = broker.NewS3HealthMonitor(broker.S3HealthConfig{ErrorWarn: 2, ErrorCrit: 3, LatencyWarn: time.Hour, LatencyCrit: 2 * time.Hour})
		h.autoCreateTopics = false
		h.logConfig.Buffer = storage.WriteBufferConfig{MaxBatches: 2}
		h.logConfig.Segment.IndexIntervalMessages = 2
		h.logConfig.ReadAheadSegments = 2
		h.logConfig.CacheEnabled = true
		h.cache = cache.NewSegmentCache(1200)
		var wg, pwg sync.WaitGroup
		var producersDone atomic.Bool
		var produced, fetchedBytes, fetchErrs, hwSeen, tailReads atomic.Int64
		for p := 0; p < 8; p++ {
			prng := rand.New(rand.NewSource(rng.Int63()))
			wg.Add(1)
			pwg.Add(1)
			go func(p int) {
				defer wg.Done()
				defer pwg.Done()
				for b := 0; b < 12; b++ {
					acks := []int16{-1, -1, 1, 0}[prng.Intn(4)]
					res := plogExec(h, inst, p, b, plogReq{Kind: "produce", Topic: "t", Partition: int32(prng.Intn(2)), Acks: acks, Batch: mkBatch(prng, fmt.Sprintf("r%d/p%d/%d", ci, p, b), 1+prng.Intn(3), prng.Intn(60))})
					if res.Err == "" && res.Code == 0 {
						produced.Add(1)
					}
				}
			}(p)
		}
		go func() { pwg.Wait(); producersDone.Store(true) }()
		for f := 0; f < 6; f++ {
			frng := rand.New(rand.NewSource(rng.Int63()))
			wg.Add(1)
			go func(f int) {
				defer wg.Done()
				for i := 0; i < 40; i++ {
					res := plogExec(h, inst, 100+f, i, plogReq{Kind: "fetch", Topic: "t", Partition: int32(frng.Intn(2)), Offset: int64(frng.Intn(60)), MaxBytes: []int32{1, 100, 400, 1 << 20}[frng.Intn(4)]})
					if res.Err != "" || res.Code != 0 {
						fetchErrs.Add(1)
					} else {
						fetchedBytes.Add(int64(len(res.Records)))
						// touch every returned byte: a reader racing with a writer of the same backing array is what we look for
						var x byte
						for _, c := range res.Records {
							x ^= c
						}
						_ = x
					}
				}
			}(f)
		}
		if !h.flushOnAck {
			// tail followers (buffered mode): fetch right behind the log end, where a read is served from the write
			// buffer or from the batches of an in-flight (possibly failing) flush
			for f := 0; f < 3; f++ {
				wg.Add(1)
				go func(f int) {
					defer wg.Done()
					// follow the log end for as long as the producers run (how many rounds that is depends on the
					// machine, so the loop is bounded by the producers, not by a count), at least 120 rounds
					for i := 0; i < 20000 && (i < 120 || !producersDone.Load()); i++ {
						part := int32(i % 2)
						lo := plogExec(h, inst, 400+f, i, plogReq{Kind: "listoffsets", Topic: "t", Partition: part, Offset: -1})
						plog, err := h.getPartitionLog(context.Background(), "t", part)
						if err != nil {
							continue
						}
						end := plog.BufferedHighWatermark()
						_ = lo
						for back := int64(1); back <= 3; back++ {
							if end-back < 0 {
								break
							}
							res := plogExec(h, inst, 400+f, i, plogReq{Kind: "fetch", Topic: "t", Partition: part, Offset: end - back, MaxBytes: 1 << 20})
							if res.Err == "" && res.Code == 0 {
								tailReads.Add(1)
								var x byte
								for _, c := range res.Records {
									x ^= c
								}
								_ = x
							}
						}
					}
				}(f)
			}
		}
		for l := 0; l < 2; l++ {
			wg.Add(1)
			go func(l int) {
				defer wg.Done()
				for i := 0; i < 30; i++ {
					res := plogExec(h, inst, 200+l, i, plogReq{Kind: "listoffsets", Topic: "t", Partition: int32(i % 2), Offset: int64(-1 - i%2)})
					if res.Err == "" && res.Code == 0 {
						hwSeen.Add(1)
					}
					time.Sleep(50 * time.Microsecond)
				}
			}(l)
		}
		wg.Wait()
		// phase 2, "hot segment storm": many fetchers hit the SAME few offsets while another keeps evicting them,
		// so that cache misses, re-fills of a key that is live again, hits and prefetch stores of one key overlap.
		for f := 0; f < 10; f++ {
			frng := rand.New(rand.NewSource(rng.Int63()))
			wg.Add(1)
			go func(f int) {
				defer wg.Done()
				for i := 0; i < 30; i++ {
					off := int64(frng.Intn(3))
					if f >= 8 { // the evictors walk the rest of the log
						off = int64(3 + frng.Intn(40))
					}
					res := plogExec(h, inst, 300+f, i, plogReq{Kind: "fetch", Topic: "t", Partition: 0, Offset: off, MaxBytes: 1 << 20})
					if res.Err == "" && res.Code == 0 {
						var x byte
						for _, c := range res.Records {
							x ^= c
						}
						_ = x
						fetchedBytes.Add(int64(len(res.Records)))
					}
				}
			}(f)
		}
		wg.Wait()
		time.Sleep(5 * time.Millisecond) // let prefetch goroutines finish
		h.coordinator.Stop()
		// path coverage: the S3 event log tells how reads were served
		prefetchLike := s3.full.Load()
		r.Count("produce_acks", produced.Load())
		r.Count("fetch_bytes", fetchedBytes.Load())
		r.Count("fetch_errors", fetchErrs.Load())
		r.Count("listoffsets_ok", hwSeen.Load())
		r.Count("tail_reads_in_buffered_mode", tailReads.Load())
		r.Count("s3_full_segment_downloads(cache fill+prefetch)", prefetchLike)
		r.Count("s3_range_downloads", s3.ranged.Load())
		r.Count("s3_segment_uploads", s3.uploads.Load())
		r.Count("s3_failed_uploads", s3.failed.Load())
		nontrivial := prefetchLike > 0 && s3.uploads.Load() > 6 && fetchedBytes.Load() > 0
		r.Case(fmt.Sprint("rep", ci, produced.Load(), fetchedBytes.Load()), nontrivial)
		if ci == 0 {
			r.Sample(map[string]any{"rep": ci, "produce_acks": produced.Load(), "fetch_bytes": fetchedBytes.Load(), "segments_uploaded": s3.uploads.Load(), "full_downloads": prefetchLike, "range_downloads": s3.ranged.Load()})
		}
	}
	r.Floor("s3_full_segment_downloads(cache fill+prefetch)", 20)
	r.Floor("s3_segment_uploads", 100)
	r.Floor("fetch_bytes", 10000)
	r.Floor("tail_reads_in_buffered_mode", 200)
}
