//go:build verif

package operator

import (
	"context"
	"fmt"
	"sort"
	"strings"
	"sync"
	"testing"
	"time"

	corev1 "k8s.io/api/core/v1"
	metav1 "k8s.io/apimachinery/pkg/apis/meta/v1"
	"k8s.io/apimachinery/pkg/types"
	"sigs.k8s.io/controller-runtime/pkg/client"
	"sigs.k8s.io/controller-runtime/pkg/reconcile"

	clientv3 "go.etcd.io/etcd/client/v3"

	kafscalev1alpha1 "github.com/KafScale/platform/api/v1alpha1"
	"github.com/KafScale/platform/internal/testutil"
	"github.com/KafScale/platform/internal/verifkit"
)

const c42Rule = "a generated KafscaleCluster (+topics) is reconciled 3 times - 8 to 12 times in a share of the cases - by the operator's own code on one recording fake API server with a generated operator environment; a share of the cases names an external etcd through 2-5 distinct endpoints (in spec.etcd.endpoints or in the operator's endpoint variable), listed in PRNG order with repeated, blank-padded and empty entries; oracle: in every pass after the first no create/update/patch/delete of any generated object (StatefulSet, Deployment, Service, HPA, PDB, CronJob, ...) succeeds, and the full listing of generated objects (content and resourceVersion) equals the listing after the pass before (hence after pass 1); the same (cluster, environment) rendered into further fresh API servers - one of them pre-populated with unrelated objects - yields byte-identical objects (JSON, resourceVersion ignored). Status sub-resource writes on the cluster itself are not generated objects and are not judged"

var c42Assumptions = []string{
	"API server = controller-runtime fake client v0.23 (no admission defaulting, resourceVersion bumps on every successful update)",
	"a delete that answers NotFound changed nothing and is only counted",
	"package-level image variables (BROKER_IMAGE, LFS_PROXY_IMAGE...) are read once at process start and are constant during a run",
}

type c42Ctx struct {
	r   *verifkit.Run
	ci  int
	oc  *opCase
	env map[string]string
	via string
	tag string // class prefix: "" for the plain repeat, "after_fault_" for passes that follow an injected API failure
}

func (x *c42Ctx) replay(extra map[string]any) map[string]any {
	m := map[string]any{"case": x.ci, "via": x.via, "env": x.env, "phase": x.tag}
	for k, v := range opDescribe(x.oc) {
		m[k] = v
	}
	for k, v := range extra {
		m[k] = v
	}
	return m
}

// c42JudgePass inspects what pass n (n>=2) wrote and whether the objects moved.
func (x *c42Ctx) judgePass(n int, writes []opWrite, before, after map[string]opObj) {
	r := x.r
	for _, w := range writes {
		if !opIsGenerated(w.Kind) {
			r.Count("status_or_owner_writes_ignored", 1)
			continue
		}
		if w.Err != "" {
			r.Count("noop_failed_write_attempts", 1) // e.g. delete of an absent legacy object: NotFound
			continue
		}
		verb := strings.SplitN(w.Verb, "/", 2)[0]
		r.Violation(fmt.Sprintf("%slater_pass_%s_%s", x.tag, verb, w.Kind),
			fmt.Sprintf("reconcile pass %d of an unchanged cluster performed %s on generated %s %s", n, w.Verb, w.Kind, w.Key),
			x.replay(map[string]any{"pass": n, "writes": writes, "diff": opDiff(before, after, true)}))
	}
	for kind, lines := range c42ByKind(opDiff(before, after, true)) {
		r.Violation(x.tag+"objects_changed_in_later_pass_"+kind,
			fmt.Sprintf("generated %s objects differ after pass %d: %s", kind, n, strings.Join(lines, " | ")),
			x.replay(map[string]any{"pass": n, "diff": lines, "writes": writes}))
	}
}

func c42FreshWhat(k int) string {
	if k == 0 {
		return "state reached by reconciling again after an injected API failure"
	}
	return fmt.Sprintf("render #%d into a fresh API server", k)
}

// c42ByKind groups opDiff lines ("content: Service ns/name ...") by object kind.
func c42ByKind(diff []string) map[string][]string {
	out := map[string][]string{}
	for _, line := range diff {
		f := strings.Fields(line)
		kind := "unknown"
		if len(f) >= 2 {
			kind = f[1]
		}
		out[kind] = append(out[kind], line)
	}
	return out
}

func (x *c42Ctx) judgeFresh(k int, base, fresh map[string]opObj) {
	for kind, lines := range c42ByKind(opDiff(base, fresh, false)) {
		x.r.Violation(x.tag+"fresh_renders_differ_"+kind,
			fmt.Sprintf("%s: %s objects differ from the reference render of the same cluster and environment: %s", c42FreshWhat(k), kind, strings.Join(lines, " | ")),
			x.replay(map[string]any{"render": k, "diff": lines}))
	}
}

// c42FaultPhase enumerates every point at which pass 1 can lose a write: for
// each k-th create/update of a generated object and both failure modes
// (rejected / applied-but-reported-failed) a fresh API server runs a failing
// pass, then the operator reconciles again without faults. The state reached
// must be the fault-free render (content), and one more pass must be a no-op.
func c42FaultPhase(ctx context.Context, t *testing.T, x *c42Ctx, newClient func(*opRecorder) client.Client, run func(client.Client) error, base map[string]opObj, nWrites int) {
	r := x.r
	fx := *x
	fx.tag = "after_fault_"
	for mode := 1; mode <= 2; mode++ {
		for k := 1; k <= nWrites; k++ {
			rec := &opRecorder{FaultAt: k, FaultMode: mode}
			c := newClient(rec)
			err := run(c)
			if !rec.Fired {
				r.Count("fault_points_not_reached", 1)
				continue
			}
			r.Count(fmt.Sprintf("faults_injected_mode%d", mode), 1)
			if err == nil {
				r.Count("obs_injected_failure_swallowed", 1) // the operator ignored a failed write
			}
			rec.disarm()
			rec.take()
			if err := run(c); err != nil {
				r.Inconclusive(fmt.Sprintf("case %d: reconcile after injected failure (mode %d, write %d) failed: %v", x.ci, mode, k, err))
				continue
			}
			rec.take()
			s := opSnapshot(ctx, t, c)
			fx.via = fmt.Sprintf("%s; write #%d of pass 1 failed (mode %d), then reconciled again", x.via, k, mode)
			fx.judgeFresh(0, base, s)
			if err := run(c); err != nil {
				r.Inconclusive(fmt.Sprintf("case %d: pass after recovery failed: %v", x.ci, err))
				continue
			}
			fx.judgePass(3, rec.take(), s, opSnapshot(ctx, t, c))
			r.Count("fault_recoveries_judged", 1)
		}
	}
}

// c42HistoryProbe is an observation, not part of the verdict: the stored
// cluster is edited to a second generated spec (same name) and reconciled; the
// result is compared with a fresh render of that second spec. Differences are
// fields the operator never clears (the statement quantifies over one
// unchanged resource, so they are only counted and sampled).
func c42HistoryProbe(ctx context.Context, t *testing.T, x *c42Ctx, c client.Client, newClient func(*opRecorder, *opCase) client.Client, run func(client.Client) error, oc2 *opCase) {
	r := x.r
	key := types.NamespacedName{Namespace: x.oc.Cluster.Namespace, Name: x.oc.Cluster.Name}
	var stored kafscalev1alpha1.KafscaleCluster
	if err := c.Get(ctx, key, &stored); err != nil {
		return
	}
	stored.Spec = *oc2.Cluster.Spec.DeepCopy()
	if err := c.Update(ctx, &stored); err != nil {
		return
	}
	if err := run(c); err != nil {
		return
	}
	edited := opSnapshot(ctx, t, c)
	fc := newClient(&opRecorder{}, oc2)
	if err := run(fc); err != nil {
		return
	}
	fresh := opSnapshot(ctx, t, fc)
	r.Count("obs_spec_edits_probed", 1)
	d := opDiff(fresh, edited, false)
	if len(d) == 0 {
		return
	}
	r.Count("obs_spec_edit_leaves_history_dependent_objects", 1)
	for kind := range c42ByKind(d) {
		r.Seen("obs_history_dependent_kinds", kind)
	}
	c42HistoryNotes.Lock()
	if len(c42HistoryNotes.lines) < 6 {
		c42HistoryNotes.lines = append(c42HistoryNotes.lines, d[0])
		r.Note("obs_history_dependent_examples", append([]string(nil), c42HistoryNotes.lines...))
	}
	c42HistoryNotes.Unlock()
}

var c42HistoryNotes struct {
	sync.Mutex
	lines []string
}

// unrelated objects that must not influence what is rendered for the cluster
func c42Bystanders(oc *opCase) []client.Object {
	other := oc.Cluster.DeepCopy()
	other.Name = "zz-" + oc.Cluster.Name
	if len(other.Name) > 253 {
		other.Name = "zz-other"
	}
	other.UID = "uid-other"
	three := int32(5)
	other.Spec.Brokers.Replicas = &three
	other.Spec.Brokers.AdvertisedHost = "other.example.com"
	return []client.Object{
		other,
		&corev1.ConfigMap{ObjectMeta: metav1.ObjectMeta{Name: "bystander", Namespace: oc.Cluster.Namespace}, Data: map[string]string{"k": "v"}},
		&corev1.Service{ObjectMeta: metav1.ObjectMeta{Name: "bystander-svc", Namespace: oc.Cluster.Namespace, Labels: map[string]string{"app": "kafscale-broker", "cluster": "someone-else"}},
			Spec: corev1.ServiceSpec{Ports: []corev1.ServicePort{{Name: "kafka", Port: 9092}}}},
	}
}

func c42DropBystanders(s map[string]opObj) {
	for k := range s {
		if strings.Contains(k, "/bystander") {
			delete(s, k)
		}
	}
}

func c42Generated(writes []opWrite, verb string) int {
	n := 0
	for _, w := range writes {
		if w.Err == "" && opIsGenerated(w.Kind) && w.Verb == verb {
			n++
		}
	}
	return n
}

// ---------------------------------------------------------------- leg 1: managed etcd + LFS proxy + environment, sub-reconcilers

func TestVerifC42Parts(t *testing.T) {
	r := verifkit.Start(t, "C42", "parts")
	defer r.Finish("[EnsureEtcd (managed etcd, or in a third of the cases an external etcd named by 2-5 endpoints that nothing dials) + broker/LFS/HPA sub-reconcilers in Reconcile's order; S3 pre-flight, etcd health poll, publish and status writes left out because the etcd endpoints are not reachable offline] "+c42Rule+" ;; [fault enumeration on the first cases] for every k-th create/update of pass 1 and both failure modes (rejected; applied but reported failed) a fresh server runs the failing pass, then reconciles again: the state reached must equal the fault-free render and the following pass must write nothing ;; [observation only, never a violation] the cluster is then edited to a second spec and compared with a fresh render of it (counters obs_*)", c42Assumptions...)
	opRegisterEnv(t)
	scheme := opScheme(t)
	ctx := context.Background()
	n := r.N(45, 1000)
	nFault := r.N(3, 80) // the first directed case and the first generated ones also get the fault enumeration
	for ci := 0; ci < n; ci++ {
		rng := r.Rand(ci)
		env := opGenEnv(rng)
		delete(env, operatorEtcdEndpointsEnv)
		// a third of the cases: external etcd named by several endpoints (nothing dials them in this leg)
		o := opGenOpts{}
		external, distinct := "", 0
		faultCase := ci == 0 || (ci >= len(opDirected()) && ci < len(opDirected())+nFault-1)
		draw := rng.Intn(6)
		if faultCase {
			draw = 5 // the fault enumeration keeps running on managed-etcd clusters (most generated objects, most write points)
		}
		switch draw {
		case 0:
			o.EtcdEndpoints, distinct = opGenEndpointList(rng, opFakeEndpoints)
			external = "spec"
		case 1:
			var list []string
			list, distinct = opGenEndpointList(rng, opFakeEndpoints)
			env[operatorEtcdEndpointsEnv] = strings.Join(list, ",")
			external = "env"
		}
		passes := 3
		if rng.Intn(5) == 0 || (external != "" && rng.Intn(2) == 0) {
			passes = 8 + rng.Intn(5)
		}
		oc := opGenCluster(rng, o)
		if d := opDirected(); ci < len(d) {
			oc = d[ci]
			oc.Cluster.Spec.Etcd.Endpoints = append([]string(nil), o.EtcdEndpoints...)
		}
		if roc, renv := opFromReplay(verifkit.Replay()); roc != nil && ci == 0 {
			oc, env = roc, renv
			passes = 12
			external, distinct = "", 0
			if len(cleanEndpointsRef(roc.Cluster.Spec.Etcd.Endpoints)) > 0 {
				external, distinct = "spec", len(cleanEndpointsRef(roc.Cluster.Spec.Etcd.Endpoints))
			} else if l := cleanEndpointsRef(strings.Split(env[operatorEtcdEndpointsEnv], ",")); len(l) > 0 {
				external, distinct = "env", len(l)
			}
			r.Count("replayed_cases", 1)
		}
		x := &c42Ctx{r: r, ci: ci, oc: oc, env: env, via: fmt.Sprintf("sub-reconcilers, %d passes", passes)}
		if external != "" {
			r.Count("cases_external_etcd_several_endpoints", 1)
			r.Count("cases_external_etcd_via_"+external, 1)
			r.Seen("distinct_endpoints_per_case", fmt.Sprint(distinct))
		}
		if passes > 3 {
			r.Count("cases_with_8_to_12_passes", 1)
		}
		opSetEnv(env)
		key := types.NamespacedName{Namespace: oc.Cluster.Namespace, Name: oc.Cluster.Name}

		run := func(c client.Client) (err error) {
			defer func() {
				if p := recover(); p != nil {
					err = fmt.Errorf("panic: %v", p)
				}
			}()
			rc := &ClusterReconciler{Client: c, Scheme: scheme, Publisher: NewSnapshotPublisher(c)}
			_, err = opReconcileParts(ctx, rc, key)
			return err
		}

		rec := &opRecorder{}
		c := opNewClient(scheme, rec, opObjects(oc)...)
		if err := run(c); err != nil {
			r.Count("reconcile_errors", 1)
			r.Case("err", false)
			r.Inconclusive(fmt.Sprintf("case %d: pass 1 failed: %v", ci, err))
			continue
		}
		w1 := rec.take()
		s1 := opSnapshot(ctx, t, c)
		r.Count("pass1_creates", int64(c42Generated(w1, "create")))
		r.Seen("objects_per_cluster", fmt.Sprint(len(s1)))
		for k := range s1 {
			r.Seen("generated_object_kinds", strings.Fields(k)[0])
		}
		prev := s1
		ok := true
		for pass := 2; pass <= passes; pass++ {
			if err := run(c); err != nil {
				r.Inconclusive(fmt.Sprintf("case %d: pass %d failed: %v", ci, pass, err))
				ok = false
				break
			}
			w := rec.take()
			s := opSnapshot(ctx, t, c)
			x.judgePass(pass, w, prev, s)
			r.Count("later_passes_judged", 1)
			prev = s
		}
		// fresh renders of the same input: empty server, then a server with bystanders
		for k := 1; k <= 2 && ok; k++ {
			objs := opObjects(oc)
			if k >= 2 {
				objs = append(objs, c42Bystanders(oc)...)
			}
			fc := opNewClient(scheme, &opRecorder{}, objs...)
			if err := run(fc); err != nil {
				r.Inconclusive(fmt.Sprintf("case %d: fresh render %d failed: %v", ci, k, err))
				break
			}
			fs := opSnapshot(ctx, t, fc)
			c42DropBystanders(fs)
			x.judgeFresh(k, s1, fs)
			r.Count("fresh_renders_compared", 1)
		}
		if ok && faultCase {
			nw := c42Generated(w1, "create") + c42Generated(w1, "update")
			c42FaultPhase(ctx, t, x, func(rec *opRecorder) client.Client { return opNewClient(scheme, rec, opObjects(oc)...) }, run, s1, nw)
			r.Count("fault_cases", 1)
		}
		if ok {
			oc2 := opGenCluster(r.Rand(1<<21+ci), opGenOpts{})
			oc2.Cluster.Namespace, oc2.Cluster.Name, oc2.Cluster.UID = oc.Cluster.Namespace, oc.Cluster.Name, oc.Cluster.UID
			oc2.Topics, oc2.Decoys = nil, nil
			c42HistoryProbe(ctx, t, x, c, func(rec *opRecorder, o *opCase) client.Client { return opNewClient(scheme, rec, opObjects(o)...) }, run, oc2)
		}
		if oc.Cluster.Spec.LfsProxy.Enabled {
			r.Count("cases_lfs_enabled", 1)
		}
		if len(env) > 0 {
			r.Count("cases_with_operator_env", 1)
		}
		minObjs := 5
		if external != "" {
			minObjs = 4 // no managed-etcd objects: broker StatefulSet, two Services, HPA (+ LFS proxy objects)
		}
		r.Case(verifkit.Hash(opDescribe(oc), env, passes), ok && len(s1) >= minObjs)
		if ci < 2 {
			var keys []string
			for k := range s1 {
				keys = append(keys, k)
			}
			sort.Strings(keys)
			r.Sample(map[string]any{"case": opDescribe(oc), "env": env, "generated_objects": keys})
		}
	}
	r.Floor("later_passes_judged", int64(2*n*9/10))
	r.Floor("fresh_renders_compared", int64(2*n*9/10))
	r.Floor("fault_recoveries_judged", int64(nFault*10))
	r.Floor("cases_lfs_enabled", 5)
	r.Floor("cases_with_operator_env", 10)
	r.Floor("pass1_creates", int64(5*n))
	r.Floor("cases_external_etcd_several_endpoints", int64(n/6))
	r.Floor("cases_with_8_to_12_passes", int64(n/8))
}

// cleanEndpointsRef: the distinct non-blank entries, for evidence counters only (never for a verdict).
func cleanEndpointsRef(list []string) []string {
	seen := map[string]bool{}
	var out []string
	for _, e := range list {
		e = strings.TrimSpace(e)
		if e != "" && !seen[e] {
			seen[e] = true
			out = append(out, e)
		}
	}
	return out
}

// ---------------------------------------------------------------- leg 2: the full Reconcile against an embedded etcd

func TestVerifC42Full(t *testing.T) {
	r := verifkit.Start(t, "C42", "full")
	defer r.Finish("[full ClusterReconciler.Reconcile, external etcd given in the spec or through "+operatorEtcdEndpointsEnv+", embedded etcd so that publish succeeds; in 6 of 10 cases that one etcd is named by 2-5 distinct endpoint spellings (with/without scheme, 127.0.0.1/localhost, ::1 where it listens; each probed with a real Get before use)] "+c42Rule, c42Assumptions...)
	opRegisterEnv(t)
	opScratchTmp(t)
	endpoints := testutil.StartEmbeddedEtcd(t)
	cli, err := clientv3.New(clientv3.Config{Endpoints: endpoints, DialTimeout: 5 * time.Second})
	if err != nil {
		t.Fatalf("etcd client: %v", err)
	}
	defer cli.Close()
	scheme := opScheme(t)
	ctx := context.Background()
	opSetEnv(nil)
	spellings := opLiveEndpointSpellings(t, endpoints[0])
	r.Note("live_endpoint_spellings", spellings)
	if len(spellings) < 2 {
		r.Inconclusive("the embedded etcd is reachable through one endpoint spelling only: no case with several distinct endpoints can run")
	}
	n := r.N(30, 500)
	for ci := 0; ci < n; ci++ {
		rng := r.Rand(ci)
		env := opGenEnv(rng)
		env[operatorEtcdSilenceLogsEnv] = "true"
		o := opGenOpts{}
		viaSpec := rng.Intn(2) == 0
		list := endpoints
		if viaSpec {
			list = append([]string{" " + endpoints[0] + " "}, endpoints...) // cleanEndpoints trims and de-duplicates
		}
		distinct, passes := 1, 3
		if several := rng.Intn(10) < 6; several && len(spellings) >= 2 {
			// the same etcd named by 2-5 distinct endpoints (spellings that all reach it), dirty list
			list, distinct = opGenEndpointList(rng, spellings)
		}
		if rng.Intn(6) == 0 || (distinct > 1 && rng.Intn(5) < 2) {
			passes = 8 + rng.Intn(5)
		}
		if viaSpec {
			o.EtcdEndpoints = list
			delete(env, operatorEtcdEndpointsEnv)
		} else {
			env[operatorEtcdEndpointsEnv] = strings.Join(list, ",")
		}
		oc := opGenCluster(rng, o)
		if roc, renv := opFromReplay(verifkit.Replay()); roc != nil && ci == 0 {
			for k, v := range renv {
				if k != operatorEtcdEndpointsEnv {
					env[k] = v
				}
			}
			// the witness's endpoints belong to the etcd of its own run: name this run's etcd by as many endpoints
			n := len(cleanEndpointsRef(roc.Cluster.Spec.Etcd.Endpoints))
			if l := cleanEndpointsRef(strings.Split(renv[operatorEtcdEndpointsEnv], ",")); len(l) > n {
				n = len(l)
			}
			if n < 1 {
				n = 1
			}
			if n > len(spellings) {
				n = len(spellings)
			}
			roc.Cluster.Spec.Etcd.Endpoints = append([]string(nil), spellings[:n]...)
			delete(env, operatorEtcdEndpointsEnv)
			oc, distinct, passes = roc, n, 12
			r.Count("replayed_cases", 1)
		}
		x := &c42Ctx{r: r, ci: ci, oc: oc, env: env, via: fmt.Sprintf("Reconcile, %d passes", passes)}
		if distinct > 1 {
			r.Count("cases_external_etcd_several_endpoints", 1)
			r.Seen("distinct_endpoints_per_case", fmt.Sprint(distinct))
		}
		if passes > 3 {
			r.Count("cases_with_8_to_12_passes", 1)
		}
		opSetEnv(env)
		dctx, cancel := context.WithTimeout(ctx, 20*time.Second)
		_, derr := cli.Delete(dctx, "/kafscale/metadata/snapshot")
		cancel()
		if derr != nil {
			r.Inconclusive(fmt.Sprintf("case %d: etcd delete: %v", ci, derr))
			continue
		}
		key := types.NamespacedName{Namespace: oc.Cluster.Namespace, Name: oc.Cluster.Name}
		run := func(c client.Client) (err error) {
			defer func() {
				if p := recover(); p != nil {
					err = fmt.Errorf("panic: %v", p)
				}
			}()
			rc := &ClusterReconciler{Client: c, Scheme: scheme, Publisher: NewSnapshotPublisher(c)}
			rctx, rcancel := context.WithTimeout(ctx, 60*time.Second)
			defer rcancel()
			res, err := rc.Reconcile(rctx, reconcile.Request{NamespacedName: key})
			if err == nil && res.RequeueAfter != 0 {
				err = fmt.Errorf("publish failed, requeue after %v", res.RequeueAfter)
			}
			return err
		}
		rec := &opRecorder{}
		c := opNewClient(scheme, rec, opObjects(oc)...)
		if err := run(c); err != nil {
			r.Count("reconcile_errors", 1)
			r.Case("err", false)
			r.Inconclusive(fmt.Sprintf("case %d: pass 1 failed: %v", ci, err))
			continue
		}
		w1 := rec.take()
		s1 := opSnapshot(ctx, t, c)
		r.Count("pass1_creates", int64(c42Generated(w1, "create")))
		for k := range s1 {
			r.Seen("generated_object_kinds", strings.Fields(k)[0])
		}
		prev := s1
		ok := true
		for pass := 2; pass <= passes; pass++ {
			if err := run(c); err != nil {
				r.Inconclusive(fmt.Sprintf("case %d: pass %d failed: %v", ci, pass, err))
				ok = false
				break
			}
			w := rec.take()
			s := opSnapshot(ctx, t, c)
			x.judgePass(pass, w, prev, s)
			r.Count("later_passes_judged", 1)
			prev = s
		}
		if ok {
			fc := opNewClient(scheme, &opRecorder{}, append(opObjects(oc), c42Bystanders(oc)...)...)
			if err := run(fc); err != nil {
				r.Inconclusive(fmt.Sprintf("case %d: fresh render failed: %v", ci, err))
			} else {
				fs := opSnapshot(ctx, t, fc)
				c42DropBystanders(fs)
				x.judgeFresh(1, s1, fs)
				r.Count("fresh_renders_compared", 1)
			}
		}
		var stored kafscalev1alpha1.KafscaleCluster
		if err := c.Get(ctx, key, &stored); err == nil && stored.Status.Phase == "Ready" {
			r.Count("cases_ready", 1)
		}
		r.Case(verifkit.Hash(opDescribe(oc), env, passes), ok && len(s1) >= 4)
		if ci < 1 {
			var keys []string
			for k := range s1 {
				keys = append(keys, k)
			}
			sort.Strings(keys)
			r.Sample(map[string]any{"case": opDescribe(oc), "env": env, "generated_objects": keys})
		}
	}
	r.Floor("later_passes_judged", int64(2*n*9/10))
	r.Floor("cases_ready", int64(n*9/10))
	r.Floor("cases_external_etcd_several_endpoints", int64(n/3))
	r.Floor("cases_with_8_to_12_passes", int64(n/8))
}
