//go:build verif

package operator

// C39, publish leg, second phase: publish histories in which the snapshot key
// is not only the operator's. Between two operator publishes
//   - the BROKER side rewrites /kafscale/metadata/snapshot through the real
//     metadata.EtcdStore (CreatePartitions on a declared or an undeclared topic,
//     CreateTopic, DeleteTopic): topics and partition counts the KafscaleTopic
//     resources do not declare, or declare differently, and
//   - the resources change (spec.brokers.replicas down and up, KafscaleTopic
//     added / removed / re-added / resized up and down).
// Every snapshot an operator publish leaves under the key is judged by c39Judge
// against the LATEST resources and the objects rendered for them, exactly like
// the snapshots of the first phase.

import (
	"context"
	"encoding/json"
	"fmt"
	"math/rand"
	"sort"
	"strconv"
	"strings"
	"testing"
	"time"

	metav1 "k8s.io/apimachinery/pkg/apis/meta/v1"
	"k8s.io/apimachinery/pkg/runtime"
	"k8s.io/apimachinery/pkg/types"
	"sigs.k8s.io/controller-runtime/pkg/reconcile"

	clientv3 "go.etcd.io/etcd/client/v3"

	kafscalev1alpha1 "github.com/KafScale/platform/api/v1alpha1"
	"github.com/KafScale/platform/internal/verifkit"
	"github.com/KafScale/platform/pkg/metadata"
)

const c39BrokerRule = "[broker-writer histories, same embedded etcd] PRNG histories of 2-9 steps after a first publish of a cluster with 2-7 explicit broker replicas and 1-5 topics: BETWEEN operator publishes the snapshot key is rewritten by the broker side through the real metadata.EtcdStore (one fresh store per write, refreshed from etcd first: CreatePartitions on a topic a KafscaleTopic declares, CreatePartitions on a topic no resource declares, CreateTopic, DeleteTopic) and the resources are edited (spec.brokers.replicas down and up; a KafscaleTopic added - new name, the name of a broker-created topic, or a removed one re-added with another count -, removed, resized up, resized DOWN); a quarter of the histories are free draws, the others are drawn around the pattern <the stored entry of a declared topic stops matching its resource (broker grows or deletes it, resource resized down)> ... <the broker set changes>, with free steps before, between and after; a cluster edit is published by ClusterReconciler.Reconcile, a topic edit by TopicReconciler.Reconcile or ClusterReconciler.Reconcile, a quarter of the broker writes are followed by a publish without any edit; EVERY snapshot a publish leaves under the key is read back and judged by the same oracle against the latest resources and rendered objects (class prefix after_broker_write_ once a broker-side write changed the key in that history, after_spec_edit_ before); where the key held MORE partitions for a declared topic than its resource declares right before the publish (broker CreatePartitions, resource resized down) the published count may be the declared or the stored one (the statement fixes numbering and leaders, not the count; Kafka never shrinks a topic), everywhere else it is the declared one; topics of the published snapshot that no resource declares (broker-created, resource removed) and replica/ISR lists are observations only (obs_*)"

// c39ReadStored reads what is under the snapshot key right now (found=false: no key).
func c39ReadStored(ctx context.Context, cli *clientv3.Client) (meta metadata.ClusterMetadata, found bool, err error) {
	gctx, cancel := context.WithTimeout(ctx, 20*time.Second)
	defer cancel()
	resp, err := cli.Get(gctx, c39SnapshotKey)
	if err != nil {
		return meta, false, err
	}
	if len(resp.Kvs) == 0 {
		return meta, false, nil
	}
	if err := json.Unmarshal(resp.Kvs[0].Value, &meta); err != nil {
		return meta, true, err
	}
	return meta, true, nil
}

func c39PartsOf(meta metadata.ClusterMetadata, topic string) int {
	for _, tp := range meta.Topics {
		if tp.Topic != nil && *tp.Topic == topic {
			return len(tp.Partitions)
		}
	}
	return -1
}

func c39TopicsSig(meta metadata.ClusterMetadata) string {
	var out []string
	for _, tp := range meta.Topics {
		if tp.Topic != nil {
			out = append(out, *tp.Topic+"="+strconv.Itoa(len(tp.Partitions)))
		}
	}
	sort.Strings(out)
	return strings.Join(out, ",")
}

// c39BH is one broker-writer history.
type c39BH struct {
	q         *c39Seq
	endpoints []string
	hi        int
	origin    map[string]string // topic no resource declares -> how it came under the key: crd_removed | broker_created
	removed   []*kafscalev1alpha1.KafscaleTopic
	applied   int // broker-side writes that changed the key
	replDown  int // published replica reductions
	replUp    int
	judged    int
	aborted   bool
}

func (h *c39BH) note(s string) { h.q.hist.Steps = append(h.q.hist.Steps, s) }

func (h *c39BH) declared(name string) *kafscalev1alpha1.KafscaleTopic {
	for _, tp := range h.q.oc.Topics {
		if tp.Name == name {
			return tp
		}
	}
	return nil
}

func (h *c39BH) undeclaredStored(stored metadata.ClusterMetadata) []string {
	var out []string
	for _, tp := range stored.Topics {
		if tp.Topic != nil && *tp.Topic != "" && h.declared(*tp.Topic) == nil {
			out = append(out, *tp.Topic)
		}
	}
	sort.Strings(out)
	return out
}

// brokerWrite performs one broker-side admin write the way a broker does: an
// EtcdStore on the same etcd, its copy refreshed from the key, one call. The
// reply of the call decides nothing here (C21 judges the broker side); what
// counts is what is under the key afterwards.
func (h *c39BH) brokerWrite(ctx context.Context, what string, op func(context.Context, *metadata.EtcdStore) error) bool {
	r := h.q.r
	before, _, err := c39ReadStored(ctx, h.q.cli)
	if err != nil {
		r.Count("broker_writes_skipped_etcd_error", 1)
		return false
	}
	octx, cancel := context.WithTimeout(ctx, 30*time.Second)
	defer cancel()
	store, err := metadata.NewEtcdStore(octx, metadata.ClusterMetadata{}, metadata.EtcdStoreConfig{Endpoints: h.endpoints})
	if err != nil {
		r.Count("broker_writes_skipped_etcd_error", 1)
		return false
	}
	if err := store.RefreshSnapshot(octx); err != nil {
		_ = store.Close()
		r.Count("broker_writes_skipped_etcd_error", 1)
		return false
	}
	var operr error
	func() {
		defer func() {
			if p := recover(); p != nil {
				operr = fmt.Errorf("panic: %v", p)
			}
		}()
		operr = op(octx, store)
	}()
	_ = store.Close()
	after, _, err := c39ReadStored(ctx, h.q.cli)
	if err != nil {
		r.Count("broker_writes_skipped_etcd_error", 1)
		return false
	}
	changed := c39TopicsSig(before) != c39TopicsSig(after)
	res := "ok"
	if operr != nil {
		res = "error: " + operr.Error()
	}
	h.note(fmt.Sprintf("broker: %s -> %s; key now holds {%s}", what, res, c39TopicsSig(after)))
	r.Count("broker_writes", 1)
	if changed {
		h.applied++
		r.Count("broker_writes_applied", 1)
		h.q.hist.Tag = "after_broker_write_"
	}
	return changed
}

func (h *c39BH) replicas() int32 {
	if rep := h.q.oc.Cluster.Spec.Brokers.Replicas; rep != nil {
		return *rep
	}
	return 1 // not reached: the histories always carry an explicit replica count
}

// publish: one operator publish (via == nil: ClusterReconciler) judged against the latest resources.
func (h *c39BH) publish(ctx context.Context, via *kafscalev1alpha1.KafscaleTopic) bool {
	q, r := h.q, h.q.r
	stored, _, err := c39ReadStored(ctx, q.cli)
	if err != nil {
		r.Count("edit_publish_errors", 1)
		h.aborted = true
		return false
	}
	q.hist.StoredBefore = map[string]int{}
	want := h.replicas()
	staleDeclared, staleLonger, longer := false, false, false
	for _, tp := range stored.Topics {
		if tp.Topic == nil {
			continue
		}
		q.hist.StoredBefore[*tp.Topic] = len(tp.Partitions)
		d := h.declared(*tp.Topic)
		if d == nil {
			continue
		}
		stale := false
		for _, p := range tp.Partitions {
			if p.Leader >= want || p.Leader < 0 {
				stale = true
			}
		}
		if len(tp.Partitions) > int(d.Spec.Partitions) {
			longer = true
			if stale {
				staleLonger = true
			}
		}
		if stale {
			staleDeclared = true
		}
	}
	name := "ClusterReconciler"
	if via != nil {
		name = "TopicReconciler(" + via.Name + ")"
	}
	h.note(fmt.Sprintf("operator publish through %s with spec.brokers.replicas=%d", name, want))
	_, _, n0 := c39RenderedAddr(q.rd)
	if !q.publishAndJudge(ctx, via) {
		h.aborted = true
		return false
	}
	h.judged++
	r.Count("history_publishes_judged", 1)
	if len(h.undeclaredStored(stored)) > 0 {
		r.Count("history_publishes_over_a_key_holding_undeclared_topics", 1)
	}
	if longer {
		r.Count("history_publishes_over_a_longer_stored_partition_list_of_a_declared_topic", 1)
	}
	if staleDeclared {
		r.Count("history_publishes_over_a_stored_declared_topic_led_by_a_broker_outside_the_spec", 1)
	}
	if staleLonger {
		r.Count("history_publishes_over_a_longer_stored_partition_list_led_by_a_broker_outside_the_spec", 1)
	}
	_, _, n1 := c39RenderedAddr(q.rd)
	if a, e1 := strconv.Atoi(n0); e1 == nil {
		if b, e2 := strconv.Atoi(n1); e2 == nil && a != b {
			if b < a {
				h.replDown++
				r.Count("history_publishes_where_replicas_went_down", 1)
			} else {
				h.replUp++
				r.Count("history_publishes_where_replicas_went_up", 1)
			}
		}
	}
	// topics no resource declares: leaders are judged, replica lists are observations
	ids := map[int32]bool{}
	for _, b := range q.last.Brokers {
		ids[b.NodeID] = true
	}
	for _, tp := range q.last.Topics {
		if tp.Topic == nil {
			continue
		}
		if h.declared(*tp.Topic) != nil {
			for _, p := range tp.Partitions {
				bad := false
				for _, id := range append(append([]int32(nil), p.Replicas...), p.ISR...) {
					if !ids[id] {
						bad = true
					}
				}
				if bad {
					r.Count("obs_declared_topic_replica_or_isr_outside_brokers", 1)
					break
				}
			}
			continue
		}
		r.Count("obs_undeclared_topics_published", 1)
		org := h.origin[*tp.Topic]
		if org == "" {
			org = "unknown_origin"
		}
		for _, p := range tp.Partitions {
			if !ids[p.Leader] {
				// "every partition leader is one of those brokers" holds for every topic of the published metadata,
				// also for one that the operator merely carries over from the stored snapshot
				r.Count("undeclared_topic_leader_outside_brokers_"+org, 1)
				r.Violation("leader_not_a_listed_broker:topic_carried_over_from_the_stored_snapshot:"+org,
					fmt.Sprintf("published topic %q (no resource declares it; origin %s) partition %d is led by broker %d, which is not one of the %d published brokers", *tp.Topic, org, p.Partition, p.Leader, len(q.last.Brokers)),
					map[string]any{"history": q.hist})
				break
			}
		}
	}
	return true
}

func (h *c39BH) editCluster(ctx context.Context, to int32) bool {
	q := h.q
	key := types.NamespacedName{Namespace: q.oc.Cluster.Namespace, Name: q.oc.Cluster.Name}
	var cur kafscalev1alpha1.KafscaleCluster
	if err := q.c.Get(ctx, key, &cur); err != nil {
		q.t.Fatalf("get cluster: %v", err)
	}
	old := c39RepStr(cur.Spec.Brokers.Replicas)
	cur.Spec.Brokers.Replicas = opI32(to)
	if err := q.c.Update(ctx, &cur); err != nil {
		q.t.Fatalf("update cluster: %v", err)
	}
	q.oc.Cluster.Spec.Brokers = *cur.Spec.Brokers.DeepCopy()
	h.note(fmt.Sprintf("edit: spec.brokers.replicas %s -> %d", old, to))
	return true
}

// step performs one step of kind; it returns false when the history cannot go on.
func (h *c39BH) step(ctx context.Context, rng *rand.Rand, kind string, step int) bool {
	q, r := h.q, h.q.r
	quiet := strings.HasSuffix(kind, "!") // no periodic reconcile right after this broker write
	kind = strings.TrimSuffix(kind, "!")
	stored, _, err := c39ReadStored(ctx, q.cli)
	if err != nil {
		h.aborted = true
		return false
	}
	pickDeclared := func() *kafscalev1alpha1.KafscaleTopic {
		if len(q.oc.Topics) == 0 {
			return nil
		}
		return q.oc.Topics[rng.Intn(len(q.oc.Topics))]
	}
	viaFor := func(tp *kafscalev1alpha1.KafscaleTopic) *kafscalev1alpha1.KafscaleTopic {
		if rng.Intn(2) == 0 {
			return tp
		}
		return nil
	}
	afterBrokerWrite := func() bool {
		// a periodic reconcile may or may not come before the next change
		if quiet || rng.Intn(4) != 0 {
			return true
		}
		var via *kafscalev1alpha1.KafscaleTopic
		if tp := pickDeclared(); tp != nil {
			via = viaFor(tp)
		}
		return h.publish(ctx, via)
	}
	r.Count("steps_"+kind, 1)
	switch kind {
	case "broker_grow_declared", "broker_grow_undeclared":
		name := ""
		if kind == "broker_grow_declared" {
			if tp := pickDeclared(); tp != nil {
				name = tp.Name
			}
		} else if und := h.undeclaredStored(stored); len(und) > 0 {
			name = und[rng.Intn(len(und))]
		}
		add := int32(1 + rng.Intn(6))
		m := c39PartsOf(stored, name)
		if name == "" || m < 0 {
			return true // nothing to grow
		}
		to := int32(m) + add
		h.brokerWrite(ctx, fmt.Sprintf("CreatePartitions(%q, %d -> %d)", name, m, to), func(c context.Context, s *metadata.EtcdStore) error {
			return s.CreatePartitions(c, name, to)
		})
		return afterBrokerWrite()
	case "broker_create_topic":
		name := fmt.Sprintf("bk-%d-%d", h.hi, step)
		parts := int32(1 + rng.Intn(8))
		if h.brokerWrite(ctx, fmt.Sprintf("CreateTopic(%q, %d partitions)", name, parts), func(c context.Context, s *metadata.EtcdStore) error {
			_, err := s.CreateTopic(c, metadata.TopicSpec{Name: name, NumPartitions: parts, ReplicationFactor: 1})
			return err
		}) {
			h.origin[name] = "broker_created"
		}
		return afterBrokerWrite()
	case "broker_delete_declared", "broker_delete_any":
		name := ""
		if kind == "broker_delete_declared" {
			if tp := pickDeclared(); tp != nil && c39PartsOf(stored, tp.Name) >= 0 {
				name = tp.Name
			}
		} else {
			var all []string
			for _, tp := range stored.Topics {
				if tp.Topic != nil && *tp.Topic != "" {
					all = append(all, *tp.Topic)
				}
			}
			sort.Strings(all)
			if len(all) > 0 {
				name = all[rng.Intn(len(all))]
			}
		}
		if name == "" {
			return true
		}
		if h.brokerWrite(ctx, fmt.Sprintf("DeleteTopic(%q)", name), func(c context.Context, s *metadata.EtcdStore) error {
			return s.DeleteTopic(c, name)
		}) {
			delete(h.origin, name)
		}
		return afterBrokerWrite()
	case "replicas_down", "replicas_up":
		cur := h.replicas()
		to := cur + int32(1+rng.Intn(4))
		if kind == "replicas_down" && cur >= 2 {
			// the fewer brokers stay, the more stored leaders stop being brokers
			a, b := rng.Intn(int(cur-1)), rng.Intn(int(cur-1))
			if b < a {
				a = b
			}
			to = int32(1 + a)
		}
		h.editCluster(ctx, to)
		return h.publish(ctx, nil)
	case "crd_add":
		name := fmt.Sprintf("added-%d-%d", h.hi, step)
		parts := int32(1 + rng.Intn(12))
		var bk []string
		for n, org := range h.origin {
			if org == "broker_created" && c39PartsOf(stored, n) >= 0 {
				bk = append(bk, n)
			}
		}
		sort.Strings(bk)
		how := "new name"
		switch pick := rng.Intn(3); {
		case pick == 0 && len(bk) > 0:
			name, how = bk[rng.Intn(len(bk))], "name of a topic a broker created"
		case pick == 1 && len(h.removed) > 0:
			i := rng.Intn(len(h.removed))
			name, how = h.removed[i].Name, "a removed resource re-added"
			h.removed = append(h.removed[:i], h.removed[i+1:]...)
		}
		tp := &kafscalev1alpha1.KafscaleTopic{
			ObjectMeta: metav1.ObjectMeta{Namespace: q.oc.Cluster.Namespace, Name: name},
			Spec:       kafscalev1alpha1.KafscaleTopicSpec{ClusterRef: q.oc.Cluster.Name, Partitions: parts},
		}
		if err := q.c.Create(ctx, tp.DeepCopy()); err != nil {
			q.t.Fatalf("create topic: %v", err)
		}
		q.oc.Topics = append(q.oc.Topics, tp)
		delete(h.origin, name)
		h.note(fmt.Sprintf("edit: KafscaleTopic %s added with %d partitions (%s; the key holds %d for it)", name, parts, how, c39PartsOf(stored, name)))
		return h.publish(ctx, viaFor(tp))
	case "crd_remove":
		if len(q.oc.Topics) < 2 {
			return true // keep one declared topic to judge
		}
		i := rng.Intn(len(q.oc.Topics))
		tp := q.oc.Topics[i]
		if err := q.c.Delete(ctx, tp.DeepCopy()); err != nil {
			q.t.Fatalf("delete topic: %v", err)
		}
		q.oc.Topics = append(append([]*kafscalev1alpha1.KafscaleTopic(nil), q.oc.Topics[:i]...), q.oc.Topics[i+1:]...)
		h.removed = append(h.removed, tp)
		if c39PartsOf(stored, tp.Name) >= 0 {
			h.origin[tp.Name] = "crd_removed"
		}
		h.note(fmt.Sprintf("edit: KafscaleTopic %s removed", tp.Name))
		return h.publish(ctx, nil)
	case "crd_resize_up", "crd_resize_down":
		tp := pickDeclared()
		if tp == nil {
			return true
		}
		var cur kafscalev1alpha1.KafscaleTopic
		if err := q.c.Get(ctx, types.NamespacedName{Namespace: tp.Namespace, Name: tp.Name}, &cur); err != nil {
			q.t.Fatalf("get topic: %v", err)
		}
		old := cur.Spec.Partitions
		to := old + int32(1+rng.Intn(4))
		if kind == "crd_resize_down" && old >= 2 {
			to = int32(1 + rng.Intn(int(old-1)))
		}
		cur.Spec.Partitions = to
		if err := q.c.Update(ctx, &cur); err != nil {
			q.t.Fatalf("update topic: %v", err)
		}
		tp.Spec.Partitions = to
		h.note(fmt.Sprintf("edit: KafscaleTopic %s partitions %d -> %d (the key holds %d)", tp.Name, old, to, c39PartsOf(stored, tp.Name)))
		return h.publish(ctx, viaFor(tp))
	case "republish":
		var via *kafscalev1alpha1.KafscaleTopic
		if tp := pickDeclared(); tp != nil {
			via = viaFor(tp)
		}
		return h.publish(ctx, via)
	}
	return true
}

var c39FreeKinds = []string{
	"broker_grow_declared", "broker_grow_declared", "broker_grow_declared", "broker_grow_undeclared",
	"broker_create_topic", "broker_create_topic", "broker_delete_declared", "broker_delete_any",
	"replicas_down", "replicas_down", "replicas_down", "replicas_up",
	"crd_add", "crd_remove", "crd_resize_up", "crd_resize_down", "crd_resize_down", "republish",
}

// c39PlanHistory draws the step kinds of history hi.
func c39PlanHistory(rng *rand.Rand) []string {
	free := func(n int) []string {
		var out []string
		for i := 0; i < n; i++ {
			out = append(out, c39FreeKinds[rng.Intn(len(c39FreeKinds))])
		}
		return out
	}
	if rng.Intn(4) == 0 {
		return free(4 + rng.Intn(6))
	}
	// <stored entry of a declared topic stops matching its resource> ... <the broker set changes>;
	// a trailing "!" = no periodic reconcile right after this broker write
	diverge := []string{"broker_grow_declared!", "broker_grow_declared!", "broker_grow_declared", "crd_resize_down", "broker_delete_declared"}[rng.Intn(5)]
	change := []string{"replicas_down", "replicas_down", "replicas_down", "replicas_up"}[rng.Intn(4)]
	plan := free(rng.Intn(3))
	plan = append(plan, diverge)
	if rng.Intn(2) == 0 {
		if rng.Intn(3) != 0 {
			plan = append(plan, []string{"broker_grow_declared!", "broker_grow_undeclared!", "broker_create_topic!", "broker_delete_any!"}[rng.Intn(4)])
		} else {
			plan = append(plan, free(1)...)
		}
	}
	plan = append(plan, change)
	plan = append(plan, free(rng.Intn(3))...)
	return plan
}

// c39BrokerHistories runs the second phase of the publish leg.
func c39BrokerHistories(ctx context.Context, t *testing.T, r *verifkit.Run, cli *clientv3.Client, scheme *runtime.Scheme, endpoints []string) {
	n := r.N(50, 700)
	for hi := 0; hi < n; hi++ {
		rng := r.Rand(1<<16 + hi)
		oc := opGenCluster(rng, opGenOpts{EtcdEndpoints: endpoints})
		oc.Cluster.Spec.Brokers.Replicas = opI32([]int32{2, 3, 3, 4, 5, 7}[rng.Intn(6)])
		big := false
		for _, tp := range oc.Topics {
			if tp.Spec.Partitions >= 2 {
				big = true
			}
		}
		if !big {
			oc.Topics = append(oc.Topics, &kafscalev1alpha1.KafscaleTopic{
				ObjectMeta: metav1.ObjectMeta{Namespace: oc.Cluster.Namespace, Name: fmt.Sprintf("t%d", hi)},
				Spec:       kafscalev1alpha1.KafscaleTopicSpec{ClusterRef: oc.Cluster.Name, Partitions: int32(2 + rng.Intn(11))},
			})
		}
		plan := c39PlanHistory(rng)
		opSetEnv(map[string]string{operatorEtcdSilenceLogsEnv: "true"})
		dctx, cancel := context.WithTimeout(ctx, 20*time.Second)
		_, derr := cli.Delete(dctx, "/kafscale/", clientv3.WithPrefix())
		cancel()
		if derr != nil {
			r.Inconclusive(fmt.Sprintf("history %d: etcd delete: %v", hi, derr))
			continue
		}
		first, _ := json.Marshal(opDescribe(oc))
		c := opNewClient(scheme, &opRecorder{}, opObjects(oc)...)
		rc := &ClusterReconciler{Client: c, Scheme: scheme, Publisher: NewSnapshotPublisher(c)}
		key := types.NamespacedName{Namespace: oc.Cluster.Namespace, Name: oc.Cluster.Name}
		rctx, rcancel := context.WithTimeout(ctx, 60*time.Second)
		res, rerr := rc.Reconcile(rctx, reconcile.Request{NamespacedName: key})
		rcancel()
		if rerr != nil || res.RequeueAfter != 0 {
			r.Count("reconcile_errors", 1)
			r.Case("err", false)
			r.Inconclusive(fmt.Sprintf("history %d: first Reconcile did not publish: err=%v requeue=%v", hi, rerr, res.RequeueAfter))
			continue
		}
		meta, _, ok := c39ReadSnapshot(ctx, r, cli, oc, hi)
		if !ok {
			continue
		}
		var stored kafscalev1alpha1.KafscaleCluster
		if err := c.Get(ctx, key, &stored); err != nil {
			t.Fatalf("get cluster: %v", err)
		}
		rd := c39Collect(ctx, t, c, &stored)
		c39Judge(r, oc, rd, meta, "etcd "+c39SnapshotKey, nil)
		q := &c39Seq{t: t, r: r, cli: cli, c: c, rc: rc, tr: &TopicReconciler{Client: c, Scheme: scheme, Publisher: NewSnapshotPublisher(c)},
			oc: oc, ci: hi, hist: &c39Hist{Initial: first, Tag: "after_spec_edit_"}, rd: rd, brk0: *oc.Cluster.Spec.Brokers.DeepCopy(), last: meta}
		h := &c39BH{q: q, endpoints: endpoints, hi: hi, origin: map[string]string{}}
		q.hist.Steps = []string{fmt.Sprintf("(history %d of VERIF_SEED=%d)", hi, r.Seed)}
		lastPublished := true
		for si, kind := range plan {
			before := h.judged
			if !h.step(ctx, rng, kind, si+1) {
				break
			}
			lastPublished = h.judged > before
		}
		if !h.aborted && !lastPublished {
			h.publish(ctx, nil) // whatever the brokers wrote last meets one more reconcile
		}
		if h.aborted {
			r.Count("histories_aborted", 1)
			t.Logf("history %d aborted after %d step(s)", hi, len(q.hist.Steps))
		}
		r.Count("histories", 1)
		r.Seen("history_plans", strings.Join(plan, " "))
		r.Case(verifkit.Hash(string(first), q.hist.Steps), h.applied >= 1 && h.judged >= 2 && h.replDown+h.replUp >= 1)
		if hi < 1 {
			r.Sample(map[string]any{"first_published_spec": json.RawMessage(first), "history": q.hist.Steps})
		}
	}
	r.Floor("histories", int64(n*9/10))
	r.Floor("history_publishes_judged", int64(2*n))
	r.Floor("broker_writes_applied", int64(n))
	r.Floor("history_publishes_where_replicas_went_down", int64(n/3))
	r.Floor("history_publishes_where_replicas_went_up", int64(n/10))
	r.Floor("history_publishes_over_a_key_holding_undeclared_topics", int64(n/4))
	r.Floor("history_publishes_over_a_longer_stored_partition_list_of_a_declared_topic", int64(n/3))
	r.Floor("history_publishes_over_a_stored_declared_topic_led_by_a_broker_outside_the_spec", int64(n/4))
	r.Floor("history_publishes_over_a_longer_stored_partition_list_led_by_a_broker_outside_the_spec", int64(n/16))
}
