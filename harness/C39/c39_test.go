//go:build verif

package operator

import (
	"context"
	"encoding/json"
	"fmt"
	"net"
	"sort"
	"strconv"
	"strings"
	"testing"
	"time"

	appsv1 "k8s.io/api/apps/v1"
	batchv1 "k8s.io/api/batch/v1"
	corev1 "k8s.io/api/core/v1"
	metav1 "k8s.io/apimachinery/pkg/apis/meta/v1"
	"k8s.io/apimachinery/pkg/types"
	"sigs.k8s.io/controller-runtime/pkg/client"
	"sigs.k8s.io/controller-runtime/pkg/reconcile"

	clientv3 "go.etcd.io/etcd/client/v3"

	kafscalev1alpha1 "github.com/KafScale/platform/api/v1alpha1"
	"github.com/KafScale/platform/internal/testutil"
	"github.com/KafScale/platform/internal/verifkit"
	"github.com/KafScale/platform/pkg/metadata"
)

const c39Rule = "generated KafscaleCluster specs (replicas nil/0/1/2/3/7/4-12, advertised host/port set/unset/blank, RFC-1123 names up to 253 and namespaces up to 63 chars, 0-5 topics of 1-12 partitions plus decoy topics) are reconciled by the operator's own reconcilers into a recording fake API server; the oracle reads the *rendered* broker StatefulSet/headless Service and the metadata built by the real code and demands: #brokers == StatefulSet replicas; broker ids == pod ordinals; broker i's host == pod i's stable DNS name <sts>-<i>.<sts.serviceName>.<ns>.svc.cluster.local under a rendered headless Service that selects the pods (or the host the rendered pod is told to advertise through KAFSCALE_BROKER_HOST); port == the port the rendered pod is told to advertise; every topic of the cluster appears once with partitions exactly {0..n-1}; every partition leader is a listed broker id; every SNAPSHOT_BUCKET the operator derived (env override unset) matches the S3 bucket grammar (3-63 chars, [a-z0-9.-], alnum at both ends, no '..', not an IP)"

var c39Assumptions = []string{
	"the number of deployed broker replicas is what the real reconciler writes into StatefulSet.spec.replicas on the fake API server (no HPA scaling, no admission defaulting)",
	"a pod's stable address is its StatefulSet DNS name under the governing headless Service, or the single advertised host the rendered pod template itself carries in KAFSCALE_BROKER_HOST",
	"S3 reserved prefixes/suffixes (xn--, -s3alias, ...) are not part of the grammar checked",
}

// ---------------------------------------------------------------- oracle pieces

// c39BucketProblem returns "" when b is a valid S3 bucket name, else which rule it breaks.
func c39BucketProblem(b string) string {
	if len(b) < 3 {
		return "too_short"
	}
	if len(b) > 63 {
		return "too_long"
	}
	for i := 0; i < len(b); i++ {
		ch := b[i]
		if !(ch >= 'a' && ch <= 'z' || ch >= '0' && ch <= '9' || ch == '-' || ch == '.') {
			return "bad_char"
		}
	}
	alnum := func(ch byte) bool { return ch >= 'a' && ch <= 'z' || ch >= '0' && ch <= '9' }
	if !alnum(b[0]) || !alnum(b[len(b)-1]) {
		return "bad_edge"
	}
	if strings.Contains(b, "..") {
		return "adjacent_dots"
	}
	if ip := net.ParseIP(b); ip != nil && ip.To4() != nil {
		return "ip_like"
	}
	return ""
}

type c39Rendered struct {
	sts      *appsv1.StatefulSet
	headless *corev1.Service
	hostEnv  string // KAFSCALE_BROKER_HOST in the rendered pod template ("" = absent)
	portEnv  string
	buckets  map[string]string // bucket -> where it was seen
}

func c39Env(cs []corev1.Container, name string) (string, bool) {
	for _, c := range cs {
		for _, e := range c.Env {
			if e.Name == name {
				return e.Value, true
			}
		}
	}
	return "", false
}

// c39Collect reads back from the API server what the operator rendered for cluster.
func c39Collect(ctx context.Context, t testing.TB, c client.Client, cl *kafscalev1alpha1.KafscaleCluster) *c39Rendered {
	out := &c39Rendered{buckets: map[string]string{}}
	var stss appsv1.StatefulSetList
	if err := c.List(ctx, &stss, client.InNamespace(cl.Namespace)); err != nil {
		t.Fatalf("list statefulsets: %v", err)
	}
	for i := range stss.Items {
		s := &stss.Items[i]
		if !metav1.IsControlledBy(s, cl) {
			continue
		}
		if s.Spec.Template.Labels["app"] == "kafscale-broker" {
			out.sts = s
		}
		for _, cs := range [][]corev1.Container{s.Spec.Template.Spec.InitContainers, s.Spec.Template.Spec.Containers} {
			if v, ok := c39Env(cs, "SNAPSHOT_BUCKET"); ok {
				out.buckets[v] = "StatefulSet " + s.Name
			}
		}
	}
	var cjs batchv1.CronJobList
	if err := c.List(ctx, &cjs, client.InNamespace(cl.Namespace)); err != nil {
		t.Fatalf("list cronjobs: %v", err)
	}
	for i := range cjs.Items {
		j := &cjs.Items[i]
		if !metav1.IsControlledBy(j, cl) {
			continue
		}
		ps := j.Spec.JobTemplate.Spec.Template.Spec
		for _, cs := range [][]corev1.Container{ps.InitContainers, ps.Containers} {
			if v, ok := c39Env(cs, "SNAPSHOT_BUCKET"); ok {
				out.buckets[v] = "CronJob " + j.Name
			}
		}
	}
	if out.sts != nil {
		out.hostEnv, _ = c39Env(out.sts.Spec.Template.Spec.Containers, "KAFSCALE_BROKER_HOST")
		out.portEnv, _ = c39Env(out.sts.Spec.Template.Spec.Containers, "KAFSCALE_BROKER_PORT")
		svc := &corev1.Service{}
		if err := c.Get(ctx, types.NamespacedName{Namespace: cl.Namespace, Name: out.sts.Spec.ServiceName}, svc); err == nil {
			out.headless = svc
		}
	}
	return out
}

type c39Verdict struct {
	nontrivial bool
	hostKind   string
}

// c39Judge applies the statement to (rendered objects, metadata). Every
// violation carries the spec and what was observed.
func c39Judge(r0 *verifkit.Run, oc *opCase, rd *c39Rendered, meta metadata.ClusterMetadata, via string, hist *c39Hist) c39Verdict {
	cl := oc.Cluster
	// a verdict reached after spec edits gets its own class prefix: it is a
	// different way of breaking the statement than a wrong first publish
	r := &c39Reporter{Run: r0}
	if hist != nil && len(hist.Edits) > 0 {
		r.tag = "after_spec_edit_"
	}
	if hist != nil && hist.Tag != "" {
		r.tag = hist.Tag
	}
	replay := func(extra map[string]any) map[string]any {
		m := opDescribe(oc)
		m["metadata_via"] = via
		if hist != nil && len(hist.Edits) > 0 {
			m["first_published_spec"] = hist.Initial
			m["edits_each_followed_by_a_publish"] = hist.Edits
		}
		if hist != nil && len(hist.Steps) > 0 {
			m["first_published_spec"] = hist.Initial
			m["history_since_the_first_publish"] = hist.Steps
			m["partitions_stored_before_this_publish"] = hist.StoredBefore
		}
		var bs []string
		for _, b := range meta.Brokers {
			bs = append(bs, fmt.Sprintf("%d@%s:%d", b.NodeID, b.Host, b.Port))
		}
		m["metadata_brokers"] = bs
		if rd.sts != nil && rd.sts.Spec.Replicas != nil {
			m["statefulset"] = map[string]any{"name": rd.sts.Name, "replicas": *rd.sts.Spec.Replicas, "serviceName": rd.sts.Spec.ServiceName,
				"KAFSCALE_BROKER_HOST": rd.hostEnv, "KAFSCALE_BROKER_PORT": rd.portEnv}
		}
		for k, v := range extra {
			m[k] = v
		}
		return m
	}
	v := c39Verdict{}
	if rd.sts == nil || rd.sts.Spec.Replicas == nil {
		r.Violation("no_broker_statefulset_rendered", "no broker StatefulSet with a replica count was rendered for the cluster", replay(nil))
		return v
	}
	deployed := int(*rd.sts.Spec.Replicas)
	r.Seen("deployed_replicas", strconv.Itoa(deployed))

	// --- one broker per deployed replica
	countOK := len(meta.Brokers) == deployed
	if !countOK {
		class := "broker_count_mismatch"
		switch rep := cl.Spec.Brokers.Replicas; {
		case rep == nil:
			class = "broker_count_mismatch_replicas_unset"
		case *rep == 0:
			class = "broker_count_mismatch_replicas_zero"
		}
		r.Violation(class, fmt.Sprintf("metadata lists %d broker(s) but the StatefulSet the operator deployed has %d replica(s)", len(meta.Brokers), deployed), replay(nil))
	}
	ids := map[int32]int{}
	for _, b := range meta.Brokers {
		ids[b.NodeID]++
	}
	if countOK {
		// --- ids are the pod ordinals, each once
		okIDs := true
		for i := 0; i < deployed; i++ {
			if ids[int32(i)] != 1 {
				okIDs = false
			}
		}
		if !okIDs {
			r.Violation("broker_ids_not_pod_ordinals", fmt.Sprintf("broker ids %v are not exactly the pod ordinals 0..%d", c39Keys(ids), deployed-1), replay(nil))
		}
		// --- the governing headless service must make the pod names resolvable
		if deployed > 0 && rd.hostEnv == "" {
			svc := rd.headless
			sel := svc != nil && len(svc.Spec.Selector) > 0
			if sel {
				for k, val := range svc.Spec.Selector {
					if rd.sts.Spec.Template.Labels[k] != val {
						sel = false
					}
				}
			}
			if svc == nil || svc.Spec.ClusterIP != corev1.ClusterIPNone || !sel {
				r.Violation("headless_service_missing_or_not_selecting_pods", fmt.Sprintf("StatefulSet.serviceName=%q has no rendered headless Service selecting the broker pods", rd.sts.Spec.ServiceName), replay(nil))
			}
		}
		// --- address of each pod
		wantPort := int32(9092)
		if rd.portEnv != "" {
			if p, err := strconv.ParseInt(rd.portEnv, 10, 32); err == nil {
				wantPort = int32(p)
			}
		}
		for _, b := range meta.Brokers {
			if int(b.NodeID) < 0 || int(b.NodeID) >= deployed {
				continue
			}
			dns := fmt.Sprintf("%s-%d.%s.%s.svc.cluster.local", rd.sts.Name, b.NodeID, rd.sts.Spec.ServiceName, rd.sts.Namespace)
			switch {
			case b.Host == dns:
				v.hostKind = "pod_dns"
			case rd.hostEnv != "" && deployed == 1 && b.Host == rd.hostEnv:
				v.hostKind = "advertised"
			default:
				r.Violation("broker_host_not_pod_address", fmt.Sprintf("broker %d host %q is neither pod DNS %q nor the host the pod advertises (%q)", b.NodeID, b.Host, dns, rd.hostEnv), replay(nil))
			}
			if b.Port != wantPort {
				r.Violation("broker_port_mismatch", fmt.Sprintf("broker %d port %d, rendered pod advertises %d", b.NodeID, b.Port, wantPort), replay(nil))
			}
		}
		if v.hostKind == "pod_dns" && wantPort != 9092 {
			r.Count("obs_pod_dns_with_non_listener_port", 1) // observation only: pod DNS name + advertised port while the container listens on 9092
		}
	}

	// --- topics: each once, partitions {0..n-1}, leaders among the listed brokers
	byName := map[string]int{}
	for _, tp := range meta.Topics {
		if tp.Topic != nil {
			byName[*tp.Topic]++
		}
	}
	multi := false
	for _, want := range oc.Topics {
		if byName[want.Name] != 1 {
			r.Violation("topic_missing_or_duplicated", fmt.Sprintf("topic %q appears %d times in the metadata", want.Name, byName[want.Name]), replay(nil))
			continue
		}
		for _, tp := range meta.Topics {
			if tp.Topic == nil || *tp.Topic != want.Name {
				continue
			}
			n := int(want.Spec.Partitions)
			seen := map[int32]int{}
			var nums []int32
			for _, p := range tp.Partitions {
				seen[p.Partition]++
				nums = append(nums, p.Partition)
				if ids[p.Leader] == 0 {
					r.Violation("leader_not_a_listed_broker", fmt.Sprintf("topic %q partition %d leader %d is not one of the listed brokers %v", want.Name, p.Partition, p.Leader, c39Keys(ids)), replay(nil))
				} else if int(p.Leader) >= deployed || p.Leader < 0 {
					if countOK {
						r.Violation("leader_not_a_deployed_replica", fmt.Sprintf("topic %q partition %d leader %d has no pod (replicas %d)", want.Name, p.Partition, p.Leader, deployed), replay(nil))
					}
				}
				r.Count("partitions_checked", 1)
			}
			gap := len(tp.Partitions) != len(seen)
			for i := 0; i < len(tp.Partitions); i++ {
				if seen[int32(i)] != 1 {
					gap = true
				}
			}
			if gap {
				r.Violation("partitions_not_numbered_0_to_n_minus_1", fmt.Sprintf("topic %q partitions are numbered %v", want.Name, nums), replay(nil))
			} else if len(tp.Partitions) != n {
				// the statement fixes the numbering, not the count: where the snapshot key held MORE partitions
				// for this topic than the resource declares right before this publish (a broker served
				// CreatePartitions, or the resource was resized down) both the declared and the stored count
				// are accepted - Kafka never shrinks a topic; everywhere else the count is the declared one
				if m, ok := c39StoredMore(hist, want.Name, n); ok && len(tp.Partitions) == m {
					r.Count("obs_published_the_larger_stored_partition_count", 1)
				} else {
					r.Violation("partition_count_differs_from_topic", fmt.Sprintf("topic %q declares %d partitions, metadata has %d", want.Name, n, len(tp.Partitions)), replay(nil))
				}
			} else if _, ok := c39StoredMore(hist, want.Name, n); ok {
				r.Count("obs_published_the_declared_count_over_a_larger_stored_one", 1)
			}
			if n >= 2 {
				multi = true
			}
		}
	}
	r.Count("topics_checked", int64(len(oc.Topics)))

	// --- derived bucket names
	for b, where := range rd.buckets {
		r.Count("bucket_names_checked", 1)
		r.Seen("bucket_lengths", strconv.Itoa(len(b)))
		if p := c39BucketProblem(b); p != "" {
			r.Violation("snapshot_bucket_"+p, fmt.Sprintf("derived etcd snapshot bucket %q (%d chars, in %s) is not a valid S3 bucket name: %s", b, len(b), where, p), replay(map[string]any{"bucket": b, "bucket_len": len(b)}))
		}
	}
	v.nontrivial = multi && len(meta.Brokers) > 0 && deployed > 0
	return v
}

// c39Hist: what was published before the spec that is being judged.
type c39Hist struct {
	Initial json.RawMessage // opDescribe of the spec of the first publish
	Edits   []string        // the edits since, each followed by a publish
	// set by the broker-writer histories only (c39_broker_test.go):
	Tag          string         // class prefix of verdicts reached in this history ("" = after_spec_edit_)
	Steps        []string       // everything that happened since the first publish: broker-side writes, resource edits, publishes
	StoredBefore map[string]int // partitions each topic had under the snapshot key right before the publish being judged
}

// c39StoredMore: did the snapshot key hold more partitions for the topic than the n its resource declares, right before the publish being judged?
func c39StoredMore(hist *c39Hist, topic string, n int) (int, bool) {
	if hist == nil || hist.StoredBefore == nil {
		return 0, false
	}
	m := hist.StoredBefore[topic]
	return m, m > n
}

// c39Reporter prefixes violation classes; everything else is the Run's.
type c39Reporter struct {
	*verifkit.Run
	tag string
}

func (r *c39Reporter) Violation(class, summary string, replay any) {
	r.Run.Violation(r.tag+class, summary, replay)
}

func c39Keys(m map[int32]int) []int32 {
	var ks []int32
	for k := range m {
		ks = append(ks, k)
	}
	sort.Slice(ks, func(i, j int) bool { return ks[i] < ks[j] })
	return ks
}

func c39ReplicaTag(cl *kafscalev1alpha1.KafscaleCluster) string {
	if cl.Spec.Brokers.Replicas == nil {
		return "nil"
	}
	return strconv.Itoa(int(*cl.Spec.Brokers.Replicas))
}

// ---------------------------------------------------------------- bucket derivation sweep (second phase of the render leg)

func c39BucketSweep(r *verifkit.Run) {
	opSetEnv(nil)
	check := func(ns, name string, sample bool) {
		cl := &kafscalev1alpha1.KafscaleCluster{ObjectMeta: metav1.ObjectMeta{Namespace: ns, Name: name}}
		for _, b := range []string{snapshotBucket(cl), defaultEtcdSnapshotBucket(cl)} {
			r.Seen("bucket_lengths", strconv.Itoa(len(b)))
			r.Count("bucket_names_checked", 1)
			if len(b) > 60 {
				r.Count("bucket_names_longer_than_60", 1)
			}
			if p := c39BucketProblem(b); p != "" {
				r.Violation("snapshot_bucket_"+p, fmt.Sprintf("derived etcd snapshot bucket %q (%d chars) for namespace %q (%d) name %q (%d) is not a valid S3 bucket name: %s", b, len(b), ns, len(ns), name, len(name), p),
					map[string]any{"namespace": ns, "name": name, "bucket": b, "bucket_len": len(b)})
			}
		}
		r.Case(ns+"/"+name, ns != "" && name != "")
		if sample {
			r.Sample(map[string]any{"namespace": ns, "name": name, "bucket": snapshotBucket(cl)})
		}
	}
	check("production-kafka-platform", "orders-streaming-cluster", false) // 64: the smallest realistic witness
	check("production-kafka-platform", "orders-streaming-cluste", false)  // 63: valid
	check("default", "demo", false)
	// systematic: all length pairs with len(ns) in 1..63 and the name placing the bucket at 58..68 chars
	rng := r.Rand(1 << 20)
	for lns := 1; lns <= 63; lns++ {
		for total := 58; total <= 68; total++ {
			lname := total - len(defaultSnapshotBucketPrefix) - 2 - lns
			if lname < 1 {
				continue
			}
			check(opLabel(rng, lns), opSubdomain(rng, lname, lname%3 == 0), lns == 20 && total == 63)
		}
	}
	n := r.N(3000, 60000)
	for ci := 1; ci <= n; ci++ {
		rng := r.Rand(1<<20 + ci)
		ns, name := opGenNames(rng)
		check(ns, name, ci <= 2)
	}
	r.Floor("bucket_names_longer_than_60", 100)
}

// ---------------------------------------------------------------- leg 1: render (managed etcd, no network)

func TestVerifC39Render(t *testing.T) {
	r := verifkit.Start(t, "C39", "render")
	defer r.Finish("[sub-reconcilers + BuildClusterMetadata, managed etcd so the snapshot CronJob/restore containers are rendered] "+c39Rule+" ;; [bucket sweep] every (namespace,name) length pair that puts the derived name at 58..68 chars plus thousands of PRNG RFC-1123 names go through the operator's own snapshotBucket()/defaultEtcdSnapshotBucket() and must match the same grammar", c39Assumptions...)
	opRegisterEnv(t)
	scheme := opScheme(t)
	ctx := context.Background()
	n := r.N(300, 5000)
	directed := opDirected()
	if roc, _ := opFromReplay(verifkit.Replay()); roc != nil {
		directed = append([]*opCase{roc}, directed...)
		r.Count("replayed_cases", 1)
	}
	for ci := 0; ci < n; ci++ {
		rng := r.Rand(ci)
		oc := opGenCluster(rng, opGenOpts{})
		if ci < len(directed) {
			oc = directed[ci]
		}
		opSetEnv(nil)
		rec := &opRecorder{}
		c := opNewClient(scheme, rec, opObjects(oc)...)
		rc := &ClusterReconciler{Client: c, Scheme: scheme, Publisher: NewSnapshotPublisher(c)}
		key := types.NamespacedName{Namespace: oc.Cluster.Namespace, Name: oc.Cluster.Name}
		if _, err := opReconcileParts(ctx, rc, key); err != nil {
			r.Count("reconcile_errors", 1)
			r.Case("err", false)
			if ci < 3 {
				t.Logf("case %d: reconcile error: %v", ci, err)
			}
			continue
		}
		var stored kafscalev1alpha1.KafscaleCluster
		if err := c.Get(ctx, key, &stored); err != nil {
			t.Fatalf("get cluster: %v", err)
		}
		topics := make([]kafscalev1alpha1.KafscaleTopic, 0, len(oc.Topics))
		for _, tp := range oc.Topics {
			topics = append(topics, *tp.DeepCopy())
		}
		var meta metadata.ClusterMetadata
		func() {
			defer func() {
				if p := recover(); p != nil {
					r.Violation("build_metadata_panics", fmt.Sprintf("BuildClusterMetadata panicked: %v", p), opDescribe(oc))
				}
			}()
			meta = BuildClusterMetadata(&stored, topics)
		}()
		rd := c39Collect(ctx, t, c, &stored)
		// the operator's own accessor must agree with what it rendered
		if b := snapshotBucket(&stored); b != "" {
			if _, ok := rd.buckets[b]; !ok {
				rd.buckets[b] = "snapshotBucket()"
			}
		}
		v := c39Judge(r, oc, rd, meta, "BuildClusterMetadata", nil)
		r.Case(verifkit.Hash(opDescribe(oc)), v.nontrivial)
		r.Count("replicas_"+c39ReplicaTag(oc.Cluster), 1)
		if v.hostKind != "" {
			r.Count("host_"+v.hostKind, 1)
		}
		if ci < 2 {
			r.Sample(opDescribe(oc))
		}
	}
	c39BucketSweep(r)
	r.Floor("replicas_nil", 10)
	r.Floor("replicas_0", 5)
	r.Floor("replicas_1", 10)
	r.Floor("replicas_3", 10)
	r.Floor("host_pod_dns", 20)
	r.Floor("host_advertised", 5)
	r.Floor("partitions_checked", 200)
	r.Floor("bucket_names_checked", 100)
}

// ---------------------------------------------------------------- leg 2: full Reconcile, metadata read back from etcd

const c39SnapshotKey = "/kafscale/metadata/snapshot"

// c39ReadSnapshot reads the published metadata back from etcd.
func c39ReadSnapshot(ctx context.Context, r *verifkit.Run, cli *clientv3.Client, oc *opCase, ci int) (metadata.ClusterMetadata, string, bool) {
	var meta metadata.ClusterMetadata
	gctx, gcancel := context.WithTimeout(ctx, 20*time.Second)
	resp, gerr := cli.Get(gctx, c39SnapshotKey)
	gcancel()
	if gerr != nil || len(resp.Kvs) != 1 {
		r.Inconclusive(fmt.Sprintf("case %d: snapshot not readable: %v", ci, gerr))
		return meta, "", false
	}
	if err := json.Unmarshal(resp.Kvs[0].Value, &meta); err != nil {
		r.Violation("published_snapshot_not_decodable", fmt.Sprintf("snapshot JSON does not decode: %v", err), opDescribe(oc))
		return meta, "", false
	}
	return meta, string(resp.Kvs[0].Value), true
}

// c39ScaleDownProbe is an observation, never a violation (the statement
// quantifies over one spec and topic set, not over histories): the topic
// resources are removed and the cluster is scaled to one broker; the operator
// merges topics it no longer knows from the previous snapshot, with the
// leaders they had.
func c39ScaleDownProbe(ctx context.Context, t *testing.T, r *verifkit.Run, cli *clientv3.Client, c client.Client, rc *ClusterReconciler, oc *opCase, stored *kafscalev1alpha1.KafscaleCluster, ci int) {
	if stored.Spec.Brokers.Replicas == nil || *stored.Spec.Brokers.Replicas < 2 || len(oc.Topics) == 0 {
		return
	}
	for _, tp := range oc.Topics {
		_ = c.Delete(ctx, tp.DeepCopy())
	}
	var cur kafscalev1alpha1.KafscaleCluster
	key := types.NamespacedName{Namespace: stored.Namespace, Name: stored.Name}
	if err := c.Get(ctx, key, &cur); err != nil {
		return
	}
	cur.Spec.Brokers.Replicas = opI32(1)
	if err := c.Update(ctx, &cur); err != nil {
		return
	}
	rctx, cancel := context.WithTimeout(ctx, 60*time.Second)
	res, err := rc.Reconcile(rctx, reconcile.Request{NamespacedName: key})
	cancel()
	if err != nil || res.RequeueAfter != 0 {
		return
	}
	meta, _, ok := c39ReadSnapshot(ctx, r, cli, oc, ci)
	if !ok {
		return
	}
	r.Count("obs_scale_down_probes", 1)
	ids := map[int32]bool{}
	for _, b := range meta.Brokers {
		ids[b.NodeID] = true
	}
	for _, tp := range meta.Topics {
		for _, p := range tp.Partitions {
			if !ids[p.Leader] {
				r.Count("obs_merged_topic_leader_outside_brokers", 1)
				return
			}
		}
	}
}

// ---------------------------------------------------------------- edit sequences (publish leg)

type c39Seq struct {
	t    *testing.T
	r    *verifkit.Run
	cli  *clientv3.Client
	c    client.Client
	rc   *ClusterReconciler
	tr   *TopicReconciler
	oc   *opCase // kept in step with the resources on the API server
	ci   int
	hist *c39Hist
	rd   *c39Rendered // objects rendered for the spec published last
	brk0 kafscalev1alpha1.BrokerSpec
	last metadata.ClusterMetadata // the snapshot read back after the publish judged last
}

func c39PortStr(p *int32) string {
	if p == nil {
		return "unset"
	}
	return strconv.Itoa(int(*p))
}

func c39RepStr(p *int32) string {
	if p == nil {
		return "unset"
	}
	return strconv.Itoa(int(*p))
}

// c39EditBrokers changes the stored cluster's broker spec as kind says and returns what it did ("" = nothing to change).
func (q *c39Seq) editBrokers(rng interface{ Intn(int) int }, b *kafscalev1alpha1.BrokerSpec, kind string, step int) string {
	var did []string
	port := func() {
		old := c39PortStr(b.AdvertisedPort)
		for c39PortStr(b.AdvertisedPort) == old {
			switch rng.Intn(6) {
			case 0:
				b.AdvertisedPort = nil
			case 1:
				b.AdvertisedPort = opI32(9092)
			case 2:
				b.AdvertisedPort = opI32(0)
			default:
				b.AdvertisedPort = opI32(int32(1024 + rng.Intn(60000)))
			}
		}
		did = append(did, fmt.Sprintf("advertisedPort %s -> %s", old, c39PortStr(b.AdvertisedPort)))
	}
	host := func() {
		old := b.AdvertisedHost
		for b.AdvertisedHost == old {
			switch rng.Intn(6) {
			case 0:
				b.AdvertisedHost = ""
			case 1:
				b.AdvertisedHost = fmt.Sprintf("  kafka-%d-%d.example.net ", q.ci, step)
			case 2:
				b.AdvertisedHost = fmt.Sprintf("198.51.100.%d", 1+rng.Intn(250))
			default:
				b.AdvertisedHost = fmt.Sprintf("kafka-%d-%d.example.com", q.ci, step)
			}
		}
		did = append(did, fmt.Sprintf("advertisedHost %q -> %q", old, b.AdvertisedHost))
	}
	replicas := func() {
		old := c39RepStr(b.Replicas)
		for c39RepStr(b.Replicas) == old {
			switch rng.Intn(7) {
			case 0:
				b.Replicas = nil
			case 1, 2:
				b.Replicas = opI32(1)
			case 3:
				b.Replicas = opI32(2)
			case 4:
				b.Replicas = opI32(3)
			default:
				b.Replicas = opI32(int32(4 + rng.Intn(4)))
			}
		}
		did = append(did, fmt.Sprintf("replicas %s -> %s", old, c39RepStr(b.Replicas)))
	}
	switch kind {
	case "port":
		port()
	case "host":
		host()
	case "host+port":
		host()
		port()
	case "replicas":
		replicas()
	case "replicas_to_1":
		old := c39RepStr(b.Replicas)
		b.Replicas = opI32(1)
		did = append(did, fmt.Sprintf("replicas %s -> 1", old))
	case "replicas+address":
		replicas()
		if rng.Intn(2) == 0 {
			port()
		}
		if rng.Intn(2) == 0 || len(did) == 1 {
			host()
		}
	case "revert":
		if c39PortStr(b.AdvertisedPort) == c39PortStr(q.brk0.AdvertisedPort) && b.AdvertisedHost == q.brk0.AdvertisedHost && c39RepStr(b.Replicas) == c39RepStr(q.brk0.Replicas) {
			port()
			break
		}
		b.AdvertisedHost, b.AdvertisedPort, b.Replicas = q.brk0.AdvertisedHost, q.brk0.AdvertisedPort, q.brk0.Replicas
		did = append(did, fmt.Sprintf("brokers back to the first spec (host %q port %s replicas %s)", b.AdvertisedHost, c39PortStr(b.AdvertisedPort), c39RepStr(b.Replicas)))
	}
	return strings.Join(did, ", ")
}

// publishAndJudge runs one of the operator's reconcilers and judges the snapshot it leaves in etcd against the latest resources.
func (q *c39Seq) publishAndJudge(ctx context.Context, viaTopic *kafscalev1alpha1.KafscaleTopic) bool {
	key := types.NamespacedName{Namespace: q.oc.Cluster.Namespace, Name: q.oc.Cluster.Name}
	rctx, cancel := context.WithTimeout(ctx, 60*time.Second)
	var err error
	var res reconcile.Result
	via := "ClusterReconciler"
	if viaTopic != nil {
		via = "TopicReconciler(" + viaTopic.Name + ")"
		res, err = q.tr.Reconcile(rctx, reconcile.Request{NamespacedName: types.NamespacedName{Namespace: viaTopic.Namespace, Name: viaTopic.Name}})
	} else {
		res, err = q.rc.Reconcile(rctx, reconcile.Request{NamespacedName: key})
	}
	cancel()
	if err != nil || res.RequeueAfter != 0 {
		q.r.Count("edit_publish_errors", 1)
		q.t.Logf("case %d: %s after edit did not publish: err=%v requeue=%v", q.ci, via, err, res.RequeueAfter)
		return false
	}
	meta, _, ok := c39ReadSnapshot(ctx, q.r, q.cli, q.oc, q.ci)
	if !ok {
		return false
	}
	var stored kafscalev1alpha1.KafscaleCluster
	if err := q.c.Get(ctx, key, &stored); err != nil {
		q.t.Fatalf("get cluster: %v", err)
	}
	q.rd = c39Collect(ctx, q.t, q.c, &stored)
	q.last = meta
	c39Judge(q.r, q.oc, q.rd, meta, fmt.Sprintf("%s after %d edit(s) and history step(s) -> etcd %s", via, len(q.hist.Edits)+len(q.hist.Steps), c39SnapshotKey), q.hist)
	q.r.Count("edit_publishes_judged", 1)
	return true
}

// c39RenderedAddr: what the rendered pods are told about their own address and how many there are.
func c39RenderedAddr(rd *c39Rendered) (host, port, replicas string) {
	if rd == nil || rd.sts == nil || rd.sts.Spec.Replicas == nil {
		return "", "", ""
	}
	return rd.hostEnv, rd.portEnv, strconv.Itoa(int(*rd.sts.Spec.Replicas))
}

// run performs n edits, each followed by one or two publishes through the real
// reconcilers. Edits never remove topics (PublishMetadataSnapshot merges topics
// it no longer knows from the stored snapshot; that is the scale-down probe's observation).
func (q *c39Seq) run(ctx context.Context, rng interface{ Intn(int) int }, n int) {
	key := types.NamespacedName{Namespace: q.oc.Cluster.Namespace, Name: q.oc.Cluster.Name}
	forced := ""
	for step := 1; step <= n; step++ {
		kind := []string{"port", "port", "host", "host", "host+port", "replicas", "replicas+address", "revert", "topic_added", "partitions_grown", "topic+address"}[rng.Intn(11)]
		if step == 1 && rng.Intn(3) == 0 {
			kind = []string{"port", "host", "host+port"}[rng.Intn(3)] // only the advertised address, straight after the first publish
		}
		if forced != "" {
			kind, forced = forced, ""
		} else if rep := q.oc.Cluster.Spec.Brokers.Replicas; (kind == "host" || kind == "host+port") && step < n && (rep == nil || *rep != 1) && rng.Intn(2) == 0 {
			// the advertised host only reaches the metadata of a single-broker cluster: go there first (own edit, own publish)
			kind, forced = "replicas_to_1", kind
		}
		var did []string
		var edited *kafscalev1alpha1.KafscaleTopic
		clusterEdit := false
		if kind == "topic_added" || kind == "topic+address" || (kind == "partitions_grown" && len(q.oc.Topics) == 0) {
			tp := &kafscalev1alpha1.KafscaleTopic{
				ObjectMeta: metav1.ObjectMeta{Namespace: q.oc.Cluster.Namespace, Name: fmt.Sprintf("added-%d-%d", q.ci, step)},
				Spec:       kafscalev1alpha1.KafscaleTopicSpec{ClusterRef: q.oc.Cluster.Name, Partitions: int32(1 + rng.Intn(12))},
			}
			if err := q.c.Create(ctx, tp.DeepCopy()); err != nil {
				q.t.Fatalf("create topic: %v", err)
			}
			q.oc.Topics = append(q.oc.Topics, tp)
			edited = tp
			did = append(did, fmt.Sprintf("topic %s added (%d partitions)", tp.Name, tp.Spec.Partitions))
		} else if kind == "partitions_grown" {
			tp := q.oc.Topics[rng.Intn(len(q.oc.Topics))]
			var cur kafscalev1alpha1.KafscaleTopic
			if err := q.c.Get(ctx, types.NamespacedName{Namespace: tp.Namespace, Name: tp.Name}, &cur); err != nil {
				q.t.Fatalf("get topic: %v", err)
			}
			old := cur.Spec.Partitions
			cur.Spec.Partitions = old + int32(1+rng.Intn(4))
			if err := q.c.Update(ctx, &cur); err != nil {
				q.t.Fatalf("update topic: %v", err)
			}
			tp.Spec.Partitions = cur.Spec.Partitions
			edited = tp
			did = append(did, fmt.Sprintf("topic %s partitions %d -> %d", tp.Name, old, cur.Spec.Partitions))
		}
		if kind != "topic_added" && kind != "partitions_grown" {
			var cur kafscalev1alpha1.KafscaleCluster
			if err := q.c.Get(ctx, key, &cur); err != nil {
				q.t.Fatalf("get cluster: %v", err)
			}
			bk := kind
			if kind == "topic+address" {
				bk = []string{"port", "host", "host+port"}[rng.Intn(3)]
			}
			if d := q.editBrokers(rng, &cur.Spec.Brokers, bk, step); d != "" {
				if err := q.c.Update(ctx, &cur); err != nil {
					q.t.Fatalf("update cluster: %v", err)
				}
				q.oc.Cluster.Spec.Brokers = *cur.Spec.Brokers.DeepCopy()
				did = append(did, d)
				clusterEdit = true
			}
		}
		if len(did) == 0 {
			continue
		}
		q.hist.Edits = append(q.hist.Edits, strings.Join(did, "; "))
		q.r.Count("edits_"+kind, 1)
		h0, p0, n0 := c39RenderedAddr(q.rd)
		// the publish the controllers would run for this edit: the cluster controller for
		// a cluster edit, the topic controller (or the cluster controller) for a topic edit
		var via *kafscalev1alpha1.KafscaleTopic
		if !clusterEdit && edited != nil && rng.Intn(2) == 0 {
			via = edited
		}
		if !q.publishAndJudge(ctx, via) {
			return
		}
		h1, p1, n1 := c39RenderedAddr(q.rd)
		if clusterEdit && n0 == n1 && edited == nil && (h0 != h1 || p0 != p1) {
			q.r.Count("edit_publishes_where_only_the_pod_address_changed", 1)
			if h0 != h1 {
				q.r.Count("edit_publishes_where_the_advertised_host_changed", 1)
			}
			if p0 != p1 {
				q.r.Count("edit_publishes_where_the_advertised_port_changed", 1)
			}
		}
		if n0 != n1 {
			q.r.Count("edit_publishes_where_replicas_changed", 1)
		}
		// a second publish of the same resources through the other controller must leave the same truth
		if len(q.oc.Topics) > 0 && rng.Intn(3) == 0 {
			if !q.publishAndJudge(ctx, q.oc.Topics[rng.Intn(len(q.oc.Topics))]) {
				return
			}
		}
	}
}

func TestVerifC39Publish(t *testing.T) {
	r := verifkit.Start(t, "C39", "publish")
	defer r.Finish("[full ClusterReconciler.Reconcile, then TopicReconciler.Reconcile, with an external-etcd spec against an embedded etcd; the metadata judged is the JSON read back from "+c39SnapshotKey+" after each; then 1-3 edits of the resources on the API server (only advertisedHost; only advertisedPort; both; replicas; replicas plus address; back to the first broker spec; a topic added; partitions of a topic grown; topic plus address - never a topic removal), each followed by the publish its controller would run (ClusterReconciler, or TopicReconciler for a topic edit, in a third of the steps a second publish through the TopicReconciler) on top of the snapshot already stored, and the snapshot read back is judged by the same oracle against the LATEST spec, topics and the objects rendered for them (classes prefixed after_spec_edit_); a scale-down-after-topic-removal probe is observation only (obs_*)] "+c39Rule+" ;; "+c39BrokerRule, c39Assumptions...)
	opRegisterEnv(t)
	opScratchTmp(t)
	endpoints := testutil.StartEmbeddedEtcd(t)
	cli, err := clientv3.New(clientv3.Config{Endpoints: endpoints, DialTimeout: 5 * time.Second})
	if err != nil {
		t.Fatalf("etcd client: %v", err)
	}
	defer cli.Close()
	scheme := opScheme(t)
	ctx := context.Background()
	n := r.N(50, 800)
	directed := opDirected()
	if roc, _ := opFromReplay(verifkit.Replay()); roc != nil {
		directed = append([]*opCase{roc}, directed...)
		r.Count("replayed_cases", 1)
	}
	for ci := 0; ci < n; ci++ {
		rng := r.Rand(ci)
		oc := opGenCluster(rng, opGenOpts{EtcdEndpoints: endpoints})
		if ci < len(directed) {
			oc = directed[ci]
			oc.Cluster.Spec.Etcd.Endpoints = append([]string(nil), endpoints...)
		}
		opSetEnv(map[string]string{operatorEtcdSilenceLogsEnv: "true"})
		dctx, cancel := context.WithTimeout(ctx, 20*time.Second)
		_, derr := cli.Delete(dctx, c39SnapshotKey)
		cancel()
		if derr != nil {
			r.Inconclusive(fmt.Sprintf("case %d: etcd delete: %v", ci, derr))
			continue
		}
		first, _ := json.Marshal(opDescribe(oc))
		sig := []any{string(first)}
		rec := &opRecorder{}
		c := opNewClient(scheme, rec, opObjects(oc)...)
		rc := &ClusterReconciler{Client: c, Scheme: scheme, Publisher: NewSnapshotPublisher(c)}
		key := types.NamespacedName{Namespace: oc.Cluster.Namespace, Name: oc.Cluster.Name}
		rctx, rcancel := context.WithTimeout(ctx, 60*time.Second)
		res, rerr := rc.Reconcile(rctx, reconcile.Request{NamespacedName: key})
		rcancel()
		if rerr != nil || res.RequeueAfter != 0 {
			r.Count("reconcile_errors", 1)
			r.Case("err", false)
			r.Inconclusive(fmt.Sprintf("case %d: Reconcile did not publish: err=%v requeue=%v", ci, rerr, res.RequeueAfter))
			continue
		}
		meta, raw, ok := c39ReadSnapshot(ctx, r, cli, oc, ci)
		if !ok {
			continue
		}
		var stored kafscalev1alpha1.KafscaleCluster
		if err := c.Get(ctx, key, &stored); err != nil {
			t.Fatalf("get cluster: %v", err)
		}
		rd := c39Collect(ctx, t, c, &stored)
		v := c39Judge(r, oc, rd, meta, "etcd "+c39SnapshotKey, nil)
		// decoy topics (other cluster / other namespace) are not topics of this cluster
		for _, d := range oc.Decoys {
			for _, tp := range meta.Topics {
				if tp.Topic != nil && *tp.Topic == d.Name {
					r.Count("obs_decoy_topic_published", 1)
				}
			}
		}
		// the topic controller publishes through the same code: judge what it leaves in etcd as well
		if len(oc.Topics) > 0 {
			dctx, cancel := context.WithTimeout(ctx, 20*time.Second)
			_, derr := cli.Delete(dctx, c39SnapshotKey)
			cancel()
			tr := &TopicReconciler{Client: c, Scheme: scheme, Publisher: NewSnapshotPublisher(c)}
			tp := oc.Topics[rng.Intn(len(oc.Topics))]
			tctx, tcancel := context.WithTimeout(ctx, 60*time.Second)
			tres, terr := tr.Reconcile(tctx, reconcile.Request{NamespacedName: types.NamespacedName{Namespace: tp.Namespace, Name: tp.Name}})
			tcancel()
			if derr == nil && terr == nil && tres.RequeueAfter == 0 {
				if m2, _, ok := c39ReadSnapshot(ctx, r, cli, oc, ci); ok {
					c39Judge(r, oc, rd, m2, "TopicReconciler -> etcd "+c39SnapshotKey, nil)
					r.Count("published_via_topic_reconciler", 1)
				}
			} else {
				r.Inconclusive(fmt.Sprintf("case %d: TopicReconciler did not publish: %v %v", ci, derr, terr))
			}
		}
		// 1-3 spec edits, each published through the real path on top of the snapshot already in etcd
		{
			q := &c39Seq{t: t, r: r, cli: cli, c: c, rc: rc, tr: &TopicReconciler{Client: c, Scheme: scheme, Publisher: NewSnapshotPublisher(c)},
				oc: oc, ci: ci, hist: &c39Hist{Initial: first}, rd: rd, brk0: *oc.Cluster.Spec.Brokers.DeepCopy()}
			q.run(ctx, rng, 1+rng.Intn(3))
			r.Count("edit_sequences", 1)
			r.Seen("publishes_per_case", strconv.Itoa(1+len(q.hist.Edits)))
			if err := c.Get(ctx, key, &stored); err != nil {
				t.Fatalf("get cluster: %v", err)
			}
			sig = append(sig, q.hist.Edits)
		}
		c39ScaleDownProbe(ctx, t, r, cli, c, rc, oc, &stored, ci)
		r.Case(verifkit.Hash(sig...), v.nontrivial)
		r.Count("replicas_"+c39ReplicaTag(oc.Cluster), 1)
		r.Count("published", 1)
		if v.hostKind != "" {
			r.Count("host_"+v.hostKind, 1)
		}
		if ci < 1 {
			r.Sample(map[string]any{"case": opDescribe(oc), "snapshot": raw})
		}
	}
	// second phase: histories in which the broker side writes the snapshot key between operator publishes
	c39BrokerHistories(ctx, t, r, cli, scheme, endpoints)
	r.Floor("published", int64(n*9/10))
	r.Floor("published_via_topic_reconciler", int64(n/2))
	r.Floor("partitions_checked", 50)
	r.Floor("edit_publishes_judged", int64(n))
	r.Floor("edit_publishes_where_only_the_pod_address_changed", int64(n/5))
	r.Floor("edit_publishes_where_the_advertised_port_changed", int64(n/8))
	r.Floor("edit_publishes_where_the_advertised_host_changed", 2)
}
