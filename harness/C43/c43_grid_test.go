//go:build verif

package broker

import (
	"fmt"
	"testing"
	"testing/synctest"

	"github.com/KafScale/platform/internal/verifkit"
)

// Boundary grid: heartbeat gaps placed exactly on, 1 ms before and 1 ms after
// the session timeout and the cleanup ticks, for every phase of the first
// contact relative to the cleanup ticker; and a rebalance grid (laggard vs
// re-joined heartbeater) over deadline/bump/heartbeat-period offsets.
func TestVerifC43Grid(t *testing.T) {
	r := verifkit.Start(t, "C43", "grid")
	gSeedSalt = r.Seed
	gaps := []int64{1000, 1499, 1500, 1501, 1999, 2000, 2001, 2499, 2500, 2501, 3000}
	phases := []int64{0, 1, 100, 250, 499}
	k := r.N(2, 3)
	defer r.Finish(fmt.Sprintf("enumerated timing grid on virtual time, judged by the C43 observer of leg 'group'. (A) one member, session 2 s, cleanup 500 ms: first join at phase %v ms after a cleanup tick, then %d heartbeat gaps each drawn from %v ms (all %d^%d x %d combinations): gaps of exactly the session timeout, +-1 ms, and +-1 ms around the following cleanup ticks. (B) members A,B stable, C joins (rebalance timeout 2 s, cleanup 500 ms) at phase p; A re-joins after d in {never,0,500,1500} ms and then heartbeats every h in {400,500,1000} ms with session 1.5 s or 3 s while B (session 6 s) stays silent: all combinations. (C) the session timeout changes: one member joins with s0 in {2,4} s and re-joins 700 ms later under the same member id announcing s1 in {1,2,3,4,6} s, then two heartbeat gaps each drawn from +-1 ms around both timeouts and 501 ms inside the interval between them, then silence, for 3 phases. (D)/(E) the same change arriving while a rebalance is being prepared (A,B stable, C joins, A re-joins announcing the new timeout, B lags) or completing (B left, A re-joined, re-joins again), A then heartbeating every {1,2,2.5,4} s with timeouts 1.5/3/4.5 s. A member's session timeout is the one announced by its latest accepted JoinGroup. Lower/upper bounds as in leg 'group', exact because probes sit on the cleanup ticks. non-trivial = case with a legitimate removal and a probe where a member outlived join+session thanks to heartbeats", phases, k, gaps, len(gaps), k, len(phases)),
		"heartbeats answered ILLEGAL_GENERATION/UNKNOWN_MEMBER_ID do not count as heartbeating for the lower bound but do count as contact for the upper bound (lenient both ways)")
	type gcase struct {
		name string
		cfg  gConfig
		ops  []gOp
	}
	var cases []gcase
	// (A)
	idx := make([]int, k)
	for {
		for _, ph := range phases {
			cfg := gConfig{Topics: map[string]int{"ta": 1}, Universe: []string{"ta"}, M: 1, SessionMs: []int64{2000}, RebalMs: []int64{3000}, CleanupMs: 500}
			var ops []gOp
			name := fmt.Sprintf("A/phase%d", ph)
			if ph > 0 {
				ops = append(ops, gOp{K: "advance", DtMs: ph})
			}
			ops = append(ops, gOp{K: "join", Slot: 0, Sub: []string{"ta"}}, gOp{K: "sync", Slot: 0})
			for _, gi := range idx {
				ops = append(ops, gOp{K: "advance", DtMs: gaps[gi]}, gOp{K: "hb", Slot: 0})
				name += fmt.Sprintf("/+%d", gaps[gi])
			}
			ops = append(ops, gOp{K: "advance", DtMs: 3100})
			cases = append(cases, gcase{name, cfg, ops})
		}
		i := k - 1
		for ; i >= 0; i-- {
			idx[i]++
			if idx[i] < len(gaps) {
				break
			}
			idx[i] = 0
		}
		if i < 0 {
			break
		}
	}
	// (B)
	for _, ph := range []int64{0, 100, 250, 499} {
		for _, d := range []int64{-1, 0, 500, 1500} {
			for _, h := range []int64{400, 500, 1000} {
				for _, sa := range []int64{1500, 3000} {
					cfg := gConfig{Topics: map[string]int{"ta": 3}, Universe: []string{"ta"}, M: 3, SessionMs: []int64{sa, 6000, 6000}, RebalMs: []int64{2000, 2000, 2000}, CleanupMs: 500}
					sub := []string{"ta"}
					ops := []gOp{{K: "join", Slot: 0, Sub: sub}, {K: "join", Slot: 1, Sub: sub}, {K: "settle"}}
					if ph > 0 {
						ops = append(ops, gOp{K: "advance", DtMs: ph})
					}
					ops = append(ops, gOp{K: "join", Slot: 2, Sub: sub})
					elapsed := int64(0)
					if d >= 0 {
						if d > 0 {
							ops = append(ops, gOp{K: "advance", DtMs: d})
							elapsed += d
						}
						ops = append(ops, gOp{K: "join", Slot: 0})
					}
					for elapsed < 7000 {
						ops = append(ops, gOp{K: "advance", DtMs: h}, gOp{K: "hb", Slot: 0})
						elapsed += h
					}
					cases = append(cases, gcase{fmt.Sprintf("B/phase%d/rejoin%d/every%d/session%d", ph, d, h, sa), cfg, ops})
				}
			}
		}
	}
	// (C) the member's session timeout changes: one member, cleanup 500 ms, joins with s0, re-joins 700 ms later under the
	// same member id announcing s1 != s0, then two heartbeat gaps each drawn from +-1 ms around both timeouts and 501 ms
	// inside the interval between them, then silence
	for _, s0 := range []int64{2000, 4000} {
		for _, s1 := range []int64{1000, 2000, 3000, 4000, 6000} {
			if s1 == s0 {
				continue
			}
			mn, mx := s0, s1
			if mn > mx {
				mn, mx = mx, mn
			}
			cg := []int64{mn - 1, mn + 1, mn + 501, mx - 501, mx - 1, mx + 1}
			for _, ph := range []int64{0, 250, 499} {
				for _, g1 := range cg {
					for _, g2 := range cg {
						cfg := gConfig{Topics: map[string]int{"ta": 1}, Universe: []string{"ta"}, M: 1, SessionMs: []int64{s0}, RebalMs: []int64{3000}, CleanupMs: 500}
						var ops []gOp
						if ph > 0 {
							ops = append(ops, gOp{K: "advance", DtMs: ph})
						}
						ops = append(ops, gOp{K: "join", Slot: 0, Sub: []string{"ta"}}, gOp{K: "sync", Slot: 0}, gOp{K: "advance", DtMs: 700},
							gOp{K: "join", Slot: 0, SessMs: s1},
							gOp{K: "advance", DtMs: g1}, gOp{K: "hb", Slot: 0}, gOp{K: "advance", DtMs: g2}, gOp{K: "hb", Slot: 0},
							gOp{K: "advance", DtMs: mx + 1100})
						cases = append(cases, gcase{fmt.Sprintf("C/phase%d/session%d->%d/+%d/+%d", ph, s0, s1, g1, g2), cfg, ops})
					}
				}
			}
		}
	}
	// (D) the change arrives while a rebalance is being prepared (A,B stable, C joins, A re-joins announcing s1, B lags) and
	// (E) while one is completing (A,B stable, B leaves, A re-joins: completing; A re-joins again announcing s1); A then
	// heartbeats every h ms, with h below, between and above the two timeouts
	for _, ph := range []int64{0, 250, 499} {
		for _, sa := range []int64{1500, 3000} {
			for _, s1 := range []int64{1500, 3000, 4500} {
				if s1 == sa {
					continue
				}
				for _, h := range []int64{1000, 2000, 2500, 4000} {
					for _, d := range []int64{0, 500} {
						cfg := gConfig{Topics: map[string]int{"ta": 3}, Universe: []string{"ta"}, M: 3, SessionMs: []int64{sa, 6000, 6000}, RebalMs: []int64{2000, 2000, 2000}, CleanupMs: 500}
						sub := []string{"ta"}
						ops := []gOp{{K: "join", Slot: 0, Sub: sub}, {K: "join", Slot: 1, Sub: sub}, {K: "settle"}}
						if ph > 0 {
							ops = append(ops, gOp{K: "advance", DtMs: ph})
						}
						ops = append(ops, gOp{K: "join", Slot: 2, Sub: sub})
						if d > 0 {
							ops = append(ops, gOp{K: "advance", DtMs: d})
						}
						ops = append(ops, gOp{K: "join", Slot: 0, SessMs: s1})
						for elapsed := int64(0); elapsed < 9000; elapsed += h {
							ops = append(ops, gOp{K: "advance", DtMs: h}, gOp{K: "hb", Slot: 0})
						}
						cases = append(cases, gcase{fmt.Sprintf("D/phase%d/session%d->%d/rejoin%d/every%d", ph, sa, s1, d, h), cfg, ops})
					}
					cfg := gConfig{Topics: map[string]int{"ta": 3}, Universe: []string{"ta"}, M: 2, SessionMs: []int64{sa, 6000}, RebalMs: []int64{2000, 2000}, CleanupMs: 500}
					sub := []string{"ta"}
					ops := []gOp{{K: "join", Slot: 0, Sub: sub}, {K: "join", Slot: 1, Sub: sub}, {K: "settle"}}
					if ph > 0 {
						ops = append(ops, gOp{K: "advance", DtMs: ph})
					}
					ops = append(ops, gOp{K: "leave", Slot: 1}, gOp{K: "join", Slot: 0}, gOp{K: "join", Slot: 0, SessMs: s1})
					for elapsed := int64(0); elapsed < 9000; elapsed += h {
						ops = append(ops, gOp{K: "advance", DtMs: h}, gOp{K: "hb", Slot: 0})
					}
					cases = append(cases, gcase{fmt.Sprintf("E/phase%d/session%d->%d/every%d", ph, sa, s1, h), cfg, ops})
				}
			}
		}
	}
	for lo := 0; lo < len(cases); lo += 1000 {
		hi := lo + 1000
		if hi > len(cases) {
			hi = len(cases)
		}
		synctest.Test(t, func(t *testing.T) {
			for ci := lo; ci < hi; ci++ {
				gc := cases[ci]
				cfg := gc.cfg
				cfg.Group = fmt.Sprintf("q%d", ci)
				o := c43NewObs(r, cfg)
				w := gRunCaseInBubble(t, cfg, gc.ops, int64(ci%20000)*100000, func(w *gWorld) {
					w.obs = append(w.obs, o.observe, func(w *gWorld, ev *gEvent) { r.Seen("group_states", w.stateSig(ev.After)) })
				})
				if w.blocked {
					r.Inconclusive("case " + gc.name + ": a coordinator call never returned")
				}
				r.Case(gc.name, o.expiredOK+o.laggardOK > 0 && o.survivedByHeartbeat > 0)
				r.Count("probes", int64(len(w.log)))
				r.Count("probes_where_a_member_lived_on_heartbeats_only", int64(o.survivedByHeartbeat))
				if ci%997 == 0 {
					r.Sample(map[string]any{"case": gc.name, "run": gWitness(w, -1, nil)})
				}
			}
		})
	}
	r.Exhaustive(true)
	r.Note("grid_cases", len(cases))
	r.Floor("removed_after_session_lapse", 200)
	r.Floor("removed_as_rebalance_laggard", 20)
	r.Floor("probes_where_a_member_lived_on_heartbeats_only", 200)
	r.Floor("heartbeats_accepted_after_a_gap_longer_than_the_previous_session", 100)
	r.Floor("removed_after_a_shortened_session_before_the_previous_one_lapsed", 100)
	r.Floor("session_change_phases", 6)
}
