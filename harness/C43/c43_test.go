//go:build verif

package broker

import (
	"fmt"
	"math/rand"
	"sort"
	"testing"
	"time"

	"github.com/KafScale/platform/internal/verifkit"
)

// c43Member is the observer's clock bookkeeping for one member id.
type c43Member struct {
	session    time.Duration // announced with the member's latest JoinGroup that the coordinator answered 0 / REBALANCE_IN_PROGRESS
	sessLow    time.Duration // = session, unless a later join was answered with another code: then the smaller one (lower bound stays lenient)
	sessHigh   time.Duration // likewise the larger one (upper bound stays lenient)
	prev       time.Duration // the session timeout in force before the latest change (0 = never changed)
	lastLive   time.Duration // latest join reply, or heartbeat answered 0 or REBALANCE_IN_PROGRESS (id and generation were accepted)
	lastStrict time.Duration // latest join reply or heartbeat answered 0
	lastAny    time.Duration // latest request of any kind that named this id
	firstSeen  time.Duration
	hb27       int
}

type c43Obs struct {
	r                    *verifkit.Run
	flagged              map[string]bool
	mem                  map[string]*c43Member
	rebStart             time.Duration // when the stored generation last changed (a rebalance began)
	lastBump             time.Duration // latest join reply since then
	rmin, rmax, interval time.Duration

	expiredOK, laggardOK, survivedByHeartbeat int
	// a re-join changed a known member's session timeout, and the difference showed: a heartbeat accepted after a gap longer
	// than the previous (shorter) timeout / a legitimate removal earlier than the previous (longer) timeout allowed
	outlivedPrevSession, expiredBeforePrevSession int
}

func (o *c43Obs) violate(w *gWorld, ev *gEvent, class, summary string, extra map[string]any) {
	if o.flagged[class] {
		return
	}
	o.flagged[class] = true // one witness per class and case; judging goes on
	o.r.Violation(class, summary, gWitness(w, ev.I, extra))
}

func (o *c43Obs) m(id string, now time.Duration) *c43Member {
	x := o.mem[id]
	if x == nil {
		x = &c43Member{firstSeen: now, lastLive: now, lastStrict: now, lastAny: now}
		o.mem[id] = x
	}
	return x
}

func (o *c43Obs) observe(w *gWorld, ev *gEvent) {
	now := ev.At
	b, a := ev.Before, ev.After
	// 1. contacts
	switch ev.K {
	case "join":
		if ev.Code >= 0 && ev.MemberID != "" {
			known := o.mem[ev.MemberID] != nil
			x := o.m(ev.MemberID, now)
			// the member's session timeout is the one its LATEST accepted JoinGroup announced
			ann := time.Duration(ev.SessMs) * time.Millisecond
			if ev.Code == 0 || ev.Code == 27 || !known {
				if known && ann != x.session {
					x.prev = x.session
					dir := "shorter"
					if ann > x.session {
						dir = "longer"
					}
					phase := b.State
					if !b.Exists {
						phase = "absent"
					}
					o.r.Count("rejoins_announcing_a_"+dir+"_session", 1)
					o.r.Seen("session_change_phases", phase+"/"+dir)
				}
				x.session, x.sessLow, x.sessHigh = ann, ann, ann
			} else {
				// answered with some other code: unclear whether the announcement took effect; lenient both ways
				if ann < x.sessLow {
					x.sessLow = ann
				}
				if ann > x.sessHigh {
					x.sessHigh = ann
				}
			}
			x.lastLive, x.lastStrict, x.lastAny = now, now, now
			o.lastBump = now
		}
	case "hb":
		if x := o.mem[ev.ReqID]; x != nil {
			x.lastAny = now
			if (ev.Code == 0 || ev.Code == 27) && x.prev > 0 && x.prev < x.session && now > x.lastLive+x.prev+o.interval {
				o.outlivedPrevSession++
				o.r.Count("heartbeats_accepted_after_a_gap_longer_than_the_previous_session", 1)
			}
			if ev.Code == 0 {
				x.lastLive, x.lastStrict = now, now
			} else if ev.Code == 27 {
				x.lastLive = now
				x.hb27++
				o.r.Count("heartbeats_answered_rebalance_in_progress", 1)
			}
		}
	case "sync", "commit", "leave":
		if x := o.mem[ev.ReqID]; x != nil {
			x.lastAny = now
		}
	}
	// 2. removals: only legitimate once the session lapsed, or for a rebalance laggard once the rebalance timeout lapsed
	var removed []string
	for id := range b.Members {
		if !a.has(id) && !(ev.K == "leave" && ev.ReqID == id && ev.Code == 0) {
			removed = append(removed, id)
		}
	}
	for _, id := range removed {
		x := o.mem[id]
		if x == nil {
			continue
		}
		info := w.ids[id]
		sessionLapsed := now >= x.lastLive+x.sessLow
		laggard := b.State == groupStatePreparingStr && info != nil && info.LastJoinGen != b.Gen && now >= o.rebStart+o.rmin
		if sessionLapsed {
			o.expiredOK++
			o.r.Count("removed_after_session_lapse", 1)
			if x.prev > x.session && now < x.lastLive+x.prev {
				o.expiredBeforePrevSession++
				o.r.Count("removed_after_a_shortened_session_before_the_previous_one_lapsed", 1)
			}
			continue
		}
		if laggard {
			o.laggardOK++
			o.r.Count("removed_as_rebalance_laggard", 1)
			continue
		}
		class := "member_removed_before_its_timeout"
		if x.prev > 0 && x.prev < x.sessLow && now >= x.lastLive+x.prev {
			// the removal is explained exactly by policing the member with the timeout its latest join superseded
			class = "member_expired_by_superseded_session_timeout"
		} else if now >= x.lastStrict+x.sessLow && x.hb27 > 0 {
			// the removal is explained exactly by not counting heartbeats that were answered REBALANCE_IN_PROGRESS
			class = "heartbeat_during_rebalance_does_not_refresh_session"
		}
		o.violate(w, ev, class, fmt.Sprintf("member %s (session %s as announced by its latest join, %s before that) removed at t=%s; its last accepted contact (join, or heartbeat answered 0/27) was at t=%s, last join or heartbeat answered 0 at t=%s; group was %s generation %d, member had joined generation %d",
			id, x.session, x.prev, now, x.lastLive, x.lastStrict, b.State, b.Gen, func() int32 {
				if info != nil {
					return info.LastJoinGen
				}
				return -1
			}()), map[string]any{"member": id})
	}
	// "... and the group rebalances"
	if len(removed) > 0 && a.Exists && len(a.Members) > 0 && !(a.Gen > b.Gen) {
		o.violate(w, ev, "no_rebalance_after_member_removal", fmt.Sprintf("members %v were removed at t=%s but the generation stayed %d (state %s)", removed, now, a.Gen, a.State), nil)
		return
	}
	// a generation change is the beginning of a rebalance (this step's removals were judged against the old one)
	if a.Exists && (!b.Exists || a.Gen != b.Gen) {
		o.rebStart, o.lastBump = now, now
	}
	// 3. overdue members must be gone
	for id := range a.Members {
		x := o.mem[id]
		if x == nil || x.session == 0 {
			continue
		}
		info := w.ids[id]
		if now > x.lastAny+x.sessHigh+o.interval {
			class := "silent_member_not_removed"
			if x.prev > x.sessHigh && now <= x.lastAny+x.prev+o.interval {
				class = "silent_member_kept_for_superseded_session_timeout" // explained exactly by the timeout its latest join superseded
			}
			o.violate(w, ev, class, fmt.Sprintf("member %s (session %s, before its latest re-join %s) still listed at t=%s, its last request of any kind was at t=%s, cleanup interval %s", id, x.session, x.prev, now, x.lastAny, o.interval), map[string]any{"member": id})
			return
		}
		if a.State == groupStatePreparingStr && info != nil && info.LastJoinGen != a.Gen && now > o.lastBump+o.rmax+o.interval {
			o.violate(w, ev, "rebalance_laggard_not_removed", fmt.Sprintf("member %s has not re-joined generation %d; rebalance began t=%s, last join by anyone t=%s, rebalance timeout <= %s, cleanup interval %s, still listed at t=%s", id, a.Gen, o.rebStart, o.lastBump, o.rmax, o.interval, now), map[string]any{"member": id})
			return
		}
		// coverage: a member alive now although it would be gone had its heartbeats not been counted
		if info != nil && now > info.LastJoinAt+x.session+o.interval && x.lastLive > info.LastJoinAt {
			o.survivedByHeartbeat++
		}
	}
}

func c43NewObs(r *verifkit.Run, cfg gConfig) *c43Obs {
	o := &c43Obs{r: r, flagged: map[string]bool{}, mem: map[string]*c43Member{}, interval: time.Duration(cfg.CleanupMs) * time.Millisecond}
	o.rmin, o.rmax = time.Duration(cfg.RebalMs[0])*time.Millisecond, time.Duration(cfg.RebalMs[0])*time.Millisecond
	for _, v := range cfg.RebalMs {
		d := time.Duration(v) * time.Millisecond
		if d < o.rmin {
			o.rmin = d
		}
		if d > o.rmax {
			o.rmax = d
		}
	}
	return o
}

// c43Template builds structured timing scenarios: a group is formed, then some
// members heartbeat at a fixed period below their session timeout while others
// go silent or lag a rebalance.
func c43Template(rng *rand.Rand, cfg gConfig) []gOp {
	var ops []gOp
	for i := 0; i < cfg.M; i++ {
		ops = append(ops, gOp{K: "join", Slot: i, Sub: gRandSub(rng, cfg.Universe)})
	}
	ops = append(ops, gOp{K: "settle"})
	minS := cfg.SessionMs[0]
	for _, s := range cfg.SessionMs {
		if s < minS {
			minS = s
		}
	}
	kind := rng.Intn(4)
	silent := rng.Intn(cfg.M)
	period := minS/4 + rng.Int63n(minS*3/4-1) // < smallest session
	rounds := 6 + rng.Intn(14)
	switch kind {
	case 0: // steady heartbeats, one member silent
	case 1: // a new member triggers a rebalance; some re-join, the silent one lags
		ops = append(ops, gOp{K: "join", Slot: (silent + 1) % cfg.M, Fresh: true})
	case 2: // a member leaves: rebalance; the silent one lags, the others re-join once and keep heartbeating
		if cfg.M > 1 {
			ops = append(ops, gOp{K: "leave", Slot: (silent + 1) % cfg.M})
		}
	case 3: // everybody re-joins the rebalance except the silent one, then only heartbeats
		ops = append(ops, gOp{K: "join", Slot: (silent + 1) % cfg.M, Fresh: true})
	}
	rejoined := false
	for k := 0; k < rounds; k++ {
		ops = append(ops, gOp{K: "advance", DtMs: period})
		for i := 0; i < cfg.M; i++ {
			if i == silent {
				continue
			}
			if kind != 0 && !rejoined && rng.Intn(2) == 0 {
				ops = append(ops, gOp{K: "join", Slot: i})
			}
			if kind == 0 {
				ops = append(ops, gOp{K: "hbr", Slot: i}) // reacts to "re-join" answers like a real client
			} else {
				ops = append(ops, gOp{K: "hb", Slot: i})
			}
		}
		if kind != 0 {
			rejoined = rejoined || rng.Intn(3) == 0
		}
	}
	return ops
}

// c43Resession builds the scenarios in which a member's session timeout CHANGES: a group is formed,
// then member X re-joins under its own member id announcing a different session timeout (a restarted /
// reconfigured client) while the group is stable, preparing a rebalance, completing one, or with the
// re-join itself starting the rebalance (new subscription). After that X either heartbeats with a
// period that lies between the two timeouts (only the new, longer one keeps it alive) or falls silent
// (it has to go once the new, shorter one lapsed, long before the old one), while the others keep
// heartbeating well within their own timeouts. Judged by the unchanged observer.
func c43Resession(rng *rand.Rand, cfg gConfig, sessions []int64) []gOp {
	var ops []gOp
	for i := 0; i < cfg.M; i++ {
		ops = append(ops, gOp{K: "join", Slot: i, Sub: gRandSub(rng, cfg.Universe)})
	}
	ops = append(ops, gOp{K: "settle"})
	x := rng.Intn(cfg.M)
	old := cfg.SessionMs[x]
	minS := old
	for _, s := range cfg.SessionMs {
		if s < minS {
			minS = s
		}
	}
	cand := []int64{old * 2, old + 2*cfg.CleanupMs + 1 + rng.Int63n(2000), old * 3}
	if rng.Intn(2) == 0 { // shorter
		cand = []int64{old / 2, old / 4, old - 2*cfg.CleanupMs - 1 - rng.Int63n(old/3)}
	}
	for _, s := range sessions {
		if (s > old) == (cand[0] > old) && s != old {
			cand = append(cand, s)
		}
	}
	nw := cand[rng.Intn(len(cand))]
	if nw < 600 {
		nw = 600
	}
	if nw == old {
		nw = old * 2
	}
	if d := rng.Int63n(minS / 2); d > 0 && rng.Intn(3) > 0 {
		ops = append(ops, gOp{K: "advance", DtMs: d})
	}
	gone := -1 // a slot that abandoned its member id or left: it takes no further part
	other := (x + 1 + rng.Intn(cfg.M-1)) % cfg.M
	rejoin := gOp{K: "join", Slot: x, SessMs: nw}
	switch phase := rng.Intn(5); phase {
	case 0: // stable
	case 1: // preparing a rebalance: somebody joined afresh (its old id will lag), X re-joins into the open rebalance
		ops = append(ops, gOp{K: "join", Slot: other, Fresh: true})
	case 2: // preparing a rebalance after a leave
		ops = append(ops, gOp{K: "leave", Slot: other})
		gone = other
	case 3: // completing a rebalance: after a leave everybody left re-joined, nobody synced yet; X then re-joins once more
		ops = append(ops, gOp{K: "leave", Slot: other})
		gone = other
		for i := 0; i < cfg.M; i++ {
			if i != gone {
				ops = append(ops, gOp{K: "join", Slot: i})
			}
		}
	case 4: // the re-join itself starts the rebalance: new subscription and new session timeout in one request
		rejoin.Sub = gRandSub(rng, cfg.Universe)
	}
	if rng.Intn(3) == 0 {
		ops = append(ops, gOp{K: "advance", DtMs: 1 + rng.Int63n(cfg.CleanupMs*2)})
	}
	ops = append(ops, rejoin)
	switch rng.Intn(3) {
	case 0: // the well-behaved rest of the round: everybody (re-)joins and syncs
		ops = append(ops, gOp{K: "settle"})
	case 1:
		ops = append(ops, gOp{K: "sync", Slot: x})
	}
	// timeline of heartbeats
	type tev struct {
		at   int64
		slot int
		k    string
	}
	var evs []tev
	var dur int64
	if nw > old {
		lo, hi := old+cfg.CleanupMs+1, nw-1
		period := hi
		if hi > lo {
			period = lo + rng.Int63n(hi-lo+1)
		}
		dur = period * int64(3+rng.Intn(4))
		k := "hb"
		if rng.Intn(2) == 0 {
			k = "hbr"
		}
		for t := period; t <= dur; t += period {
			evs = append(evs, tev{t, x, k})
		}
	} else {
		dur = old + 3*cfg.CleanupMs + rng.Int63n(1500)
	}
	for i := 0; i < cfg.M; i++ {
		if i == x || i == gone {
			continue
		}
		s := cfg.SessionMs[i]
		pi := s/4 + rng.Int63n(s/2)
		for t := pi; t <= dur; t += pi {
			evs = append(evs, tev{t, i, "hbr"})
		}
	}
	sort.SliceStable(evs, func(i, j int) bool { return evs[i].at < evs[j].at })
	cur := int64(0)
	for _, e := range evs {
		if e.at > cur {
			ops = append(ops, gOp{K: "advance", DtMs: e.at - cur})
			cur = e.at
		}
		ops = append(ops, gOp{K: e.k, Slot: e.slot})
	}
	if dur > cur {
		ops = append(ops, gOp{K: "advance", DtMs: dur - cur})
	}
	// epilogue: X shows up once more (told UNKNOWN_MEMBER_ID if it was expired), then silence until everybody is gone
	ops = append(ops, gOp{K: "hb", Slot: x})
	if rng.Intn(2) == 0 {
		ops = append(ops, gOp{K: "advance", DtMs: nw + old})
	}
	return ops
}

func TestVerifC43(t *testing.T) {
	r := verifkit.Start(t, "C43", "group")
	gSeedSalt = r.Seed
	defer r.Finish("real GroupCoordinator (cleanup interval 100-500 ms) over the real InMemoryStore on synctest virtual time; half the cases are PRNG op lists rich in heartbeats and time advances, half are structured timing scenarios (members heartbeating with a period below their session timeout through stable phases and through long rebalances, one member silent or lagging the rebalance); joins in the PRNG lists announce a freshly drawn session timeout with probability 0.3, and a third family of scripted cases changes a member's session timeout: a known member re-joins under its own member id announcing a longer or a shorter timeout while the group is stable, preparing a rebalance (after a fresh join or a leave), completing one, or with the re-join itself starting the rebalance (new subscription), and then heartbeats with a period between the old and the new timeout, or stays silent from before the new until after the old timeout, while the others keep heartbeating. A member's session timeout is the one announced by its latest JoinGroup the coordinator accepted (answered 0 or REBALANCE_IN_PROGRESS). The stored member set is probed at every cleanup tick instant and after every request. Lower bound: a member may disappear (other than by its own LeaveGroup) only at t >= last accepted contact + session timeout (accepted contact = JoinGroup reply, Heartbeat answered 0 or REBALANCE_IN_PROGRESS), or, while the group is preparing a rebalance it has not re-joined, at t >= rebalance start + smallest rebalance timeout in use. Upper bound: a listed member whose last request of any kind is older than session + cleanup interval is a violation; so is a laggard still listed later than last join by anyone + largest rebalance timeout + cleanup interval. A removal that leaves members behind must raise the stored generation. non-trivial = case with a legitimate expiry and a member that outlived join+session only thanks to heartbeats; for the session-change cases: a heartbeat accepted after a gap longer than the superseded timeout, or a legitimate expiry earlier than the superseded timeout allowed",
		"heartbeats answered ILLEGAL_GENERATION/UNKNOWN_MEMBER_ID do not count as heartbeating for the lower bound but do count as contact for the upper bound (lenient both ways)", "either trigger (session lapse, or rebalance timeout for a member that has not re-joined) legitimises a removal", "a JoinGroup answered with any other code leaves it open which announced timeout is in force: the smaller one is used for the lower bound, the larger one for the upper bound (does not occur over the in-memory store)", "exact because time is virtual and probes sit on the cleanup ticks")
	p := gDefaultProfile
	p.WJoin, p.WSync, p.WHB, p.WLeave, p.WCommit, p.WFetch, p.WAdvance, p.WSettle = 22, 8, 30, 2, 2, 0, 28, 8
	p.WHBR = 12
	p.PStale, p.PBigJump, p.PFresh = 0.05, 0.2, 0.05
	p.Sessions = []int64{2000, 3000, 5000, 8000}
	p.Rebals = []int64{1500, 3000, 6000, 12000}
	p.Cleanups = []int64{100, 250, 500}
	p.MixRebal = true
	p.PResess = 0.3
	n := r.N(500, 12000)
	seen := func(w *gWorld, ev *gEvent) { r.Seen("group_states", w.stateSig(ev.After)) }
	account := func(ci int, w *gWorld, o *c43Obs) {
		if w.blocked {
			r.Inconclusive(fmt.Sprintf("case %d: a coordinator call never returned", ci))
		}
		r.Case(gOpsSig(w), o.expiredOK+o.laggardOK > 0 && o.survivedByHeartbeat > 0)
		r.Count("steps_and_probes", int64(len(w.log)))
		r.Count("probes_where_a_member_lived_on_heartbeats_only", int64(o.survivedByHeartbeat))
		if ci < 2 {
			r.Sample(gWitness(w, -1, nil))
		}
	}
	for ci := 0; ci < n; ci++ {
		rng := r.Rand(ci)
		if ci%4 == 2 { // two groups served by one coordinator (one cleanup loop), interleaved
			cfgs, ops := gGenPair(rng, p, fmt.Sprintf("g%d", ci))
			var os [2]*c43Obs
			ws := gRunPair(t, cfgs, ops, int64(ci)*100000, func(i int, w *gWorld) {
				os[i] = c43NewObs(r, w.cfg)
				w.obs = append(w.obs, os[i].observe, seen)
			})
			account(ci, ws[0], os[0])
			account(ci, ws[1], os[1])
			r.Count("cases_with_two_groups_on_one_coordinator", 1)
			continue
		}
		cfg := gGenConfig(rng, p, fmt.Sprintf("g%d", ci))
		var ops []gOp
		if ci%2 == 0 {
			ops = gGenOps(rng, p, cfg)
		} else {
			if cfg.M < 2 {
				cfg.M = 2
				cfg.SessionMs = append(cfg.SessionMs, p.Sessions[rng.Intn(len(p.Sessions))])
				cfg.RebalMs = append(cfg.RebalMs, cfg.RebalMs[0])
			}
			ops = c43Template(rng, cfg)
		}
		o := c43NewObs(r, cfg)
		w := gRunCase(t, cfg, ops, int64(ci)*100000, func(w *gWorld) { w.obs = append(w.obs, o.observe, seen) })
		account(ci, w, o)
	}
	// session-timeout changes: the same member id re-joins announcing a longer / shorter timeout in every group phase
	nRe := r.N(240, 6000)
	for k := 0; k < nRe; k++ {
		ci := 1000000 + k
		rng := r.Rand(ci)
		cfg := gGenConfig(rng, p, fmt.Sprintf("s%d", k))
		if cfg.M < 2 {
			cfg.M = 2
			cfg.SessionMs = append(cfg.SessionMs, p.Sessions[rng.Intn(len(p.Sessions))])
			cfg.RebalMs = append(cfg.RebalMs, cfg.RebalMs[0])
		}
		ops := c43Resession(rng, cfg, p.Sessions)
		o := c43NewObs(r, cfg)
		w := gRunCase(t, cfg, ops, int64(ci%20000)*100000, func(w *gWorld) { w.obs = append(w.obs, o.observe, seen) })
		if w.blocked {
			r.Inconclusive(fmt.Sprintf("session-change case %d: a coordinator call never returned", k))
		}
		r.Case(gOpsSig(w), o.outlivedPrevSession+o.expiredBeforePrevSession > 0)
		r.Count("steps_and_probes", int64(len(w.log)))
		r.Count("probes_where_a_member_lived_on_heartbeats_only", int64(o.survivedByHeartbeat))
		r.Count("cases_with_a_scripted_session_timeout_change", 1)
		if k < 2 {
			r.Sample(gWitness(w, -1, nil))
		}
	}
	r.Floor("removed_after_session_lapse", 100)
	r.Floor("removed_as_rebalance_laggard", 20)
	r.Floor("probes_where_a_member_lived_on_heartbeats_only", 200)
	r.Floor("group_states", 12)
	r.Floor("rejoins_announcing_a_longer_session", 60)
	r.Floor("rejoins_announcing_a_shorter_session", 60)
	r.Floor("heartbeats_accepted_after_a_gap_longer_than_the_previous_session", 40)
	r.Floor("removed_after_a_shortened_session_before_the_previous_one_lapsed", 20)
	r.Floor("session_change_phases", 6)
	r.Exhaustive(false) // a sample of histories; the bounded-exhaustive part is leg enum
}
