//go:build verif

package broker

import (
	"fmt"
	"math/rand"
	"testing"
	"time"

	"github.com/KafScale/platform/internal/verifkit"
)

// c43Member is the observer's clock bookkeeping for one member id.
type c43Member struct {
	session    time.Duration
	lastLive   time.Duration // latest join reply, or heartbeat answered 0 or REBALANCE_IN_PROGRESS (id and generation were accepted)
	lastStrict time.Duration // latest join reply or heartbeat answered 0
	lastAny    time.Duration // latest request of any kind that named this id
	firstSeen  time.Duration
	hb27       int
}

type c43Obs struct {
	r                    *verifkit.Run
	flagged              map[string]bool
	mem                  map[string]*c43Member
	rebStart             time.Duration // when the stored generation last changed (a rebalance began)
	lastBump             time.Duration // latest join reply since then
	rmin, rmax, interval time.Duration

	expiredOK, laggardOK, survivedByHeartbeat int
}

func (o *c43Obs) violate(w *gWorld, ev *gEvent, class, summary string, extra map[string]any) {
	if o.flagged[class] {
		return
	}
	o.flagged[class] = true // one witness per class and case; judging goes on
	o.r.Violation(class, summary, gWitness(w, ev.I, extra))
}

func (o *c43Obs) m(id string, now time.Duration) *c43Member {
	x := o.mem[id]
	if x == nil {
		x = &c43Member{firstSeen: now, lastLive: now, lastStrict: now, lastAny: now}
		o.mem[id] = x
	}
	return x
}

func (o *c43Obs) observe(w *gWorld, ev *gEvent) {
	now := ev.At
	b, a := ev.Before, ev.After
	// 1. contacts
	switch ev.K {
	case "join":
		if ev.Code >= 0 && ev.MemberID != "" {
			x := o.m(ev.MemberID, now)
			x.session = time.Duration(w.cfg.SessionMs[ev.Slot]) * time.Millisecond
			x.lastLive, x.lastStrict, x.lastAny = now, now, now
			o.lastBump = now
		}
	case "hb":
		if x := o.mem[ev.ReqID]; x != nil {
			x.lastAny = now
			if ev.Code == 0 {
				x.lastLive, x.lastStrict = now, now
			} else if ev.Code == 27 {
				x.lastLive = now
				x.hb27++
				o.r.Count("heartbeats_answered_rebalance_in_progress", 1)
			}
		}
	case "sync", "commit", "leave":
		if x := o.mem[ev.ReqID]; x != nil {
			x.lastAny = now
		}
	}
	// 2. removals: only legitimate once the session lapsed, or for a rebalance laggard once the rebalance timeout lapsed
	var removed []string
	for id := range b.Members {
		if !a.has(id) && !(ev.K == "leave" && ev.ReqID == id && ev.Code == 0) {
			removed = append(removed, id)
		}
	}
	for _, id := range removed {
		x := o.mem[id]
		if x == nil {
			continue
		}
		info := w.ids[id]
		sessionLapsed := now >= x.lastLive+x.session
		laggard := b.State == groupStatePreparingStr && info != nil && info.LastJoinGen != b.Gen && now >= o.rebStart+o.rmin
		if sessionLapsed {
			o.expiredOK++
			o.r.Count("removed_after_session_lapse", 1)
			continue
		}
		if laggard {
			o.laggardOK++
			o.r.Count("removed_as_rebalance_laggard", 1)
			continue
		}
		class := "member_removed_before_its_timeout"
		if now >= x.lastStrict+x.session && x.hb27 > 0 {
			// the removal is explained exactly by not counting heartbeats that were answered REBALANCE_IN_PROGRESS
			class = "heartbeat_during_rebalance_does_not_refresh_session"
		}
		o.violate(w, ev, class, fmt.Sprintf("member %s (session %s) removed at t=%s; its last accepted contact (join, or heartbeat answered 0/27) was at t=%s, last join or heartbeat answered 0 at t=%s; group was %s generation %d, member had joined generation %d",
			id, x.session, now, x.lastLive, x.lastStrict, b.State, b.Gen, func() int32 {
				if info != nil {
					return info.LastJoinGen
				}
				return -1
			}()), map[string]any{"member": id})
	}
	// "... and the group rebalances"
	if len(removed) > 0 && a.Exists && len(a.Members) > 0 && !(a.Gen > b.Gen) {
		o.violate(w, ev, "no_rebalance_after_member_removal", fmt.Sprintf("members %v were removed at t=%s but the generation stayed %d (state %s)", removed, now, a.Gen, a.State), nil)
		return
	}
	// a generation change is the beginning of a rebalance (this step's removals were judged against the old one)
	if a.Exists && (!b.Exists || a.Gen != b.Gen) {
		o.rebStart, o.lastBump = now, now
	}
	// 3. overdue members must be gone
	for id := range a.Members {
		x := o.mem[id]
		if x == nil || x.session == 0 {
			continue
		}
		info := w.ids[id]
		if now > x.lastAny+x.session+o.interval {
			o.violate(w, ev, "silent_member_not_removed", fmt.Sprintf("member %s (session %s) still listed at t=%s, its last request of any kind was at t=%s, cleanup interval %s", id, x.session, now, x.lastAny, o.interval), map[string]any{"member": id})
			return
		}
		if a.State == groupStatePreparingStr && info != nil && info.LastJoinGen != a.Gen && now > o.lastBump+o.rmax+o.interval {
			o.violate(w, ev, "rebalance_laggard_not_removed", fmt.Sprintf("member %s has not re-joined generation %d; rebalance began t=%s, last join by anyone t=%s, rebalance timeout <= %s, cleanup interval %s, still listed at t=%s", id, a.Gen, o.rebStart, o.lastBump, o.rmax, o.interval, now), map[string]any{"member": id})
			return
		}
		// coverage: a member alive now although it would be gone had its heartbeats not been counted
		if info != nil && now > info.LastJoinAt+x.session+o.interval && x.lastLive > info.LastJoinAt {
			o.survivedByHeartbeat++
		}
	}
}

func c43NewObs(r *verifkit.Run, cfg gConfig) *c43Obs {
	o := &c43Obs{r: r, flagged: map[string]bool{}, mem: map[string]*c43Member{}, interval: time.Duration(cfg.CleanupMs) * time.Millisecond}
	o.rmin, o.rmax = time.Duration(cfg.RebalMs[0])*time.Millisecond, time.Duration(cfg.RebalMs[0])*time.Millisecond
	for _, v := range cfg.RebalMs {
		d := time.Duration(v) * time.Millisecond
		if d < o.rmin {
			o.rmin = d
		}
		if d > o.rmax {
			o.rmax = d
		}
	}
	return o
}

// c43Template builds structured timing scenarios: a group is formed, then some
// members heartbeat at a fixed period below their session timeout while others
// go silent or lag a rebalance.
func c43Template(rng *rand.Rand, cfg gConfig) []gOp {
	var ops []gOp
	for i := 0; i < cfg.M; i++ {
		ops = append(ops, gOp{K: "join", Slot: i, Sub: gRandSub(rng, cfg.Universe)})
	}
	ops = append(ops, gOp{K: "settle"})
	minS := cfg.SessionMs[0]
	for _, s := range cfg.SessionMs {
		if s < minS {
			minS = s
		}
	}
	kind := rng.Intn(4)
	silent := rng.Intn(cfg.M)
	period := minS/4 + rng.Int63n(minS*3/4-1) // < smallest session
	rounds := 6 + rng.Intn(14)
	switch kind {
	case 0: // steady heartbeats, one member silent
	case 1: // a new member triggers a rebalance; some re-join, the silent one lags
		ops = append(ops, gOp{K: "join", Slot: (silent + 1) % cfg.M, Fresh: true})
	case 2: // a member leaves: rebalance; the silent one lags, the others re-join once and keep heartbeating
		if cfg.M > 1 {
			ops = append(ops, gOp{K: "leave", Slot: (silent + 1) % cfg.M})
		}
	case 3: // everybody re-joins the rebalance except the silent one, then only heartbeats
		ops = append(ops, gOp{K: "join", Slot: (silent + 1) % cfg.M, Fresh: true})
	}
	rejoined := false
	for k := 0; k < rounds; k++ {
		ops = append(ops, gOp{K: "advance", DtMs: period})
		for i := 0; i < cfg.M; i++ {
			if i == silent {
				continue
			}
			if kind != 0 && !rejoined && rng.Intn(2) == 0 {
				ops = append(ops, gOp{K: "join", Slot: i})
			}
			if kind == 0 {
				ops = append(ops, gOp{K: "hbr", Slot: i}) // reacts to "re-join" answers like a real client
			} else {
				ops = append(ops, gOp{K: "hb", Slot: i})
			}
		}
		if kind != 0 {
			rejoined = rejoined || rng.Intn(3) == 0
		}
	}
	return ops
}

func TestVerifC43(t *testing.T) {
	r := verifkit.Start(t, "C43", "group")
	gSeedSalt = r.Seed
	defer r.Finish("real GroupCoordinator (cleanup interval 100-500 ms) over the real InMemoryStore on synctest virtual time; half the cases are PRNG op lists rich in heartbeats and time advances, half are structured timing scenarios (members heartbeating with a period below their session timeout through stable phases and through long rebalances, one member silent or lagging the rebalance). The stored member set is probed at every cleanup tick instant and after every request. Lower bound: a member may disappear (other than by its own LeaveGroup) only at t >= last accepted contact + session timeout (accepted contact = JoinGroup reply, Heartbeat answered 0 or REBALANCE_IN_PROGRESS), or, while the group is preparing a rebalance it has not re-joined, at t >= rebalance start + smallest rebalance timeout in use. Upper bound: a listed member whose last request of any kind is older than session + cleanup interval is a violation; so is a laggard still listed later than last join by anyone + largest rebalance timeout + cleanup interval. A removal that leaves members behind must raise the stored generation. non-trivial = case with a legitimate expiry and a member that outlived join+session only thanks to heartbeats",
		"heartbeats answered ILLEGAL_GENERATION/UNKNOWN_MEMBER_ID do not count as heartbeating for the lower bound but do count as contact for the upper bound (lenient both ways)", "either trigger (session lapse, or rebalance timeout for a member that has not re-joined) legitimises a removal", "exact because time is virtual and probes sit on the cleanup ticks")
	p := gDefaultProfile
	p.WJoin, p.WSync, p.WHB, p.WLeave, p.WCommit, p.WFetch, p.WAdvance, p.WSettle = 22, 8, 30, 2, 2, 0, 28, 8
	p.WHBR = 12
	p.PStale, p.PBigJump, p.PFresh = 0.05, 0.2, 0.05
	p.Sessions = []int64{2000, 3000, 5000, 8000}
	p.Rebals = []int64{1500, 3000, 6000, 12000}
	p.Cleanups = []int64{100, 250, 500}
	p.MixRebal = true
	n := r.N(500, 12000)
	seen := func(w *gWorld, ev *gEvent) { r.Seen("group_states", w.stateSig(ev.After)) }
	account := func(ci int, w *gWorld, o *c43Obs) {
		if w.blocked {
			r.Inconclusive(fmt.Sprintf("case %d: a coordinator call never returned", ci))
		}
		r.Case(gOpsSig(w), o.expiredOK+o.laggardOK > 0 && o.survivedByHeartbeat > 0)
		r.Count("steps_and_probes", int64(len(w.log)))
		r.Count("probes_where_a_member_lived_on_heartbeats_only", int64(o.survivedByHeartbeat))
		if ci < 2 {
			r.Sample(gWitness(w, -1, nil))
		}
	}
	for ci := 0; ci < n; ci++ {
		rng := r.Rand(ci)
		if ci%4 == 2 { // two groups served by one coordinator (one cleanup loop), interleaved
			cfgs, ops := gGenPair(rng, p, fmt.Sprintf("g%d", ci))
			var os [2]*c43Obs
			ws := gRunPair(t, cfgs, ops, int64(ci)*100000, func(i int, w *gWorld) {
				os[i] = c43NewObs(r, w.cfg)
				w.obs = append(w.obs, os[i].observe, seen)
			})
			account(ci, ws[0], os[0])
			account(ci, ws[1], os[1])
			r.Count("cases_with_two_groups_on_one_coordinator", 1)
			continue
		}
		cfg := gGenConfig(rng, p, fmt.Sprintf("g%d", ci))
		var ops []gOp
		if ci%2 == 0 {
			ops = gGenOps(rng, p, cfg)
		} else {
			if cfg.M < 2 {
				cfg.M = 2
				cfg.SessionMs = append(cfg.SessionMs, p.Sessions[rng.Intn(len(p.Sessions))])
				cfg.RebalMs = append(cfg.RebalMs, cfg.RebalMs[0])
			}
			ops = c43Template(rng, cfg)
		}
		o := c43NewObs(r, cfg)
		w := gRunCase(t, cfg, ops, int64(ci)*100000, func(w *gWorld) { w.obs = append(w.obs, o.observe, seen) })
		account(ci, w, o)
	}
	r.Floor("removed_after_session_lapse", 100)
	r.Floor("removed_as_rebalance_laggard", 20)
	r.Floor("probes_where_a_member_lived_on_heartbeats_only", 200)
	r.Floor("group_states", 12)
	r.Exhaustive(false) // a sample of histories; the bounded-exhaustive part is leg enum
}
