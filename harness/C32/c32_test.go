//go:build verif

package main

// C32 — an LFS HTTP upload reported successful is stored and acknowledged.
//
// The real HTTP handlers (same routes and middleware as startHTTPServer) run
// behind httptest; S3 is the harness stand-in with real multipart semantics
// (vfS3); the Kafka backend is a scripted TCP broker that decodes every produce
// it receives with the reference codec, logs it together with the answer it
// gave, and answers success / a per-partition error code / a reply that does not
// acknowledge the partition / garbage / nothing.
//
// Oracle (from the statement): the FINAL response of an upload (POST
// /lfs/produce, or POST /lfs/uploads/<id>/complete) has a 2xx status  ==>
//   (a) an object exists at envelope.key,
//   (b) len(object) == envelope.size and SHA-256(object) == envelope.sha256,
//   (c) the broker log holds a well-formed produce for the requested
//       topic/partition whose record value is that envelope, and the broker's
//       answer acknowledged that partition with error code 0.
// Any non-2xx final status is accepted ("otherwise the client gets an error").

import (
	"bytes"
	"crypto/md5"
	"crypto/sha256"
	"encoding/base64"
	"encoding/binary"
	"encoding/hex"
	"encoding/json"
	"fmt"
	"hash/crc32"
	"io"
	"log/slog"
	"math/rand"
	"net/http"
	"net/http/httptest"
	"os"
	"strconv"
	"strings"
	"sync/atomic"
	"testing"
	"time"

	"github.com/KafScale/platform/internal/verifkit"
)

const c32MiB = 1 << 20

// ---------------------------------------------------------------------------
// case description
// ---------------------------------------------------------------------------

type c32Case struct {
	Index       int    `json:"case"`
	Kind        string `json:"kind"` // single | multipart
	Topic       string `json:"topic"`
	Partition   int32  `json:"partition"`
	HasKey      bool   `json:"has_key"`
	ChunkSize   int64  `json:"chunk_size"`
	Size        int    `json:"size"`
	PartSizes   []int  `json:"part_sizes,omitempty"`
	ListKind    string `json:"completion_list,omitempty"` // full | drop_first | drop_last | drop_middle | duplicated | reordered | wrong_etag | unknown_part | only_last | multiset_equal_len | multiset_any
	List        []int  `json:"listed_part_numbers,omitempty"` // multiset_*: the part numbers of the completion list, in request order (right etag each)
	ResendPart  bool   `json:"resend_part,omitempty"`
	Alg         string `json:"checksum_alg"`
	Checksum    string `json:"declared_checksum"` // none | right | right_upper | wrong
	Broker      string `json:"broker"`
	S3Fault     string `json:"s3_fault,omitempty"`
	DefaultAlg  string `json:"default_alg"`
	CompleteTwo bool   `json:"complete_twice,omitempty"`
}

func (c c32Case) sig() string {
	sz := "small"
	switch {
	case c.Size >= 10*c32MiB:
		sz = "xl"
	case c.Size > 5*c32MiB:
		sz = "over_chunk"
	case c.Size == 5*c32MiB:
		sz = "exact_chunk"
	case c.Size > 64*1024:
		sz = "large"
	}
	return fmt.Sprintf("%s/%s/%d/%s%v/%v/%s/%s/%s/%s/%v/%v/%d", c.Kind, sz, len(c.PartSizes), c.ListKind, c.List, c.ResendPart, c.Alg, c.Checksum, c.Broker, c.S3Fault, c.HasKey, c.CompleteTwo, c.Partition)
}

var c32BrokerModes = []string{"ok", "ok", "ok", "ok", "ok", "ok", "ok", "ok", "ok", "ok", "ok", "ok", "code:6", "code:3", "code:10", "code:7", "code:2", "code:29", "code:87", "code:-1", "code:19", "no_partition", "other_partition", "garbage", "garbage_hdr", "close", "half"}

func c32Digest(alg string, v []byte) string {
	switch alg {
	case "md5":
		s := md5.Sum(v)
		return hex.EncodeToString(s[:])
	case "crc32":
		var b [4]byte
		binary.BigEndian.PutUint32(b[:], crc32.ChecksumIEEE(v))
		return hex.EncodeToString(b[:])
	default:
		s := sha256.Sum256(v)
		return hex.EncodeToString(s[:])
	}
}

func c32Gen(rng *rand.Rand, ci int, multipart bool) c32Case {
	c := c32Case{Index: ci, Topic: []string{"uploads", "video.raw", "t-1", "A_b"}[rng.Intn(4)], Partition: int32([]int{0, 0, 1, 7}[rng.Intn(4)]), HasKey: rng.Intn(2) == 0}
	c.DefaultAlg = []string{"sha256", "sha256", "md5", "crc32", "none"}[rng.Intn(5)]
	c.Alg = []string{"", "", "sha256", "md5", "crc32", "none"}[rng.Intn(6)]
	eff := c.Alg
	if eff == "" {
		eff = c.DefaultAlg
	}
	c.Checksum = []string{"none", "none", "right", "right_upper", "wrong"}[rng.Intn(5)]
	if eff == "none" && c.Checksum != "none" && rng.Intn(3) > 0 {
		c.Checksum = "none" // (a checksum with alg none is refused up front; keep a few)
	}
	c.Broker = c32BrokerModes[rng.Intn(len(c32BrokerModes))]
	if !multipart {
		c.Kind = "single"
		c.ChunkSize = []int64{5 * c32MiB, 5 * c32MiB, 6 * c32MiB}[rng.Intn(3)]
		switch rng.Intn(12) {
		case 0:
			c.Size = 5 * c32MiB
		case 1:
			c.Size = 5*c32MiB + 1 + rng.Intn(1000)
		case 2:
			c.Size = 5*c32MiB - 1 - rng.Intn(1000)
		case 3:
			c.Size = 10*c32MiB + rng.Intn(3000)
		case 4:
			c.Size = 6*c32MiB - rng.Intn(2)
		case 5:
			c.Size = 1
		default:
			c.Size = 1 + rng.Intn(200*1024)
		}
		if rng.Intn(10) == 0 {
			if c.Size >= 5*c32MiB {
				c.S3Fault = []string{"CreateMultipartUpload", "UploadPart", "CompleteMultipartUpload"}[rng.Intn(3)]
			} else {
				c.S3Fault = "PutObject"
			}
		}
		return c
	}
	c.Kind = "multipart"
	c.ChunkSize = []int64{5 * c32MiB, 5*c32MiB + 4096}[rng.Intn(2)]
	nparts := []int{1, 2, 2, 2, 3}[rng.Intn(5)]
	c.ListKind = []string{"full", "full", "full", "drop_first", "drop_last", "only_last", "duplicated", "reordered", "wrong_etag", "unknown_part"}[rng.Intn(10)]
	if c.ListKind == "drop_middle" || (nparts == 3 && rng.Intn(3) == 0) {
		c.ListKind = "drop_middle"
	}
	if nparts == 1 && (strings.HasPrefix(c.ListKind, "drop") || c.ListKind == "only_last" || c.ListKind == "reordered") {
		nparts = 2
	}
	if c.ListKind == "drop_middle" {
		nparts = 3
	}
	// any multiset over the uploaded part numbers (every entry carries the right
	// etag of its part), in any order: lists of exactly as many entries as parts
	// were uploaded that repeat one part and so omit another, and lists of any
	// length 1..n+2
	switch rng.Intn(8) {
	case 0, 1:
		c.ListKind = "multiset_equal_len"
		if nparts < 2 {
			nparts = 2 + rng.Intn(2)
		}
		for {
			c.List = c.List[:0]
			distinct := map[int]bool{}
			for i := 0; i < nparts; i++ {
				pn := 1 + rng.Intn(nparts)
				c.List = append(c.List, pn)
				distinct[pn] = true
			}
			if len(distinct) < nparts { // not a permutation: something is listed twice and something is missing
				break
			}
		}
	case 2:
		c.ListKind = "multiset_any"
		for i, l := 0, 1+rng.Intn(nparts+2); i < l; i++ {
			c.List = append(c.List, 1+rng.Intn(nparts))
		}
	}
	for i := 0; i < nparts; i++ {
		if i < nparts-1 {
			c.PartSizes = append(c.PartSizes, 5*c32MiB+rng.Intn(int(c.ChunkSize-5*c32MiB)+1))
		} else {
			c.PartSizes = append(c.PartSizes, 1+rng.Intn(70000))
		}
		c.Size += c.PartSizes[i]
	}
	c.ResendPart = rng.Intn(5) == 0
	c.CompleteTwo = rng.Intn(6) == 0
	if c.ListKind != "full" && rng.Intn(3) > 0 {
		c.Broker = "ok" // isolate the part-list dimension
	}
	if rng.Intn(5) == 0 {
		c.S3Fault = []string{"UploadPart", "CompleteMultipartUpload"}[rng.Intn(2)]
		if c.S3Fault == "CompleteMultipartUpload" && rng.Intn(4) > 0 {
			// the natural reaction to a 5xx on completion is to send the completion again
			c.CompleteTwo = true
			if rng.Intn(2) == 0 {
				c.ListKind = "full" // so that the first completion actually reaches S3 and meets the fault
			}
		}
	}
	return c
}

type c32Envelope struct {
	Version int    `json:"kfs_lfs"`
	Bucket  string `json:"bucket"`
	Key     string `json:"key"`
	Size    *int64 `json:"size"`
	SHA256  string `json:"sha256"`
}

type c32HTTPResult struct {
	Status int
	Body   []byte
}

// ---------------------------------------------------------------------------
// the check
// ---------------------------------------------------------------------------

func TestVerifC32Upload(t *testing.T) {
	r := verifkit.Start(t, "C32", "upload")
	defer r.Finish("uploads through the real HTTP handlers (routes and middleware of startHTTPServer, behind httptest) against an S3 stand-in with real multipart semantics and a scripted TCP broker. Single-request uploads: body sizes 1 B..10 MiB around the 5 MiB chunk boundary (PutObject and streamed multipart branches), declared checksum none/right/right-uppercase/wrong under sha256/md5/crc32/none, optional one-shot S3 failures. Multipart sessions: 1-3 parts (non-final parts 5 MiB..part size), a part re-sent, completion lists full / first, middle or last part dropped / only the last part / one part duplicated on top of the full list / reordered / wrong etag / unknown part number / any multiset over the uploaded part numbers with the right etags in any order, both of exactly the uploaded length (one part repeated, another omitted) and of any length 1..n+2; completion repeated. Broker answers: success, per-partition error codes (6,3,10,7,2,29,87,-1,19), a reply without the partition, a reply for another partition, undecodable bytes, close, half a frame. Oracle on the FINAL response: status 2xx => object at envelope.key exists, len == envelope.size, SHA-256 == envelope.sha256, and the broker log holds a well-formed produce for the requested topic/partition whose record value is that envelope and whose answer acknowledged that partition with error code 0; any non-2xx status is accepted. non-trivial = the final request of the upload was issued",
		"'the broker has acknowledged the envelope record without error' is read as: the produce response carries an entry for the record's topic-partition with error code 0; a reply that cannot be decoded, or that has no entry for the partition, acknowledges nothing",
		"the S3 stand-in follows the S3 API description for CompleteMultipartUpload (object = exactly the listed parts; ascending part numbers; etag must match; non-final parts >= 5 MiB)",
		"HTTP client watchdog 120 s per request => inconclusive, never a violation")

	logger := slog.New(slog.NewTextHandler(io.Discard, nil))
	s3f := newVfS3(5 * c32MiB)
	broker := newVfBroker(t)
	defer broker.Close()

	var cur atomic.Pointer[lfsModule]
	wrap := func(h func(m *lfsModule) http.HandlerFunc) http.HandlerFunc {
		return func(w http.ResponseWriter, req *http.Request) {
			m := cur.Load()
			m.lfsCORSMiddleware(h(m))(w, req)
		}
	}
	mux := http.NewServeMux() // the routes of startHTTPServer
	mux.HandleFunc("/lfs/produce", wrap(func(m *lfsModule) http.HandlerFunc { return m.handleHTTPProduce }))
	mux.HandleFunc("/lfs/download", wrap(func(m *lfsModule) http.HandlerFunc { return m.handleHTTPDownload }))
	mux.HandleFunc("/lfs/uploads", wrap(func(m *lfsModule) http.HandlerFunc { return m.handleHTTPUploadInit }))
	mux.HandleFunc("/lfs/uploads/", wrap(func(m *lfsModule) http.HandlerFunc { return m.handleHTTPUploadSession }))
	srv := httptest.NewServer(mux)
	defer srv.Close()
	client := &http.Client{Timeout: 120 * time.Second}

	pool := make([]byte, 12*c32MiB)
	r.Rand(-1).Read(pool)

	do := func(method, path string, hdr map[string]string, body []byte) (c32HTTPResult, error) {
		req, err := http.NewRequest(method, srv.URL+path, bytes.NewReader(body))
		if err != nil {
			return c32HTTPResult{}, err
		}
		req.Header.Set("X-API-Key", "vf-key")
		for k, v := range hdr {
			req.Header.Set(k, v)
		}
		resp, err := client.Do(req)
		if err != nil {
			return c32HTTPResult{}, err
		}
		defer resp.Body.Close()
		b, err := io.ReadAll(resp.Body)
		return c32HTTPResult{Status: resp.StatusCode, Body: b}, err
	}

	nSingle, nMulti := r.N(80, 1600), r.N(64, 1200)
	if v, err := strconv.Atoi(os.Getenv("C32_DEV_N")); err == nil && v > 0 {
		nSingle, nMulti = v, v // development knob only; never set by bin/check
	}
	total := nSingle + nMulti
	for ci := 0; ci < total; ci++ {
		rng := r.Rand(ci)
		c := c32Gen(rng, ci, ci >= nSingle)
		s3f.Reset()
		broker.Set(c.Broker)
		m := &lfsModule{
			logger:           logger,
			s3Uploader:       &s3Uploader{bucket: "vf-bucket", region: "us-east-1", chunkSize: c.ChunkSize, api: s3f},
			s3Bucket:         "vf-bucket",
			s3Namespace:      "vf-ns",
			maxBlob:          64 * c32MiB,
			chunkSize:        c.ChunkSize,
			checksumAlg:      c.DefaultAlg,
			proxyID:          "vf-proxy",
			metrics:          newLfsMetrics(),
			tracker:          &LfsOpsTracker{config: TrackerConfig{}, logger: logger},
			httpAPIKey:       "vf-key",
			topicMaxLength:   249,
			downloadTTLMax:   2 * time.Minute,
			uploadSessionTTL: time.Hour,
			uploadSessions:   make(map[string]*uploadSession),
			dialTimeout:      60 * time.Second,
			backendRetries:   1,
			backendBackoff:   time.Millisecond,
			backends:         []string{broker.Addr()},
		}
		atomic.StoreUint32(&m.s3Healthy, 1)
		cur.Store(m)

		// unique payload: the case id is stamped over the first bytes
		off := rng.Intn(len(pool) - c.Size + 1)
		data := append([]byte(nil), pool[off:off+c.Size]...)
		copy(data, fmt.Sprintf("c32/%d/%d/%s:", r.Seed, ci, r.Tier))
		key := []byte(fmt.Sprintf("k-%d", ci))

		eff := c.Alg
		if eff == "" {
			eff = c.DefaultAlg
		}
		declared := ""
		switch c.Checksum {
		case "right":
			declared = c32Digest(eff, data)
		case "right_upper":
			declared = strings.ToUpper(c32Digest(eff, data))
		case "wrong":
			d := []byte(c32Digest(eff, data))
			if d[0] == '0' {
				d[0] = '1'
			} else {
				d[0] = '0'
			}
			declared = string(d)
		}

		var final c32HTTPResult
		var trace []string
		reached := false
		var herr error
		listedParts := []int{}
		if c.Kind == "single" {
			if c.S3Fault != "" {
				s3f.FailNext(c.S3Fault)
			}
			hdr := map[string]string{"X-Kafka-Topic": c.Topic, "X-Kafka-Partition": strconv.Itoa(int(c.Partition)), "Content-Type": "application/octet-stream"}
			if c.HasKey {
				hdr["X-Kafka-Key"] = base64.StdEncoding.EncodeToString(key)
			}
			if declared != "" {
				hdr["X-LFS-Checksum"] = declared
			}
			if c.Alg != "" {
				hdr["X-LFS-Checksum-Alg"] = c.Alg
			}
			final, herr = do(http.MethodPost, "/lfs/produce", hdr, data)
			reached = herr == nil
			trace = append(trace, fmt.Sprintf("POST /lfs/produce %dB -> %d", len(data), final.Status))
		} else {
			final, reached, trace, listedParts, herr = c32Multipart(c, s3f, do, data, key, declared, rng)
		}
		if herr != nil {
			r.Inconclusive(fmt.Sprintf("case %d: HTTP client error (watchdog?): %v", ci, herr))
			r.Case(c.sig(), false)
			continue
		}
		r.Case(c.sig(), reached)
		r.Seen("broker_modes_reached", c.Broker)
		if !reached {
			r.Count("cases_stopped_before_final_request", 1)
			continue
		}
		r.Count("final_requests_"+c.Kind, 1)
		plog := broker.Log()
		r.Count("produce_requests_seen_by_broker", int64(len(plog)))
		ok2xx := final.Status >= 200 && final.Status < 300
		if !ok2xx {
			r.Count("final_error_status", 1)
			r.Seen("error_statuses", strconv.Itoa(final.Status))
			if len(plog) > 0 && plog[0].ReplyKind != "ok" {
				r.Count("broker_failures_reported_as_error", 1)
			}
			continue
		}
		r.Count("final_2xx", 1)
		replay := map[string]any{"case": c, "seed": r.Seed, "tier": r.Tier, "http_trace": trace, "final_status": final.Status, "final_body": string(final.Body), "s3_ops": c32Tail(s3f.Ops(), 30), "broker_log": c32LogView(plog)}
		var env c32Envelope
		if err := json.Unmarshal(final.Body, &env); err != nil || env.Key == "" || env.Size == nil || env.SHA256 == "" {
			r.Violation("success_without_envelope", fmt.Sprintf("case %d (%s): status %d but the body is not an envelope (err=%v)", ci, c.Kind, final.Status, err), replay)
			continue
		}
		subset := c.Kind == "multipart" && len(listedParts) < len(c.PartSizes)
		obj, exists := s3f.Object(env.Key)
		switch {
		case !exists:
			r.Violation("success_but_object_missing", fmt.Sprintf("case %d (%s): status %d, no object at envelope key %q", ci, c.Kind, final.Status, env.Key), replay)
		case int64(len(obj)) != *env.Size || c32Digest("sha256", obj) != strings.ToLower(env.SHA256):
			class := "success_but_object_differs_from_envelope"
			partRetried := false
			for _, l := range trace {
				partRetried = partRetried || strings.Contains(l, "(retry) -> 200")
			}
			switch {
			case subset:
				class = "completion_with_subset_of_parts_accepted"
			case partRetried && int64(len(obj)) == *env.Size && bytes.Equal(obj, data):
				// the object is what the client sent, the envelope digest is not its digest
				class = "envelope_sha256_wrong_after_failed_part_was_retried"
			}
			r.Violation(class, fmt.Sprintf("case %d (%s): status %d, envelope size=%d sha256=%s.. but the stored object has %d bytes sha256=%s.. (uploaded parts %v, completion listed %v)", ci, c.Kind, final.Status, *env.Size, env.SHA256[:12], len(obj), c32Digest("sha256", obj)[:12], c.PartSizes, listedParts), replay)
		default:
			r.Count("success_object_matches_envelope", 1)
			if bytes.Equal(obj, data) {
				r.Count("success_object_equals_client_bytes", 1)
			}
		}
		// (c) acknowledged without error
		var match *vfProduce
		for i := range plog {
			e := &plog[i]
			if e.DecodeErr != "" || e.Topic != c.Topic || e.Partition != c.Partition {
				continue
			}
			for _, v := range e.Values {
				var pe c32Envelope
				if json.Unmarshal(v, &pe) == nil && pe.Key == env.Key && pe.Size != nil && *pe.Size == *env.Size && pe.SHA256 == env.SHA256 {
					match = e
				}
			}
		}
		switch {
		case match == nil:
			r.Violation("success_without_produce_of_envelope", fmt.Sprintf("case %d (%s): status %d but the broker saw no well-formed produce carrying the envelope for %s/%d", ci, c.Kind, final.Status, c.Topic, c.Partition), replay)
		case match.ReplyKind == "code" && match.ReplyCode != 0:
			r.Violation("success_despite_broker_error_code", fmt.Sprintf("case %d (%s): status %d although the broker answered %s/%d with error code %d", ci, c.Kind, final.Status, c.Topic, c.Partition, match.ReplyCode), replay)
		case match.ReplyKind == "no_partition" || match.ReplyKind == "other_partition":
			r.Violation("success_despite_reply_without_the_partition", fmt.Sprintf("case %d (%s): status %d although the broker's reply (%s) carries no entry for %s/%d", ci, c.Kind, final.Status, match.ReplyKind, c.Topic, c.Partition), replay)
		case match.ReplyKind == "garbage" || match.ReplyKind == "garbage_hdr":
			r.Violation("success_despite_undecodable_broker_reply", fmt.Sprintf("case %d (%s): status %d although the broker's reply was %s", ci, c.Kind, final.Status, match.ReplyKind), replay)
		case match.ReplyKind != "ok":
			r.Violation("success_without_broker_reply", fmt.Sprintf("case %d (%s): status %d although the broker answered with %q", ci, c.Kind, final.Status, match.ReplyKind), replay)
		default:
			r.Count("success_acknowledged_with_code_0", 1)
		}
		if ci%17 == 0 || (c.Kind == "multipart" && ci%5 == 0) {
			r.Sample(map[string]any{"case": c, "http_trace": trace, "final_status": final.Status, "broker_log": c32LogView(plog)})
		}
	}
	q := int64(1)
	if r.Thorough() {
		q = 8
	}
	r.Floor("final_requests_single", 50*q)
	r.Floor("final_requests_multipart", 25*q)
	r.Floor("final_2xx", 20*q)
	r.Floor("success_acknowledged_with_code_0", 12*q)
	r.Floor("final_error_status", 20*q)
	r.Floor("broker_modes_reached", 10)
	r.Floor("produce_requests_seen_by_broker", 40*q)
}

func c32Tail(s []string, n int) []string {
	if len(s) > n {
		return s[len(s)-n:]
	}
	return s
}

func c32LogView(l []vfProduce) []map[string]any {
	var out []map[string]any
	for _, e := range l {
		vals := []string{}
		for _, v := range e.Values {
			s := string(v)
			if len(s) > 400 {
				s = s[:400] + "..."
			}
			vals = append(vals, s)
		}
		out = append(out, map[string]any{"topic": e.Topic, "partition": e.Partition, "record_values": vals, "decode_error": e.DecodeErr, "reply": e.ReplyKind, "reply_code": e.ReplyCode, "api_version": e.APIVersion})
	}
	return out
}

// c32Multipart drives one session: init, parts (optionally one re-sent), complete.
func c32Multipart(c c32Case, s3f *vfS3, do func(string, string, map[string]string, []byte) (c32HTTPResult, error), data, key []byte, declared string, rng *rand.Rand) (final c32HTTPResult, reached bool, trace []string, listed []int, err error) {
	initReq := map[string]any{"topic": c.Topic, "content_type": "application/octet-stream", "size_bytes": c.Size, "partition": c.Partition}
	if c.HasKey {
		initReq["key"] = base64.StdEncoding.EncodeToString(key)
	}
	if declared != "" {
		initReq["checksum"] = declared
	}
	if c.Alg != "" {
		initReq["checksum_alg"] = c.Alg
	}
	body, _ := json.Marshal(initReq)
	res, err := do(http.MethodPost, "/lfs/uploads", map[string]string{"Content-Type": "application/json"}, body)
	if err != nil {
		return res, false, trace, nil, err
	}
	trace = append(trace, fmt.Sprintf("POST /lfs/uploads %s -> %d", body, res.Status))
	if res.Status != 200 {
		return res, false, trace, nil, nil // refused up front (e.g. checksum with alg none): not an upload
	}
	var ini struct {
		UploadID string `json:"upload_id"`
		PartSize int64  `json:"part_size"`
	}
	if json.Unmarshal(res.Body, &ini) != nil || ini.UploadID == "" {
		return res, false, trace, nil, nil
	}
	if c.S3Fault == "UploadPart" {
		s3f.FailNext("UploadPart")
	}
	etags := map[int]string{}
	off := 0
	for i, sz := range c.PartSizes {
		pn := i + 1
		path := fmt.Sprintf("/lfs/uploads/%s/parts/%d", ini.UploadID, pn)
		res, err = do(http.MethodPut, path, nil, data[off:off+sz])
		if err != nil {
			return res, false, trace, nil, err
		}
		trace = append(trace, fmt.Sprintf("PUT parts/%d %dB -> %d", pn, sz, res.Status))
		if res.Status != 200 && c.S3Fault == "UploadPart" {
			// a client retries a failed part
			res, err = do(http.MethodPut, path, nil, data[off:off+sz])
			if err != nil {
				return res, false, trace, nil, err
			}
			trace = append(trace, fmt.Sprintf("PUT parts/%d %dB (retry) -> %d", pn, sz, res.Status))
		}
		if res.Status != 200 {
			return res, false, trace, nil, nil
		}
		var pr struct {
			ETag string `json:"etag"`
		}
		json.Unmarshal(res.Body, &pr)
		etags[pn] = pr.ETag
		if c.ResendPart && i == 0 {
			// the same part again with DIFFERENT bytes: the handler answers from its table
			alt := append([]byte(nil), data[off:off+sz]...)
			alt[len(alt)/2] ^= 0xff
			r2, err := do(http.MethodPut, path, nil, alt)
			if err != nil {
				return r2, false, trace, nil, err
			}
			trace = append(trace, fmt.Sprintf("PUT parts/%d %dB (re-sent, one byte changed) -> %d", pn, sz, r2.Status))
		}
		off += sz
	}
	n := len(c.PartSizes)
	type lp struct {
		PartNumber int    `json:"part_number"`
		ETag       string `json:"etag"`
	}
	var list []lp
	all := func() {
		for pn := 1; pn <= n; pn++ {
			list = append(list, lp{pn, etags[pn]})
		}
	}
	switch c.ListKind {
	case "full":
		all()
	case "drop_first":
		all()
		list = list[1:]
	case "drop_last":
		all()
		list = list[:n-1]
	case "drop_middle":
		all()
		list = append(list[:1:1], list[2:]...)
	case "only_last":
		list = []lp{{n, etags[n]}}
	case "duplicated":
		all()
		d := rng.Intn(n)
		list = append(list[:d+1:d+1], list[d:]...)
	case "reordered":
		all()
		list[0], list[n-1] = list[n-1], list[0]
	case "wrong_etag":
		all()
		list[rng.Intn(n)].ETag = `"00000000000000000000000000000000"`
	case "unknown_part":
		all()
		list = append(list, lp{n + 1, etags[n]})
	case "multiset_equal_len", "multiset_any":
		for _, pn := range c.List {
			list = append(list, lp{pn, etags[pn]})
		}
	}
	seen := map[int]bool{}
	for _, p := range list {
		if !seen[p.PartNumber] {
			seen[p.PartNumber] = true
			listed = append(listed, p.PartNumber)
		}
	}
	if c.S3Fault == "CompleteMultipartUpload" {
		s3f.FailNext("CompleteMultipartUpload")
	}
	body, _ = json.Marshal(map[string]any{"parts": list})
	path := "/lfs/uploads/" + ini.UploadID + "/complete"
	final, err = do(http.MethodPost, path, map[string]string{"Content-Type": "application/json"}, body)
	if err != nil {
		return final, false, trace, listed, err
	}
	trace = append(trace, fmt.Sprintf("POST complete %s -> %d", body, final.Status))
	if c.CompleteTwo && (final.Status < 200 || final.Status > 299) {
		// a client that got an error retries the completion with the full list
		list = nil
		all()
		listed = nil
		for pn := 1; pn <= n; pn++ {
			listed = append(listed, pn)
		}
		body, _ = json.Marshal(map[string]any{"parts": list})
		final, err = do(http.MethodPost, path, map[string]string{"Content-Type": "application/json"}, body)
		if err != nil {
			return final, false, trace, listed, err
		}
		trace = append(trace, fmt.Sprintf("POST complete (retry, full list) -> %d", final.Status))
	}
	return final, true, trace, listed, nil
}
