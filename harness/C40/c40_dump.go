//go:build verif

package metadata

import (
	"encoding/hex"
	"fmt"
	"reflect"
	"sort"
	"strings"
	"sync"
	"unsafe"

	"google.golang.org/protobuf/proto"
)

// VerifDump renders everything the in-memory store holds as sorted
// "section/field/path" -> value strings, read under the store's own lock.
// Harness-only (overlay, build tag verif): it lets the C40 monitor compare the
// COMPLETE state before and after a tool call instead of only what the public
// read methods happen to expose (ListConsumerOffsets, for one, silently drops
// keys that contain ':').
//
// The walk is reflective over every field of InMemoryStore (whatever they are
// called and however they are laid out), so a refactoring of the store's
// private fields neither breaks the build of this monitor nor hides state from
// it. Locks, functions and channels are skipped; protobuf messages are
// rendered by their deterministic wire form; map entries are listed in sorted
// key order. The first path component names the part of the state (topic /
// offset / group / config), derived from the field's name.
func (s *InMemoryStore) VerifDump() map[string]string {
	sv := reflect.ValueOf(s).Elem()
	// take the store's own lock, whatever the field is called
	for i := 0; i < sv.NumField(); i++ {
		f := sv.Field(i)
		if !f.CanAddr() {
			continue
		}
		switch m := reflect.NewAt(f.Type(), unsafe.Pointer(f.UnsafeAddr())).Interface().(type) {
		case *sync.RWMutex:
			m.RLock()
			defer m.RUnlock()
		case *sync.Mutex:
			m.Lock()
			defer m.Unlock()
		default:
			continue
		}
		break
	}
	out := map[string]string{}
	for i := 0; i < sv.NumField(); i++ {
		name := sv.Type().Field(i).Name
		f := sv.Field(i)
		f = reflect.NewAt(f.Type(), unsafe.Pointer(f.UnsafeAddr())).Elem()
		verifWalk(out, verifSection(name)+"/"+name, f, 0, map[uintptr]bool{})
	}
	return out
}

func verifSection(field string) string {
	l := strings.ToLower(field)
	switch {
	case strings.Contains(l, "group"):
		return "group"
	case strings.Contains(l, "config"):
		return "config"
	case strings.Contains(l, "offset") || strings.Contains(l, "commit") || strings.Contains(l, "consumer"):
		return "offset"
	case strings.Contains(l, "state") || strings.Contains(l, "topic") || strings.Contains(l, "meta") || strings.Contains(l, "cluster") || strings.Contains(l, "broker"):
		return "topic"
	}
	return l
}

var verifProtoMessage = reflect.TypeOf((*proto.Message)(nil)).Elem()

func verifWalk(out map[string]string, path string, v reflect.Value, depth int, seen map[uintptr]bool) {
	if depth > 24 {
		out[path] = "<too deep>"
		return
	}
	switch v.Kind() {
	case reflect.Func, reflect.Chan, reflect.UnsafePointer:
		return
	case reflect.Interface:
		if v.IsNil() {
			out[path] = "<nil>"
			return
		}
		verifWalk(out, path, v.Elem(), depth+1, seen)
	case reflect.Ptr:
		if v.IsNil() {
			out[path] = "<nil>"
			return
		}
		if v.Type().Implements(verifProtoMessage) && v.CanInterface() {
			b, err := proto.MarshalOptions{Deterministic: true}.Marshal(v.Interface().(proto.Message))
			if err != nil {
				out[path] = "marshal error: " + err.Error()
			} else {
				out[path] = "pb:" + hex.EncodeToString(b)
			}
			return
		}
		if seen[v.Pointer()] {
			out[path] = "<cycle>"
			return
		}
		seen[v.Pointer()] = true
		verifWalk(out, path, v.Elem(), depth+1, seen)
		delete(seen, v.Pointer())
	case reflect.Struct:
		if p := v.Type().PkgPath(); p == "sync" || p == "sync/atomic" {
			return
		}
		if !v.CanAddr() {
			c := reflect.New(v.Type()).Elem()
			c.Set(v)
			v = c
		}
		for i := 0; i < v.NumField(); i++ {
			f := v.Field(i)
			f = reflect.NewAt(f.Type(), unsafe.Pointer(f.UnsafeAddr())).Elem()
			verifWalk(out, path+"."+v.Type().Field(i).Name, f, depth+1, seen)
		}
	case reflect.Map:
		type kv struct {
			k string
			v reflect.Value
		}
		var l []kv
		it := v.MapRange()
		for it.Next() {
			l = append(l, kv{verifKey(it.Key()), it.Value()})
		}
		sort.Slice(l, func(i, j int) bool { return l[i].k < l[j].k })
		for _, e := range l {
			verifWalk(out, path+"["+e.k+"]", e.v, depth+1, seen)
		}
	case reflect.Slice, reflect.Array:
		if v.Kind() == reflect.Slice && v.Type().Elem().Kind() == reflect.Uint8 {
			out[path] = "bytes:" + hex.EncodeToString(v.Bytes())
			return
		}
		out[path+".len"] = fmt.Sprint(v.Len())
		for i := 0; i < v.Len(); i++ {
			verifWalk(out, fmt.Sprintf("%s[%04d]", path, i), v.Index(i), depth+1, seen)
		}
	case reflect.String:
		out[path] = fmt.Sprintf("%q", v.String())
	case reflect.Bool:
		out[path] = fmt.Sprint(v.Bool())
	case reflect.Int, reflect.Int8, reflect.Int16, reflect.Int32, reflect.Int64:
		out[path] = fmt.Sprint(v.Int())
	case reflect.Uint, reflect.Uint8, reflect.Uint16, reflect.Uint32, reflect.Uint64, reflect.Uintptr:
		out[path] = fmt.Sprint(v.Uint())
	case reflect.Float32, reflect.Float64:
		out[path] = fmt.Sprint(v.Float())
	case reflect.Complex64, reflect.Complex128:
		out[path] = fmt.Sprint(v.Complex())
	}
}

// verifKey renders a map key (strings, integers, or small structs of those).
func verifKey(k reflect.Value) string {
	switch k.Kind() {
	case reflect.String:
		return fmt.Sprintf("%q", k.String())
	case reflect.Int, reflect.Int8, reflect.Int16, reflect.Int32, reflect.Int64:
		return fmt.Sprintf("%020d", k.Int()+1<<62)
	case reflect.Uint, reflect.Uint8, reflect.Uint16, reflect.Uint32, reflect.Uint64:
		return fmt.Sprintf("%020d", k.Uint())
	case reflect.Struct:
		var parts []string
		c := reflect.New(k.Type()).Elem()
		c.Set(k)
		for i := 0; i < c.NumField(); i++ {
			f := c.Field(i)
			f = reflect.NewAt(f.Type(), unsafe.Pointer(f.UnsafeAddr())).Elem()
			parts = append(parts, verifKey(f))
		}
		return "{" + strings.Join(parts, ",") + "}"
	case reflect.Interface, reflect.Ptr:
		if k.IsNil() {
			return "<nil>"
		}
		return verifKey(k.Elem())
	case reflect.Bool:
		return fmt.Sprint(k.Bool())
	case reflect.Array:
		var parts []string
		for i := 0; i < k.Len(); i++ {
			parts = append(parts, verifKey(k.Index(i)))
		}
		return "[" + strings.Join(parts, ",") + "]"
	}
	return fmt.Sprintf("%v", k)
}

// VerifDumpKeys is a convenience for messages.
func VerifDumpKeys(m map[string]string) []string {
	ks := make([]string, 0, len(m))
	for k := range m {
		ks = append(ks, k)
	}
	sort.Strings(ks)
	return ks
}
