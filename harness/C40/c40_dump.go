//go:build verif

package metadata

import (
	"encoding/hex"
	"encoding/json"
	"fmt"
	"sort"

	"google.golang.org/protobuf/proto"
)

// VerifDump renders everything the in-memory store holds (cluster state,
// partition offsets, consumer offsets + metadata, consumer groups, topic
// configs) as sorted "section/key" -> value strings, read under the store's own
// lock. Harness-only (overlay, build tag verif): it lets the C40 monitor compare
// the complete state before and after a tool call instead of only what the
// public read methods happen to expose (ListConsumerOffsets, for one, silently
// drops keys that contain ':').
func (s *InMemoryStore) VerifDump() map[string]string {
	s.mu.RLock()
	defer s.mu.RUnlock()
	out := map[string]string{}
	st, err := json.Marshal(s.state)
	if err != nil {
		st = []byte("marshal error: " + err.Error())
	}
	out["state"] = string(st)
	for i, t := range s.state.Topics {
		name := "<nil>"
		if t.Topic != nil {
			name = *t.Topic
		}
		b, _ := json.Marshal(t)
		out[fmt.Sprintf("topic/%04d/%q", i, name)] = string(b)
	}
	for k, v := range s.offsets {
		out[fmt.Sprintf("offset/%q", k)] = fmt.Sprint(v)
	}
	for k, v := range s.consumerOffsets {
		out[fmt.Sprintf("coffset/%q", k)] = fmt.Sprint(v)
	}
	for k, v := range s.consumerMeta {
		out[fmt.Sprintf("cmeta/%q", k)] = v
	}
	mo := proto.MarshalOptions{Deterministic: true}
	for k, g := range s.consumerGroups {
		if g == nil {
			out[fmt.Sprintf("group/%q", k)] = "<nil>"
			continue
		}
		b, err := mo.Marshal(g)
		if err != nil {
			out[fmt.Sprintf("group/%q", k)] = "marshal error: " + err.Error()
			continue
		}
		// member maps are serialised in sorted key order by Deterministic
		out[fmt.Sprintf("group/%q", k)] = hex.EncodeToString(b)
	}
	for k, c := range s.topicConfigs {
		if c == nil {
			out[fmt.Sprintf("config/%q", k)] = "<nil>"
			continue
		}
		b, err := mo.Marshal(c)
		if err != nil {
			out[fmt.Sprintf("config/%q", k)] = "marshal error: " + err.Error()
			continue
		}
		out[fmt.Sprintf("config/%q", k)] = hex.EncodeToString(b)
	}
	return out
}

// VerifDumpKeys is a convenience for messages.
func VerifDumpKeys(m map[string]string) []string {
	ks := make([]string, 0, len(m))
	for k := range m {
		ks = append(ks, k)
	}
	sort.Strings(ks)
	return ks
}
