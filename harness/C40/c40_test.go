//go:build verif

package mcpserver

import (
	"context"
	"encoding/json"
	"errors"
	"fmt"
	"math/rand"
	"sort"
	"strings"
	"sync"
	"testing"
	"time"

	console "github.com/KafScale/platform/internal/console"
	"github.com/KafScale/platform/internal/verifkit"
	metadatapb "github.com/KafScale/platform/pkg/gen/metadata"
	"github.com/KafScale/platform/pkg/metadata"
	"github.com/KafScale/platform/pkg/protocol"
	"github.com/modelcontextprotocol/go-sdk/mcp"
	"github.com/twmb/franz-go/pkg/kmsg"
)

// ---------------------------------------------------------------------------
// recording decorator over the real InMemoryStore
// ---------------------------------------------------------------------------

// The Store interface is split by the statement, not by the implementation:
// a method whose contract is to change topics, offsets, groups or configs is
// "mutating"; the rest are reads.
var c40Mutating = map[string]bool{
	"UpdateOffsets": true, "CommitConsumerOffset": true, "PutConsumerGroup": true,
	"DeleteConsumerGroup": true, "UpdateTopicConfig": true, "CreatePartitions": true,
	"CreateTopic": true, "DeleteTopic": true,
}

type c40Call struct {
	Method string `json:"method"`
	Args   string `json:"args"`
}

type c40Store struct {
	inner *metadata.InMemoryStore

	mu       sync.Mutex
	calls    []c40Call
	reads    int
	muts     map[string]int
	failEach int // every failEach-th read fails with ErrStoreUnavailable (0 = never)
	readSeq  int
}

func newC40Store(inner *metadata.InMemoryStore) *c40Store {
	return &c40Store{inner: inner, muts: map[string]int{}}
}

// note records the call and says whether an injected failure applies (reads only).
func (s *c40Store) note(method string, args ...any) bool {
	s.mu.Lock()
	defer s.mu.Unlock()
	a := fmt.Sprintf("%q", args)
	if len(a) > 200 {
		a = a[:200] + "…"
	}
	if len(s.calls) < 4096 {
		s.calls = append(s.calls, c40Call{method, a})
	}
	if c40Mutating[method] {
		s.muts[method]++
		return false
	}
	s.reads++
	s.readSeq++
	return s.failEach > 0 && s.readSeq%s.failEach == 0
}

func (s *c40Store) mutTotal() (int, map[string]int) {
	s.mu.Lock()
	defer s.mu.Unlock()
	n := 0
	cp := map[string]int{}
	for k, v := range s.muts {
		n += v
		cp[k] = v
	}
	return n, cp
}

func (s *c40Store) readTotal() int { s.mu.Lock(); defer s.mu.Unlock(); return s.reads }
func (s *c40Store) callMark() int  { s.mu.Lock(); defer s.mu.Unlock(); return len(s.calls) }
func (s *c40Store) callsSince(m int) []c40Call {
	s.mu.Lock()
	defer s.mu.Unlock()
	if m > len(s.calls) {
		m = len(s.calls)
	}
	return append([]c40Call(nil), s.calls[m:]...)
}

func (s *c40Store) Metadata(ctx context.Context, topics []string) (*metadata.ClusterMetadata, error) {
	if s.note("Metadata", len(topics)) {
		return nil, metadata.ErrStoreUnavailable
	}
	return s.inner.Metadata(ctx, topics)
}
func (s *c40Store) NextOffset(ctx context.Context, topic string, partition int32) (int64, error) {
	if s.note("NextOffset", topic, partition) {
		return 0, metadata.ErrStoreUnavailable
	}
	return s.inner.NextOffset(ctx, topic, partition)
}
func (s *c40Store) UpdateOffsets(ctx context.Context, topic string, partition int32, lastOffset int64) error {
	s.note("UpdateOffsets", topic, partition, lastOffset)
	return s.inner.UpdateOffsets(ctx, topic, partition, lastOffset)
}
func (s *c40Store) CommitConsumerOffset(ctx context.Context, group, topic string, partition int32, offset int64, md string) error {
	s.note("CommitConsumerOffset", group, topic, partition, offset, md)
	return s.inner.CommitConsumerOffset(ctx, group, topic, partition, offset, md)
}
func (s *c40Store) FetchConsumerOffset(ctx context.Context, group, topic string, partition int32) (int64, string, error) {
	if s.note("FetchConsumerOffset", group, topic, partition) {
		return 0, "", metadata.ErrStoreUnavailable
	}
	return s.inner.FetchConsumerOffset(ctx, group, topic, partition)
}
func (s *c40Store) ListConsumerOffsets(ctx context.Context) ([]metadata.ConsumerOffset, error) {
	if s.note("ListConsumerOffsets") {
		return nil, metadata.ErrStoreUnavailable
	}
	return s.inner.ListConsumerOffsets(ctx)
}
func (s *c40Store) PutConsumerGroup(ctx context.Context, group *metadatapb.ConsumerGroup) error {
	s.note("PutConsumerGroup", group.GetGroupId())
	return s.inner.PutConsumerGroup(ctx, group)
}
func (s *c40Store) FetchConsumerGroup(ctx context.Context, groupID string) (*metadatapb.ConsumerGroup, error) {
	if s.note("FetchConsumerGroup", groupID) {
		return nil, metadata.ErrStoreUnavailable
	}
	return s.inner.FetchConsumerGroup(ctx, groupID)
}
func (s *c40Store) ListConsumerGroups(ctx context.Context) ([]*metadatapb.ConsumerGroup, error) {
	if s.note("ListConsumerGroups") {
		return nil, metadata.ErrStoreUnavailable
	}
	return s.inner.ListConsumerGroups(ctx)
}
func (s *c40Store) DeleteConsumerGroup(ctx context.Context, groupID string) error {
	s.note("DeleteConsumerGroup", groupID)
	return s.inner.DeleteConsumerGroup(ctx, groupID)
}
func (s *c40Store) FetchTopicConfig(ctx context.Context, topic string) (*metadatapb.TopicConfig, error) {
	if s.note("FetchTopicConfig", topic) {
		return nil, metadata.ErrStoreUnavailable
	}
	return s.inner.FetchTopicConfig(ctx, topic)
}
func (s *c40Store) UpdateTopicConfig(ctx context.Context, cfg *metadatapb.TopicConfig) error {
	s.note("UpdateTopicConfig", cfg.GetName())
	return s.inner.UpdateTopicConfig(ctx, cfg)
}
func (s *c40Store) CreatePartitions(ctx context.Context, topic string, partitionCount int32) error {
	s.note("CreatePartitions", topic, partitionCount)
	if partitionCount > 1024 { // the call is already recorded as a violation; do not let a hostile count take the process down
		return metadata.ErrInvalidTopic
	}
	return s.inner.CreatePartitions(ctx, topic, partitionCount)
}
func (s *c40Store) CreateTopic(ctx context.Context, spec metadata.TopicSpec) (*protocol.MetadataTopic, error) {
	s.note("CreateTopic", spec.Name, spec.NumPartitions, spec.ReplicationFactor)
	if spec.NumPartitions > 1024 {
		return nil, metadata.ErrInvalidTopic
	}
	return s.inner.CreateTopic(ctx, spec)
}
func (s *c40Store) DeleteTopic(ctx context.Context, name string) error {
	s.note("DeleteTopic", name)
	return s.inner.DeleteTopic(ctx, name)
}

var _ metadata.Store = (*c40Store)(nil)

type c40Metrics struct {
	mode int // 0 ok, 1 error, 2 nil snapshot
	n    int
	mu   sync.Mutex
}

func (m *c40Metrics) Snapshot(context.Context) (*console.MetricsSnapshot, error) {
	m.mu.Lock()
	m.n++
	m.mu.Unlock()
	switch m.mode {
	case 1:
		return nil, errors.New("metrics endpoint down")
	case 2:
		return nil, nil
	}
	return &console.MetricsSnapshot{S3State: "healthy", S3LatencyMS: 17, ProduceRPS: 3, FetchRPS: 4}, nil
}

// ---------------------------------------------------------------------------
// state + argument generators
// ---------------------------------------------------------------------------

var c40Names = []string{
	"orders", "events", "a", "a:b", "b:c", "a:b:0", "t/partitions/0", "..", "../etc", "", " ", "ORDERS",
	"__consumer_offsets", "日本語トピック", "emoji-🚀", "quote\"name", "back\\slash", "nul\x00byte", "new\nline",
	"{\"names\":[\"orders\"]}", "%2e%2e", "*", ".*", "orders ", strings.Repeat("x", 300), "$where", "; DROP TABLE topics",
}

var c40Groups = []string{
	"g1", "g:1", "group", "a", "a:b", "", " ", "GROUP", "グループ", "g/../h", "nul\x00g", strings.Repeat("g", 400), "orders", "*",
}

// c40Seed fills a fresh InMemoryStore through its own mutators; every stored
// value is unique (derived from tag) so that a changed entry is recognisable.
func c40Seed(rng *rand.Rand, tag int) (*metadata.InMemoryStore, []string, []string, map[string]any) {
	ctx := context.Background()
	nb := rng.Intn(4)
	var brokers []protocol.MetadataBroker
	for i := 0; i < nb; i++ {
		brokers = append(brokers, protocol.MetadataBroker{NodeID: int32(i), Host: fmt.Sprintf("broker-%d-%d", tag, i), Port: 9092})
	}
	nt := rng.Intn(7)
	perm := rng.Perm(len(c40Names))
	var topics []protocol.MetadataTopic
	var tnames []string
	for i := 0; i < nt; i++ {
		name := c40Names[perm[i]]
		np := 1 + rng.Intn(4)
		var parts []protocol.MetadataPartition
		for p := 0; p < np; p++ {
			parts = append(parts, protocol.MetadataPartition{Partition: int32(p), Leader: int32(rng.Intn(3)), LeaderEpoch: int32(rng.Intn(9)),
				Replicas: []int32{0, 1}, ISR: []int32{0}, ErrorCode: int16(rng.Intn(2) * 3)})
		}
		topics = append(topics, protocol.MetadataTopic{Topic: kmsg.StringPtr(name), Partitions: parts, ErrorCode: int16(rng.Intn(2) * 3),
			TopicID: metadata.TopicIDForName(name)})
		tnames = append(tnames, name)
	}
	cn, cid := fmt.Sprintf("cluster-%d", tag), fmt.Sprintf("id-%d", tag)
	state := metadata.ClusterMetadata{Brokers: brokers, ControllerID: int32(rng.Intn(3)), Topics: topics}
	if rng.Intn(3) > 0 {
		state.ClusterName, state.ClusterID = &cn, &cid
	}
	st := metadata.NewInMemoryStore(state)
	uniq := int64(tag) * 1000
	next := func() int64 { uniq++; return uniq }
	for _, tp := range topics {
		for _, p := range tp.Partitions {
			if rng.Intn(3) > 0 {
				_ = st.UpdateOffsets(ctx, *tp.Topic, p.Partition, next())
			}
		}
		if rng.Intn(2) == 0 && *tp.Topic != "" {
			_ = st.UpdateTopicConfig(ctx, &metadatapb.TopicConfig{Name: *tp.Topic, Partitions: int32(len(tp.Partitions)), ReplicationFactor: 1,
				RetentionMs: next(), RetentionBytes: next(), SegmentBytes: next(), CreatedAt: fmt.Sprintf("created-%d", next()),
				Config: map[string]string{"cleanup.policy": fmt.Sprintf("v%d", next()), "k": "v"}})
		}
	}
	// a history on top of the initial seed: the state a long-running cluster is in
	gone, hist := c40History(rng, st, next)
	tnames = tnames[:0]
	if m, err := st.Metadata(ctx, nil); err == nil {
		for _, tp := range m.Topics {
			tnames = append(tnames, *tp.Topic)
		}
	}
	ng := rng.Intn(5)
	gperm := rng.Perm(len(c40Groups))
	var gnames []string
	for i := 0; i < ng; i++ {
		g := c40Groups[gperm[i]]
		gnames = append(gnames, g)
		if g != "" && !strings.Contains(g, "\x00") && rng.Intn(4) > 0 {
			members := map[string]*metadatapb.GroupMember{}
			for m := 0; m < rng.Intn(4); m++ {
				var as []*metadatapb.Assignment
				if len(tnames) > 0 {
					tn := tnames[rng.Intn(len(tnames))]
					if !strings.Contains(tn, "\x00") {
						as = append(as, &metadatapb.Assignment{Topic: tn, Partitions: []int32{0, int32(m)}})
					}
				}
				members[fmt.Sprintf("member-%d", next())] = &metadatapb.GroupMember{ClientId: fmt.Sprintf("client-%d", next()), ClientHost: "h",
					HeartbeatAt: fmt.Sprintf("hb-%d", next()), Assignments: as, Subscriptions: []string{"orders"}, SessionTimeoutMs: int32(next() % 100000)}
			}
			_ = st.PutConsumerGroup(ctx, &metadatapb.ConsumerGroup{GroupId: g, State: c40GroupStates[rng.Intn(len(c40GroupStates))], ProtocolType: "consumer",
				Protocol: "range", Leader: "member-x", GenerationId: int32(next() % 1000), Members: members, RebalanceTimeoutMs: int32(next() % 100000)})
		}
		// committed offsets, also for topics that do not exist and for groups without metadata
		for k := 0; k < rng.Intn(4); k++ {
			tn := c40Names[rng.Intn(len(c40Names))]
			if len(tnames) > 0 && rng.Intn(3) > 0 {
				tn = tnames[rng.Intn(len(tnames))]
			}
			_ = st.CommitConsumerOffset(ctx, g, tn, int32(rng.Intn(4)), next(), fmt.Sprintf("meta-%d", next()))
		}
	}
	// group churn: groups that were deleted again, re-created in another state, commits that outlive their group
	for k, n := 0, rng.Intn(4); k < n && len(gnames) > 0; k++ {
		g := gnames[rng.Intn(len(gnames))]
		switch rng.Intn(3) {
		case 0:
			_ = st.DeleteConsumerGroup(ctx, g)
			hist = append(hist, fmt.Sprintf("DeleteConsumerGroup(%s)", c40Short(g)))
		case 1:
			if g != "" {
				state := c40GroupStates[rng.Intn(len(c40GroupStates))]
				_ = st.PutConsumerGroup(ctx, &metadatapb.ConsumerGroup{GroupId: g, State: state, ProtocolType: "consumer", GenerationId: int32(next() % 1000)})
				hist = append(hist, fmt.Sprintf("PutConsumerGroup(%s,%s)", c40Short(g), state))
			}
		default:
			tn := "orders"
			if len(tnames) > 0 {
				tn = tnames[rng.Intn(len(tnames))]
			}
			_ = st.CommitConsumerOffset(ctx, g, tn, int32(rng.Intn(6)), next(), fmt.Sprintf("meta-%d", next()))
		}
	}
	drift := c40Drift(st)
	desc := map[string]any{"brokers": nb, "topics": tnames, "groups": gnames, "deleted_topics": gone, "history": hist, "config_partition_drift": drift}
	return st, tnames, gnames, desc
}

// every state the group coordinator persists (both spellings it accepts), plus an unknown one and none
var c40GroupStates = []string{"stable", "empty", "dead", "preparing_rebalance", "completing_rebalance",
	"Stable", "Empty", "Dead", "PreparingRebalance", "CompletingRebalance", "", "zombie"}

// names CreateTopic accepts (the hostile names of c40Names only get in through snapshots)
var c40ValidNames = []string{"orders", "events", "payments", "logs_raw", "a", "A.b-c_d", "t0", "metrics.v1", "ORDERS", strings.Repeat("y", 249)}

func c40Short(s string) string {
	if len(s) > 24 {
		return fmt.Sprintf("%q…(%d)", s[:24], len(s))
	}
	return fmt.Sprintf("%q", s)
}

// c40Drift lists, through the store's public reads, the topics whose persisted
// config names a partition count other than the topic's own (the state a tool
// might be tempted to "repair").
func c40Drift(st *metadata.InMemoryStore) []string {
	ctx := context.Background()
	var out []string
	m, err := st.Metadata(ctx, nil)
	if err != nil {
		return nil
	}
	for _, tp := range m.Topics {
		cfg, err := st.FetchTopicConfig(ctx, *tp.Topic)
		if err == nil && cfg != nil && int(cfg.Partitions) != len(tp.Partitions) {
			out = append(out, fmt.Sprintf("%s: config %d, topic %d", c40Short(*tp.Topic), cfg.Partitions, len(tp.Partitions)))
		}
	}
	return out
}

// c40History drives the store through the kind of history a cluster
// accumulates, using only the store's own mutators and its snapshot swap
// (Update, what a broker's metadata watcher calls): configs persisted
// explicitly (matching, unset or mismatching partition count), partitions
// added afterwards, refreshed snapshots in which a topic grew, shrank, vanished,
// came back or changed its error code, topics deleted and re-created, brokers
// that left the broker list while still leading partitions, offsets moved.
// It returns the names of topics that no longer exist and a description of the steps.
func c40History(rng *rand.Rand, st *metadata.InMemoryStore, next func() int64) (gone []string, ops []string) {
	ctx := context.Background()
	if rng.Intn(5) == 0 {
		return nil, nil // a store that only ever saw its initial seed
	}
	goneSet := map[string]bool{}
	parts := func(from, to int, leader int32) []protocol.MetadataPartition {
		var out []protocol.MetadataPartition
		for p := from; p < to; p++ {
			out = append(out, protocol.MetadataPartition{Partition: int32(p), Leader: leader, LeaderEpoch: int32(rng.Intn(9)), Replicas: []int32{leader}, ISR: []int32{leader}})
		}
		return out
	}
	cfgFor := func(name string, np int32) *metadatapb.TopicConfig {
		return &metadatapb.TopicConfig{Name: name, Partitions: np, ReplicationFactor: 1, RetentionMs: next(), RetentionBytes: next(), SegmentBytes: next(),
			CreatedAt: fmt.Sprintf("created-%d", next()), Config: map[string]string{"cleanup.policy": fmt.Sprintf("v%d", next()), "retention.ms": fmt.Sprint(next())}}
	}
	note := func(f string, a ...any) { ops = append(ops, fmt.Sprintf(f, a...)) }
	for i, n := 0, 1+rng.Intn(9); i < n; i++ {
		m, err := st.Metadata(ctx, nil)
		if err != nil {
			return
		}
		state := *m
		ti := -1
		if len(state.Topics) > 0 {
			ti = rng.Intn(len(state.Topics))
		}
		name, np := "", 0
		if ti >= 0 {
			name, np = *state.Topics[ti].Topic, len(state.Topics[ti].Partitions)
		}
		switch rng.Intn(13) {
		case 0: // config persisted explicitly, partition count as the topic has it
			if ti >= 0 {
				err := st.UpdateTopicConfig(ctx, cfgFor(name, int32(np)))
				note("UpdateTopicConfig(%s,partitions=%d)=%v", c40Short(name), np, err)
			}
		case 1: // ... with the count left for the store to resolve
			if ti >= 0 {
				err := st.UpdateTopicConfig(ctx, cfgFor(name, 0))
				note("UpdateTopicConfig(%s,partitions=0)=%v", c40Short(name), err)
			}
		case 2, 3: // ... carrying a count that is not the topic's
			if ti >= 0 {
				bad := int32(np + 1 + rng.Intn(3))
				if np > 1 && rng.Intn(2) == 0 {
					bad = int32(1 + rng.Intn(np-1))
				}
				err := st.UpdateTopicConfig(ctx, cfgFor(name, bad))
				note("UpdateTopicConfig(%s,partitions=%d; topic has %d)=%v", c40Short(name), bad, np, err)
			}
		case 4: // partitions added after a config was persisted
			if ti >= 0 {
				if rng.Intn(2) == 0 {
					_ = st.UpdateTopicConfig(ctx, cfgFor(name, int32(np)))
				}
				to := int32(np + 1 + rng.Intn(3))
				err := st.CreatePartitions(ctx, name, to)
				note("CreatePartitions(%s,%d)=%v", c40Short(name), to, err)
			}
		case 5, 6: // refreshed snapshot: the topic grew or shrank; its stored config is not rewritten
			if ti >= 0 {
				tp := &state.Topics[ti]
				if np > 1 && rng.Intn(2) == 0 {
					tp.Partitions = tp.Partitions[:1+rng.Intn(np-1)]
				} else {
					tp.Partitions = append(tp.Partitions, parts(np, np+1+rng.Intn(3), int32(rng.Intn(4)))...)
				}
				if rng.Intn(4) == 0 {
					tp.ErrorCode = int16(rng.Intn(2) * 3)
				}
				st.Update(state)
				note("Update(snapshot: %s %d -> %d partitions, error code %d)", c40Short(name), np, len(tp.Partitions), tp.ErrorCode)
			}
		case 7: // refreshed snapshot without the topic (config, offsets, commits stay behind)
			if ti >= 0 {
				state.Topics = append(state.Topics[:ti], state.Topics[ti+1:]...)
				st.Update(state)
				goneSet[name] = true
				note("Update(snapshot without %s)", c40Short(name))
			}
		case 8: // a topic that was gone is back in a refreshed snapshot, with another layout
			var back []string
			for g := range goneSet {
				if g != "" {
					back = append(back, g)
				}
			}
			sort.Strings(back) // map order must not leak into the case list
			if len(back) > 0 {
				g := back[rng.Intn(len(back))]
				k := 1 + rng.Intn(5)
				state.Topics = append(state.Topics, protocol.MetadataTopic{Topic: kmsg.StringPtr(g), TopicID: metadata.TopicIDForName(g), Partitions: parts(0, k, int32(rng.Intn(3)))})
				st.Update(state)
				delete(goneSet, g)
				note("Update(snapshot with %s back, %d partitions)", c40Short(g), k)
			}
		case 9: // deleted through the store, maybe re-created
			if ti >= 0 {
				err := st.DeleteTopic(ctx, name)
				note("DeleteTopic(%s)=%v", c40Short(name), err)
				goneSet[name] = true
				if rng.Intn(2) == 0 {
					k := int32(1 + rng.Intn(5))
					if _, err := st.CreateTopic(ctx, metadata.TopicSpec{Name: name, NumPartitions: k, ReplicationFactor: 1}); err == nil {
						delete(goneSet, name)
						note("CreateTopic(%s,%d) again", c40Short(name), k)
					}
				}
			}
		case 10: // created through the store
			nn := c40ValidNames[rng.Intn(len(c40ValidNames))]
			k := int32(1 + rng.Intn(5))
			_, err := st.CreateTopic(ctx, metadata.TopicSpec{Name: nn, NumPartitions: k, ReplicationFactor: int16(rng.Intn(2))})
			if err == nil {
				delete(goneSet, nn)
			}
			note("CreateTopic(%s,%d)=%v", c40Short(nn), k, err)
		case 11: // brokers leave / are replaced while partitions still name them as leaders; controller may be one of them
			switch rng.Intn(3) {
			case 0:
				state.Brokers = nil
			case 1:
				if len(state.Brokers) > 0 {
					state.Brokers = state.Brokers[1:]
				}
			default:
				state.Brokers = []protocol.MetadataBroker{{NodeID: int32(7 + rng.Intn(3)), Host: fmt.Sprintf("replacement-%d", next()), Port: 9092}}
			}
			state.ControllerID = int32(rng.Intn(10))
			st.Update(state)
			note("Update(snapshot: %d broker(s), controller %d)", len(state.Brokers), state.ControllerID)
		default: // offsets move, also on partitions a later snapshot dropped
			if ti >= 0 {
				p := int32(rng.Intn(np + 2))
				_ = st.UpdateOffsets(ctx, name, p, next())
				note("UpdateOffsets(%s,%d)", c40Short(name), p)
			}
		}
	}
	for g := range goneSet {
		gone = append(gone, g)
	}
	sort.Strings(gone)
	return gone, ops
}

func c40Str(rng *rand.Rand, known []string, pool []string) string {
	switch rng.Intn(6) {
	case 0, 1:
		if len(known) > 0 {
			return known[rng.Intn(len(known))]
		}
	case 2:
		if len(known) > 0 { // near miss of an existing name
			k := known[rng.Intn(len(known))]
			return []string{k + " ", strings.ToUpper(k), k + ":0", "../" + k, k + "\x00", k + k}[rng.Intn(6)]
		}
	case 3:
		b := make([]byte, rng.Intn(12))
		for i := range b {
			b[i] = byte(32 + rng.Intn(95))
		}
		return string(b)
	}
	return pool[rng.Intn(len(pool))]
}

var c40Junk = []string{
	`null`, `true`, `0`, `-1`, `1e309`, `9223372036854775808`, `123456789012345678901234567890`, `1.5`, `""`, `"x"`, `[]`, `{}`, `[[]]`,
	`{"a":{"b":{"c":[1,2,{"d":null}]}}}`, `[1,"a",null,{}]`, `[null]`, `[""]`, `{"names":["x"]}`, `"\u0000"`, `["a",1]`, `[["a"]]`,
}

// c40Args builds the JSON text of the arguments member for one call from the
// tool's own published input schema.
func c40Args(rng *rand.Rand, schema map[string]any, tnames, gnames, gone []string) (json.RawMessage, string) {
	props, _ := schema["properties"].(map[string]any)
	var keys []string
	for k := range props {
		keys = append(keys, k)
	}
	sort.Strings(keys)
	switch rng.Intn(14) {
	case 0:
		return nil, "absent"
	case 1:
		return json.RawMessage(`{}`), "empty_object"
	case 2:
		return json.RawMessage(c40Junk[rng.Intn(len(c40Junk))]), "non_object_or_junk"
	}
	obj := map[string]json.RawMessage{}
	kind := "typed"
	for _, k := range keys {
		p, _ := props[k].(map[string]any)
		typ := fmt.Sprint(p["type"])
		isArr := strings.Contains(typ, "array")
		pool, known := c40Names, tnames
		if len(gone) > 0 && rng.Intn(3) == 0 { // names of topics that used to exist (configs and commits may have outlived them)
			pool = gone
		}
		if strings.Contains(k, "group") {
			pool, known = c40Groups, gnames
		}
		switch rng.Intn(10) {
		case 0:
			kind = "missing_field"
			continue
		case 1:
			obj[k] = json.RawMessage(c40Junk[rng.Intn(len(c40Junk))])
			kind = "wrong_type"
			continue
		case 2:
			obj[k] = json.RawMessage(`null`)
			kind = "null_field"
			continue
		}
		switch {
		case strings.Contains(typ, "integer") || strings.Contains(typ, "number"):
			obj[k] = json.RawMessage([]string{"0", "1", "3", "-1", "12", "2147483647", "2147483648", "-2147483649", "9223372036854775807", "9223372036854775808", "1e3", "1e309"}[rng.Intn(12)])
			continue
		case strings.Contains(typ, "boolean"):
			obj[k] = json.RawMessage([]string{"true", "false"}[rng.Intn(2)])
			continue
		case strings.Contains(typ, "object"):
			obj[k] = json.RawMessage([]string{`{}`, `{"retention.ms":"1"}`, `{"a":{"b":1}}`}[rng.Intn(3)])
			continue
		}
		if isArr {
			n := rng.Intn(5)
			if rng.Intn(40) == 0 { // (multi-thousand element lists cost seconds each under the race detector and add nothing)
				n = 300 + rng.Intn(500)
				kind = "huge_list"
			}
			vals := make([]string, n)
			for i := range vals {
				vals[i] = c40Str(rng, known, pool)
			}
			if n > 1 && rng.Intn(3) == 0 {
				vals[n-1] = vals[0] // duplicate
			}
			b, _ := json.Marshal(vals)
			obj[k] = b
		} else {
			b, _ := json.Marshal(c40Str(rng, known, pool))
			obj[k] = b
		}
	}
	if rng.Intn(6) == 0 { // fields the tool does not declare, named after mutating operations
		extra := []string{"delete", "create_topic", "partitions", "offset", "commit", "config", "__proto__", "names ", "GROUP_ID"}[rng.Intn(9)]
		obj[extra] = json.RawMessage(c40Junk[rng.Intn(len(c40Junk))])
		kind += "+extra_field"
	}
	b, _ := json.Marshal(obj)
	return b, kind
}

func c40Diff(a, b map[string]string) []string {
	var out []string
	for k, v := range a {
		w, ok := b[k]
		switch {
		case !ok:
			out = append(out, "removed "+k)
		case v != w:
			out = append(out, "changed "+k)
		}
	}
	for k := range b {
		if _, ok := a[k]; !ok {
			out = append(out, "added "+k)
		}
	}
	sort.Strings(out)
	for i, d := range out { // hostile names are long; keep messages readable
		if len(d) > 100 {
			out[i] = d[:100] + "…"
		}
	}
	return out
}

// c40Section maps the first differing key to the part of the state named in the statement.
func c40Section(diff []string) string {
	secs := map[string]bool{}
	for _, d := range diff {
		f := strings.Fields(d)
		if len(f) < 2 {
			continue
		}
		switch s := strings.SplitN(f[1], "/", 2)[0]; s {
		case "topic", "state":
			secs["topics"] = true
		case "offset", "coffset", "cmeta":
			secs["offsets"] = true
		case "group":
			secs["groups"] = true
		case "config":
			secs["configs"] = true
		default:
			secs[s] = true
		}
	}
	var l []string
	for s := range secs {
		l = append(l, s)
	}
	sort.Strings(l)
	return strings.Join(l, "+")
}

var c40UnknownTools = []string{"", " ", "create_topic", "delete_topic", "delete_group", "commit_offsets", "alter_configs", "create_partitions",
	"cluster_status ", "CLUSTER_STATUS", "list_topics\x00", "../list_topics", "tools/call", "describe_configs;delete_topic", strings.Repeat("t", 5000)}

type c40Step struct {
	Tool    string `json:"tool"`
	Kind    string `json:"kind"`
	Args    string `json:"arguments"`
	Outcome string `json:"outcome"`
	Reads   int    `json:"store_reads"`
}

func TestVerifC40Tools(t *testing.T) {
	r := verifkit.Start(t, "C40", "tools")
	defer r.Finish("per case: a fresh real InMemoryStore seeded through its own mutators (0-6 topics incl. hostile names, partition offsets, topic configs, 0-4 consumer groups in every coordinator state, committed offsets; every value unique) and then, in 4 of 5 cases, driven through a 1-9 step PRNG history by the same mutators and the store's snapshot swap (configs persisted with the topic's / no / another partition count, CreatePartitions after a persisted config, refreshed snapshots in which a topic grew, shrank, changed its error code, vanished or came back with another layout, DeleteTopic with and without re-creation, CreateTopic, brokers leaving the broker list while still named as leaders, offsets moved on dropped partitions, groups deleted / re-put in another state, commits outliving group or topic), wrapped by a recording decorator, served by the real mcpserver.NewServer over the SDK's in-memory transports; tools are enumerated with tools/list and every listed tool is called with arguments generated from its own input schema (absent, {}, non-object JSON, missing/null/wrong-typed fields, existing / near-miss / hostile / 300-char names, 300-800 element lists, undeclared fields named after mutations), plus unknown and mutation-sounding tool names, plus one concurrent round of all tools; some cases inject read failures or a cancelled context. Oracle per call: the decorator saw zero calls of the 8 mutating Store methods AND a complete dump of the store (cluster state, topics, partition offsets, consumer offsets+metadata, groups, configs; taken under the store's lock by an overlaid dump method) is identical before and after; and identical to the dump taken before the first call at the end of the case. non-trivial = the call reached the store (>=1 read) while the store held topics and (groups or offsets); the run is inconclusive unless a fifth of the stores held a persisted config whose partition count differs from its topic's and every store-reading tool answered over such a store",
		"the statement's 'metadata store' is exercised as the real InMemoryStore behind the Store interface; the decorator verdict (no mutating method called) carries to any Store implementation, the dump verdict only to the in-memory one",
		"store methods are classified read/mutating from the interface's documented contract",
		"a watchdog context of 60 s per call only guards against a hung transport: its firing is inconclusive")
	n := r.N(50, 1500)
	toolsSeen := map[string]bool{}
	for ci := 0; ci < n; ci++ {
		rng := r.Rand(ci)
		inner, tnames, gnames, desc := c40Seed(rng, ci+1)
		st := newC40Store(inner)
		gone, _ := desc["deleted_topics"].([]string)
		drift, _ := desc["config_partition_drift"].([]string)
		hist, _ := desc["history"].([]string)
		if len(drift) > 0 {
			r.Count("cases_with_config_partition_drift", 1)
		}
		if len(gone) > 0 {
			r.Count("cases_with_deleted_topics", 1)
		}
		r.Count("history_steps", int64(len(hist)))
		for _, h := range hist {
			r.Seen("history_step_kinds", strings.SplitN(h, "(", 2)[0])
		}
		mode := rng.Intn(6) // 0..2 plain, 3 read failures, 4 cancelled ctx for some calls, 5 no metrics provider
		if mode == 3 {
			st.failEach = 1 + rng.Intn(4)
		}
		var mp console.MetricsProvider
		if mode != 5 {
			mp = &c40Metrics{mode: rng.Intn(3)}
		}
		server := NewServer(Options{Store: st, Metrics: mp, Version: "verif"})
		ct, stt := mcp.NewInMemoryTransports()
		bg, cancelAll := context.WithCancel(context.Background())
		ss, err := server.Connect(bg, stt, nil)
		if err != nil {
			cancelAll()
			t.Fatalf("server connect: %v", err)
		}
		client := mcp.NewClient(&mcp.Implementation{Name: "verif-c40", Version: "0"}, nil)
		cs, err := client.Connect(bg, ct, nil)
		if err != nil {
			cancelAll()
			t.Fatalf("client connect: %v", err)
		}
		lt, err := cs.ListTools(bg, nil)
		if err != nil {
			cancelAll()
			t.Fatalf("tools/list: %v", err)
		}
		type toolInfo struct {
			name   string
			schema map[string]any
		}
		var tools []toolInfo
		for _, tl := range lt.Tools {
			sch := map[string]any{}
			if b, err := json.Marshal(tl.InputSchema); err == nil {
				_ = json.Unmarshal(b, &sch)
			}
			tools = append(tools, toolInfo{tl.Name, sch})
			toolsSeen[tl.Name] = true
			r.Seen("tools_listed", tl.Name)
		}
		if len(tools) == 0 {
			cancelAll()
			t.Fatalf("tools/list returned no tool")
		}
		first := inner.VerifDump()
		rich := len(tnames) > 0 && (len(gnames) > 0)
		var steps []c40Step
		violated := false

		callOnce := func(name string, args json.RawMessage, kind string, cancelled bool) {
			before := inner.VerifDump()
			mutBefore, _ := st.mutTotal()
			readsBefore := st.readTotal()
			mark := st.callMark()
			ctx, cancel := context.WithTimeout(bg, 60*time.Second)
			if cancelled {
				cancel()
			}
			params := &mcp.CallToolParams{Name: name}
			if args != nil {
				params.Arguments = args
			}
			res, err := cs.CallTool(ctx, params)
			deadline := ctx.Err() == context.DeadlineExceeded
			cancel()
			outcome := "ok"
			switch {
			case deadline:
				outcome = "watchdog"
				r.Inconclusive(fmt.Sprintf("case %d: CallTool(%q) hit the 60 s watchdog", ci, name))
			case err != nil:
				outcome = "protocol_error"
			case res != nil && res.IsError:
				outcome = "tool_error"
			}
			after := inner.VerifDump()
			mutAfter, byMethod := st.mutTotal()
			reads := st.readTotal() - readsBefore
			a := string(args)
			if len(a) > 300 {
				a = a[:300] + fmt.Sprintf("…(%d bytes)", len(args))
			}
			step := c40Step{Tool: name, Kind: kind, Args: a, Outcome: outcome, Reads: reads}
			steps = append(steps, step)
			r.Count("calls", 1)
			r.Count("outcome_"+outcome, 1)
			r.Count("argkind_"+strings.SplitN(kind, "+", 2)[0], 1)
			r.Seen("tool_kind_outcome", name+"/"+strings.SplitN(kind, "+", 2)[0]+"/"+outcome)

			r.Count("store_reads", int64(reads))
			if toolsSeen[name] && reads > 0 {
				r.Seen("tools_reaching_store", name)
				if len(drift) > 0 && outcome == "ok" {
					r.Seen("tools_answering_over_drifted_configs", name)
				}
			}
			if mutAfter != mutBefore {
				violated = true
				var ms []string
				for _, c := range st.callsSince(mark) {
					if c40Mutating[c.Method] {
						ms = append(ms, c.Method)
					}
				}
				sort.Strings(ms)
				cls := "tool_calls_mutating_store_method"
				if len(ms) > 0 {
					cls += ":" + ms[0]
				}
				r.Violation(cls, fmt.Sprintf("tool %q called %d mutating store method(s) %v", name, mutAfter-mutBefore, ms),
					map[string]any{"case": ci, "seed_state": desc, "call": step, "full_arguments": string(args), "store_calls": st.callsSince(mark), "mutating_totals": byMethod})
			}
			if d := c40Diff(before, after); len(d) > 0 {
				violated = true
				if len(d) > 12 {
					d = d[:12]
				}
				r.Violation("store_state_changed:"+c40Section(d), fmt.Sprintf("store dump differs after tool %q: %v", name, d),
					map[string]any{"case": ci, "seed_state": desc, "call": step, "full_arguments": string(args), "diff": d, "store_calls": st.callsSince(mark)})
			}
			nontrivial := toolsSeen[name] && reads > 0 && rich
			r.Case(verifkit.Hash(name, kind, string(args), outcome, reads, desc), nontrivial)
			if ci < 3 && len(steps) <= 2 {
				r.Sample(map[string]any{"seed_state": desc, "call": step})
			}
		}

		// every listed tool at least twice, then random tools, then unknown names
		for _, tl := range tools {
			for k := 0; k < 2; k++ {
				args, kind := c40Args(rng, tl.schema, tnames, gnames, gone)
				if k == 0 && rng.Intn(2) == 0 { // a well-formed call that names existing objects
					obj := map[string]any{}
					props, _ := tl.schema["properties"].(map[string]any)
					for p := range props {
						if strings.Contains(p, "group") {
							if len(gnames) > 0 {
								obj[p] = gnames[rng.Intn(len(gnames))]
							} else {
								obj[p] = "g1"
							}
						} else {
							obj[p] = tnames
							if tnames == nil {
								obj[p] = []string{}
							}
						}
					}
					args, _ = json.Marshal(obj)
					kind = "well_formed_existing"
				}
				callOnce(tl.name, args, kind, mode == 4 && rng.Intn(3) == 0)
			}
		}
		for k := 0; k < 6; k++ {
			tl := tools[rng.Intn(len(tools))]
			args, kind := c40Args(rng, tl.schema, tnames, gnames, gone)
			callOnce(tl.name, args, kind, mode == 4 && rng.Intn(3) == 0)
		}
		for k := 0; k < 2; k++ {
			name := c40UnknownTools[rng.Intn(len(c40UnknownTools))]
			tl := tools[rng.Intn(len(tools))]
			args, kind := c40Args(rng, tl.schema, tnames, gnames, gone)
			callOnce(name, args, "unknown_tool/"+kind, false)
		}
		// one concurrent round of every tool
		{
			before := inner.VerifDump()
			mutBefore, _ := st.mutTotal()
			mark := st.callMark()
			var wg sync.WaitGroup
			type job struct {
				name string
				args json.RawMessage
			}
			var jobs []job
			for _, tl := range tools {
				a, _ := c40Args(rng, tl.schema, tnames, gnames, gone)
				jobs = append(jobs, job{tl.name, a})
			}
			for _, j := range jobs {
				wg.Add(1)
				go func(j job) {
					defer wg.Done()
					ctx, cancel := context.WithTimeout(bg, 60*time.Second)
					defer cancel()
					p := &mcp.CallToolParams{Name: j.name}
					if j.args != nil {
						p.Arguments = j.args
					}
					_, _ = cs.CallTool(ctx, p)
					if ctx.Err() == context.DeadlineExceeded {
						r.Inconclusive(fmt.Sprintf("case %d: concurrent CallTool(%q) hit the watchdog", ci, j.name))
					}
				}(j)
			}
			wg.Wait()
			r.Count("concurrent_rounds", 1)
			mutAfter, byMethod := st.mutTotal()
			if mutAfter != mutBefore {
				violated = true
				r.Violation("tool_calls_mutating_store_method:concurrent_round", fmt.Sprintf("%d mutating store calls during a concurrent round of all tools", mutAfter-mutBefore),
					map[string]any{"case": ci, "seed_state": desc, "store_calls": st.callsSince(mark), "mutating_totals": byMethod})
			}
			if d := c40Diff(before, inner.VerifDump()); len(d) > 0 {
				violated = true
				r.Violation("store_state_changed:"+c40Section(d), fmt.Sprintf("store dump differs after a concurrent round of all tools: %v", d),
					map[string]any{"case": ci, "seed_state": desc, "diff": d, "store_calls": st.callsSince(mark)})
			}
		}
		if d := c40Diff(first, inner.VerifDump()); len(d) > 0 && !violated {
			r.Violation("store_state_changed:"+c40Section(d), fmt.Sprintf("store dump at the end of the case differs from the dump before the first call: %v", d),
				map[string]any{"case": ci, "seed_state": desc, "diff": d, "steps": steps})
		}
		if rich {
			r.Count("cases_with_topics_and_groups", 1)
		}
		r.Count("dump_entries", int64(len(first)))
		_ = cs.Close()
		cancelAll()
		_ = ss.Wait()
	}
	var names []string
	for k := range toolsSeen {
		names = append(names, k)
	}
	sort.Strings(names)
	r.Note("tools_listed", names)
	// a run in which some listed tool never got as far as the store decided nothing about that tool
	r.Floor("tools_reaching_store", int64(len(names)-c40StorelessTools(names)))
	r.Floor("cases_with_topics_and_groups", 20)
	r.Floor("cases_with_config_partition_drift", int64(n/5))
	r.Floor("cases_with_deleted_topics", int64(n/10))
	r.Floor("tools_answering_over_drifted_configs", int64(len(names)-c40StorelessTools(names)))
	r.Floor("history_step_kinds", 7)
	r.Floor("outcome_ok", 100)
	r.Floor("outcome_tool_error", 20)
}

// c40StorelessTools: tools that by their published purpose only read the
// metrics provider (no store access to observe).
func c40StorelessTools(names []string) int {
	n := 0
	for _, k := range names {
		if strings.Contains(k, "metrics") {
			n++
		}
	}
	return n
}
