//go:build verif

package proxy

import (
	"fmt"
	"strings"
	"testing"

	"github.com/kafscale/platform/addons/processors/sql-processor/internal/verifkit"
)

// Reference for the SQL proxy's topic ACL, from the statement of C23 with this
// type's own notion of "default policy": the ACL has no default_policy field;
// an empty allow list means "everything not denied is allowed", a non-empty one
// means "only what is listed" (user-guide: `acl: {allow: [], deny: []}` = open).
// So default := allow iff len(Allow)==0.
func c23sqlNameMatch(pat, topic string) bool {
	if pat == "*" {
		return true
	}
	if strings.HasSuffix(pat, "*") {
		return strings.HasPrefix(topic, pat[:len(pat)-1])
	}
	return pat == topic
}

func c23sqlAny(pats []string, topic string) bool {
	for _, p := range pats {
		if c23sqlNameMatch(p, topic) {
			return true
		}
	}
	return false
}

func c23sqlDecide(allow, deny []string, topic string) (bool, string) {
	if c23sqlAny(deny, topic) {
		return false, "deny_rule"
	}
	if c23sqlAny(allow, topic) {
		return true, "allow_rule"
	}
	if len(allow) == 0 {
		return true, "default_allow"
	}
	return false, "default_deny"
}

func c23sqlAsk(a ACL, topic string) (ok bool, panicked any) {
	defer func() {
		if p := recover(); p != nil {
			panicked = p
		}
	}()
	return a.Allows(topic), nil
}

func TestVerifC23SQL(t *testing.T) {
	r := verifkit.Start(t, "C23", "sql")
	defer r.Finish("SQL proxy ACL{Allow,Deny}.Allows(topic). (1) complete enumeration: pattern alphabet {*,a*,ab*,b*,a,ab,abc,b} (exact, prefix wildcard, star), every ORDERED allow list and deny list of length 0..3 (585 x 585 configurations) x topics {a,ab,abc,b,ba,c,orders}: every result == reference from the statement (matching deny => denied; else matching allow => allowed; else this type's default: allowed iff the allow list is empty). (2) reference-free monotonicity over the same table: inserting a pattern anywhere into a deny list never grants; inserting a pattern into a NON-EMPTY allow list never removes access (the default stays 'deny'). Going from an empty to a non-empty allow list switches this ACL's default from allow to deny by design and is only counted, not judged. (3) PRNG lists with patterns outside the alphabet (globs ?, [..], inner *, malformed '[', blanks, padding): the same two monotonicity rules and no panic; non-trivial = configuration whose topics show a deny-overrides-allow decision",
		"SQL proxy: 'default policy' = allow iff Allow is empty (no default_policy field exists); the step empty->non-empty allow list changes that default and is therefore outside the monotonicity claim (DESIGN.md C23)",
		"topic names are legal Kafka names (no '/', no glob metacharacters)")
	pats := []string{"*", "a*", "ab*", "b*", "a", "ab", "abc", "b"}
	topics := []string{"a", "ab", "abc", "b", "ba", "c", "orders"}
	maxLen := 3
	// ordered lists up to maxLen: encode as base-P numbers with length prefix
	var lists [][]string
	var rec func(cur []string)
	index := map[string]int{}
	rec = func(cur []string) {
		index[strings.Join(cur, ",")] = len(lists)
		lists = append(lists, append([]string(nil), cur...))
		if len(cur) == maxLen {
			return
		}
		for _, p := range pats {
			rec(append(cur, p))
		}
	}
	rec(nil)
	L := len(lists)
	got := make([]uint8, L*L) // bitmask over topics, [allow*L+deny]
	reasons := map[string]int64{}
	for ai, A := range lists {
		for di, D := range lists {
			acl := ACL{Allow: A, Deny: D}
			var mask uint8
			both := false
			for ti, tp := range topics {
				g, pn := c23sqlAsk(acl, tp)
				if pn != nil {
					r.Violation("panic_in_allows", fmt.Sprintf("ACL.Allows panicked: %v", pn), map[string]any{"allow": A, "deny": D, "topic": tp})
					continue
				}
				want, why := c23sqlDecide(A, D, tp)
				reasons[why]++
				if why == "deny_rule" && c23sqlAny(A, tp) {
					both = true
				}
				if g != want {
					cls := map[string]string{"deny_rule": "allowed_despite_matching_deny_rule", "allow_rule": "denied_despite_matching_allow_rule_and_no_deny", "default_allow": "denied_although_nothing_matches_and_allow_list_empty", "default_deny": "allowed_although_not_on_nonempty_allow_list"}[why]
					r.Violation("sql_"+cls, fmt.Sprintf("ACL{Allow:%q,Deny:%q}.Allows(%q)=%v, statement says %v (%s)", A, D, tp, g, want, why), map[string]any{"allow": A, "deny": D, "topic": tp, "got": g, "want": want})
				}
				if g {
					mask |= 1 << uint(ti)
				}
			}
			got[ai*L+di] = mask
			r.Case(fmt.Sprintf("A%d/D%d", ai, di), both)
			if ai == 77 && (di == 3 || di == 150) {
				r.Sample(map[string]any{"allow": A, "deny": D, "allowed_topics_mask": mask, "topics": topics})
			}
		}
	}
	for k, v := range reasons {
		r.Count("reason_"+k, v)
	}
	r.Count("configurations", int64(L*L))
	// monotonicity over the table
	var pairs, changed, flips, flipLoses int64
	for bi, B := range lists {
		if len(B) == maxLen {
			continue
		}
		for pos := 0; pos <= len(B); pos++ {
			for _, p := range pats {
				ext := append(append(append([]string(nil), B[:pos]...), p), B[pos:]...)
				ei := index[strings.Join(ext, ",")]
				for o := 0; o < L; o++ {
					// deny B -> ext with allow list o
					before, after := got[o*L+bi], got[o*L+ei]
					pairs++
					if after&^before != 0 {
						r.Violation("sql_adding_deny_rule_granted_access", fmt.Sprintf("deny %q -> %q with allow %q: allowed topics %07b -> %07b", B, ext, lists[o], before, after), map[string]any{"deny_before": B, "deny_after": ext, "allow": lists[o], "topics": topics})
					}
					if before != after {
						changed++
					}
					// allow B -> ext with deny list o
					before, after = got[bi*L+o], got[ei*L+o]
					if len(B) == 0 {
						flips++
						if before&^after != 0 {
							flipLoses++
						}
						continue
					}
					pairs++
					if before&^after != 0 {
						r.Violation("sql_adding_allow_rule_removed_access", fmt.Sprintf("allow %q -> %q with deny %q: allowed topics %07b -> %07b", B, ext, lists[o], before, after), map[string]any{"allow_before": B, "allow_after": ext, "deny": lists[o], "topics": topics})
					}
					if before != after {
						changed++
					}
				}
			}
		}
	}
	r.Count("monotonicity_config_pairs_checked", pairs)
	r.Count("monotonicity_pairs_with_a_changed_decision", changed)
	r.Count("observed_not_judged_first_allow_pattern_added_to_empty_allow_list", flips)
	r.Count("observed_not_judged_first_allow_pattern_removed_some_access", flipLoses)

	// PRNG lists with patterns outside the statement's alphabet: monotonicity + no panic only
	wild := []string{"*", "a*", "ab", "b", "", " ", " a* ", "a?", "?", "[ab]*", "[", "a[", "*b", "a*c", "**", "\\a", "orders-*", "c"}
	wtopics := []string{"a", "ab", "abc", "b", "ba", "c", "ac", "orders-1", "a.b", "a_b-c", "A"}
	n := r.N(3000, 60000)
	for ci := 0; ci < n; ci++ {
		rng := r.Rand(ci)
		mk := func(k int) []string {
			out := []string{}
			for i := 0; i < k; i++ {
				out = append(out, wild[rng.Intn(len(wild))])
			}
			return out
		}
		A, D := mk(1+rng.Intn(3)), mk(rng.Intn(4))
		p := wild[rng.Intn(len(wild))]
		asAllow := rng.Intn(2) == 0
		A2, D2 := A, D
		if asAllow {
			pos := rng.Intn(len(A) + 1)
			A2 = append(append(append([]string(nil), A[:pos]...), p), A[pos:]...)
		} else {
			pos := rng.Intn(len(D) + 1)
			D2 = append(append(append([]string(nil), D[:pos]...), p), D[pos:]...)
		}
		a1, a2 := ACL{Allow: A, Deny: D}, ACL{Allow: A2, Deny: D2}
		diff := false
		for _, tp := range wtopics {
			g1, p1 := c23sqlAsk(a1, tp)
			g2, p2 := c23sqlAsk(a2, tp)
			if p1 != nil || p2 != nil {
				r.Violation("panic_in_allows", fmt.Sprintf("ACL.Allows panicked: %v %v", p1, p2), map[string]any{"allow": A2, "deny": D2, "topic": tp})
				continue
			}
			if g1 != g2 {
				diff = true
			}
			if asAllow && g1 && !g2 {
				r.Violation("sql_adding_allow_rule_removed_access", fmt.Sprintf("allow %q -> %q with deny %q: Allows(%q) true -> false", A, A2, D, tp), map[string]any{"allow_before": A, "allow_after": A2, "deny": D, "topic": tp})
			}
			if !asAllow && !g1 && g2 {
				r.Violation("sql_adding_deny_rule_granted_access", fmt.Sprintf("deny %q -> %q with allow %q: Allows(%q) false -> true", D, D2, A, tp), map[string]any{"deny_before": D, "deny_after": D2, "allow": A, "topic": tp})
			}
		}
		r.Count("wild_pairs_checked", int64(len(wtopics)))
		if diff {
			r.Count("wild_additions_that_changed_a_decision", 1)
		}
		r.Case(verifkit.Hash("wild", A, D, p, asAllow), diff)
	}
	if r.Thorough() {
		r.Exhaustive(true)
	}
	r.Floor("reason_deny_rule", 1000)
	r.Floor("reason_allow_rule", 1000)
	r.Floor("reason_default_allow", 100)
	r.Floor("reason_default_deny", 1000)
	r.Floor("monotonicity_pairs_with_a_changed_decision", 1000)
	r.Floor("wild_additions_that_changed_a_decision", 100)
}
