//go:build verif

package acl

import (
	"fmt"
	"strings"
	"testing"

	"github.com/KafScale/platform/internal/verifkit"
)

// ---------------------------------------------------------------------------
// Reference decision, written from the statement of C23:
//   denied if any matching deny rule exists for the principal; otherwise allowed
//   if a matching allow rule exists; otherwise (also: unknown principal) default.
// "matching": the rule's action / resource equal the request's or are "*"; the
// rule's name pattern is "*" (everything), "p*" (names starting with p) or an
// exact name.  Nothing else (empty fields, case folding, trimming) is modelled:
// the reference is only ever asked about rules from that clean alphabet.
// ---------------------------------------------------------------------------

type c23Rule struct{ A, R, N string }

type c23Principal struct {
	Name  string    `json:"name"`
	Allow []c23Rule `json:"allow"`
	Deny  []c23Rule `json:"deny"`
}

type c23Config struct {
	DefaultAllow bool           `json:"default_allow"`
	Principals   []c23Principal `json:"principals"`
}

type c23Req struct{ P, A, R, N string }

func c23NameMatch(pat, name string) bool {
	if pat == "*" {
		return true
	}
	if strings.HasSuffix(pat, "*") {
		return strings.HasPrefix(name, pat[:len(pat)-1])
	}
	return pat == name
}

func c23Match(ru c23Rule, q c23Req) bool {
	return (ru.A == "*" || ru.A == q.A) && (ru.R == "*" || ru.R == q.R) && c23NameMatch(ru.N, q.N)
}

// c23Principal identity: the request's principal is looked up by its exact name;
// the empty principal is the documented "anonymous" identity (assumption).
func c23Decide(cfg c23Config, q c23Req) (bool, string) {
	p := q.P
	if p == "" {
		p = "anonymous"
	}
	for _, pr := range cfg.Principals {
		if pr.Name != p {
			continue
		}
		for _, ru := range pr.Deny {
			if c23Match(ru, q) {
				return false, "deny_rule"
			}
		}
		for _, ru := range pr.Allow {
			if c23Match(ru, q) {
				return true, "allow_rule"
			}
		}
		break
	}
	if cfg.DefaultAllow {
		return true, "default_allow"
	}
	return false, "default_deny"
}

func c23Real(cfg c23Config) *Authorizer {
	c := Config{Enabled: true, DefaultPolicy: "deny"}
	if cfg.DefaultAllow {
		c.DefaultPolicy = "allow"
	}
	for _, p := range cfg.Principals {
		pr := PrincipalRules{Name: p.Name}
		for _, ru := range p.Allow {
			pr.Allow = append(pr.Allow, Rule{Action: Action(ru.A), Resource: Resource(ru.R), Name: ru.N})
		}
		for _, ru := range p.Deny {
			pr.Deny = append(pr.Deny, Rule{Action: Action(ru.A), Resource: Resource(ru.R), Name: ru.N})
		}
		c.Principals = append(c.Principals, pr)
	}
	return NewAuthorizer(c)
}

// c23Ask calls the real authorizer; a panic is reported by the caller.
func c23Ask(a *Authorizer, q c23Req) (ok bool, panicked any) {
	defer func() {
		if p := recover(); p != nil {
			panicked = p
		}
	}()
	return a.Allows(q.P, Action(q.A), Resource(q.R), q.N), nil
}

// classify a disagreement with the reference from the witness
func c23Class(got bool, why string) string {
	switch why {
	case "deny_rule":
		return "allowed_despite_matching_deny_rule"
	case "allow_rule":
		return "denied_despite_matching_allow_rule_and_no_deny"
	case "default_allow":
		return "denied_although_no_rule_matches_and_default_allow"
	default:
		return "allowed_although_no_rule_matches_and_default_deny"
	}
}

func c23Insert(list []c23Rule, ru c23Rule, pos int) []c23Rule {
	out := make([]c23Rule, 0, len(list)+1)
	out = append(out, list[:pos]...)
	out = append(out, ru)
	out = append(out, list[pos:]...)
	return out
}

func c23Clone(cfg c23Config) c23Config {
	out := c23Config{DefaultAllow: cfg.DefaultAllow}
	for _, p := range cfg.Principals {
		out.Principals = append(out.Principals, c23Principal{Name: p.Name, Allow: append([]c23Rule(nil), p.Allow...), Deny: append([]c23Rule(nil), p.Deny...)})
	}
	return out
}

// ---------------------------------------------------------------------------
// leg "sample": PRNG configurations over the full action/resource vocabulary
// ---------------------------------------------------------------------------

var (
	c23RuleActions   = []string{"*", "produce", "fetch", "group_read", "group_write", "group_admin", "admin"}
	c23RuleResources = []string{"*", "topic", "group", "cluster"}
	c23RuleNames     = []string{"*", "a*", "ab*", "a", "ab", "abc", "b", "b*", "orders-*", "orders-1"}
	c23ReqActions    = []string{"produce", "fetch", "group_read", "group_write", "group_admin", "admin"}
	c23ReqResources  = []string{"topic", "group", "cluster"}
	c23ReqNames      = []string{"", "a", "ab", "abc", "b", "ba", "orders-1", "orders", "orders-"}
	c23CfgPrincipals = []string{"alice", "bob", "anonymous", "ops admin"}
	c23ReqPrincipals = []string{"alice", "bob", "anonymous", "ops admin", "", "carol"}
	// rules outside the statement's alphabet: only used by the reference-free monotonicity check
	c23WildActions   = []string{"", "*", "produce", "FETCH", "Produce", "fetch ", "nosuch", "admin"}
	c23WildResources = []string{"", "*", "topic", "TOPIC", "group", "cluster", "nosuch"}
	c23WildNames     = []string{"", "*", "**", "a*", " a* ", "a*b", "*a", "A", "a", "ab", " ab", "abc*", "b*", "orders-*"}
)

func c23AllReqs() []c23Req {
	var out []c23Req
	for _, p := range c23ReqPrincipals {
		for _, a := range c23ReqActions {
			for _, r := range c23ReqResources {
				for _, n := range c23ReqNames {
					out = append(out, c23Req{p, a, r, n})
				}
			}
		}
	}
	return out
}

func TestVerifC23Sample(t *testing.T) {
	r := verifkit.Start(t, "C23", "sample")
	defer r.Finish("PRNG configurations (default allow/deny; 0-4 distinct principals from {alice,bob,anonymous,'ops admin'}; each 0-3 allow and 0-3 deny rules over 7 rule actions x 4 rule resources x 10 name patterns: exact, prefix wildcard p*, *) against ALL 972 requests (6 principals incl. empty and never-configured, 6 actions, 3 resources, 9 names): every real Allows() result must equal the reference decision written from the statement (matching deny => denied; else matching allow => allowed; else default, also for unknown principals). Metamorphic, reference-free: inserting one extra rule (also rules outside the clean alphabet: empty fields, other case, inner '*', padded) at a random position of a random principal's allow list (or as a new principal) never turns an allowed request into a denied one, and inserting it as a deny rule never turns a denied request into an allowed one; non-trivial = configuration in which the 972 requests exercise all four reasons (deny rule, allow rule, default for known principal, default for unknown principal) and at least one request matches both an allow and a deny rule",
		"the empty request principal is the 'anonymous' principal (normalisation documented in pkg/acl); configurations list each principal name once; rule fields of the compared configurations come from the clean alphabet (no empty fields / case variants), ACL enabled",
		"a rule 'matches' when action and resource are equal or '*' and the name pattern is '*', a prefix wildcard 'p*' or the exact name")
	reqs := c23AllReqs()
	n := r.N(2500, 60000)
	only := -1
	if rp := verifkit.Replay(); rp != nil { // bin/check C23 --replay <witness.json>: re-run exactly that sampled case
		inner, _ := rp["replay"].(map[string]any)
		ci, okc := inner["case"].(float64)
		seed, oks := rp["seed"].(float64)
		if okc && oks && rp["leg"] == "sample" {
			only, r.Seed, n = int(ci), int64(seed), int(ci)+1
			r.Note("replayed", map[string]any{"case": only, "seed": r.Seed})
		}
	}
	for ci := 0; ci < n; ci++ {
		if only >= 0 && ci != only {
			continue
		}
		rng := r.Rand(ci)
		cfg := c23Config{DefaultAllow: rng.Intn(2) == 0}
		perm := rng.Perm(len(c23CfgPrincipals))
		np := rng.Intn(len(c23CfgPrincipals) + 1)
		// a small per-case sub-alphabet makes overlaps between allow and deny rules likely
		acts := c23Pick(rng.Perm(len(c23RuleActions)), c23RuleActions, 1+rng.Intn(3))
		ress := c23Pick(rng.Perm(len(c23RuleResources)), c23RuleResources, 1+rng.Intn(3))
		names := c23Pick(rng.Perm(len(c23RuleNames)), c23RuleNames, 1+rng.Intn(4))
		gen := func() c23Rule {
			if rng.Intn(5) == 0 {
				return c23Rule{c23RuleActions[rng.Intn(len(c23RuleActions))], c23RuleResources[rng.Intn(len(c23RuleResources))], c23RuleNames[rng.Intn(len(c23RuleNames))]}
			}
			return c23Rule{acts[rng.Intn(len(acts))], ress[rng.Intn(len(ress))], names[rng.Intn(len(names))]}
		}
		for i := 0; i < np; i++ {
			p := c23Principal{Name: c23CfgPrincipals[perm[i]]}
			for k, na := 0, rng.Intn(4); k < na; k++ {
				p.Allow = append(p.Allow, gen())
			}
			for k, nd := 0, rng.Intn(4); k < nd; k++ {
				p.Deny = append(p.Deny, gen())
			}
			cfg.Principals = append(cfg.Principals, p)
		}
		auth := c23Real(cfg)
		base := make([]bool, len(reqs))
		reasons := map[string]int{}
		unknownDefault, both := 0, 0
		bad := false
		for qi, q := range reqs {
			got, pn := c23Ask(auth, q)
			if pn != nil {
				r.Violation("panic_in_allows", fmt.Sprintf("Allows panicked: %v", pn), map[string]any{"case": ci, "config": cfg, "request": q})
				bad = true
				break
			}
			base[qi] = got
			want, why := c23Decide(cfg, q)
			reasons[why]++
			if strings.HasPrefix(why, "default") && !c23Known(cfg, q.P) {
				unknownDefault++
			}
			if why == "deny_rule" && c23AllowAlsoMatches(cfg, q) {
				both++
			}
			if got != want && !bad {
				r.Violation(c23Class(got, why), fmt.Sprintf("Allows(%q,%s,%s,%q)=%v, statement says %v (%s)", q.P, q.A, q.R, q.N, got, want, why), map[string]any{"case": ci, "config": cfg, "request": q, "got": got, "want": want, "reason": why})
				bad = true
			}
		}
		r.Count("decisions_checked", int64(len(reqs)))
		for k, v := range reasons {
			r.Count("reason_"+k, int64(v))
		}
		r.Count("requests_matching_allow_and_deny", int64(both))
		nontrivial := reasons["deny_rule"] > 0 && reasons["allow_rule"] > 0 && (reasons["default_allow"]+reasons["default_deny"]) > unknownDefault && unknownDefault > 0 && both > 0

		// metamorphic: one more rule
		for k := 0; k < 4 && !bad; k++ {
			var ru c23Rule
			if rng.Intn(2) == 0 {
				ru = gen()
			} else {
				ru = c23Rule{c23WildActions[rng.Intn(len(c23WildActions))], c23WildResources[rng.Intn(len(c23WildResources))], c23WildNames[rng.Intn(len(c23WildNames))]}
			}
			asAllow := k%2 == 0
			cfg2 := c23Clone(cfg)
			target := ""
			if len(cfg2.Principals) > 0 && rng.Intn(4) != 0 {
				pi := rng.Intn(len(cfg2.Principals))
				p := &cfg2.Principals[pi]
				target = p.Name
				if asAllow {
					p.Allow = c23Insert(p.Allow, ru, rng.Intn(len(p.Allow)+1))
				} else {
					p.Deny = c23Insert(p.Deny, ru, rng.Intn(len(p.Deny)+1))
				}
			} else if len(cfg2.Principals) < len(c23CfgPrincipals) {
				// first rule of a principal the configuration did not mention yet
				target = c23CfgPrincipals[perm[len(cfg2.Principals)]]
				p := c23Principal{Name: target}
				if asAllow {
					p.Allow = []c23Rule{ru}
				} else {
					p.Deny = []c23Rule{ru}
				}
				cfg2.Principals = append(cfg2.Principals, p)
				r.Count("rule_added_for_new_principal", 1)
			} else {
				continue
			}
			auth2 := c23Real(cfg2)
			changed := 0
			for qi, q := range reqs {
				got2, pn := c23Ask(auth2, q)
				if pn != nil {
					r.Violation("panic_in_allows", fmt.Sprintf("Allows panicked: %v", pn), map[string]any{"case": ci, "config": cfg2, "request": q})
					bad = true
					break
				}
				if got2 != base[qi] {
					changed++
				}
				if asAllow && base[qi] && !got2 {
					r.Violation("adding_allow_rule_removed_access", fmt.Sprintf("adding allow rule %+v for %q: Allows(%q,%s,%s,%q) went true -> false", ru, target, q.P, q.A, q.R, q.N), map[string]any{"case": ci, "config_before": cfg, "config_after": cfg2, "added": ru, "principal": target, "request": q})
					bad = true
					break
				}
				if !asAllow && !base[qi] && got2 {
					r.Violation("adding_deny_rule_granted_access", fmt.Sprintf("adding deny rule %+v for %q: Allows(%q,%s,%s,%q) went false -> true", ru, target, q.P, q.A, q.R, q.N), map[string]any{"case": ci, "config_before": cfg, "config_after": cfg2, "added": ru, "principal": target, "request": q})
					bad = true
					break
				}
			}
			r.Count("monotonicity_pairs_checked", int64(len(reqs)))
			if changed > 0 {
				if asAllow {
					r.Count("added_allow_rules_that_changed_a_decision", 1)
				} else {
					r.Count("added_deny_rules_that_changed_a_decision", 1)
				}
			}
		}
		r.Case(verifkit.Hash(cfg), nontrivial)
		if nontrivial {
			r.Count("nontrivial_configs", 1)
		}
		if ci < 2 || (nontrivial && ci < 40) {
			r.Sample(map[string]any{"config": cfg, "reasons": reasons})
		}
	}
	// observed, not judged: two configuration entries with the same principal name. The statement
	// speaks of the rules "for its principal"; which entry counts is not specified.
	{
		x := c23Rule{"produce", "topic", "a"}
		dup := c23Real(c23Config{DefaultAllow: false, Principals: []c23Principal{{Name: "alice", Deny: []c23Rule{x}}, {Name: "alice", Allow: []c23Rule{x}}}})
		got, _ := c23Ask(dup, c23Req{"alice", "produce", "topic", "a"})
		r.Note("observed_not_judged_duplicate_principal_entries", map[string]any{"config": "default deny; principals: [alice{deny produce/topic/a}, alice{allow produce/topic/a}]", "allows_alice_produce_topic_a": got, "meaning": "true = the later entry replaces the earlier one, the earlier entry's deny rule is not applied"})
	}
	if only >= 0 {
		return
	}
	r.Floor("reason_deny_rule", 1000)
	r.Floor("reason_allow_rule", 1000)
	r.Floor("reason_default_allow", 1000)
	r.Floor("reason_default_deny", 1000)
	r.Floor("requests_matching_allow_and_deny", 500)
	r.Floor("added_allow_rules_that_changed_a_decision", 50)
	r.Floor("added_deny_rules_that_changed_a_decision", 50)
}

func c23Pick(perm []int, from []string, k int) []string {
	out := make([]string, 0, k)
	for i := 0; i < k && i < len(perm); i++ {
		out = append(out, from[perm[i]])
	}
	return out
}

func c23Known(cfg c23Config, p string) bool {
	if p == "" {
		p = "anonymous"
	}
	for _, pr := range cfg.Principals {
		if pr.Name == p {
			return true
		}
	}
	return false
}

func c23AllowAlsoMatches(cfg c23Config, q c23Req) bool {
	p := q.P
	if p == "" {
		p = "anonymous"
	}
	for _, pr := range cfg.Principals {
		if pr.Name == p {
			for _, ru := range pr.Allow {
				if c23Match(ru, q) {
					return true
				}
			}
		}
	}
	return false
}

// ---------------------------------------------------------------------------
// leg "exh": the complete bounded space
// ---------------------------------------------------------------------------

func TestVerifC23Exhaustive(t *testing.T) {
	r := verifkit.Start(t, "C23", "exh")
	defer r.Finish("complete enumeration: rule alphabet 3 actions {*,produce,fetch} x 3 resources {*,topic,group} x 5 name patterns {*,a*,ab*,a,ab} = 45 rules; every ORDERED allow list and every ORDERED deny list of length 0..2 (2071 x 2071 pairs) x default allow/deny. Configuration = alice{allow A, deny D} + bob{allow D, deny A} (mirror, so that rules leaking between principals would show). Requests: {alice,bob} x 3 actions {produce,fetch,admin} x 3 resources {topic,group,cluster} x 5 names {'',a,ab,abc,b}, plus 9 requests each for a never-configured principal and the empty principal. Every real decision == reference from the statement; then over the stored real decision table: for every list of length <=1 and every rule inserted before or after it, allow-insertion only adds allowed requests and deny-insertion only removes them (reference-free)",
		"the empty request principal is the 'anonymous' principal; ACL enabled; one entry per principal name")
	acts := []string{"*", "produce", "fetch"}
	ress := []string{"*", "topic", "group"}
	pats := []string{"*", "a*", "ab*", "a", "ab"}
	var rules []c23Rule
	for _, a := range acts {
		for _, re := range ress {
			for _, n := range pats {
				rules = append(rules, c23Rule{a, re, n})
			}
		}
	}
	R := len(rules)
	// ordered lists of length 0..2: index 0 = [], 1+i = [i], 1+R+i*R+j = [i,j]
	L := 1 + R + R*R
	list := func(ix int) []c23Rule {
		switch {
		case ix == 0:
			return nil
		case ix <= R:
			return []c23Rule{rules[ix-1]}
		default:
			k := ix - 1 - R
			return []c23Rule{rules[k/R], rules[k%R]}
		}
	}
	var reqs []c23Req // per principal: 45 (bit index)
	for _, a := range []string{"produce", "fetch", "admin"} {
		for _, re := range []string{"topic", "group", "cluster"} {
			for _, n := range []string{"", "a", "ab", "abc", "b"} {
				reqs = append(reqs, c23Req{"", a, re, n})
			}
		}
	}
	others := []c23Req{}
	for i := 0; i < len(reqs); i += 5 {
		others = append(others, reqs[i+i/5%5])
	}
	// got[def][A*L+D] = bitmask of alice's allowed requests
	got := [2][]uint64{make([]uint64, L*L), make([]uint64, L*L)}
	workers := 4
	done := make(chan [5]int64, workers)
	for w := 0; w < workers; w++ {
		go func(w int) {
			var st [5]int64
			defer func() { done <- st }()
			for ai := w; ai < L; ai += workers {
				A := list(ai)
				for di := 0; di < L; di++ {
					D := list(di)
					for def := 0; def < 2; def++ {
						cfg := c23Config{DefaultAllow: def == 1, Principals: []c23Principal{{Name: "alice", Allow: A, Deny: D}, {Name: "bob", Allow: D, Deny: A}}}
						auth := c23Real(cfg)
						var mask uint64
						check := func(q c23Req, bit int) {
							g, pn := c23Ask(auth, q)
							if pn != nil {
								r.Violation("panic_in_allows", fmt.Sprintf("Allows panicked: %v", pn), map[string]any{"config": cfg, "request": q})
								return
							}
							want, why := c23Decide(cfg, q)
							switch why {
							case "deny_rule":
								st[0]++
							case "allow_rule":
								st[1]++
							case "default_allow":
								st[2]++
							default:
								st[3]++
							}
							if g != want {
								r.Violation(c23Class(g, why), fmt.Sprintf("Allows(%q,%s,%s,%q)=%v, statement says %v (%s)", q.P, q.A, q.R, q.N, g, want, why), map[string]any{"config": cfg, "request": q, "got": g, "want": want, "reason": why})
							}
							if g && bit >= 0 {
								mask |= 1 << uint(bit)
							}
						}
						for bi, q := range reqs {
							q.P = "alice"
							check(q, bi)
							q.P = "bob"
							check(q, -1)
						}
						for _, q := range others {
							q.P = "carol"
							check(q, -1)
							q.P = ""
							check(q, -1)
						}
						got[def][ai*L+di] = mask
						st[4]++
					}
				}
			}
		}(w)
	}
	var tot [5]int64
	for w := 0; w < workers; w++ {
		st := <-done
		for i := range tot {
			tot[i] += st[i]
		}
	}
	r.Count("reason_deny_rule", tot[0])
	r.Count("reason_allow_rule", tot[1])
	r.Count("reason_default_allow", tot[2])
	r.Count("reason_default_deny", tot[3])
	r.Count("configurations", tot[4])
	r.Count("decisions_checked", tot[0]+tot[1]+tot[2]+tot[3])
	r.Evals(int(tot[4]) - 2*L) // the 2*L r.Case calls below add the rest

	// reference-free monotonicity over the stored table
	var monoPairs, strict int64
	for def := 0; def < 2; def++ {
		g := got[def]
		for base := 0; base <= R; base++ { // lists of length 0 or 1
			var ext []int
			for ri := 0; ri < R; ri++ {
				if base == 0 {
					ext = append(ext, 1+ri)
				} else {
					b := base - 1
					ext = append(ext, 1+R+b*R+ri, 1+R+ri*R+b) // appended / prepended
				}
			}
			for _, e := range ext {
				for o := 0; o < L; o++ {
					// allow lists base -> e, deny list o
					before, after := g[base*L+o], g[e*L+o]
					monoPairs++
					if before&^after != 0 {
						r.Violation("adding_allow_rule_removed_access", fmt.Sprintf("allow %v -> %v with deny %v, default_allow=%v: allowed set %045b -> %045b", list(base), list(e), list(o), def == 1, before, after), map[string]any{"allow_before": list(base), "allow_after": list(e), "deny": list(o), "default_allow": def == 1})
					}
					if after&^before != 0 {
						strict++
					}
					// deny lists base -> e, allow list o
					before, after = g[o*L+base], g[o*L+e]
					monoPairs++
					if after&^before != 0 {
						r.Violation("adding_deny_rule_granted_access", fmt.Sprintf("deny %v -> %v with allow %v, default_allow=%v: allowed set %045b -> %045b", list(base), list(e), list(o), def == 1, before, after), map[string]any{"deny_before": list(base), "deny_after": list(e), "allow": list(o), "default_allow": def == 1})
					}
					if before&^after != 0 {
						strict++
					}
				}
			}
		}
	}
	r.Count("monotonicity_config_pairs_checked", monoPairs)
	r.Count("monotonicity_pairs_with_a_changed_decision", strict)
	// distinct non-trivial cases: one per (deny list, default) column of the table
	for di := 0; di < L; di++ {
		for def := 0; def < 2; def++ {
			r.Case(fmt.Sprintf("D%d/def%d", di, def), di > 0)
		}
	}
	r.Sample(map[string]any{"rules": R, "lists_per_side": L, "configurations": tot[4], "example_config": c23Config{DefaultAllow: true, Principals: []c23Principal{{Name: "alice", Allow: list(L - 1), Deny: list(7)}, {Name: "bob", Allow: list(7), Deny: list(L - 1)}}}})
	r.Exhaustive(true)
	r.Floor("reason_deny_rule", 1000)
	r.Floor("reason_allow_rule", 1000)
	r.Floor("monotonicity_pairs_with_a_changed_decision", 1000)
}
