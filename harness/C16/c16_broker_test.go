//go:build verif

package broker

// C16 through the group coordinator: OffsetCommit / OffsetFetch responses are
// the boundary at which a Kafka client sees committed offsets.  The workload
// runs on both metadata stores (InMemoryStore and a real EtcdStore on an
// embedded etcd).

import (
	"context"
	"fmt"
	"math/rand"
	"net"
	"net/url"
	"path/filepath"
	"sort"
	"strings"
	"sync"
	"sync/atomic"
	"testing"
	"time"

	"github.com/anishathalye/porcupine"
	"github.com/twmb/franz-go/pkg/kmsg"
	clientv3 "go.etcd.io/etcd/client/v3"
	"go.etcd.io/etcd/server/v3/embed"

	"github.com/KafScale/platform/internal/verifkit"
	"github.com/KafScale/platform/pkg/metadata"
	"github.com/KafScale/platform/pkg/protocol"
)

type c16Tuple struct {
	G, T string
	P    int32
}

func (t c16Tuple) String() string { return fmt.Sprintf("(%q,%q,%d)", t.G, t.T, t.P) }

type c16Val struct {
	Off  int64
	Meta string
}

// Names: pairs whose naive joins collide, separators of both stores, unicode, empty.
var (
	c16Groups = []string{"g", "a:b", "a", "a/offsets/b", "a/b", "grp ü", "", "g:0", "日本", " ", "a:b:c", "g/offsets/t", "G"}
	c16Topics = []string{"t", "c", "b:c", "b/offsets/c", "c/0", "t:1", "", "ü-topic", "offsets", "t/1", "0", "c:0", "T"}
	c16Parts  = []int32{0, 0, 1, 1, 10, 2147483647, 7}
	c16Metas  = []string{"", "m", "with \"quotes\" \\", "ユニコード", "line\nbreak", "{\"offset\":-1}", "a:b/c"}
	// (group, topic) pairs that a separator-joined key cannot tell apart
	c16Aliases = [][2][2]string{
		{{"a:b", "c"}, {"a", "b:c"}},
		{{"a/offsets/b", "c"}, {"a", "b/offsets/c"}},
		{{"a:b:c", "0"}, {"a:b", "c:0"}},
	}
)

// c16Name: mostly a listed name, sometimes 1-4 random pieces (separators of both key formats,
// digits that look like partitions, the literal path words of the etcd layout, non-ASCII).
var c16Pieces = []string{":", "/", "a", "b", "c", "0", "1", "offsets", "metadata", "ü", "日", " ", "-", ".", "%2F", "\\"}

func c16Name(rng *rand.Rand, listed []string) string {
	if rng.Intn(10) < 7 {
		return listed[rng.Intn(len(listed))]
	}
	var b strings.Builder
	for k := 1 + rng.Intn(4); k > 0; k-- {
		b.WriteString(c16Pieces[rng.Intn(len(c16Pieces))])
	}
	return b.String()
}

// c16Alias names how two different tuples may be confused (computed from the names only).
func c16Alias(x, y c16Tuple) string {
	if x == y {
		return "same"
	}
	if fmt.Sprintf("%s:%s:%d", x.G, x.T, x.P) == fmt.Sprintf("%s:%s:%d", y.G, y.T, y.P) {
		return "colon_joined_names_equal"
	}
	if fmt.Sprintf("%s/offsets/%s/%d", x.G, x.T, x.P) == fmt.Sprintf("%s/offsets/%s/%d", y.G, y.T, y.P) {
		return "slash_joined_names_equal"
	}
	return "unrelated_names"
}

type c16Env struct {
	kind  string // "memory" | "etcd"
	store metadata.Store
	close func()
}

type c16Etcd struct {
	endpoints []string
	admin     *clientv3.Client
}

func c16StartEtcd(t *testing.T) *c16Etcd {
	endpoints := c16StartEmbedded(t)
	admin, err := clientv3.New(clientv3.Config{Endpoints: endpoints, DialTimeout: 5 * time.Second})
	if err != nil {
		t.Fatalf("etcd admin client: %v", err)
	}
	t.Cleanup(func() { _ = admin.Close() })
	return &c16Etcd{endpoints: endpoints, admin: admin}
}

func (e *c16Etcd) env(kind string) (*c16Env, error) {
	if kind == "memory" {
		return &c16Env{kind: kind, store: metadata.NewInMemoryStore(metadata.ClusterMetadata{}), close: func() {}}, nil
	}
	ctx, cancel := context.WithTimeout(context.Background(), 20*time.Second)
	defer cancel()
	if _, err := e.admin.Delete(ctx, "", clientv3.WithPrefix()); err != nil {
		return nil, err
	}
	st, err := metadata.NewEtcdStore(ctx, metadata.ClusterMetadata{}, metadata.EtcdStoreConfig{Endpoints: e.endpoints})
	if err != nil {
		return nil, err
	}
	return &c16Env{kind: kind, store: st, close: func() { _ = st.Close() }}, nil
}

type c16Member struct {
	id  string
	gen int32
}

// c16Join makes one member known to the coordinator so that its commits are accepted.
func c16Join(c *GroupCoordinator, group string) (c16Member, int16) {
	req := kmsg.NewPtrJoinGroupRequest()
	req.Group = group
	req.SessionTimeoutMillis = 3600 * 1000
	req.RebalanceTimeoutMillis = 3600 * 1000
	req.ProtocolType = "consumer"
	resp, err := c.JoinGroup(context.Background(), req)
	if err != nil || resp == nil {
		return c16Member{}, protocol.UNKNOWN_SERVER_ERROR
	}
	return c16Member{id: resp.MemberID, gen: resp.Generation}, resp.ErrorCode
}

type c16CommitPart struct {
	Tu  c16Tuple
	Val c16Val
	Nil bool // metadata sent as a null string
}

func c16Commit(c *GroupCoordinator, group string, m c16Member, parts []c16CommitPart) (map[c16Tuple]int16, error) {
	req := kmsg.NewPtrOffsetCommitRequest()
	req.Group = group
	req.MemberID = m.id
	req.Generation = m.gen
	byTopic := map[string]int{}
	for _, p := range parts {
		i, ok := byTopic[p.Tu.T]
		if !ok {
			rt := kmsg.NewOffsetCommitRequestTopic()
			rt.Topic = p.Tu.T
			req.Topics = append(req.Topics, rt)
			i = len(req.Topics) - 1
			byTopic[p.Tu.T] = i
		}
		rp := kmsg.NewOffsetCommitRequestTopicPartition()
		rp.Partition = p.Tu.P
		rp.Offset = p.Val.Off
		if !p.Nil {
			meta := p.Val.Meta
			rp.Metadata = &meta
		}
		req.Topics[i].Partitions = append(req.Topics[i].Partitions, rp)
	}
	resp, err := c.OffsetCommit(context.Background(), req)
	if err != nil {
		return nil, err
	}
	out := map[c16Tuple]int16{}
	for _, t := range resp.Topics {
		for _, p := range t.Partitions {
			out[c16Tuple{group, t.Topic, p.Partition}] = p.ErrorCode
		}
	}
	return out, nil
}

type c16Fetched struct {
	Code    int16
	Off     int64
	Meta    string
	MetaNil bool
}

func c16Fetch(c *GroupCoordinator, group string, tuples []c16Tuple) (map[c16Tuple]c16Fetched, int16, error) {
	req := kmsg.NewPtrOffsetFetchRequest()
	req.Group = group
	byTopic := map[string]int{}
	for _, tu := range tuples {
		i, ok := byTopic[tu.T]
		if !ok {
			rt := kmsg.NewOffsetFetchRequestTopic()
			rt.Topic = tu.T
			req.Topics = append(req.Topics, rt)
			i = len(req.Topics) - 1
			byTopic[tu.T] = i
		}
		req.Topics[i].Partitions = append(req.Topics[i].Partitions, tu.P)
	}
	resp, err := c.OffsetFetch(context.Background(), req)
	if err != nil {
		return nil, 0, err
	}
	out := map[c16Tuple]c16Fetched{}
	for _, t := range resp.Topics {
		for _, p := range t.Partitions {
			f := c16Fetched{Code: p.ErrorCode, Off: p.Offset}
			if p.Metadata == nil {
				f.MetaNil = true
			} else {
				f.Meta = *p.Metadata
			}
			out[c16Tuple{group, t.Topic, p.Partition}] = f
		}
	}
	return out, resp.ErrorCode, nil
}

// c16Judge decides one fetched partition against the reference (a map keyed by
// the tuple). written = every value ever committed successfully, with its tuple.
// Returns "" if the answer is what the statement demands.
func c16Judge(tu c16Tuple, got c16Fetched, model map[c16Tuple]c16Val, older map[c16Tuple][]c16Val, written map[int64]c16Tuple, rejected map[int64]c16Tuple) (class, why string) {
	want, committed := model[tu]
	if committed && got.Off == want.Off && got.Meta == want.Meta {
		return "", ""
	}
	if !committed && got.Off == -1 {
		return "", "" // the statement fixes only the offset of an uncommitted partition
	}
	if src, ok := written[got.Off]; ok && src != tu {
		return "fetch_returns_commit_of_other_tuple:" + c16Alias(tu, src), fmt.Sprintf("fetch %s returned offset %d metadata %q, which was committed to %s", tu, got.Off, got.Meta, src)
	}
	if src, ok := rejected[got.Off]; ok {
		return "rejected_commit_visible", fmt.Sprintf("fetch %s returned offset %d, the value of a commit to %s that was answered with an error code", tu, got.Off, src)
	}
	if !committed {
		if got.Off == 0 && got.Meta == "" {
			return "never_committed_reads_0", fmt.Sprintf("fetch %s (never committed) returned offset 0, error code 0; the protocol value for \"no committed offset\" is -1", tu)
		}
		return "never_committed_reads_other_value", fmt.Sprintf("fetch %s (never committed) returned offset %d metadata %q", tu, got.Off, got.Meta)
	}
	if got.Off == want.Off {
		return "metadata_differs_from_last_commit", fmt.Sprintf("fetch %s returned the committed offset %d but metadata %q, committed %q", tu, got.Off, got.Meta, want.Meta)
	}
	for _, o := range older[tu] {
		if o.Off == got.Off {
			return "fetch_returns_older_commit", fmt.Sprintf("fetch %s returned offset %d, an earlier commit; last successful commit is %d", tu, got.Off, want.Off)
		}
	}
	if got.Off == 0 || got.Off == -1 {
		return "committed_offset_lost", fmt.Sprintf("fetch %s returned %d although offset %d was committed successfully", tu, got.Off, want.Off)
	}
	return "fetch_returns_unknown_value", fmt.Sprintf("fetch %s returned offset %d metadata %q; last successful commit is %d %q", tu, got.Off, got.Meta, want.Off, want.Meta)
}

func c16PickNames(rng *rand.Rand) (groups, topics []string) {
	gs, ts := map[string]bool{}, map[string]bool{}
	if rng.Intn(3) > 0 { // most cases carry one alias pair
		a := c16Aliases[rng.Intn(len(c16Aliases))]
		gs[a[0][0]], ts[a[0][1]], gs[a[1][0]], ts[a[1][1]] = true, true, true, true
	}
	for len(gs) < 3 {
		gs[c16Name(rng, c16Groups)] = true
	}
	for len(ts) < 3 {
		ts[c16Name(rng, c16Topics)] = true
	}
	for g := range gs {
		groups = append(groups, g)
	}
	for t := range ts {
		topics = append(topics, t)
	}
	sort.Strings(groups)
	sort.Strings(topics)
	rng.Shuffle(len(groups), func(i, j int) { groups[i], groups[j] = groups[j], groups[i] })
	rng.Shuffle(len(topics), func(i, j int) { topics[i], topics[j] = topics[j], topics[i] })
	return
}

// ---------------------------------------------------------------- sequential leg

func TestVerifC16Coord(t *testing.T) {
	r := verifkit.Start(t, "C16", "coord")
	defer r.Finish("PRNG sequences of OffsetCommit / OffsetFetch requests (1-4 partitions per request, several topics) sent to a GroupCoordinator whose members joined first, over 3 groups x 3 topics x 2-3 partitions drawn from a hostile alphabet (':' and '/' placed so that separator-joined keys of different tuples coincide, unicode, empty, blank), each sequence run on InMemoryStore and on EtcdStore (embedded etcd, emptied before the case); also commits with a stale generation, an unknown member or a group nobody joined (answered with an error code: they must stay invisible); reference = map keyed by the tuple (group, topic, partition) holding the last commit answered with error code 0; every partition of every OffsetFetch response must carry exactly that offset and metadata, or offset -1 if the tuple has no successful commit; finally every tuple is fetched once more, through the same coordinator and through a second coordinator started on the same store; every committed offset is unique so a wrong answer names the commit it came from; non-trivial = case with >=3 successful commits, a fetch of a committed tuple and a fetch of a never-committed tuple",
		"a partition answered with an error code decides nothing about its offset; a store error (etcd timeout under load) discards the attempt and the case is re-run",
		"duplicate tuples inside one request are not generated (their order of application is not specified)")
	etcd := c16StartEtcd(t)
	n := r.N(50, 1200)
	for ci := 0; ci < n; ci++ {
		for _, kind := range []string{"memory", "etcd"} {
			done := false
			why := ""
			for a := 0; a < 4 && !done; a++ {
				done, why = c16CoordCase(r, etcd, kind, ci)
				if !done {
					r.Count("attempts_discarded_for_store_errors", 1)
				}
			}
			if !done {
				r.Inconclusive(fmt.Sprintf("case %d on %s: discarded 4 times: %s", ci, kind, why))
			}
		}
	}
	r.Floor("fetched_partitions_committed", int64(n)*4)
	r.Floor("fetched_partitions_never_committed", int64(n)*4)
	r.Floor("commits_accepted", int64(n)*6)
}

func c16CoordCase(r *verifkit.Run, etcd *c16Etcd, kind string, ci int) (bool, string) {
	rng := r.Rand(ci) // same sequence for both stores
	env, err := etcd.env(kind)
	if err != nil {
		return false, "store setup: " + err.Error()
	}
	defer env.close()
	coord := NewGroupCoordinator(env.store, protocol.MetadataBroker{NodeID: 1, Host: "localhost", Port: 9092}, &CoordinatorConfig{CleanupInterval: time.Hour})
	defer func() { coord.Stop() }()

	groups, topics := c16PickNames(rng)
	var parts []int32
	for len(parts) < 2+rng.Intn(2) {
		p := c16Parts[rng.Intn(len(c16Parts))]
		dup := false
		for _, q := range parts {
			dup = dup || q == p
		}
		if !dup {
			parts = append(parts, p)
		}
	}
	members := map[string]c16Member{}
	var trace []string
	joined := groups
	if rng.Intn(3) == 0 { // one group nobody joins: its commits are rejected, its offsets must read -1
		joined = groups[:len(groups)-1]
	}
	for _, g := range joined {
		m, code := c16Join(coord, g)
		members[g] = m
		trace = append(trace, fmt.Sprintf("JoinGroup(%q) -> member %q generation %d code %d", g, m.id, m.gen, code))
	}

	model := map[c16Tuple]c16Val{}
	older := map[c16Tuple][]c16Val{}
	written := map[int64]c16Tuple{}
	rejected := map[int64]c16Tuple{}
	counts := map[string]int64{}
	type viol struct {
		class, summary string
	}
	var viols []viol
	seenClass := map[string]bool{}
	next := int64(1000 + ci*1000)
	abort := ""

	pickTuples := func(g string, k int) []c16Tuple {
		seen := map[c16Tuple]bool{}
		var out []c16Tuple
		for len(out) < k {
			tu := c16Tuple{g, topics[rng.Intn(len(topics))], parts[rng.Intn(len(parts))]}
			if !seen[tu] {
				seen[tu] = true
				out = append(out, tu)
			}
		}
		return out
	}
	fetch := func(g string, tus []c16Tuple) bool {
		got, top, err := c16Fetch(coord, g, tus)
		if err != nil {
			abort = "OffsetFetch error: " + err.Error()
			return false
		}
		var line []string
		for _, tu := range tus {
			f, ok := got[tu]
			if !ok {
				viols = append(viols, viol{"partition_missing_from_response", fmt.Sprintf("[%s] OffsetFetch response has no entry for requested %s", kind, tu)})
				continue
			}
			line = append(line, fmt.Sprintf("%s=%d/%q/code %d", tu, f.Off, f.Meta, f.Code))
			if f.Code == protocol.UNKNOWN_SERVER_ERROR || top == protocol.UNKNOWN_SERVER_ERROR {
				abort = fmt.Sprintf("OffsetFetch %s answered UNKNOWN_SERVER_ERROR (store error)", tu)
				return false
			}
			if f.Code != 0 {
				counts["fetched_partitions_with_error_code"]++
				continue
			}
			if _, ok := model[tu]; ok {
				counts["fetched_partitions_committed"]++
			} else {
				counts["fetched_partitions_never_committed"]++
			}
			if class, why := c16Judge(tu, f, model, older, written, rejected); class != "" && !seenClass[class] {
				seenClass[class] = true
				viols = append(viols, viol{class, fmt.Sprintf("[%s store] %s", kind, why)})
			}
		}
		trace = append(trace, fmt.Sprintf("OffsetFetch(%q) -> %s", g, strings.Join(line, " ")))
		return true
	}

	nops := 12 + rng.Intn(30)
	for i := 0; i < nops && abort == ""; i++ {
		g := groups[rng.Intn(len(groups))]
		if rng.Intn(100) < 55 {
			tus := pickTuples(g, 1+rng.Intn(3))
			var cps []c16CommitPart
			for _, tu := range tus {
				next++
				cp := c16CommitPart{Tu: tu, Val: c16Val{Off: next, Meta: fmt.Sprintf("%s#%d", c16Metas[rng.Intn(len(c16Metas))], next)}}
				if rng.Intn(8) == 0 {
					cp.Nil, cp.Val.Meta = true, ""
				} else if rng.Intn(8) == 0 {
					cp.Val.Meta = ""
				}
				cps = append(cps, cp)
			}
			m, isMember := members[g]
			how := "valid"
			switch rng.Intn(10) {
			case 0:
				m.gen += 1 + int32(rng.Intn(3))
				how = "stale_generation"
			case 1:
				m.id = m.id + "-ghost"
				how = "unknown_member"
			}
			codes, err := c16Commit(coord, g, m, cps)
			if err != nil {
				abort = "OffsetCommit error: " + err.Error()
				break
			}
			var line []string
			for _, cp := range cps {
				code, ok := codes[cp.Tu]
				if !ok {
					viols = append(viols, viol{"partition_missing_from_response", fmt.Sprintf("[%s] OffsetCommit response has no entry for %s", kind, cp.Tu)})
					continue
				}
				line = append(line, fmt.Sprintf("%s:=%d/%q/code %d", cp.Tu, cp.Val.Off, cp.Val.Meta, code))
				switch {
				case code == 0:
					if prev, ok := model[cp.Tu]; ok {
						older[cp.Tu] = append(older[cp.Tu], prev)
					}
					model[cp.Tu] = cp.Val
					written[cp.Val.Off] = cp.Tu
					counts["commits_accepted"]++
					if how != "valid" || !isMember {
						counts["commits_accepted_from_"+how]++
					}
				case code == protocol.UNKNOWN_SERVER_ERROR:
					abort = fmt.Sprintf("OffsetCommit %s answered UNKNOWN_SERVER_ERROR (store error): it may or may not have been applied", cp.Tu)
				default:
					rejected[cp.Val.Off] = cp.Tu
					counts["commits_rejected"]++
				}
			}
			trace = append(trace, fmt.Sprintf("OffsetCommit(%q, %s member) -> %s", g, how, strings.Join(line, " ")))
		} else {
			if !fetch(g, pickTuples(g, 1+rng.Intn(4))) {
				break
			}
		}
	}
	// read everything back, first through the coordinator that took the commits, then through a
	// second coordinator started on the same store (a broker that takes over the group)
	for pass := 0; pass < 2; pass++ {
		if pass == 1 {
			coord.Stop()
			coord = NewGroupCoordinator(env.store, protocol.MetadataBroker{NodeID: 2, Host: "localhost", Port: 9093}, &CoordinatorConfig{CleanupInterval: time.Hour})
			trace = append(trace, "-- second coordinator on the same store --")
		}
		for _, g := range groups {
			if abort != "" {
				break
			}
			var all []c16Tuple
			for _, tn := range topics {
				for _, p := range parts {
					all = append(all, c16Tuple{g, tn, p})
				}
			}
			fetch(g, all)
		}
	}
	if abort != "" {
		return false, abort
	}
	for k, v := range counts {
		r.Count(k, v)
		r.Count(kind+"."+k, v)
	}
	for _, v := range viols {
		r.Violation(v.class, v.summary, map[string]any{"case": ci, "store": kind, "trace": trace})
	}
	r.Case(verifkit.Hash(kind, trace), counts["commits_accepted"] >= 3 && counts["fetched_partitions_committed"] > 0 && counts["fetched_partitions_never_committed"] > 0)
	if ci == 0 {
		r.Sample(map[string]any{"store": kind, "trace": trace})
	}
	return true, ""
}

// ---------------------------------------------------------------- concurrent leg

type c16In struct {
	Tu    int // index of the tuple
	Write bool
	Val   c16Val
}
type c16Out struct {
	Off  int64
	Meta string
}

func TestVerifC16Conc(t *testing.T) {
	r := verifkit.Start(t, "C16", "conc")
	defer r.Finish("short concurrent histories: 5 client goroutines x 8 requests (OffsetCommit of a unique offset+metadata, or OffsetFetch) against one GroupCoordinator over 2-4 tuples (a third of the histories include a separator-alias pair), on InMemoryStore and on EtcdStore; call/return stamped from one atomic counter at the client boundary; each tuple's history is checked with porcupine against a register (a commit answered with code 0 sets the value; a fetch must return the current value, or 'none' before any commit); a fetch that returns a value committed only to another tuple is reported directly with the commit it came from; 'none' is accepted by the register as -1 or as the store's 0/\"\" so that the -1 question is judged once, by class never_committed_reads_0; non-trivial = history with concurrent commits on one tuple and fetches that saw both none and a value",
		"porcupine v1.3.0 per-tuple partition; timeout => inconclusive",
		"requests answered with UNKNOWN_SERVER_ERROR (etcd timeouts under load) make the history undecidable: the attempt is discarded and re-run")
	etcd := c16StartEtcd(t)
	model := porcupine.Model{
		Partition: func(h []porcupine.Operation) [][]porcupine.Operation {
			m := map[int][]porcupine.Operation{}
			for _, o := range h {
				m[o.Input.(c16In).Tu] = append(m[o.Input.(c16In).Tu], o)
			}
			var out [][]porcupine.Operation
			for _, v := range m {
				out = append(out, v)
			}
			return out
		},
		Init: func() any { return c16Out{Off: -1} },
		Step: func(st, in, out any) (bool, any) {
			i, o, s := in.(c16In), out.(c16Out), st.(c16Out)
			if i.Write {
				return true, c16Out{i.Val.Off, i.Val.Meta}
			}
			if s.Off == -1 {
				return o.Off == -1 || (o.Off == 0 && o.Meta == ""), s
			}
			return o == s, s
		},
		DescribeOperation: func(in, out any) string { return fmt.Sprintf("%+v -> %+v", in, out) },
	}
	n := r.N(50, 1000)
	var clock atomic.Int64
	for ci := 0; ci < n; ci++ {
		for _, kind := range []string{"memory", "etcd"} {
			done, why := false, ""
			for a := 0; a < 4 && !done; a++ {
				done, why = c16ConcCase(r, etcd, kind, ci, model, &clock)
				if !done {
					r.Count("attempts_discarded_for_store_errors", 1)
				}
			}
			if !done {
				r.Inconclusive(fmt.Sprintf("case %d on %s: discarded 4 times: %s", ci, kind, why))
			}
		}
	}
	r.Floor("reads_of_a_value", int64(n))
	r.Floor("reads_of_none", int64(n)/2)
	r.Floor("tuple_histories_checked_as_register", int64(n)*2)
}

func c16ConcCase(r *verifkit.Run, etcd *c16Etcd, kind string, ci int, model porcupine.Model, clock *atomic.Int64) (bool, string) {
	rng := r.Rand(ci)
	env, err := etcd.env(kind)
	if err != nil {
		return false, "store setup: " + err.Error()
	}
	defer env.close()
	coord := NewGroupCoordinator(env.store, protocol.MetadataBroker{NodeID: 1, Host: "localhost", Port: 9092}, &CoordinatorConfig{CleanupInterval: time.Hour})
	defer coord.Stop()

	var tuples []c16Tuple
	if rng.Intn(3) == 0 { // a third of the histories carry a separator-alias pair
		a := c16Aliases[rng.Intn(len(c16Aliases))]
		p := c16Parts[rng.Intn(len(c16Parts))]
		tuples = []c16Tuple{{a[0][0], a[0][1], p}, {a[1][0], a[1][1], p}}
	}
	nt := 2 + rng.Intn(3)
	if nt < len(tuples) {
		nt = len(tuples)
	}
	for len(tuples) < nt {
		tu := c16Tuple{c16Groups[rng.Intn(len(c16Groups))], c16Topics[rng.Intn(len(c16Topics))], c16Parts[rng.Intn(len(c16Parts))]}
		dup := false
		for _, x := range tuples {
			dup = dup || x == tu
		}
		if !dup {
			tuples = append(tuples, tu)
		}
	}
	members := map[string]c16Member{}
	for _, tu := range tuples {
		if _, ok := members[tu.G]; !ok {
			m, _ := c16Join(coord, tu.G)
			members[tu.G] = m
		}
	}
	const G, K = 5, 8
	ops := make([][]porcupine.Operation, G)
	seeds := make([]int64, G)
	for g := range seeds {
		seeds[g] = rng.Int63()
	}
	var ctr atomic.Int64
	ctr.Store(int64(1000 + ci*1000))
	var storeErr atomic.Value
	var wg sync.WaitGroup
	for g := 0; g < G; g++ {
		wg.Add(1)
		go func(g int) {
			defer wg.Done()
			lr := rand.New(rand.NewSource(seeds[g]))
			for i := 0; i < K; i++ {
				ti := lr.Intn(len(tuples))
				tu := tuples[ti]
				if lr.Intn(2) == 0 {
					off := ctr.Add(1)
					val := c16Val{off, fmt.Sprintf("%s#%d", c16Metas[lr.Intn(len(c16Metas))], off)}
					call := clock.Add(1)
					codes, err := c16Commit(coord, tu.G, members[tu.G], []c16CommitPart{{Tu: tu, Val: val}})
					ret := clock.Add(1)
					if err != nil || codes[tu] != 0 {
						storeErr.Store(fmt.Sprintf("OffsetCommit %s: err=%v code=%d", tu, err, codes[tu]))
						return
					}
					ops[g] = append(ops[g], porcupine.Operation{ClientId: g, Input: c16In{ti, true, val}, Call: call, Output: c16Out{}, Return: ret})
				} else {
					call := clock.Add(1)
					got, _, err := c16Fetch(coord, tu.G, []c16Tuple{tu})
					ret := clock.Add(1)
					f, ok := got[tu]
					if err != nil || !ok || f.Code != 0 {
						storeErr.Store(fmt.Sprintf("OffsetFetch %s: err=%v present=%v code=%d", tu, err, ok, f.Code))
						return
					}
					ops[g] = append(ops[g], porcupine.Operation{ClientId: g, Input: c16In{Tu: ti}, Call: call, Output: c16Out{f.Off, f.Meta}, Return: ret})
				}
			}
		}(g)
	}
	wg.Wait()
	if e := storeErr.Load(); e != nil {
		return false, e.(string)
	}
	var hist []porcupine.Operation
	writtenTo := map[int64]int{}
	for _, o := range ops {
		for _, x := range o {
			if in := x.Input.(c16In); in.Write {
				writtenTo[in.Val.Off] = in.Tu
			}
		}
		hist = append(hist, o...)
	}
	describe := func() []string {
		var s []string
		for _, o := range hist {
			in := o.Input.(c16In)
			if in.Write {
				s = append(s, fmt.Sprintf("client %d [%d,%d] commit %s := %d/%q", o.ClientId, o.Call, o.Return, tuples[in.Tu], in.Val.Off, in.Val.Meta))
			} else {
				out := o.Output.(c16Out)
				s = append(s, fmt.Sprintf("client %d [%d,%d] fetch %s -> %d/%q", o.ClientId, o.Call, o.Return, tuples[in.Tu], out.Off, out.Meta))
			}
		}
		return s
	}
	replay := func() map[string]any { return map[string]any{"case": ci, "store": kind, "history": describe()} }
	none, vals, zero := 0, 0, 0
	tainted := map[int]bool{} // tuples whose history mixes in another tuple's commits: reported directly, not given to the register check
	perTupleWriters := map[int]map[int]bool{}
	for _, o := range hist {
		in := o.Input.(c16In)
		if in.Write {
			if perTupleWriters[in.Tu] == nil {
				perTupleWriters[in.Tu] = map[int]bool{}
			}
			perTupleWriters[in.Tu][o.ClientId] = true
			continue
		}
		out := o.Output.(c16Out)
		switch {
		case out.Off == -1:
			none++
		case out.Off == 0 && out.Meta == "":
			none++
			zero++
		default:
			vals++
			if src, ok := writtenTo[out.Off]; ok && src != in.Tu {
				tainted[in.Tu], tainted[src] = true, true
				r.Violation("fetch_returns_commit_of_other_tuple:"+c16Alias(tuples[in.Tu], tuples[src]),
					fmt.Sprintf("[%s store] concurrent history: fetch %s returned offset %d, committed only to %s", kind, tuples[in.Tu], out.Off, tuples[src]), replay())
			}
		}
	}
	if zero > 0 {
		r.Violation("never_committed_reads_0", fmt.Sprintf("[%s store] %d fetches of a tuple without a commit returned offset 0 with error code 0 instead of -1", kind, zero), replay())
	}
	var clean []porcupine.Operation
	for _, o := range hist {
		if !tainted[o.Input.(c16In).Tu] {
			clean = append(clean, o)
		}
	}
	if len(clean) > 0 {
		r.Count("tuple_histories_checked_as_register", int64(len(tuples)-len(tainted)))
		res, _ := porcupine.CheckOperationsVerbose(model, clean, 2*time.Minute)
		switch res {
		case porcupine.Illegal:
			r.Violation("offset_history_not_a_register", fmt.Sprintf("[%s store] the commits and fetches of one tuple cannot be ordered so that every fetch returns the latest successful commit", kind), replay())
		case porcupine.Unknown:
			r.Inconclusive(fmt.Sprintf("case %d on %s: porcupine timeout", ci, kind))
		}
	}
	multi := false
	for _, w := range perTupleWriters {
		multi = multi || len(w) >= 2
	}
	r.Count("ops", int64(len(hist)))
	r.Count("reads_of_none", int64(none))
	r.Count("reads_of_a_value", int64(vals))
	r.Count(kind+".histories", 1)
	r.Case(verifkit.Hash(kind, describe()), multi && none > 0 && vals > 0)
	if ci == 0 {
		r.Sample(replay())
	}
	return true, ""
}

// c16StartEmbedded starts the process-wide embedded etcd. It mirrors
// internal/testutil.StartEmbeddedEtcd (random loopback ports, zap at error
// level, ready wait) with two differences that concern only the harness: the
// server skips fsync (the durability of etcd itself is not under test and the
// machine is shared), and its log goes to the test's temp dir instead of
// /tmp/etcd-test-*.log.
func c16StartEmbedded(t *testing.T) []string {
	t.Helper()
	var lastErr error
	for attempt := 0; attempt < 6; attempt++ {
		cfg := embed.NewConfig()
		cfg.Dir = t.TempDir()
		cfg.Logger = "zap"
		cfg.LogLevel = "error"
		cfg.LogOutputs = []string{filepath.Join(t.TempDir(), "etcd.log")}
		cfg.UnsafeNoFsync = true
		port := func() int {
			ln, err := net.Listen("tcp", "127.0.0.1:0")
			if err != nil {
				t.Fatalf("allocate port: %v", err)
			}
			defer ln.Close()
			return ln.Addr().(*net.TCPAddr).Port
		}
		cu, _ := url.Parse(fmt.Sprintf("http://127.0.0.1:%d", port()))
		pu, _ := url.Parse(fmt.Sprintf("http://127.0.0.1:%d", port()))
		cfg.ListenClientUrls, cfg.AdvertiseClientUrls = []url.URL{*cu}, []url.URL{*cu}
		cfg.ListenPeerUrls, cfg.AdvertisePeerUrls = []url.URL{*pu}, []url.URL{*pu}
		cfg.InitialCluster = cfg.InitialClusterFromName(cfg.Name)
		e, err := embed.StartEtcd(cfg)
		if err != nil {
			lastErr = err
			time.Sleep(time.Duration(attempt+1) * 100 * time.Millisecond)
			continue
		}
		select {
		case <-e.Server.ReadyNotify():
		case <-time.After(120 * time.Second):
			e.Server.Stop()
			t.Fatalf("embedded etcd not ready after 120s")
		}
		t.Cleanup(e.Close)
		return []string{"http://" + e.Clients[0].Addr().String()}
	}
	t.Fatalf("start embedded etcd: %v", lastErr)
	return nil
}
