//go:build verif

package metadata

// C16 directly on the two Store implementations (no coordinator in between):
// CommitConsumerOffset / FetchConsumerOffset over hostile names.  At this
// boundary the interface has no way to say "absent" (it returns offset,
// metadata, error), so the -1 demand of the statement is judged at the
// OffsetFetch response (legs coord/conc/wire); here the oracle is exactness
// and isolation: a fetch returns the last successful commit of *that* tuple,
// and a tuple that was never committed never shows a value committed to
// another tuple.

import (
	"context"
	"fmt"
	"math"
	"sort"
	"strings"
	"sync"
	"testing"
	"time"

	clientv3 "go.etcd.io/etcd/client/v3"

	"github.com/KafScale/platform/internal/verifkit"
)

type c16sTuple struct {
	G, T string
	P    int32
}

func (t c16sTuple) String() string { return fmt.Sprintf("(%q,%q,%d)", t.G, t.T, t.P) }

type c16sVal struct {
	Off  int64
	Meta string
}

var (
	c16sGroups = []string{"g", "a:b", "a", "a/offsets/b", "a/b", "grp ü", "", "g:0", "日本", " ", "a:b:c", "g/offsets/t", "G", "g:t", "x/offsets/y/0"}
	c16sTopics = []string{"t", "c", "b:c", "b/offsets/c", "c/0", "t:1", "", "ü-topic", "offsets", "t/1", "0", "c:0", "T", "t:0", "metadata"}
	c16sParts  = []int32{0, 0, 1, 1, 10, math.MaxInt32, 7, -1}
	c16sMetas  = []string{"", "m", "with \"quotes\" \\", "ユニコード", "line\nbreak", "{\"offset\":-1}", "a:b/c", "\u0000"}
	c16sPieces = []string{":", "/", "a", "b", "c", "0", "1", "offsets", "metadata", "ü", "日", " ", "-", ".", "%2F", "\\"}
	c16sAlias  = [][2][2]string{
		{{"a:b", "c"}, {"a", "b:c"}},
		{{"a/offsets/b", "c"}, {"a", "b/offsets/c"}},
		{{"a:b:c", "0"}, {"a:b", "c:0"}},
	}
)

func c16sAliasKind(x, y c16sTuple) string {
	if fmt.Sprintf("%s:%s:%d", x.G, x.T, x.P) == fmt.Sprintf("%s:%s:%d", y.G, y.T, y.P) {
		return "colon_joined_names_equal"
	}
	if fmt.Sprintf("%s/offsets/%s/%d", x.G, x.T, x.P) == fmt.Sprintf("%s/offsets/%s/%d", y.G, y.T, y.P) {
		return "slash_joined_names_equal"
	}
	return "unrelated_names"
}

func c16sInfra(err error) bool {
	if err == nil {
		return false
	}
	cls, _ := c16sErrClass(err)
	return cls != "other"
}

func c16sErrClass(err error) (string, string) {
	msg := err.Error()
	switch {
	case strings.Contains(msg, "context deadline exceeded"), strings.Contains(msg, "context canceled"):
		return "timeout", msg
	case strings.Contains(msg, "etcdserver:"), strings.Contains(msg, "rpc error"):
		return "etcd_rpc", msg
	}
	return "other", msg
}

func TestVerifC16Store(t *testing.T) {
	r := verifkit.Start(t, "C16", "store")
	defer r.Finish("PRNG sequences of CommitConsumerOffset / FetchConsumerOffset called directly on InMemoryStore and on EtcdStore (embedded etcd, empty namespace per case) over 3 groups x 3 topics x 2-3 partitions from a hostile alphabet (separator-alias pairs for both stores' key formats, unicode, empty, blank, negative and maximal partition ids, offsets up to MaxInt64); reference = map keyed by the tuple; a fetch of a committed tuple must return exactly the last commit that returned nil (offset and metadata); a fetch of a never-committed tuple must not return any value committed to another tuple (what it returns instead is recorded, the -1 demand is judged at the protocol boundary by the other legs); final read-back of every tuple; non-trivial = case with >=3 commits, a fetch of a committed and of a never-committed tuple",
		"a store error other than an etcd timeout is a commit/fetch that did not succeed: commits that returned an error are not expected to be visible, and must not be",
		"etcd timeouts under load discard the attempt; the case is re-run")
	endpoints := vEtcd(t)
	admin, err := clientv3.New(clientv3.Config{Endpoints: endpoints, DialTimeout: 5 * time.Second})
	if err != nil {
		t.Fatalf("etcd admin client: %v", err)
	}
	defer admin.Close()
	n := r.N(100, 2000)
	const workers = 4
	var wg sync.WaitGroup
	for w := 0; w < workers; w++ {
		wg.Add(1)
		go func(w int) {
			defer wg.Done()
			for ci := w; ci < n; ci += workers {
				for _, kind := range []string{"memory", "etcd"} {
					done, why := false, ""
					for a := 0; a < 4 && !done; a++ {
						done, why = c16sCase(r, admin, endpoints, fmt.Sprintf("c16w%d/", w), kind, ci)
						if !done {
							r.Count("attempts_discarded_for_etcd_timeouts", 1)
						}
					}
					if !done {
						r.Inconclusive(fmt.Sprintf("case %d on %s: discarded 4 times: %s", ci, kind, why))
					}
				}
			}
		}(w)
	}
	wg.Wait()
	r.Floor("fetches_of_committed_tuples", int64(n)*4)
	r.Floor("fetches_of_never_committed_tuples", int64(n)*4)
}

func c16sCase(r *verifkit.Run, admin *clientv3.Client, endpoints []string, ns, kind string, ci int) (bool, string) {
	rng := r.Rand(ci)
	var store Store
	if kind == "memory" {
		store = NewInMemoryStore(ClusterMetadata{})
	} else {
		if err := vWipe(admin, ns); err != nil {
			return false, "wipe: " + err.Error()
		}
		es, err := vNewEtcdStore(context.Background(), endpoints, ns, ClusterMetadata{})
		if err != nil {
			return false, "etcd store: " + err.Error()
		}
		defer es.Shutdown()
		store = es.EtcdStore
	}
	gs, ts := map[string]bool{}, map[string]bool{}
	if rng.Intn(3) > 0 {
		a := c16sAlias[rng.Intn(len(c16sAlias))]
		gs[a[0][0]], ts[a[0][1]], gs[a[1][0]], ts[a[1][1]] = true, true, true, true
	}
	name := func(listed []string) string { // mostly a listed name, sometimes 1-4 random pieces
		if rng.Intn(10) < 7 {
			return listed[rng.Intn(len(listed))]
		}
		var b strings.Builder
		for k := 1 + rng.Intn(4); k > 0; k-- {
			b.WriteString(c16sPieces[rng.Intn(len(c16sPieces))])
		}
		return b.String()
	}
	for len(gs) < 3 {
		gs[name(c16sGroups)] = true
	}
	for len(ts) < 3 {
		ts[name(c16sTopics)] = true
	}
	var groups, topics []string
	for g := range gs {
		groups = append(groups, g)
	}
	for t := range ts {
		topics = append(topics, t)
	}
	sort.Strings(groups)
	sort.Strings(topics)
	var parts []int32
	for len(parts) < 2+rng.Intn(2) {
		p := c16sParts[rng.Intn(len(c16sParts))]
		dup := false
		for _, q := range parts {
			dup = dup || q == p
		}
		if !dup {
			parts = append(parts, p)
		}
	}
	model := map[c16sTuple]c16sVal{}
	older := map[c16sTuple][]int64{}
	written := map[int64]c16sTuple{}
	failed := map[int64]c16sTuple{}
	counts := map[string]int64{}
	type viol struct{ class, summary string }
	var viols []viol
	seen := map[string]bool{}
	var trace []string
	next := int64(1000 + ci*1000)
	ctx := context.Background()

	fetch := func(tu c16sTuple) (bool, string) {
		off, meta, err := store.FetchConsumerOffset(ctx, tu.G, tu.T, tu.P)
		if c16sInfra(err) {
			return false, fmt.Sprintf("FetchConsumerOffset%s: %v", tu, err)
		}
		trace = append(trace, fmt.Sprintf("Fetch%s -> %d %q err=%v", tu, off, meta, err))
		if err != nil {
			counts["fetch_errors"]++
			return true, ""
		}
		want, committed := model[tu]
		add := func(class, why string) {
			if !seen[class] {
				seen[class] = true
				viols = append(viols, viol{class, fmt.Sprintf("[%s store] %s", kind, why)})
			}
		}
		if committed {
			counts["fetches_of_committed_tuples"]++
		} else {
			counts["fetches_of_never_committed_tuples"]++
		}
		switch {
		case committed && off == want.Off && meta == want.Meta:
		case func() bool { src, ok := written[off]; return ok && src != tu }():
			src := written[off]
			add("fetch_returns_commit_of_other_tuple:"+c16sAliasKind(tu, src), fmt.Sprintf("FetchConsumerOffset%s returned %d %q, which was committed to %s", tu, off, meta, src))
		case func() bool { _, ok := failed[off]; return ok }():
			add("failed_commit_visible", fmt.Sprintf("FetchConsumerOffset%s returned %d, the value of a commit to %s that returned an error", tu, off, failed[off]))
		case !committed:
			counts[fmt.Sprintf("never_committed_store_returns_%d", off)]++
			if meta != "" {
				add("never_committed_tuple_has_metadata", fmt.Sprintf("FetchConsumerOffset%s (never committed) returned metadata %q", tu, meta))
			}
		case off == want.Off:
			add("metadata_differs_from_last_commit", fmt.Sprintf("FetchConsumerOffset%s returned offset %d with metadata %q, committed %q", tu, off, meta, want.Meta))
		default:
			cls := "fetch_returns_unknown_value"
			for _, o := range older[tu] {
				if o == off {
					cls = "fetch_returns_older_commit"
				}
			}
			if cls == "fetch_returns_unknown_value" && off == 0 && meta == "" {
				cls = "committed_offset_lost"
			}
			add(cls, fmt.Sprintf("FetchConsumerOffset%s returned %d %q; last successful commit is %d %q", tu, off, meta, want.Off, want.Meta))
		}
		return true, ""
	}

	nops := 12 + rng.Intn(30)
	for i := 0; i < nops; i++ {
		tu := c16sTuple{groups[rng.Intn(len(groups))], topics[rng.Intn(len(topics))], parts[rng.Intn(len(parts))]}
		if rng.Intn(100) < 50 {
			next++
			v := c16sVal{Off: next, Meta: fmt.Sprintf("%s#%d", c16sMetas[rng.Intn(len(c16sMetas))], next)}
			if rng.Intn(10) == 0 {
				v.Off = math.MaxInt64 - next // still unique within the case
			}
			if rng.Intn(8) == 0 {
				v.Meta = ""
			}
			err := store.CommitConsumerOffset(ctx, tu.G, tu.T, tu.P, v.Off, v.Meta)
			if c16sInfra(err) {
				return false, fmt.Sprintf("CommitConsumerOffset%s: %v", tu, err)
			}
			trace = append(trace, fmt.Sprintf("Commit%s := %d %q err=%v", tu, v.Off, v.Meta, err))
			if err != nil {
				failed[v.Off] = tu
				counts["commit_errors"]++
				continue
			}
			if prev, ok := model[tu]; ok {
				older[tu] = append(older[tu], prev.Off)
			}
			model[tu] = v
			written[v.Off] = tu
			counts["commits"]++
		} else if ok, why := fetch(tu); !ok {
			return false, why
		}
	}
	for _, g := range groups {
		for _, tn := range topics {
			for _, p := range parts {
				if ok, why := fetch(c16sTuple{g, tn, p}); !ok {
					return false, why
				}
			}
		}
	}
	for k, v := range counts {
		r.Count(k, v)
		if !strings.HasPrefix(k, "never_committed_store_returns") {
			r.Count(kind+"."+k, v)
		}
	}
	for _, v := range viols {
		r.Violation(v.class, v.summary, map[string]any{"case": ci, "store": kind, "trace": trace})
	}
	r.Case(verifkit.Hash(kind, trace), counts["commits"] >= 3 && counts["fetches_of_committed_tuples"] > 0 && counts["fetches_of_never_committed_tuples"] > 0)
	if ci == 0 {
		r.Sample(map[string]any{"store": kind, "trace": trace})
	}
	return true, ""
}
