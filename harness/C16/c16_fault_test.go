//go:build verif

package metadata

import (
	"context"
	"errors"
	"fmt"
	"strings"
	"sync"
	"testing"
	"time"

	"github.com/KafScale/platform/internal/verifkit"
	clientv3 "go.etcd.io/etcd/client/v3"
)

// c16FaultKV fails chosen Puts of consumer-offset keys: "before" = nothing stored, error returned;
// "after" = stored, but the caller gets an error (reply lost).
type c16FaultKV struct {
	clientv3.KV
	mu   sync.Mutex
	next string // "", before, after
	hits int
}

func (k *c16FaultKV) Put(ctx context.Context, key, val string, opts ...clientv3.OpOption) (*clientv3.PutResponse, error) {
	k.mu.Lock()
	mode := ""
	if strings.Contains(key, "/consumers/") {
		mode, k.next = k.next, ""
		if mode != "" {
			k.hits++
		}
	}
	k.mu.Unlock()
	switch mode {
	case "before":
		return nil, errors.New("verif: injected etcd put failure")
	case "after":
		if _, err := k.KV.Put(ctx, key, val, opts...); err != nil {
			return nil, err
		}
		return nil, errors.New("verif: injected etcd reply loss")
	}
	return k.KV.Put(ctx, key, val, opts...)
}

// TestVerifC16EtcdFault: a commit that the store reports as successful must be the one read back, also when
// etcd fails the commit's write or the request context is already dead.
func TestVerifC16EtcdFault(t *testing.T) {
	r := verifkit.Start(t, "C16", "etcdfault")
	defer r.Finish("PRNG sequences of 6-14 commits/fetches on 2 tuples of a real EtcdStore whose etcd KV fails chosen consumer-offset Puts (before the effect / after the effect with the reply lost) or is called with a cancelled context; reference = the last commit that RETURNED nil per tuple (a commit that returned an error may or may not be visible when the fault was after the effect); a fetch must return the reference commit or, after a reply-lost fault, that commit; non-trivial = sequence with a fault followed by a fetch of the same tuple",
		"single embedded etcd; faults are injected at the clientv3.KV interface the store already uses")
	endpoints := vEtcd(t)
	admin, err := clientv3.New(clientv3.Config{Endpoints: endpoints, DialTimeout: 5 * time.Second})
	if err != nil {
		t.Fatalf("etcd admin client: %v", err)
	}
	defer admin.Close()
	n := r.N(40, 800)
	for ci := 0; ci < n; ci++ {
		rng := r.Rand(ci)
		ns := "c16fault/"
		if err := vWipe(admin, ns); err != nil {
			r.Inconclusive("wipe: " + err.Error())
			continue
		}
		es, err := vNewEtcdStore(context.Background(), endpoints, ns, ClusterMetadata{})
		if err != nil {
			r.Inconclusive("etcd store: " + err.Error())
			continue
		}
		fk := &c16FaultKV{KV: es.EtcdStore.client.KV}
		es.EtcdStore.client.KV = fk
		type commit struct {
			off  int64
			meta string
		}
		lastOK := map[int]*commit{}   // last commit that returned nil
		maybe := map[int][]commit{}   // commits that returned an error after the effect (may be visible)
		var hist []string
		faultThenFetch := false
		faulted := map[int]bool{}
		discarded := false
		for oi := 0; oi < 6+rng.Intn(9) && !discarded; oi++ {
			tup := rng.Intn(2)
			group, topic, part := "g", fmt.Sprintf("t%d", tup), int32(tup)
			if rng.Intn(3) > 0 {
				c := commit{off: int64(ci*1000 + oi + 1), meta: fmt.Sprintf("m%d", oi)}
				mode := []string{"", "", "before", "after", "ctx"}[rng.Intn(5)]
				ctx := context.Background()
				if mode == "ctx" {
					cctx, cancel := context.WithCancel(ctx)
					cancel()
					ctx = cctx
				} else {
					fk.mu.Lock()
					fk.next = mode
					fk.mu.Unlock()
				}
				t0 := time.Now()
				cerr := es.CommitConsumerOffset(ctx, group, topic, part, c.off, c.meta)
				fk.mu.Lock()
				fk.next = ""
				fk.mu.Unlock()
				hist = append(hist, fmt.Sprintf("commit %s=%d/%s fault=%q -> err=%v", topic, c.off, c.meta, mode, cerr))
				r.Count("commits_"+map[string]string{"": "clean", "before": "put_fails", "after": "reply_lost", "ctx": "ctx_cancelled"}[mode], 1)
				if cerr != nil && mode == "" {
					if time.Since(t0) > 2*time.Second {
						discarded = true // etcd timeout under load: not a verdict
						break
					}
				}
				switch {
				case cerr == nil:
					cc := c
					lastOK[tup] = &cc
					maybe[tup] = nil
					if mode == "before" || mode == "ctx" {
						faulted[tup] = true // reported success although the write cannot have happened: the fetch below decides
					}
				case mode == "after":
					maybe[tup] = append(maybe[tup], c)
					faulted[tup] = true
				default:
					faulted[tup] = true
				}
			} else {
				off, meta, ferr := es.FetchConsumerOffset(context.Background(), group, topic, part)
				hist = append(hist, fmt.Sprintf("fetch %s -> %d/%q err=%v", topic, off, meta, ferr))
				if ferr != nil {
					discarded = true
					break
				}
				r.Count("fetches_judged", 1)
				if faulted[tup] {
					faultThenFetch = true
				}
				ok := false
				if lastOK[tup] == nil && off == 0 && meta == "" {
					ok = true
				}
				if lastOK[tup] != nil && off == lastOK[tup].off && meta == lastOK[tup].meta {
					ok = true
				}
				for _, m := range maybe[tup] {
					if off == m.off && meta == m.meta {
						ok = true
					}
				}
				if !ok {
					want := "nothing"
					if lastOK[tup] != nil {
						want = fmt.Sprintf("%d/%q", lastOK[tup].off, lastOK[tup].meta)
					}
					r.Violation("commit_reported_successful_but_not_read_back:etcd_fault", fmt.Sprintf("fetch of %s returned %d/%q, the last commit that returned nil is %s", topic, off, meta, want), map[string]any{"case": ci, "history": hist})
					break
				}
			}
		}
		es.Shutdown()
		if discarded {
			r.Count("cases_discarded_for_etcd_timeouts", 1)
			continue
		}
		r.Case(strings.Join(hist, ";"), faultThenFetch)
		if ci == 0 {
			r.Sample(hist)
		}
	}
	r.Floor("fetches_judged", 40)
}
