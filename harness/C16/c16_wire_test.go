//go:build verif

package main

// C16 at the byte boundary of the broker: JoinGroup v4 / OffsetCommit v3 /
// OffsetFetch v5 requests are encoded to wire bytes, parsed by
// protocol.ParseRequest, dispatched by handler.Handle, and the response bytes
// are decoded again.  This is what a Kafka client sees; the -1 demand of the
// statement is about exactly these bytes.

import (
	"context"
	"encoding/binary"
	"fmt"
	"io"
	"log/slog"
	"math/rand"
	"sort"
	"strings"
	"testing"

	"github.com/twmb/franz-go/pkg/kmsg"

	"github.com/KafScale/platform/internal/verifkit"
	"github.com/KafScale/platform/pkg/metadata"
	"github.com/KafScale/platform/pkg/protocol"
	"github.com/KafScale/platform/pkg/storage"
)

type c16wTuple struct {
	G, T string
	P    int32
}

func (t c16wTuple) String() string { return fmt.Sprintf("(%q,%q,%d)", t.G, t.T, t.P) }

type c16wVal struct {
	Off  int64
	Meta string
}

var (
	c16wGroups = []string{"g", "a:b", "a", "a/offsets/b", "a/b", "grp ü", "", "g:0", "日本", " ", "a:b:c", "G"}
	c16wTopics = []string{"t", "c", "b:c", "b/offsets/c", "c/0", "t:1", "", "ü-topic", "offsets", "0", "c:0", "T"}
	c16wParts  = []int32{0, 0, 1, 1, 10, 2147483647, 7}
	c16wMetas  = []string{"", "m", "with \"quotes\" \\", "ユニコード", "line\nbreak", "a:b/c"}
	c16wAlias  = [][2][2]string{
		{{"a:b", "c"}, {"a", "b:c"}},
		{{"a/offsets/b", "c"}, {"a", "b/offsets/c"}},
		{{"a:b:c", "0"}, {"a:b", "c:0"}},
	}
)

func c16wAliasKind(x, y c16wTuple) string {
	if fmt.Sprintf("%s:%s:%d", x.G, x.T, x.P) == fmt.Sprintf("%s:%s:%d", y.G, y.T, y.P) {
		return "colon_joined_names_equal"
	}
	if fmt.Sprintf("%s/offsets/%s/%d", x.G, x.T, x.P) == fmt.Sprintf("%s/offsets/%s/%d", y.G, y.T, y.P) {
		return "slash_joined_names_equal"
	}
	return "unrelated_names"
}

// c16wRoundTrip sends one request through the broker's byte path.
func c16wRoundTrip(h *handler, corr int32, req kmsg.Request, resp kmsg.Response) error {
	var hdr []byte
	hdr = binary.BigEndian.AppendUint16(hdr, uint16(req.Key()))
	hdr = binary.BigEndian.AppendUint16(hdr, uint16(req.GetVersion()))
	hdr = binary.BigEndian.AppendUint32(hdr, uint32(corr))
	client := "c16-client"
	hdr = binary.BigEndian.AppendUint16(hdr, uint16(len(client)))
	hdr = append(hdr, client...)
	if req.IsFlexible() {
		hdr = append(hdr, 0)
	}
	wire := req.AppendTo(hdr)
	header, parsed, err := protocol.ParseRequest(wire)
	if err != nil {
		return fmt.Errorf("ParseRequest: %w", err)
	}
	payload, err := h.Handle(context.Background(), header, parsed)
	if err != nil {
		return fmt.Errorf("Handle: %w", err)
	}
	body, ok := protocol.SkipResponseHeader(resp.Key(), req.GetVersion(), payload)
	if !ok {
		return fmt.Errorf("response header not decodable")
	}
	if len(payload) < 4 || int32(binary.BigEndian.Uint32(payload[:4])) != corr {
		return fmt.Errorf("correlation id mismatch")
	}
	resp.SetVersion(req.GetVersion())
	return resp.ReadFrom(body)
}

func TestVerifC16Wire(t *testing.T) {
	r := verifkit.Start(t, "C16", "wire")
	defer r.Finish("PRNG sequences of JoinGroup v4, OffsetCommit v3 and OffsetFetch v5 requests as wire bytes through protocol.ParseRequest -> handler.Handle -> response bytes -> kmsg decode, on a broker handler over InMemoryStore; names from the hostile alphabet (separator-alias pairs, unicode, empty, blank), null and empty metadata; reference = map keyed by the tuple with the last commit answered with error code 0; every partition in every decoded OffsetFetch response must carry exactly that offset and metadata, or offset -1 if nothing was committed; final read-back of all tuples; non-trivial = case with >=3 accepted commits, a fetch of a committed tuple and one of a never-committed tuple",
		"only InMemoryStore behind the handler (a handler over EtcdStore additionally needs group leases; the etcd store is covered by legs coord, conc and store)",
		"a request the broker cannot parse or answers with a non-decodable response is a harness/infra failure of this leg, reported as inconclusive, not as a violation of C16")
	n := r.N(60, 2500)
	for ci := 0; ci < n; ci++ {
		c16wCase(t, r, ci)
	}
	r.Floor("fetched_partitions_committed", int64(n)*3)
	r.Floor("fetched_partitions_never_committed", int64(n)*3)
}

func c16wCase(t *testing.T, r *verifkit.Run, ci int) {
	rng := r.Rand(ci)
	store := metadata.NewInMemoryStore(metadata.ClusterMetadata{})
	h := newHandler(store, storage.NewMemoryS3Client(), protocol.MetadataBroker{NodeID: 1, Host: "localhost", Port: 19092}, slog.New(slog.NewTextHandler(io.Discard, nil)))
	defer h.coordinator.Stop()

	gs, ts := map[string]bool{}, map[string]bool{}
	if rng.Intn(3) > 0 {
		a := c16wAlias[rng.Intn(len(c16wAlias))]
		gs[a[0][0]], ts[a[0][1]], gs[a[1][0]], ts[a[1][1]] = true, true, true, true
	}
	for len(gs) < 3 {
		gs[c16wGroups[rng.Intn(len(c16wGroups))]] = true
	}
	for len(ts) < 3 {
		ts[c16wTopics[rng.Intn(len(c16wTopics))]] = true
	}
	var groups, topics []string
	for g := range gs {
		groups = append(groups, g)
	}
	for x := range ts {
		topics = append(topics, x)
	}
	sort.Strings(groups)
	sort.Strings(topics)
	parts := []int32{c16wParts[rng.Intn(len(c16wParts))]}
	for len(parts) < 2 {
		if p := c16wParts[rng.Intn(len(c16wParts))]; p != parts[0] {
			parts = append(parts, p)
		}
	}
	corr := int32(ci * 1000)
	var trace []string
	type member struct {
		id  string
		gen int32
	}
	members := map[string]member{}
	for _, g := range groups {
		req := kmsg.NewPtrJoinGroupRequest()
		req.Version = 4
		req.Group = g
		req.SessionTimeoutMillis = 3600 * 1000
		req.RebalanceTimeoutMillis = 3600 * 1000
		req.ProtocolType = "consumer"
		resp := kmsg.NewPtrJoinGroupResponse()
		corr++
		if err := c16wRoundTrip(h, corr, req, resp); err != nil {
			r.Inconclusive(fmt.Sprintf("case %d: JoinGroup(%q): %v", ci, g, err))
			return
		}
		members[g] = member{resp.MemberID, resp.Generation}
		trace = append(trace, fmt.Sprintf("JoinGroup(%q) -> member %q generation %d code %d", g, resp.MemberID, resp.Generation, resp.ErrorCode))
	}
	model := map[c16wTuple]c16wVal{}
	older := map[c16wTuple][]int64{}
	written := map[int64]c16wTuple{}
	rejected := map[int64]c16wTuple{}
	seen := map[string]bool{}
	var nCommitted, nNever, nAccepted int64
	next := int64(1000 + ci*1000)

	violate := func(class, why string) {
		if !seen[class] {
			seen[class] = true
			r.Violation(class, "[wire, memory store] "+why, map[string]any{"case": ci, "trace": append([]string{}, trace...)})
		}
	}
	fetch := func(g string, tus []c16wTuple) bool {
		req := kmsg.NewPtrOffsetFetchRequest()
		req.Version = 5
		req.Group = g
		idx := map[string]int{}
		for _, tu := range tus {
			i, ok := idx[tu.T]
			if !ok {
				rt := kmsg.NewOffsetFetchRequestTopic()
				rt.Topic = tu.T
				req.Topics = append(req.Topics, rt)
				i = len(req.Topics) - 1
				idx[tu.T] = i
			}
			req.Topics[i].Partitions = append(req.Topics[i].Partitions, tu.P)
		}
		resp := kmsg.NewPtrOffsetFetchResponse()
		corr++
		if err := c16wRoundTrip(h, corr, req, resp); err != nil {
			r.Inconclusive(fmt.Sprintf("case %d: OffsetFetch(%q): %v", ci, g, err))
			return false
		}
		got := map[c16wTuple]kmsg.OffsetFetchResponseTopicPartition{}
		for _, rt := range resp.Topics {
			for _, rp := range rt.Partitions {
				got[c16wTuple{g, rt.Topic, rp.Partition}] = rp
			}
		}
		var line []string
		for _, tu := range tus {
			p, ok := got[tu]
			if !ok {
				violate("partition_missing_from_response", fmt.Sprintf("OffsetFetch response has no entry for requested %s", tu))
				continue
			}
			meta := ""
			if p.Metadata != nil {
				meta = *p.Metadata
			}
			line = append(line, fmt.Sprintf("%s=%d/%q/code %d", tu, p.Offset, meta, p.ErrorCode))
			if p.ErrorCode != 0 || resp.ErrorCode != 0 {
				r.Count("fetched_partitions_with_error_code", 1)
				continue
			}
			want, committed := model[tu]
			if committed {
				nCommitted++
			} else {
				nNever++
			}
			switch {
			case committed && p.Offset == want.Off && meta == want.Meta:
			case !committed && p.Offset == -1:
			case func() bool { src, ok := written[p.Offset]; return ok && src != tu }():
				src := written[p.Offset]
				violate("fetch_returns_commit_of_other_tuple:"+c16wAliasKind(tu, src), fmt.Sprintf("fetch %s returned offset %d metadata %q, which was committed to %s", tu, p.Offset, meta, src))
			case func() bool { _, ok := rejected[p.Offset]; return ok }():
				violate("rejected_commit_visible", fmt.Sprintf("fetch %s returned offset %d, the value of a commit to %s that was answered with an error code", tu, p.Offset, rejected[p.Offset]))
			case !committed && p.Offset == 0 && meta == "":
				violate("never_committed_reads_0", fmt.Sprintf("fetch %s (never committed) returned offset 0, error code 0; the protocol value for \"no committed offset\" is -1", tu))
			case !committed:
				violate("never_committed_reads_other_value", fmt.Sprintf("fetch %s (never committed) returned offset %d metadata %q", tu, p.Offset, meta))
			case p.Offset == want.Off:
				violate("metadata_differs_from_last_commit", fmt.Sprintf("fetch %s returned the committed offset %d but metadata %q, committed %q", tu, p.Offset, meta, want.Meta))
			default:
				cls := "fetch_returns_unknown_value"
				for _, o := range older[tu] {
					if o == p.Offset {
						cls = "fetch_returns_older_commit"
					}
				}
				if cls == "fetch_returns_unknown_value" && (p.Offset == 0 || p.Offset == -1) {
					cls = "committed_offset_lost"
				}
				violate(cls, fmt.Sprintf("fetch %s returned offset %d metadata %q; last successful commit is %d %q", tu, p.Offset, meta, want.Off, want.Meta))
			}
		}
		trace = append(trace, fmt.Sprintf("OffsetFetch(%q) -> %s", g, strings.Join(line, " ")))
		return true
	}
	pick := func(rng *rand.Rand, g string, k int) []c16wTuple {
		seenT := map[c16wTuple]bool{}
		var out []c16wTuple
		for len(out) < k {
			tu := c16wTuple{g, topics[rng.Intn(len(topics))], parts[rng.Intn(len(parts))]}
			if !seenT[tu] {
				seenT[tu] = true
				out = append(out, tu)
			}
		}
		return out
	}

	nops := 10 + rng.Intn(25)
	for i := 0; i < nops; i++ {
		g := groups[rng.Intn(len(groups))]
		if rng.Intn(100) >= 55 {
			if !fetch(g, pick(rng, g, 1+rng.Intn(3))) {
				return
			}
			continue
		}
		m := members[g]
		how := "valid"
		switch rng.Intn(10) {
		case 0:
			m.gen += 1 + int32(rng.Intn(3))
			how = "stale_generation"
		case 1:
			m.id += "-ghost"
			how = "unknown_member"
		}
		req := kmsg.NewPtrOffsetCommitRequest()
		req.Version = 3
		req.Group = g
		req.MemberID = m.id
		req.Generation = m.gen
		req.RetentionTimeMillis = -1
		vals := map[c16wTuple]c16wVal{}
		idx := map[string]int{}
		for _, tu := range pick(rng, g, 1+rng.Intn(3)) {
			next++
			v := c16wVal{next, fmt.Sprintf("%s#%d", c16wMetas[rng.Intn(len(c16wMetas))], next)}
			rp := kmsg.NewOffsetCommitRequestTopicPartition()
			rp.Partition = tu.P
			rp.Offset = v.Off
			switch rng.Intn(8) {
			case 0:
				v.Meta = "" // null string on the wire
			case 1:
				v.Meta = ""
				rp.Metadata = kmsg.StringPtr("")
			default:
				rp.Metadata = kmsg.StringPtr(v.Meta)
			}
			vals[tu] = v
			i, ok := idx[tu.T]
			if !ok {
				rt := kmsg.NewOffsetCommitRequestTopic()
				rt.Topic = tu.T
				req.Topics = append(req.Topics, rt)
				i = len(req.Topics) - 1
				idx[tu.T] = i
			}
			req.Topics[i].Partitions = append(req.Topics[i].Partitions, rp)
		}
		resp := kmsg.NewPtrOffsetCommitResponse()
		corr++
		if err := c16wRoundTrip(h, corr, req, resp); err != nil {
			r.Inconclusive(fmt.Sprintf("case %d: OffsetCommit(%q): %v", ci, g, err))
			return
		}
		var line []string
		answered := map[c16wTuple]bool{}
		for _, rt := range resp.Topics {
			for _, rp := range rt.Partitions {
				tu := c16wTuple{g, rt.Topic, rp.Partition}
				v, asked := vals[tu]
				if !asked {
					continue
				}
				answered[tu] = true
				line = append(line, fmt.Sprintf("%s:=%d/%q/code %d", tu, v.Off, v.Meta, rp.ErrorCode))
				if rp.ErrorCode == 0 {
					if prev, ok := model[tu]; ok {
						older[tu] = append(older[tu], prev.Off)
					}
					model[tu] = v
					written[v.Off] = tu
					nAccepted++
				} else {
					rejected[v.Off] = tu
					r.Count("commits_rejected", 1)
				}
			}
		}
		for tu := range vals {
			if !answered[tu] { // outcome unknown: report and stop this case (nothing after it could be judged)
				violate("partition_missing_from_response", fmt.Sprintf("OffsetCommit response has no entry for %s", tu))
				r.Case(verifkit.Hash(trace), false)
				return
			}
		}
		trace = append(trace, fmt.Sprintf("OffsetCommit(%q, %s member) -> %s", g, how, strings.Join(line, " ")))
	}
	for _, g := range groups {
		var all []c16wTuple
		for _, tn := range topics {
			for _, p := range parts {
				all = append(all, c16wTuple{g, tn, p})
			}
		}
		if !fetch(g, all) {
			return
		}
	}
	r.Count("commits_accepted", nAccepted)
	r.Count("fetched_partitions_committed", nCommitted)
	r.Count("fetched_partitions_never_committed", nNever)
	r.Case(verifkit.Hash(trace), nAccepted >= 3 && nCommitted > 0 && nNever > 0)
	if ci == 0 {
		r.Sample(map[string]any{"trace": trace})
	}
}
