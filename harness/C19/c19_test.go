//go:build verif

package main

// C19 — a broker appends only to partitions whose lease it holds.
//
// 3 REAL broker handlers (newHandler over their own metadata.EtcdStore, hence
// real PartitionLeaseManagers) share ONE embedded etcd and ONE recording fake
// S3 (every S3 call is attributed to the broker instance that made it).
//
// Ground truth for "held p's lease" is etcd itself, never a broker's belief:
//   - a barrier (one etcd Txn: Put(sentinel) + Get(lease prefix)) immediately
//     before and immediately after every produce request gives the lease keys at
//     two revisions R0 < R1 (mod revisions tell whether a key changed in between);
//   - a WithPrevKV watch on /kafscale/ records every lease-key event; the barrier
//     waits until the ordered watch stream has delivered revision R, so the owner
//     of a key at any revision of the case is known.
//
// Lease expiry is not waited for: the etcd client's Lease API of every broker is
// wrapped (client.Lease is a replaceable interface) so that leases are granted
// with a TTL that outlives the case and the keep-alive channel handed to
// concurrency.Session is the harness's own. "Expiry" = the harness revokes the
// lease on the server; "notice" = the harness closes the keep-alive channel
// (Session.Done fires, the manager clears its ownership map). The two are
// separate steps, so the expired-but-not-yet-noticed window is a schedule choice.

import (
	"context"
	"encoding/json"
	"fmt"
	"math/rand"
	"net"
	"net/url"
	"os"
	"path/filepath"
	"sort"
	"strings"
	"sync"
	"sync/atomic"
	"testing"
	"time"

	"github.com/twmb/franz-go/pkg/kerr"
	"github.com/twmb/franz-go/pkg/kmsg"
	clientv3 "go.etcd.io/etcd/client/v3"
	"go.etcd.io/etcd/server/v3/embed"

	"github.com/KafScale/platform/internal/testutil"
	"github.com/KafScale/platform/internal/verifkit"
	"github.com/KafScale/platform/pkg/acl"
	"github.com/KafScale/platform/pkg/broker"
	"github.com/KafScale/platform/pkg/metadata"
	"github.com/KafScale/platform/pkg/protocol"
	"github.com/KafScale/platform/pkg/storage"
)

const (
	c19Sentinel    = "/kafscale/zz-verif-c19-sentinel"
	c19LeasePrefix = "/kafscale/partition-leases/" // statement/anchors: /kafscale/partition-leases/<topic>/<partition>
	c19Watchdog    = 60 * time.Second
)

// ---------------------------------------------------------------------------
// embedded etcd + ground-truth watch

type c19Ev struct {
	Rev     int64
	Key     string
	Del     bool
	Val     string
	Lease   int64
	HasPrev bool
	PrevVal string
}

type c19Watch struct {
	mu     sync.Mutex
	cond   *sync.Cond
	evs    []c19Ev // lease-key events, in revision order
	maxRev int64
	broken string
	timed  bool
}

func (wt *c19Watch) loop(wch clientv3.WatchChan) {
	for resp := range wch {
		wt.mu.Lock()
		if err := resp.Err(); err != nil {
			wt.broken = err.Error()
		}
		for _, ev := range resp.Events {
			k := string(ev.Kv.Key)
			if strings.HasPrefix(k, c19LeasePrefix) {
				e := c19Ev{Rev: ev.Kv.ModRevision, Key: k}
				if ev.Type == clientv3.EventTypeDelete {
					e.Del = true
				} else {
					e.Val, e.Lease = string(ev.Kv.Value), ev.Kv.Lease
				}
				if ev.PrevKv != nil {
					e.HasPrev, e.PrevVal = true, string(ev.PrevKv.Value)
				}
				wt.evs = append(wt.evs, e)
			}
			if ev.Kv.ModRevision > wt.maxRev {
				wt.maxRev = ev.Kv.ModRevision
			}
		}
		wt.cond.Broadcast()
		wt.mu.Unlock()
	}
	wt.mu.Lock()
	if wt.broken == "" {
		wt.broken = "watch channel closed"
	}
	wt.cond.Broadcast()
	wt.mu.Unlock()
}

// waitRev blocks until the ordered stream has delivered revision rev (the
// revision of a sentinel put, so an event for it always exists).
func (wt *c19Watch) waitRev(rev int64) error {
	tm := time.AfterFunc(c19Watchdog, func() {
		wt.mu.Lock()
		wt.timed = true
		wt.cond.Broadcast()
		wt.mu.Unlock()
	})
	defer tm.Stop()
	wt.mu.Lock()
	defer wt.mu.Unlock()
	for wt.maxRev < rev && wt.broken == "" && !wt.timed {
		wt.cond.Wait()
	}
	if wt.broken != "" {
		return fmt.Errorf("watch broken: %s", wt.broken)
	}
	if wt.maxRev < rev {
		return fmt.Errorf("watchdog: revision %d not delivered by the watch within %v", rev, c19Watchdog)
	}
	return nil
}

// eventsOn returns the events on key with lo < rev <= hi.
func (wt *c19Watch) eventsOn(key string, lo, hi int64) []c19Ev {
	wt.mu.Lock()
	defer wt.mu.Unlock()
	var out []c19Ev
	for _, e := range wt.evs {
		if e.Key == key && e.Rev > lo && e.Rev <= hi {
			out = append(out, e)
		}
	}
	return out
}

// eventsIn returns every lease-key event with lo < rev <= hi whose key has the prefix.
func (wt *c19Watch) eventsIn(prefix string, lo, hi int64) []c19Ev {
	wt.mu.Lock()
	defer wt.mu.Unlock()
	var out []c19Ev
	for _, e := range wt.evs {
		if strings.HasPrefix(e.Key, prefix) && e.Rev > lo && e.Rev <= hi {
			out = append(out, e)
		}
	}
	return out
}

// ownersIn: every value the key held at some revision r with lo <= r <= hi
// ("" = the key was absent at some such revision). The case's keys are unique
// to the case, so a key with no event so far is absent.
func (wt *c19Watch) ownersIn(key string, lo, hi int64) map[string]bool {
	wt.mu.Lock()
	defer wt.mu.Unlock()
	cur := ""
	out := map[string]bool{}
	atLo := false
	for _, e := range wt.evs {
		if e.Key != key {
			continue
		}
		if e.Rev > lo && !atLo {
			out[cur] = true // state at revision lo
			atLo = true
		}
		if e.Rev > hi {
			break
		}
		if e.Del {
			cur = ""
		} else {
			cur = e.Val
		}
		if e.Rev > lo {
			out[cur] = true
		}
	}
	if !atLo {
		out[cur] = true
	}
	return out
}

func (wt *c19Watch) prune() {
	wt.mu.Lock()
	wt.evs = nil
	wt.mu.Unlock()
}

type c19Env struct {
	t         *testing.T
	r         *verifkit.Run
	endpoints []string
	admin     *clientv3.Client
	watch     *c19Watch
	wcancel   context.CancelFunc
	seq       int
	sent      atomic.Int64
	pool      []*c19Slot
	// one example of the beyond-the-statement observation is kept per run
	notedExample bool
}

func c19StartEtcd(t *testing.T) []string {
	for attempt := 0; attempt < 4; attempt++ {
		cfg := embed.NewConfig()
		cfg.Dir = t.TempDir()
		cfg.Logger = "zap"
		cfg.LogLevel = "error"
		cfg.LogOutputs = []string{filepath.Join(cfg.Dir, "etcd.log")}
		cfg.UnsafeNoFsync = true // a case never restarts etcd; WAL fsyncs only cost time
		port := func() int {
			ln, err := net.Listen("tcp", "127.0.0.1:0")
			if err != nil {
				t.Fatalf("c19: free port: %v", err)
			}
			defer ln.Close()
			return ln.Addr().(*net.TCPAddr).Port
		}
		cu, _ := url.Parse(fmt.Sprintf("http://127.0.0.1:%d", port()))
		pu, _ := url.Parse(fmt.Sprintf("http://127.0.0.1:%d", port()))
		cfg.ListenClientUrls, cfg.AdvertiseClientUrls = []url.URL{*cu}, []url.URL{*cu}
		cfg.ListenPeerUrls, cfg.AdvertisePeerUrls = []url.URL{*pu}, []url.URL{*pu}
		cfg.InitialCluster = cfg.InitialClusterFromName(cfg.Name)
		e, err := embed.StartEtcd(cfg)
		if err != nil {
			time.Sleep(100 * time.Millisecond)
			continue
		}
		select {
		case <-e.Server.ReadyNotify():
		case <-time.After(30 * time.Second):
			e.Server.Stop()
			continue
		}
		t.Cleanup(func() { e.Close() })
		return []string{"http://" + e.Clients[0].Addr().String()}
	}
	return testutil.StartEmbeddedEtcd(t)
}

func newC19Env(t *testing.T, r *verifkit.Run) *c19Env {
	// keep etcd's data dir and logs inside the per-run scratch dir
	if s := os.Getenv("VERIF_SCRATCH"); s != "" {
		d := filepath.Join(s, "c19-tmp")
		if err := os.MkdirAll(d, 0o755); err == nil {
			os.Setenv("TMPDIR", d)
		}
	}
	e := &c19Env{t: t, r: r, endpoints: c19StartEtcd(t)}
	cli, err := clientv3.New(clientv3.Config{Endpoints: e.endpoints, DialTimeout: 10 * time.Second})
	if err != nil {
		t.Fatalf("c19: etcd client: %v", err)
	}
	t.Cleanup(func() { _ = cli.Close() })
	e.admin = cli
	ctx, cancel := context.WithTimeout(context.Background(), 30*time.Second)
	g, err := cli.Get(ctx, c19Sentinel)
	cancel()
	if err != nil {
		t.Fatalf("c19: initial get: %v", err)
	}
	wctx, wcancel := context.WithCancel(context.Background())
	e.wcancel = wcancel
	e.watch = &c19Watch{}
	e.watch.cond = sync.NewCond(&e.watch.mu)
	go e.watch.loop(cli.Watch(wctx, "/kafscale/", clientv3.WithPrefix(), clientv3.WithPrevKV(), clientv3.WithRev(g.Header.Revision+1)))
	if _, _, err := e.barrier("none/"); err != nil {
		t.Fatalf("c19: watch did not come up: %v", err)
	}
	return e
}

type c19KV struct {
	Val    string
	ModRev int64
	Lease  int64
}

// barrier is one linearizable etcd transaction: it writes the sentinel (so the
// revision R it returns has a watch event) and reads every lease key of the
// case at exactly R; it returns once the watch has delivered R.
func (e *c19Env) barrier(tag string) (int64, map[string]c19KV, error) {
	n := e.sent.Add(1)
	ctx, cancel := context.WithTimeout(context.Background(), c19Watchdog)
	defer cancel()
	resp, err := e.admin.Txn(ctx).Then(
		clientv3.OpPut(c19Sentinel, fmt.Sprint(n)),
		clientv3.OpGet(c19LeasePrefix+tag, clientv3.WithPrefix()),
	).Commit()
	if err != nil {
		return 0, nil, fmt.Errorf("barrier txn: %w", err)
	}
	kvs := map[string]c19KV{}
	if len(resp.Responses) == 2 && resp.Responses[1].GetResponseRange() != nil {
		for _, kv := range resp.Responses[1].GetResponseRange().Kvs {
			kvs[string(kv.Key)] = c19KV{Val: string(kv.Value), ModRev: kv.ModRevision, Lease: kv.Lease}
		}
	}
	if err := e.watch.waitRev(resp.Header.Revision); err != nil {
		return 0, nil, err
	}
	return resp.Header.Revision, kvs, nil
}

// ---------------------------------------------------------------------------
// Lease API wrapper (client.Lease of one broker's etcd client)

type c19Lease struct {
	id      clientv3.LeaseID
	dead    bool // revoked on the server (by the harness = expiry, or by the session itself)
	noticed bool // keep-alive channel closed
	hasKA   bool
	ch      chan *clientv3.LeaseKeepAliveResponse
	stop    chan struct{}
	once    sync.Once
}

type c19LeaseAPI struct {
	real   clientv3.Lease
	mu     sync.Mutex
	leases []*c19Lease
}

func (l *c19LeaseAPI) find(id clientv3.LeaseID) *c19Lease {
	for _, x := range l.leases {
		if x.id == id {
			return x
		}
	}
	return nil
}

// Grant: the TTL is replaced by one that outlives the case; expiry is a harness step.
func (l *c19LeaseAPI) Grant(ctx context.Context, ttl int64) (*clientv3.LeaseGrantResponse, error) {
	resp, err := l.real.Grant(ctx, 3600)
	if err != nil {
		return nil, err
	}
	l.mu.Lock()
	l.leases = append(l.leases, &c19Lease{id: resp.ID})
	l.mu.Unlock()
	return resp, nil
}

func (l *c19LeaseAPI) Revoke(ctx context.Context, id clientv3.LeaseID) (*clientv3.LeaseRevokeResponse, error) {
	resp, err := l.real.Revoke(ctx, id)
	if err == nil {
		l.mu.Lock()
		if x := l.find(id); x != nil {
			x.dead = true
		}
		l.mu.Unlock()
	}
	return resp, err
}

// KeepAlive hands out the harness's own channel. It closes exactly when the real
// lessor would close it: the context ends (Session.Orphan/Close, client Close) or
// the client learns that the lease is gone (harness step "notice").
func (l *c19LeaseAPI) KeepAlive(ctx context.Context, id clientv3.LeaseID) (<-chan *clientv3.LeaseKeepAliveResponse, error) {
	l.mu.Lock()
	x := l.find(id)
	if x == nil {
		x = &c19Lease{id: id}
		l.leases = append(l.leases, x)
	}
	if x.hasKA {
		l.mu.Unlock()
		return nil, fmt.Errorf("verif: second KeepAlive on one lease is not modelled")
	}
	x.hasKA = true
	x.ch = make(chan *clientv3.LeaseKeepAliveResponse)
	x.stop = make(chan struct{})
	l.mu.Unlock()
	go func() {
		select {
		case <-ctx.Done():
		case <-x.stop:
		}
		l.mu.Lock()
		x.noticed = true
		l.mu.Unlock()
		close(x.ch)
	}()
	return x.ch, nil
}

func (l *c19LeaseAPI) TimeToLive(ctx context.Context, id clientv3.LeaseID, opts ...clientv3.LeaseOption) (*clientv3.LeaseTimeToLiveResponse, error) {
	return l.real.TimeToLive(ctx, id, opts...)
}
func (l *c19LeaseAPI) Leases(ctx context.Context) (*clientv3.LeaseLeasesResponse, error) {
	return l.real.Leases(ctx)
}
func (l *c19LeaseAPI) KeepAliveOnce(ctx context.Context, id clientv3.LeaseID) (*clientv3.LeaseKeepAliveResponse, error) {
	return l.real.KeepAliveOnce(ctx, id)
}
func (l *c19LeaseAPI) Close() error { return l.real.Close() }

func (l *c19LeaseAPI) liveIDs() []clientv3.LeaseID {
	l.mu.Lock()
	defer l.mu.Unlock()
	var out []clientv3.LeaseID
	for _, x := range l.leases {
		if !x.dead {
			out = append(out, x.id)
		}
	}
	return out
}

func (l *c19LeaseAPI) markDead(id clientv3.LeaseID) {
	l.mu.Lock()
	if x := l.find(id); x != nil {
		x.dead = true
	}
	l.mu.Unlock()
}

// notice closes the keep-alive channel of every lease that is dead on the server.
func (l *c19LeaseAPI) notice() int {
	l.mu.Lock()
	var xs []*c19Lease
	for _, x := range l.leases {
		if x.dead && x.hasKA && !x.noticed {
			xs = append(xs, x)
		}
	}
	l.mu.Unlock()
	for _, x := range xs {
		x.once.Do(func() { close(x.stop) })
	}
	return len(xs)
}

func (l *c19LeaseAPI) owns(id int64) bool {
	l.mu.Lock()
	defer l.mu.Unlock()
	return l.find(clientv3.LeaseID(id)) != nil
}

// ---------------------------------------------------------------------------
// KV wrapper (client.KV of one broker's etcd client): passes everything through,
// except that the harness can arm ONE fault for the next lease-manager request
// on a given lease key: "before" = the request fails without reaching etcd,
// "after" = it takes effect in etcd but the broker sees an error (response lost).

var errC19Injected = fmt.Errorf("verif-injected: etcdserver: request timed out")

type c19KVAPI struct {
	clientv3.KV
	mu    sync.Mutex
	key   string
	mode  string
	fired string
}

func (k *c19KVAPI) arm(key, mode string) {
	k.mu.Lock()
	k.key, k.mode, k.fired = key, mode, ""
	k.mu.Unlock()
}

// disarm returns a description of the fault that was delivered since arm ("" if none).
func (k *c19KVAPI) disarm() string {
	k.mu.Lock()
	defer k.mu.Unlock()
	f := k.fired
	k.key, k.mode, k.fired = "", "", ""
	return f
}

func (k *c19KVAPI) take(key, what string) string {
	k.mu.Lock()
	defer k.mu.Unlock()
	if k.mode == "" || k.key != key {
		return ""
	}
	m := k.mode
	k.mode = ""
	k.fired = fmt.Sprintf("%s on %s fails %s taking effect", what, strings.TrimPrefix(key, c19LeasePrefix), map[string]string{"before": "without", "after": "after"}[m])
	return m
}

func (k *c19KVAPI) Delete(ctx context.Context, key string, opts ...clientv3.OpOption) (*clientv3.DeleteResponse, error) {
	switch k.take(key, "Delete") {
	case "before":
		return nil, errC19Injected
	case "after":
		if _, err := k.KV.Delete(ctx, key, opts...); err != nil {
			return nil, err
		}
		return nil, errC19Injected
	}
	return k.KV.Delete(ctx, key, opts...)
}

func (k *c19KVAPI) Txn(ctx context.Context) clientv3.Txn { return &c19Txn{inner: k.KV.Txn(ctx), k: k} }

type c19Txn struct {
	inner clientv3.Txn
	k     *c19KVAPI
	key   string
}

func (t *c19Txn) If(cs ...clientv3.Cmp) clientv3.Txn {
	for i := range cs {
		if kb := string(cs[i].KeyBytes()); strings.HasPrefix(kb, c19LeasePrefix) {
			t.key = kb
		}
	}
	t.inner = t.inner.If(cs...)
	return t
}
func (t *c19Txn) Then(ops ...clientv3.Op) clientv3.Txn { t.inner = t.inner.Then(ops...); return t }
func (t *c19Txn) Else(ops ...clientv3.Op) clientv3.Txn { t.inner = t.inner.Else(ops...); return t }
func (t *c19Txn) Commit() (*clientv3.TxnResponse, error) {
	if t.key != "" {
		switch t.k.take(t.key, "lease Txn") {
		case "before":
			return nil, errC19Injected
		case "after":
			if _, err := t.inner.Commit(); err != nil {
				return nil, err
			}
			return nil, errC19Injected
		}
	}
	return t.inner.Commit()
}

// ---------------------------------------------------------------------------
// brokers

type c19Inst struct {
	idx       int   // broker slot 0..2
	node      int32 // broker id (NodeID)
	id        string
	instID    int // S3 attribution
	inst      *instance
	slot      *c19Slot
	store     *metadata.EtcdStore
	h         *handler
	lapi      *c19LeaseAPI
	kv        *c19KVAPI
	shut      bool // ReleaseAll was called
	dead      bool // crashed / stopped process
	unnoticed bool // its session lease is expired on the server and it has not been told
	gate      sync.RWMutex
}

func (b *c19Inst) name() string { return fmt.Sprintf("broker%s#i%d", b.id, b.instID) }

type c19Part struct {
	Topic string
	P     int32
}

func (p c19Part) key() string { return fmt.Sprintf("%s%s/%d", c19LeasePrefix, p.Topic, p.P) }

type c19PartObs struct {
	Part    string `json:"partition"`
	Kind    string `json:"kind"`
	Before  string `json:"lease_key_before"`
	After   string `json:"lease_key_after"`
	Code    *int16 `json:"code,omitempty"`
	Base    *int64 `json:"base_offset,omitempty"`
	Writes  int    `json:"s3_writes_by_this_instance"`
	Batch   string `json:"batch_id"`
	ACL     string `json:"acl,omitempty"` // ACL cases: "denied" = the request's principal may not produce to this topic
	Verdict string `json:"verdict"`
}

type c19Step struct {
	N      int          `json:"n"`
	Op     string       `json:"op"`
	Broker string       `json:"broker,omitempty"`
	Who    string       `json:"principal,omitempty"`
	Detail string       `json:"detail,omitempty"`
	Parts  []c19PartObs `json:"partitions,omitempty"`
	Events []string     `json:"lease_events,omitempty"`
}

type c19Acked struct {
	part   c19Part
	batch  string
	inst   int
	step   int
	base   int64
	broker string
}

type c19World struct {
	e          *c19Env
	r          *verifkit.Run
	ci         int
	tag        string
	autoCreate bool
	s3         *vS3
	cur        [3]*c19Inst
	all        []*c19Inst
	topics     map[string]int32 // existing topics -> partition count
	steps      []c19Step
	lastRev    int64
	lastKV     map[string]c19KV
	foreignDel map[string]string // lease key -> broker id whose key was deleted by another broker's Release
	acked      []c19Acked
	trouble    string
	violated   bool
	noted      bool
	mu         sync.Mutex
	// coverage of this case
	kinds       map[string]bool
	nAckHeld    int
	nForeignRej int
	nMixed      int
	nUnnoticed  int
	nHandover   int
	// ACL cases (aclCfg == nil: the handlers keep their default, disabled authorizer, as in every other case)
	aclCfg  *acl.Config
	az      *acl.Authorizer // the oracle's OWN authorizer, built separately from the same config
	whos    []c19Who        // principals a request of this case may carry (repeats = weight)
	deniers []c19Who        // those of whos that are denied at least one of the case's topics
	whoAll  c19Who          // a principal that may produce everywhere
	next    *c19Who         // principal of the next produce (directed openings); nil = PRNG choice
}

// c19Who: how a request names its principal. Conn=true: the principal is attached to the connection
// (broker.ConnContext, as the proxy-protocol / SASL path does; wins over the client id); otherwise it is
// the request header's client id (None=true: no client id at all = principal "anonymous").
type c19Who struct {
	Name string
	Conn bool
	None bool
}

func (x c19Who) principal() string {
	if x.None {
		return "anonymous"
	}
	return x.Name
}

func (x c19Who) String() string {
	switch {
	case x.None:
		return "anonymous (no client id)"
	case x.Conn:
		return x.Name + " (connection principal)"
	}
	return x.Name + " (client id)"
}

// denied: may the principal NOT produce to the topic, according to the oracle's own authorizer.
func (w *c19World) denied(who *c19Who, topic string) bool {
	if w.az == nil || who == nil {
		return false
	}
	return !w.az.Allows(who.principal(), acl.ActionProduce, acl.ResourceTopic, topic)
}

// c19ACLSetup draws the ACL configuration of one ACL case. Two profiles: default-allow with deny rules,
// default-deny with allow rules; rule names are exact topic names or a trailing-* prefix.
func c19ACLSetup(rng *rand.Rand, tag string) (acl.Config, []c19Who, c19Who) {
	ta, tb, tu := tag+"a", tag+"b", tag+"u"
	prod := func(names ...string) []acl.Rule {
		var out []acl.Rule
		for _, n := range names {
			out = append(out, acl.Rule{Action: acl.ActionProduce, Resource: acl.ResourceTopic, Name: n})
		}
		return out
	}
	cfg := acl.Config{Enabled: true}
	var names []string
	if rng.Intn(3) > 0 {
		cfg.DefaultPolicy = "allow"
		cfg.Principals = []acl.PrincipalRules{
			{Name: "p-no-a", Deny: prod(ta)},
			{Name: "p-no-b", Deny: prod(tb)},
			{Name: "p-no-u", Deny: prod(tu)},
			{Name: "p-no-ab", Deny: prod(ta, tb)},
			{Name: "p-no-bu", Deny: []acl.Rule{{Action: acl.ActionAny, Resource: acl.ResourceTopic, Name: tb}, {Action: acl.ActionProduce, Resource: acl.ResourceAny, Name: tu + "*"}}},
			{Name: "p-fetch-only-a", Allow: []acl.Rule{{Action: acl.ActionFetch, Resource: acl.ResourceTopic, Name: ta}}, Deny: prod(ta)},
			{Name: "p-all", Allow: []acl.Rule{{Action: acl.ActionAny, Resource: acl.ResourceAny, Name: "*"}}},
		}
		names = []string{"p-no-a", "p-no-a", "p-no-b", "p-no-b", "p-no-u", "p-no-ab", "p-no-bu", "p-fetch-only-a"}
	} else {
		cfg.DefaultPolicy = "deny"
		cfg.Principals = []acl.PrincipalRules{
			{Name: "p-only-a", Allow: prod(ta)},
			{Name: "p-only-b", Allow: prod(tb)},
			{Name: "p-only-ab", Allow: prod(ta, tb)},
			{Name: "p-only-au", Allow: prod(ta, tu)},
			{Name: "p-case-but-b", Allow: prod(tag + "*"), Deny: prod(tb)},
			{Name: "p-all", Allow: []acl.Rule{{Action: acl.ActionAny, Resource: acl.ResourceAny, Name: "*"}}},
		}
		names = []string{"p-only-a", "p-only-a", "p-only-b", "p-only-b", "p-only-ab", "p-only-au", "p-case-but-b"}
	}
	// this case's principals: 3 restricted ones (PRNG), the unrestricted one, and a request without client id
	rng.Shuffle(len(names), func(i, j int) { names[i], names[j] = names[j], names[i] })
	var whos []c19Who
	for _, n := range names[:3] {
		whos = append(whos, c19Who{Name: n, Conn: rng.Intn(3) == 0}, c19Who{Name: n, Conn: rng.Intn(3) == 0})
	}
	all := c19Who{Name: "p-all", Conn: rng.Intn(3) == 0}
	whos = append(whos, all, c19Who{None: true})
	return cfg, whos, all
}

func c19Topic(name string, parts int32, leader int32) protocol.MetadataTopic {
	t := protocol.MetadataTopic{Topic: kmsg.StringPtr(name), TopicID: metadata.TopicIDForName(name)}
	for i := int32(0); i < parts; i++ {
		t.Partitions = append(t.Partitions, protocol.MetadataPartition{Partition: i, Leader: leader, Replicas: []int32{leader}, ISR: []int32{leader}})
	}
	return t
}

func (e *c19Env) newWorld(ci int, autoCreate bool, partsA, partsB int32, aclRng *rand.Rand) *c19World {
	e.seq++
	w := &c19World{e: e, r: e.r, ci: ci, tag: fmt.Sprintf("c19x%dx", e.seq), autoCreate: autoCreate, s3: newVS3(),
		topics: map[string]int32{}, foreignDel: map[string]string{}, kinds: map[string]bool{}}
	e.watch.prune()
	if aclRng != nil {
		cfg, whos, all := c19ACLSetup(aclRng, w.tag)
		w.aclCfg, w.whos, w.whoAll = &cfg, whos, all
		w.az = acl.NewAuthorizer(cfg)
		for _, x := range whos {
			x := x
			if w.denied(&x, w.tag+"a") || w.denied(&x, w.tag+"b") || w.denied(&x, w.tag+"u") {
				w.deniers = append(w.deniers, x)
			}
		}
	}
	w.topics[w.tag+"a"], w.topics[w.tag+"b"] = partsA, partsB
	// the cluster's topic snapshot, as the operator publishes it: every broker process loads it at start
	cid := "kafscale-cluster"
	snap := metadata.ClusterMetadata{ControllerID: 1, ClusterID: &cid, Brokers: c19Brokers(),
		Topics: []protocol.MetadataTopic{c19Topic(w.tag+"a", partsA, 1), c19Topic(w.tag+"b", partsB, 1)}}
	payload, err := json.Marshal(&snap)
	if err == nil {
		ctx, cancel := context.WithTimeout(context.Background(), c19Watchdog)
		_, err = e.admin.Put(ctx, "/kafscale/metadata/snapshot", string(payload))
		cancel()
	}
	if err != nil {
		w.trouble = "harness: publishing the metadata snapshot failed: " + err.Error()
		return w
	}
	for i := 0; i < 3; i++ {
		if !w.startInst(i) {
			return w
		}
	}
	rev, kv, err := e.barrier(w.tag)
	if err != nil {
		w.trouble = err.Error()
		return w
	}
	w.lastRev, w.lastKV = rev, kv
	return w
}

// c19Slot is one broker process's etcd side: an EtcdStore (its own etcd client,
// snapshot watcher) whose client.Lease is wrapped. Creating one costs ~0.25 s
// under the race detector, so slots are pooled and re-used by later cases (the
// topic snapshot is re-read from etcd, the lease bookkeeping is reset).
type c19Slot struct {
	store *metadata.EtcdStore
	lapi  *c19LeaseAPI
	kv    *c19KVAPI
}

func (e *c19Env) take() (*c19Slot, error) {
	if n := len(e.pool); n > 0 {
		s := e.pool[n-1]
		e.pool = e.pool[:n-1]
		return s, nil
	}
	cid := "kafscale-cluster"
	meta := metadata.ClusterMetadata{ControllerID: 1, ClusterID: &cid, Brokers: c19Brokers()}
	ctx, cancel := context.WithTimeout(context.Background(), c19Watchdog)
	defer cancel()
	store, err := metadata.NewEtcdStore(ctx, meta, metadata.EtcdStoreConfig{Endpoints: e.endpoints, DialTimeout: 10 * time.Second})
	if err != nil {
		return nil, err
	}
	e.t.Cleanup(func() { _ = store.Close() })
	cli := store.EtcdClient()
	s := &c19Slot{store: store, lapi: &c19LeaseAPI{real: cli.Lease}, kv: &c19KVAPI{KV: cli.KV}}
	cli.Lease = s.lapi // before any lease manager exists on this client
	cli.KV = s.kv
	return s, nil
}

// give ends every session of the slot's previous user (leases revoked, keep-alive
// channels closed) and puts the slot back.
func (e *c19Env) give(s *c19Slot) {
	for _, id := range s.lapi.liveIDs() {
		ctx, cancel := context.WithTimeout(context.Background(), 10*time.Second)
		_, _ = e.admin.Revoke(ctx, id)
		cancel()
		s.lapi.markDead(id)
	}
	s.lapi.notice()
	s.lapi.mu.Lock()
	s.lapi.leases = nil
	s.lapi.mu.Unlock()
	s.kv.disarm()
	e.pool = append(e.pool, s)
}

func c19Brokers() []protocol.MetadataBroker {
	var out []protocol.MetadataBroker
	for i := 0; i < 3; i++ {
		out = append(out, protocol.MetadataBroker{NodeID: int32(i + 1), Host: "127.0.0.1", Port: int32(19092 + i)})
	}
	return out
}

// startInst starts a broker process for slot idx the way main() does: an
// EtcdStore with its own etcd client that loads the topic snapshot from etcd,
// then newHandler (which creates the lease managers because the store is an
// *EtcdStore).
func (w *c19World) startInst(idx int) bool {
	slot, err := w.e.take()
	if err != nil {
		w.trouble = "harness: NewEtcdStore: " + err.Error()
		return false
	}
	ctx, cancel := context.WithTimeout(context.Background(), c19Watchdog)
	err = slot.store.RefreshSnapshot(ctx)
	cancel()
	if err != nil {
		w.trouble = "harness: RefreshSnapshot: " + err.Error()
		return false
	}
	b := &c19Inst{idx: idx, node: int32(idx + 1), id: fmt.Sprint(idx + 1), instID: len(w.all), slot: slot, store: slot.store, lapi: slot.lapi, kv: slot.kv}
	b.inst = &instance{id: b.instID}
	b.h = newHandler(b.store, &s3View{v: w.s3, inst: b.inst}, c19Brokers()[idx], discardLogger())
	if b.h.leaseManager == nil {
		w.trouble = "harness: newHandler created no partition lease manager over an EtcdStore"
		return false
	}
	b.h.autoCreateTopics = w.autoCreate
	if w.aclCfg != nil {
		// ACL enforcement on, as buildAuthorizerFromEnv does from KAFSCALE_ACL_*: every broker process its own authorizer
		b.h.authorizer = acl.NewAuthorizer(*w.aclCfg)
	}
	// no wall-clock flush trigger: an acks=0 append stays buffered until the next acknowledged one
	b.h.logConfig.Buffer = storage.WriteBufferConfig{MaxBytes: 4 << 20}
	b.h.s3Health = broker.NewS3HealthMonitor(broker.S3HealthConfig{ErrorWarn: 2, ErrorCrit: 3, LatencyWarn: time.Hour, LatencyCrit: 2 * time.Hour})
	w.cur[idx] = b
	w.all = append(w.all, b)
	return true
}

// stopInst: the process is gone. It never touches S3 again and is never called
// again; its etcd session lease stays on the server until it expires.
func (w *c19World) stopInst(b *c19Inst) {
	if b.dead {
		return
	}
	b.dead = true
	b.inst.kill()
	b.h.coordinator.Stop()
}

func (w *c19World) close() {
	for _, b := range w.all {
		w.stopInst(b)
		w.e.give(b.slot)
	}
}

func (w *c19World) label(s string) string { return strings.ReplaceAll(s, w.tag, "T") }

func c19KVStr(kv c19KV, ok bool) string {
	if !ok {
		return "absent"
	}
	return fmt.Sprintf("%s@rev%d", kv.Val, kv.ModRev)
}

func (w *c19World) witness() map[string]any {
	return map[string]any{"case": w.ci, "seed": w.r.Seed, "tier": w.r.Tier, "auto_create_topics": w.autoCreate,
		"topics": w.labelTopics(), "acl": w.aclWitness(), "steps": w.steps,
		"legend": "brokers 1..3 = NodeID = value a broker writes into /kafscale/partition-leases/<topic>/<p>; lease_key_before/after = linearizable read of that key in the etcd transaction immediately before/after the request (value@mod_revision); T = per-case topic prefix"}
}

func (w *c19World) aclWitness() any {
	if w.aclCfg == nil {
		return "no authorizer configured (ACL enforcement off)"
	}
	raw, _ := json.Marshal(w.aclCfg)
	var v any
	_ = json.Unmarshal([]byte(w.label(string(raw))), &v)
	return v
}

func (w *c19World) labelTopics() map[string]int32 {
	out := map[string]int32{}
	for k, v := range w.topics {
		out[w.label(k)] = v
	}
	return out
}

// sync takes a barrier and returns the lease events since the previous one.
func (w *c19World) sync() ([]c19Ev, bool) {
	rev, kv, err := w.e.barrier(w.tag)
	if err != nil {
		w.trouble = err.Error()
		return nil, false
	}
	evs := w.e.watch.eventsIn(c19LeasePrefix+w.tag, w.lastRev, rev)
	w.lastRev, w.lastKV = rev, kv
	return evs, true
}

func (w *c19World) evStrings(evs []c19Ev) []string {
	var out []string
	for _, e := range evs {
		k := w.label(strings.TrimPrefix(e.Key, c19LeasePrefix))
		prev := "absent"
		if e.HasPrev {
			prev = e.PrevVal
		}
		if e.Del {
			out = append(out, fmt.Sprintf("rev%d DELETE %s (was %s)", e.Rev, k, prev))
		} else {
			out = append(out, fmt.Sprintf("rev%d PUT %s=%s (was %s)", e.Rev, k, e.Val, prev))
		}
	}
	return out
}

// believed lists the partitions the instance's lease manager says it owns.
func (w *c19World) believed(b *c19Inst) []c19Part {
	var out []c19Part
	for _, p := range w.universe(true) {
		if b.h.leaseManager.Owns(p.Topic, p.P) {
			out = append(out, p)
		}
	}
	return out
}

// universe: every (topic, partition) a request of this case may name.
func (w *c19World) universe(all bool) []c19Part {
	var out []c19Part
	names := []string{w.tag + "a", w.tag + "b", w.tag + "u"}
	for _, n := range names {
		cnt, exists := w.topics[n]
		switch {
		case exists:
			for p := int32(0); p < cnt; p++ {
				out = append(out, c19Part{n, p})
			}
			if !w.autoCreate || all {
				// beyond the partition count. Only generated with auto-create off: with it on,
				// getPartitionLog never returns for such a partition (see level_note)
				out = append(out, c19Part{n, cnt + 1})
			}
		default:
			out = append(out, c19Part{n, 0}, c19Part{n, 1})
			if all {
				out = append(out, c19Part{n, 2}, c19Part{n, 3})
			}
		}
	}
	return out
}

func (w *c19World) kindOf(b *c19Inst, p c19Part) string {
	cnt, exists := w.topics[p.Topic]
	kv, ok := w.lastKV[p.key()]
	own := "unowned"
	if ok && kv.Val == b.id {
		own = "own"
	} else if ok {
		own = "foreign"
	}
	switch {
	case !exists:
		return own + "+unknown_topic"
	case p.P >= cnt:
		return own + "+beyond_count"
	}
	return own
}

// call runs one request through Handle, as the connection loop does.
func (w *c19World) call(b *c19Inst, req *kmsg.ProduceRequest, corr int32, who *c19Who) (payload []byte, ok bool) {
	ctx, cancel := context.WithCancel(context.Background())
	defer cancel()
	hdr := &protocol.RequestHeader{APIKey: protocol.APIKeyProduce, APIVersion: 9, CorrelationID: corr}
	if who != nil && !who.None {
		if who.Conn {
			ctx = broker.ContextWithConnInfo(ctx, &broker.ConnContext{Principal: who.Name, RemoteAddr: "10.0.0.9:5555"})
			hdr.ClientID = kmsg.StringPtr("some-client")
		} else {
			hdr.ClientID = kmsg.StringPtr(who.Name)
		}
	}
	done := make(chan struct{})
	var err error
	var pv any
	go func() {
		defer close(done)
		defer func() { pv = recover() }()
		payload, err = b.h.Handle(ctx, hdr, req)
	}()
	select {
	case <-done:
	case <-time.After(c19Watchdog):
		cancel()
		w.fail(fmt.Sprintf("watchdog: produce on %s did not return within %v", b.name(), c19Watchdog))
		select {
		case <-done:
		case <-time.After(20 * time.Second):
		}
		return nil, false
	}
	if pv != nil {
		w.fail(fmt.Sprintf("handler panicked in produce on %s: %v", b.name(), pv))
		return nil, false
	}
	if err != nil {
		w.fail(fmt.Sprintf("Handle returned an error for produce on %s: %v", b.name(), err))
		return nil, false
	}
	return payload, true
}

func (w *c19World) fail(s string) {
	w.mu.Lock()
	if w.trouble == "" {
		w.trouble = s
	}
	w.mu.Unlock()
}

type c19Entry struct {
	part  c19Part
	batch string
	raw   []byte
	nrec  int
}

func c19BuildReq(entries []c19Entry, acks int16) *kmsg.ProduceRequest {
	req := kmsg.NewPtrProduceRequest()
	req.Version = 9
	req.Acks = acks
	req.TimeoutMillis = 5000
	idx := map[string]int{}
	for _, e := range entries {
		i, ok := idx[e.part.Topic]
		if !ok {
			rt := kmsg.NewProduceRequestTopic()
			rt.Topic = e.part.Topic
			req.Topics = append(req.Topics, rt)
			i = len(req.Topics) - 1
			idx[e.part.Topic] = i
		}
		rp := kmsg.NewProduceRequestTopicPartition()
		rp.Partition = e.part.P
		rp.Records = append([]byte(nil), e.raw...)
		req.Topics[i].Partitions = append(req.Topics[i].Partitions, rp)
	}
	return req
}

type c19Reply struct {
	code int16
	base int64
}

func c19Decode(payload []byte, entries []c19Entry) (map[c19Part]c19Reply, error) {
	resp := kmsg.NewPtrProduceResponse()
	resp.Version = 9
	if err := resp.ReadFrom(skipRespHeader(payload, true)); err != nil {
		return nil, fmt.Errorf("decode produce response: %w", err)
	}
	out := map[c19Part]c19Reply{}
	for _, t := range resp.Topics {
		for _, p := range t.Partitions {
			k := c19Part{t.Topic, p.Partition}
			if _, dup := out[k]; dup {
				return nil, fmt.Errorf("produce response names %s/%d twice", t.Topic, p.Partition)
			}
			out[k] = c19Reply{p.ErrorCode, p.BaseOffset}
		}
	}
	for _, e := range entries {
		if _, ok := out[e.part]; !ok {
			return nil, fmt.Errorf("produce response has no entry for %s/%d", e.part.Topic, e.part.P)
		}
	}
	if len(out) != len(entries) {
		return nil, fmt.Errorf("produce response has %d partition entries for %d requested", len(out), len(entries))
	}
	return out, nil
}

func c19CodeName(code int16) string {
	if code == 0 {
		return "NONE"
	}
	if err := kerr.ErrorForCode(code); err != nil {
		if ke, ok := err.(*kerr.Error); ok {
			return ke.Message
		}
	}
	return fmt.Sprintf("code_%d", code)
}

func c19Retriable(code int16) bool { return kerr.IsRetriable(kerr.ErrorForCode(code)) }

func (w *c19World) writesBy(inst int, p c19Part, from, to int) int {
	prefix := fmt.Sprintf("default/%s/%d/", p.Topic, p.P)
	w.s3.mu.Lock()
	defer w.s3.mu.Unlock()
	n := 0
	for _, e := range w.s3.events[from:to] {
		if e.Inst == inst && (e.Op == "upload_segment" || e.Op == "upload_index") && e.Outcome == "ok" && strings.HasPrefix(e.Key, prefix) {
			n++
		}
	}
	return n
}

// ackClass names a success (or a write) given without the lease, by its cause.
func (w *c19World) noLeaseCause(b *c19Inst, key string, after c19KV, present bool, believed bool) string {
	state := "key_absent"
	if present {
		state = "foreign_owner"
		if after.Val != "1" && after.Val != "2" && after.Val != "3" {
			state = "key_names_no_broker"
		}
	}
	switch {
	case !believed:
		// not even the broker's own lease manager claimed the partition before the request
		return "without_lease_and_without_local_claim_" + state
	case b.unnoticed:
		return "while_lease_expired_unnoticed_" + state
	case w.foreignDel[key] == b.id:
		return "after_foreign_release_deleted_key"
	case b.shut:
		return "after_release_all_" + state
	}
	return "without_lease_" + state
}

// produce: one request, judged against etcd.
func (w *c19World) produce(b *c19Inst, parts []c19Part, acks int16, rng *rand.Rand) bool {
	n := len(w.steps) + 1
	var entries []c19Entry
	for i, p := range parts {
		id := fmt.Sprintf("%s-s%d-e%d", w.tag, n, i)
		nrec := 1 + (n+i)%3
		entries = append(entries, c19Entry{part: p, batch: id, raw: mkBatch(rng, id, nrec, 8+rng.Intn(40)), nrec: nrec})
	}
	// ACL cases: the request's principal (directed openings set w.next; otherwise PRNG)
	var who *c19Who
	if w.az != nil {
		who, w.next = w.next, nil
		if who == nil {
			who = &w.whos[rng.Intn(len(w.whos))]
		}
	}
	deniedE := make([]bool, len(entries))
	for i, e := range entries {
		deniedE[i] = w.denied(who, e.part.Topic)
	}
	// --- ground truth before
	if _, ok := w.sync(); !ok {
		return false
	}
	r0, kv0 := w.lastRev, w.lastKV
	kinds := map[string]bool{}
	obs := make([]c19PartObs, len(entries))
	for i, e := range entries {
		if w.az != nil {
			obs[i].ACL = "allowed"
			if deniedE[i] {
				obs[i].ACL = "denied"
			}
		}
		obs[i].Kind = w.kindOf(b, e.part)
		kinds[strings.SplitN(obs[i].Kind, "+", 2)[0]] = true
		if strings.Contains(obs[i].Kind, "+") {
			kinds["unknown_or_beyond"] = true
		}
	}
	believedBefore := make([]bool, len(entries))
	for i, e := range entries {
		believedBefore[i] = b.h.leaseManager.Owns(e.part.Topic, e.part.P)
	}
	s0 := w.s3.eventCount()
	req := c19BuildReq(entries, acks)
	payload, ok := w.call(b, req, int32(n), who)
	s1 := w.s3.eventCount()
	fault := b.kv.disarm()
	if !ok {
		return false
	}
	// --- ground truth after
	evs, ok := w.sync()
	if !ok {
		return false
	}
	r1, kv1 := w.lastRev, w.lastKV
	var replies map[c19Part]c19Reply
	if acks != 0 {
		if payload == nil {
			w.fail("produce with acks!=0 returned no payload")
			return false
		}
		var err error
		if replies, err = c19Decode(payload, entries); err != nil {
			w.fail(err.Error())
			return false
		}
	} else if payload != nil {
		w.fail("produce with acks=0 returned a payload")
		return false
	}
	st := c19Step{N: n, Op: "produce", Broker: b.name(), Detail: fmt.Sprintf("acks=%d", acks), Events: w.evStrings(evs)}
	if who != nil {
		st.Who = who.String()
		w.aclCount(req, entries, obs, deniedE)
	}
	if b.unnoticed {
		st.Detail += " [this broker's etcd session lease has been expired on the server; the broker has not been told yet]"
	}
	if b.shut {
		st.Detail += " [ReleaseAll was called on this broker]"
	}
	if fault != "" {
		st.Detail += " [injected etcd fault: " + w.label(fault) + "]"
		w.r.Count("lease_txn_faults_delivered", 1)
	}
	type viol struct{ class, summary string }
	var viols []viol
	var retry []int
	unavailableAfter := !b.h.etcdAvailable()
	for i, e := range entries {
		key := e.part.key()
		before, hadBefore := kv0[key]
		after, hasAfter := kv1[key]
		stable := (!hadBefore && !hasAfter) || (hadBefore && hasAfter && before.ModRev == after.ModRev && before.Val == after.Val)
		heldAfter := hasAfter && after.Val == b.id
		o := &obs[i]
		o.Part = w.label(fmt.Sprintf("%s/%d", e.part.Topic, e.part.P))
		o.Before, o.After = c19KVStr(before, hadBefore), c19KVStr(after, hasAfter)
		o.Batch = w.label(e.batch)
		o.Writes = w.writesBy(b.instID, e.part, s0, s1)
		// cross-check the two ground truths (barrier reads vs watch log)
		onKey := w.e.watch.eventsOn(key, r0, r1)
		if stable != (len(onKey) == 0) {
			w.fail(fmt.Sprintf("harness: barrier reads and watch log disagree on %s between rev %d and %d (stable=%v, %d events)", key, r0, r1, stable, len(onKey)))
			return false
		}
		neverHeld := stable && !heldAfter // the key named another broker, or nobody, for the whole request
		pname := o.Part
		if acks == 0 {
			switch {
			case neverHeld && o.Writes > 0:
				o.Verdict = "VIOLATION: S3 writes without the lease"
				viols = append(viols, viol{"write_" + w.noLeaseCause(b, key, after, hasAfter, believedBefore[i]),
					fmt.Sprintf("%s (acks=0) wrote %d S3 objects for %s while its lease key was %s for the whole request", b.name(), o.Writes, pname, o.After)})
			case neverHeld:
				o.Verdict = "ok: lease not held, nothing written"
				w.r.Count("acks0_not_held_nothing_written", 1)
			default:
				o.Verdict = "ok: lease held (acks=0, no reply)"
				w.r.Count("acks0_held", 1)
			}
			continue
		}
		rep := replies[e.part]
		code, base := rep.code, rep.base
		o.Code, o.Base = &code, &base
		w.r.Count("reply_"+c19CodeName(code), 1)
		if code == 0 {
			switch {
			case heldAfter:
				o.Verdict = "ok: success, lease key names this broker"
				w.nAckHeld++
				w.r.Count("success_lease_held", 1)
				if !stable && hadBefore && before.Val != b.id {
					w.r.Count("success_owner_changed_during_request", 1)
				}
				if hasAfter && !b.lapi.owns(after.Lease) {
					w.r.Count("obs_success_key_attached_to_lease_of_other_instance", 1)
				}
				w.acked = append(w.acked, c19Acked{part: e.part, batch: e.batch, inst: b.instID, step: n, base: base, broker: b.id})
			case neverHeld:
				cause := w.noLeaseCause(b, key, after, hasAfter, believedBefore[i])
				o.Verdict = "VIOLATION: success without the lease"
				viols = append(viols, viol{"ack_" + cause,
					fmt.Sprintf("%s answered code 0 (base offset %d) for %s while the lease key was %s before AND after the request (unchanged: no event on the key in between)", b.name(), base, pname, o.After)})
				w.acked = append(w.acked, c19Acked{part: e.part, batch: e.batch, inst: b.instID, step: n, base: base, broker: b.id})
			default:
				// ownership changed while the request ran and did not end with this broker: not judged
				o.Verdict = "not judged: lease key changed during the request"
				w.r.Count("success_ownership_changed_during_request_not_judged", 1)
			}
			continue
		}
		// non-success
		switch {
		case !neverHeld:
			// the broker holds (or held at the start of the request) the lease and failed for another
			// reason (unknown topic, partition out of range …): outside this property
			o.Verdict = "ok: lease held, failed for another reason (not judged by C19)"
			w.r.Count("failed_while_lease_held_"+c19CodeName(code), 1)
			if deniedE[i] {
				w.r.Count("acl_denied_entry_lease_held_"+c19CodeName(code), 1)
			}
		default:
			if o.Writes > 0 {
				o.Verdict = "VIOLATION: S3 writes without the lease"
				viols = append(viols, viol{"write_" + w.noLeaseCause(b, key, after, hasAfter, believedBefore[i]),
					fmt.Sprintf("%s answered %s for %s but wrote %d S3 objects for it while the lease key was %s for the whole request", b.name(), c19CodeName(code), pname, o.Writes, o.After)})
				break
			}
			if deniedE[i] {
				// the principal may not produce to this topic: which code the entry carries is C24's
				// business (TOPIC_AUTHORIZATION_FAILED is neither NOT_LEADER nor retriable); C19 only
				// demanded (above) that nothing was written without the lease
				o.Verdict = "ok: nothing written (code not judged by C19: topic denied to the principal, see C24)"
				w.r.Count("acl_denied_entry_lease_not_held_nothing_written_"+c19CodeName(code), 1)
				break
			}
			if b.unnoticed || w.foreignDel[key] == b.id {
				// the broker cannot know that it lost the lease (expired but not told, or its key was
				// deleted by another broker's stale Release): which error it picks for a request that
				// fails anyway is not judged
				o.Verdict = "ok: nothing written (code not judged: the broker cannot know it lost the lease)"
				w.r.Count("unnoticed_window_failed_nothing_written", 1)
				break
			}
			if hasAfter {
				// another broker holds the lease
				if code != protocol.NOT_LEADER_OR_FOLLOWER {
					if c19Retriable(code) && !unavailableAfter {
						// a retriable code may be a transient etcd hiccup (lease txn timeout): ask again
						retry = append(retry, i)
						break
					}
					if unavailableAfter && c19Retriable(code) {
						o.Verdict = "ok: the broker rates etcd unavailable; retriable error, nothing written"
						w.r.Count("foreign_but_etcd_rated_unavailable", 1)
						break
					}
					o.Verdict = "VIOLATION: another broker holds the lease but the code is not NOT_LEADER_OR_FOLLOWER"
					viols = append(viols, viol{"foreign_owner_answered_" + c19CodeName(code),
						fmt.Sprintf("%s answered %s for %s whose lease key was %s for the whole request (expected NOT_LEADER_OR_FOLLOWER)", b.name(), c19CodeName(code), pname, o.After)})
					break
				}
				o.Verdict = "ok: foreign owner, NOT_LEADER_OR_FOLLOWER, nothing written"
				w.nForeignRej++
				w.r.Count("foreign_rejected_not_leader", 1)
				break
			}
			if !c19Retriable(code) {
				o.Verdict = "VIOLATION: no lease, error code not retriable"
				viols = append(viols, viol{"no_lease_answered_nonretriable_" + c19CodeName(code),
					fmt.Sprintf("%s answered %s (not retriable per kerr) for %s whose lease key was absent for the whole request", b.name(), c19CodeName(code), pname)})
				break
			}
			o.Verdict = "ok: no lease, retriable error, nothing written"
			w.r.Count("no_lease_retriable_"+c19CodeName(code), 1)
		}
	}
	st.Parts = obs
	w.steps = append(w.steps, st)
	for _, i := range retry {
		// the same question once more, alone: a deterministic wrong code repeats, a hiccup does not
		o := &w.steps[len(w.steps)-1].Parts[i]
		code2, foreign2, ok := w.askAgain(b, entries[i].part, rng, who)
		if !ok {
			return false
		}
		switch {
		case !foreign2:
			o.Verdict = "not judged: lease key changed before the confirming request"
		case code2 == protocol.NOT_LEADER_OR_FOLLOWER:
			o.Verdict = "ok: foreign owner; first answer " + c19CodeName(*o.Code) + " was transient (the repeated request got NOT_LEADER_OR_FOLLOWER)"
			w.r.Count("foreign_transient_retriable_code", 1)
		default:
			o.Verdict = "VIOLATION: another broker holds the lease but the code is not NOT_LEADER_OR_FOLLOWER (twice)"
			viols = append(viols, viol{"foreign_owner_answered_" + c19CodeName(*o.Code),
				fmt.Sprintf("%s answered %s, and %s when asked again, for %s whose lease key was %s for the whole of both requests (expected NOT_LEADER_OR_FOLLOWER)", b.name(), c19CodeName(*o.Code), c19CodeName(code2), o.Part, o.After)})
		}
	}
	if len(kinds) >= 2 {
		w.nMixed++
		w.r.Count("requests_mixing_ownership_kinds", 1)
	}
	for k := range kinds {
		w.kinds[k] = true
	}
	w.r.Count("produce_requests", 1)
	w.r.Count("partition_entries", int64(len(entries)))
	for _, v := range viols {
		w.violated = true
		w.r.Violation(v.class, fmt.Sprintf("[case %d step %d] %s", w.ci, n, v.summary), w.witness())
	}
	// idle brokers must not write at all
	w.s3.mu.Lock()
	for _, e := range w.s3.events[s0:s1] {
		if e.Inst != b.instID && (e.Op == "upload_segment" || e.Op == "upload_index") {
			w.r.Count("obs_s3_write_by_broker_without_request", 1)
		}
	}
	w.s3.mu.Unlock()
	return w.refreshTopics()
}

// aclCount: coverage of the ACL x lease combinations of one request, by position in the request.
// Topics appear in the request in the order c19BuildReq gave them (first appearance in entries).
func (w *c19World) aclCount(req *kmsg.ProduceRequest, entries []c19Entry, obs []c19PartObs, deniedE []bool) {
	pos := map[string]int{}
	for i, t := range req.Topics {
		pos[t.Topic] = i
	}
	firstDenied, nDenied, nAllowed := -1, 0, 0
	for i, e := range entries {
		if deniedE[i] {
			nDenied++
			if p := pos[e.part.Topic]; firstDenied < 0 || p < firstDenied {
				firstDenied = p
			}
		} else {
			nAllowed++
		}
	}
	w.r.Count("acl_requests", 1)
	if nDenied == 0 {
		return
	}
	w.r.Count("acl_requests_with_denied_topic", 1)
	w.r.Count("acl_denied_entries", int64(nDenied))
	if nAllowed > 0 {
		w.r.Count("acl_requests_mixing_denied_and_allowed_topics", 1)
	}
	seen := map[string]bool{}
	for i, e := range entries {
		if deniedE[i] {
			w.r.Seen("acl_denied_entry_ownership_kinds", obs[i].Kind)
			continue
		}
		own := strings.SplitN(obs[i].Kind, "+", 2)[0]
		rel := "after"
		if pos[e.part.Topic] < firstDenied {
			rel = "before"
		}
		k := "acl_requests_" + own + "_partition_" + rel + "_first_denied_topic"
		if !seen[k] {
			seen[k] = true
			w.r.Count(k, 1)
		}
	}
}

// refreshTopics waits until every live broker's metadata lists the same topics
// (an auto-created topic reaches the other brokers through the snapshot watch)
// and updates the harness's view of partition counts.
func (w *c19World) refreshTopics() bool {
	deadline := time.Now().Add(c19Watchdog)
	for {
		var views []string
		counts := map[string]int32{}
		for _, b := range w.cur {
			if b == nil || b.dead {
				continue
			}
			meta, err := b.store.Metadata(context.Background(), nil)
			if err != nil {
				w.fail("harness: store.Metadata: " + err.Error())
				return false
			}
			var names []string
			for _, t := range meta.Topics {
				if t.Topic != nil && strings.HasPrefix(*t.Topic, w.tag) {
					names = append(names, fmt.Sprintf("%s:%d", *t.Topic, len(t.Partitions)))
					counts[*t.Topic] = int32(len(t.Partitions))
				}
			}
			sort.Strings(names)
			views = append(views, strings.Join(names, ","))
		}
		same := true
		for _, v := range views {
			if v != views[0] {
				same = false
			}
		}
		if same {
			w.topics = counts
			return true
		}
		if time.Now().After(deadline) {
			w.fail("watchdog: brokers' topic metadata did not converge")
			return false
		}
		time.Sleep(time.Millisecond)
	}
}

// clearVictim: broker id has dropped its belief (in key, or in everything): a
// later success without the lease is no longer explained by a foreign release.
func (w *c19World) clearVictim(id, key string) {
	for k, v := range w.foreignDel {
		if v == id && (key == "" || k == key) {
			delete(w.foreignDel, k)
		}
	}
}

// release: PartitionLeaseManager.Release on one partition.
func (w *c19World) release(b *c19Inst, p c19Part) bool {
	if _, ok := w.sync(); !ok {
		return false
	}
	owned := b.h.leaseManager.Owns(p.Topic, p.P)
	b.h.leaseManager.Release(p.Topic, p.P)
	fault := b.kv.disarm()
	w.clearVictim(b.id, p.key())
	evs, ok := w.sync()
	if !ok {
		return false
	}
	for _, e := range evs {
		if e.Del && e.HasPrev && e.PrevVal != b.id {
			// C18's known defect (stale_release_deletes_foreign_key): remember the victim
			w.foreignDel[e.Key] = e.PrevVal
			w.r.Count("obs_release_deleted_foreign_key_(C18)", 1)
		}
	}
	d := fmt.Sprintf("Release(%s/%d), broker believed it owned it: %v", w.label(p.Topic), p.P, owned)
	if b.unnoticed {
		d += " [session expired on the server, not yet noticed]"
	}
	if fault != "" {
		d += " [injected etcd fault: " + w.label(fault) + "]"
		w.r.Count("release_delete_faults_delivered", 1)
	}
	w.steps = append(w.steps, c19Step{N: len(w.steps) + 1, Op: "release", Broker: b.name(), Detail: d, Events: w.evStrings(evs)})
	w.r.Count("step_release", 1)
	return true
}

func (w *c19World) releaseAll(b *c19Inst) bool {
	b.h.leaseManager.ReleaseAll()
	b.shut = true
	w.clearVictim(b.id, "")
	b.unnoticed = false // Session.Close ends the keep-alive: the manager has dropped everything
	evs, ok := w.sync()
	if !ok {
		return false
	}
	w.steps = append(w.steps, c19Step{N: len(w.steps) + 1, Op: "release_all", Broker: b.name(), Detail: "ReleaseAll (graceful shutdown: broker drains, must not accept new writes)", Events: w.evStrings(evs)})
	w.r.Count("step_release_all", 1)
	return true
}

// expire: the etcd server expires every live lease of the instance (harness revoke).
// notice=false leaves the broker in the window every lease protocol has.
func (w *c19World) expire(b *c19Inst, notice bool) bool {
	ids := b.lapi.liveIDs()
	believed := w.believed(b)
	for _, id := range ids {
		ctx, cancel := context.WithTimeout(context.Background(), c19Watchdog)
		_, err := w.e.admin.Revoke(ctx, id)
		cancel()
		if err != nil {
			w.fail("harness: revoke: " + err.Error())
			return false
		}
		b.lapi.markDead(id)
	}
	evs, ok := w.sync()
	if !ok {
		return false
	}
	d := fmt.Sprintf("server-side expiry of %d lease(s) of this broker; it believed it owned %d partition(s)", len(ids), len(believed))
	w.steps = append(w.steps, c19Step{N: len(w.steps) + 1, Op: "expire", Broker: b.name(), Detail: d, Events: w.evStrings(evs)})
	w.r.Count("step_expire", 1)
	if len(ids) == 0 {
		return true
	}
	if !notice {
		if len(believed) > 0 {
			b.unnoticed = true
			w.nUnnoticed++
			w.r.Count("expired_unnoticed_windows", 1)
		} else {
			// nothing to believe in: deliver the notice right away
			b.lapi.notice()
		}
		return true
	}
	return w.notice(b, believed)
}

// notice: the broker's client learns that its lease is gone (keep-alive channel
// closes, Session.Done fires). Waits until the manager has processed it.
func (w *c19World) notice(b *c19Inst, believed []c19Part) bool {
	if believed == nil {
		believed = w.believed(b)
	}
	n := b.lapi.notice()
	deadline := time.Now().Add(c19Watchdog / 2)
	for {
		still := 0
		for _, p := range believed {
			if b.h.leaseManager.Owns(p.Topic, p.P) {
				still++
			}
		}
		if still == 0 {
			break
		}
		if time.Now().After(deadline) {
			w.fail(fmt.Sprintf("watchdog: %s still claims %d partition(s) %v after its keep-alive channel was closed", b.name(), still, c19Watchdog/2))
			return false
		}
		time.Sleep(200 * time.Microsecond)
	}
	b.unnoticed = false
	w.clearVictim(b.id, "")
	w.steps = append(w.steps, c19Step{N: len(w.steps) + 1, Op: "notice", Broker: b.name(), Detail: fmt.Sprintf("keep-alive channel of %d expired lease(s) closed; manager no longer claims any of the %d partition(s)", n, len(believed))})
	w.r.Count("step_notice", 1)
	return true
}

// restart: the process of slot idx is gone (crash, or stop after ReleaseAll); a
// new process with the same broker id starts. expireOld: the old process's
// session lease has already expired on the server.
func (w *c19World) restart(idx int, expireOld bool) bool {
	old := w.cur[idx]
	w.stopInst(old)
	w.clearVictim(old.id, "")
	ids := old.lapi.liveIDs()
	if expireOld {
		for _, id := range ids {
			ctx, cancel := context.WithTimeout(context.Background(), c19Watchdog)
			_, err := w.e.admin.Revoke(ctx, id)
			cancel()
			if err != nil {
				w.fail("harness: revoke: " + err.Error())
				return false
			}
			old.lapi.markDead(id)
		}
	}
	if !w.startInst(idx) {
		return false
	}
	evs, ok := w.sync()
	if !ok {
		return false
	}
	d := fmt.Sprintf("process %s is gone (was shut down: %v); new process %s with the same broker id; old session lease expired: %v (live leases left: %d)",
		old.name(), old.shut, w.cur[idx].name(), expireOld, len(old.lapi.liveIDs()))
	w.steps = append(w.steps, c19Step{N: len(w.steps) + 1, Op: "restart", Broker: w.cur[idx].name(), Detail: d, Events: w.evStrings(evs)})
	w.r.Count("step_restart", 1)
	return w.refreshTopics()
}

// expireZombies: the session leases of earlier (dead) processes of this slot expire.
func (w *c19World) expireZombies(idx int) bool {
	n := 0
	for _, b := range w.all {
		if b.idx != idx || !b.dead {
			continue
		}
		for _, id := range b.lapi.liveIDs() {
			ctx, cancel := context.WithTimeout(context.Background(), c19Watchdog)
			_, err := w.e.admin.Revoke(ctx, id)
			cancel()
			if err != nil {
				w.fail("harness: revoke: " + err.Error())
				return false
			}
			b.lapi.markDead(id)
			n++
		}
	}
	if n == 0 {
		return true
	}
	evs, ok := w.sync()
	if !ok {
		return false
	}
	w.steps = append(w.steps, c19Step{N: len(w.steps) + 1, Op: "expire_dead_process_leases", Broker: fmt.Sprintf("broker%d", idx+1), Detail: fmt.Sprintf("%d lease(s) of crashed processes expire on the server", n), Events: w.evStrings(evs)})
	w.r.Count("step_expire_dead_process_leases", 1)
	return true
}

// endOfCase: observations beyond the statement (never violations of C19): is
// every acknowledged batch still in exactly one S3 segment of its partition?
func (w *c19World) endOfCase() {
	byPart := map[c19Part]map[string][]string{} // partition -> batch id -> segment keys
	for _, a := range w.acked {
		if _, ok := byPart[a.part]; ok {
			continue
		}
		m := map[string][]string{}
		prefix := fmt.Sprintf("default/%s/%d/", a.part.Topic, a.part.P)
		for _, k := range w.s3.keys(prefix) {
			if !strings.HasSuffix(k, ".kfs") {
				continue
			}
			body, _ := w.s3.get(k)
			seg := parseSegment(k, body)
			for _, bt := range seg.Batches {
				if len(bt.Records) == 0 {
					continue
				}
				v := string(bt.Records[0].Value)
				if i := strings.IndexByte(v, '#'); i > 0 {
					m[v[:i]] = append(m[v[:i]], k)
				}
			}
		}
		byPart[a.part] = m
	}
	brokersPer := map[c19Part]map[string]bool{}
	for _, a := range w.acked {
		if brokersPer[a.part] == nil {
			brokersPer[a.part] = map[string]bool{}
		}
		brokersPer[a.part][a.broker] = true
		segs := byPart[a.part][a.batch]
		switch {
		case len(segs) == 1:
			w.r.Count("end_acked_batch_in_exactly_one_segment", 1)
		case len(segs) == 0:
			if w.violated || w.noted {
				w.r.Count("obs_acked_batch_missing_from_s3_at_end", 1)
				break
			}
			w.noted = true
			w.r.Count("obs_acked_batch_missing_from_s3_at_end_in_case_without_C19_violation", 1)
			if w.e.notedExample {
				break
			}
			w.e.notedExample = true
			w.mu.Lock()
			w.r.Note("obs_acked_batch_missing_example", map[string]any{"case": w.ci, "seed": w.r.Seed, "batch": w.label(a.batch), "partition": w.label(fmt.Sprintf("%s/%d", a.part.Topic, a.part.P)),
				"acked_by_instance": a.inst, "acked_at_step": a.step, "base_offset": a.base, "case_violated_C19": w.violated, "steps": w.steps,
				"note": "not a C19 violation: recorded because handing a partition back to a broker that still caches its PartitionLog re-uses offsets and overwrites the other broker's segment"})
			w.mu.Unlock()
		default:
			w.r.Count("obs_acked_batch_in_several_segments", 1)
		}
	}
	for _, bs := range brokersPer {
		if len(bs) >= 2 {
			w.nHandover++
		}
	}
}

// askAgain sends a one-partition produce and reports its code and whether the
// lease key named one and the same other broker before and after it.
func (w *c19World) askAgain(b *c19Inst, p c19Part, rng *rand.Rand, who *c19Who) (int16, bool, bool) {
	if _, ok := w.sync(); !ok {
		return 0, false, false
	}
	kv0 := w.lastKV
	id := fmt.Sprintf("%s-s%d-again", w.tag, len(w.steps))
	entries := []c19Entry{{part: p, batch: id, raw: mkBatch(rng, id, 1, 16), nrec: 1}}
	payload, ok := w.call(b, c19BuildReq(entries, 1), 9999, who)
	if !ok {
		return 0, false, false
	}
	if _, ok := w.sync(); !ok {
		return 0, false, false
	}
	rep, err := c19Decode(payload, entries)
	if err != nil {
		w.fail(err.Error())
		return 0, false, false
	}
	a, okA := kv0[p.key()]
	z, okZ := w.lastKV[p.key()]
	foreign := okA && okZ && a.ModRev == z.ModRev && a.Val == z.Val && z.Val != b.id
	return rep[p].code, foreign, true
}

// ---------------------------------------------------------------------------
// case generation (every choice comes from the case's PRNG)

func (w *c19World) pickParts(b *c19Inst, rng *rand.Rand) []c19Part {
	uni := w.universe(false)
	cats := map[string][]c19Part{}
	for _, p := range uni {
		k := w.kindOf(b, p)
		c := strings.SplitN(k, "+", 2)[0]
		if strings.Contains(k, "+") {
			c = "odd" // unknown topic or beyond the partition count (whoever owns the key)
		}
		cats[c] = append(cats[c], p)
	}
	var names []string
	for c := range cats {
		names = append(names, c)
	}
	sort.Strings(names)
	var out []c19Part
	seen := map[c19Part]bool{}
	newTopic := map[string]bool{}
	add := func(p c19Part) {
		if seen[p] {
			return
		}
		if _, exists := w.topics[p.Topic]; !exists && w.autoCreate {
			// auto-create makes the topic with p+1 partitions: a second partition of the same
			// not-yet-existing topic in one request could be out of range (never returns)
			if newTopic[p.Topic] {
				return
			}
			newTopic[p.Topic] = true
		}
		seen[p] = true
		out = append(out, p)
	}
	if rng.Intn(100) < 70 && len(names) >= 2 {
		rng.Shuffle(len(names), func(i, j int) { names[i], names[j] = names[j], names[i] })
		k := 2 + rng.Intn(len(names)-1)
		for _, c := range names[:k] {
			add(cats[c][rng.Intn(len(cats[c]))])
		}
		if rng.Intn(3) == 0 {
			add(uni[rng.Intn(len(uni))])
		}
	} else {
		k := 1 + rng.Intn(3)
		for i := 0; i < k; i++ {
			add(uni[rng.Intn(len(uni))])
		}
	}
	rng.Shuffle(len(out), func(i, j int) { out[i], out[j] = out[j], out[i] })
	return out
}

// pickPartsACL (ACL cases): draws the request's principal and its partitions. Starting from pickParts'
// ownership mix it makes sure (when the case's topics allow it) that the request names at least one topic
// the principal may not produce to AND one it may, so that denied and judged entries share a request in
// PRNG order (pickParts' final shuffle decides which topic comes first).
func (w *c19World) pickPartsACL(b *c19Inst, rng *rand.Rand) []c19Part {
	who := w.whos[rng.Intn(len(w.whos))]
	if len(w.deniers) > 0 && rng.Intn(10) < 7 {
		who = w.deniers[rng.Intn(len(w.deniers))]
	}
	w.next = &who
	out := w.pickParts(b, rng)
	if rng.Intn(10) == 0 {
		return out
	}
	have := map[c19Part]bool{}
	perTopic := map[string]int{}
	nDenied, nAllowed := 0, 0
	for _, p := range out {
		have[p] = true
		perTopic[p.Topic]++
		if w.denied(&who, p.Topic) {
			nDenied++
		} else {
			nAllowed++
		}
	}
	addOne := func(wantDenied bool) {
		var cand []c19Part
		for _, p := range w.universe(false) {
			if have[p] || w.denied(&who, p.Topic) != wantDenied {
				continue
			}
			if _, exists := w.topics[p.Topic]; !exists && w.autoCreate && perTopic[p.Topic] > 0 {
				continue // same constraint as pickParts: one partition of a not-yet-existing topic per request
			}
			cand = append(cand, p)
		}
		if len(cand) > 0 {
			p := cand[rng.Intn(len(cand))]
			have[p] = true
			perTopic[p.Topic]++
			out = append(out, p)
		}
	}
	if nDenied == 0 {
		addOne(true)
	}
	if nAllowed == 0 {
		addOne(false)
	}
	if rng.Intn(2) == 0 {
		addOne(false) // one more judged entry: more own/foreign/unowned slots behind or in front of the denied topic
	}
	rng.Shuffle(len(out), func(i, j int) { out[i], out[j] = out[j], out[i] })
	return out
}

// scriptACL: directed opening of an ACL case. Two brokers take the case's partitions with an unrestricted
// principal (three PRNG splits), then 3-5 requests by PRNG brokers carry a restricted principal and mix a
// topic denied to it with own / foreign / unowned partitions of topics it may produce to, in PRNG order.
func (w *c19World) scriptACL(rng *rand.Rand) bool {
	perm := rng.Perm(3)
	A, B := w.cur[perm[0]], w.cur[perm[1]]
	ta, tb := w.tag+"a", w.tag+"b"
	a0, a1, b0 := c19Part{ta, 0}, c19Part{ta, 1}, c19Part{tb, 0}
	ok := true
	PA := func(b *c19Inst, parts ...c19Part) {
		if ok {
			all := w.whoAll
			w.next = &all
			ok = w.produce(w.cur[b.idx], parts, -1, rng)
		}
	}
	switch rng.Intn(4) {
	case 0:
		PA(A, a0, a1)
		PA(B, b0)
	case 1:
		PA(A, a0, b0)
		PA(B, a1)
	case 2:
		PA(A, b0)
		PA(B, a0, a1)
	default:
		PA(A, a0) // a1 and b0 stay unowned: their leases are acquired by whoever asks first
	}
	k := 3 + rng.Intn(3)
	for i := 0; i < k && ok; i++ {
		b := w.cur[rng.Intn(3)]
		parts := w.pickPartsACL(b, rng)
		ok = w.produce(b, parts, c19Acks(rng), rng)
	}
	return ok
}

func c19Acks(rng *rand.Rand) int16 {
	switch rng.Intn(10) {
	case 0:
		return 0
	case 1, 2, 3:
		return 1
	}
	return -1
}

func (w *c19World) randomStep(rng *rand.Rand) bool {
	idx := rng.Intn(3)
	b := w.cur[idx]
	x := rng.Intn(100)
	switch {
	case x < 56:
		var parts []c19Part
		if w.az != nil {
			parts = w.pickPartsACL(b, rng)
		} else {
			parts = w.pickParts(b, rng)
		}
		if rng.Intn(6) == 0 {
			// the lease manager's etcd request for one of the partitions fails
			b.kv.arm(parts[rng.Intn(len(parts))].key(), []string{"before", "after"}[rng.Intn(2)])
		}
		return w.produce(b, parts, c19Acks(rng), rng)
	case x < 64:
		bel := w.believed(b)
		var p c19Part
		if len(bel) > 0 && rng.Intn(5) > 0 {
			p = bel[rng.Intn(len(bel))]
		} else {
			u := w.universe(false)
			p = u[rng.Intn(len(u))]
		}
		if rng.Intn(4) == 0 {
			b.kv.arm(p.key(), "before") // the Delete never reaches etcd
		}
		return w.release(b, p)
	case x < 71:
		return w.expire(b, true)
	case x < 79:
		return w.expire(b, false)
	case x < 86:
		for _, c := range w.cur {
			if c.unnoticed {
				return w.notice(c, nil)
			}
		}
		return w.produce(b, w.pickParts(b, rng), c19Acks(rng), rng)
	case x < 90:
		if b.shut {
			return w.restart(idx, true)
		}
		return w.releaseAll(b)
	case x < 96:
		return w.restart(idx, rng.Intn(2) == 0)
	}
	return w.expireZombies(idx)
}

// script: directed openings that put the brokers into the lease states the
// property quantifies over; the random tail then continues from there.
func (w *c19World) script(rng *rand.Rand) bool {
	perm := rng.Perm(3)
	A, B, C := w.cur[perm[0]], w.cur[perm[1]], w.cur[perm[2]]
	ta, tb, tu := w.tag+"a", w.tag+"b", w.tag+"u"
	a0, a1, b0, u0 := c19Part{ta, 0}, c19Part{ta, 1}, c19Part{tb, 0}, c19Part{tu, 0}
	beyond := c19Part{ta, w.topics[ta] + 1}
	odd := u0
	if !w.autoCreate && rng.Intn(2) == 0 {
		odd = beyond
	}
	ok := true
	do := func(f func() bool) {
		if ok {
			ok = f()
		}
	}
	P := func(b *c19Inst, parts ...c19Part) {
		do(func() bool { return w.produce(w.cur[b.idx], parts, c19Acks(rng), rng) })
	}
	PA := func(b *c19Inst, parts ...c19Part) { // acknowledged
		do(func() bool { return w.produce(w.cur[b.idx], parts, -1, rng) })
	}
	switch rng.Intn(9) {
	case 8: // C18's stale release: an expired-unnoticed broker releases after another broker took over
		PA(A, a0, b0)
		do(func() bool { return w.expire(A, false) })
		PA(B, a0)
		do(func() bool { return w.release(w.cur[A.idx], a0) })
		PA(B, a0, a1)
		PA(C, a0)
		do(func() bool { return w.notice(w.cur[A.idx], nil) })
		PA(B, a0)
	case 0: // mixed ownership
		PA(A, a0, a1)
		PA(B, a1, b0)
		P(A, a0, b0, odd)
		P(C, a0, b0, a1)
	case 1: // expired, not noticed, another broker takes over
		PA(A, a0, b0)
		do(func() bool { return w.expire(A, false) })
		PA(B, a0)
		PA(A, a0, b0, a1)
		do(func() bool { return w.notice(A, nil) })
		PA(A, a0, b0)
	case 2: // expired and noticed
		PA(A, a0, a1)
		do(func() bool { return w.expire(A, true) })
		PA(B, a0)
		PA(A, a0, a1)
	case 3: // release, hand-over, hand back
		PA(A, a0, b0)
		do(func() bool { return w.release(A, a0) })
		PA(B, a0, b0)
		PA(A, a0, b0)
		do(func() bool { return w.release(B, a0) })
		PA(A, a0)
	case 4: // graceful shutdown
		PA(A, a0, a1)
		do(func() bool { return w.releaseAll(A) })
		PA(A, a0, a1, b0)
		PA(B, a0)
		do(func() bool { return w.restart(A.idx, true) })
		PA(A, a0, a1)
	case 5: // crash, fast restart with the same broker id (reacquire path), old session still alive on the server
		PA(A, a0, a1)
		do(func() bool { return w.restart(A.idx, false) })
		PA(B, a0, a1)
		PA(A, a0)
		do(func() bool { return w.expireZombies(A.idx) })
		PA(B, a0, a1)
		PA(A, a0, a1)
	case 6: // expired unnoticed, nobody takes over
		PA(A, a0, odd)
		do(func() bool { return w.expire(A, false) })
		P(A, a0, a1)
		do(func() bool { return w.notice(A, nil) })
		PA(A, a0, a1)
	default: // three brokers contend for everything
		PA(A, a0, a1, b0)
		PA(B, a0, a1, b0)
		PA(C, a0, a1, b0, odd)
		do(func() bool { return w.expire(A, true) })
		PA(C, a0, a1, b0)
		PA(B, a0, a1, b0)
	}
	return ok
}

func c19Sig(w *c19World) string {
	var sb strings.Builder
	fmt.Fprintf(&sb, "ac=%v;", w.autoCreate)
	for _, st := range w.steps {
		fmt.Fprintf(&sb, "%s:%s", st.Op, strings.SplitN(st.Broker, "#", 2)[0])
		if st.Who != "" {
			fmt.Fprintf(&sb, "<%s>", st.Who)
		}
		for _, p := range st.Parts {
			c := "-"
			if p.Code != nil {
				c = fmt.Sprint(*p.Code)
			}
			fmt.Fprintf(&sb, "[%s %s%s %s %s>%s w%d]", p.Part, p.Kind, map[string]string{"": "", "allowed": "", "denied": " DENIED"}[p.ACL], c, strings.SplitN(p.Before, "@", 2)[0], strings.SplitN(p.After, "@", 2)[0], p.Writes)
		}
		sb.WriteString(";")
	}
	return sb.String()
}

const c19Rule = "3 real broker handlers (EtcdStore + real PartitionLeaseManager each) over one embedded etcd and one attributing fake S3; PRNG case = directed opening + random tail of steps {produce (1-4 partitions mixing own / foreign / unowned / unknown-topic / beyond-count, acks -1/1/0), Release, ReleaseAll, server-side lease expiry with or without the broker being told, notice, crash+restart with the same broker id, expiry of a dead process's lease}. Ground truth = the etcd lease key read in one transaction immediately before and after each request (value@mod_revision), cross-checked with a WithPrevKV watch log. Oracle per partition entry: code 0 => the key names this broker after the request (violation only if the key was unchanged across the request and named another broker or nobody); key unchanged and naming another broker => NOT_LEADER_OR_FOLLOWER (a retriable other code is re-asked once); key absent and unchanged => kerr-retriable code; lease never held during the request => zero S3 uploads by this broker instance under that partition's prefix (also for acks=0). Non-trivial case = had a request mixing >=2 ownership kinds, a success under a held lease and a foreign-owner rejection. ACL CASES (a further half as many cases, own PRNG streams): every broker handler gets an enabled acl.Authorizer (PRNG profile: default allow + per-principal deny rules, or default deny + allow rules; exact and trailing-* topic names) and every produce request carries a PRNG principal (client id, connection principal, or none = anonymous); after a directed opening (two brokers take the partitions with an unrestricted principal, then 3-5 requests of a restricted principal) the same random tail runs. Requests are built so that a topic denied to the principal shares the request with own / foreign / unowned partitions of topics it may produce to, the topic order being a PRNG shuffle (floors: foreign, own and unowned partitions behind the first denied topic, foreign ones in front of it). The oracle for entries of allowed topics is unchanged; for an entry of a denied topic (decided by the harness's own acl.Authorizer built from the same config) code 0 and S3 uploads still require the lease, but which error code it carries is not judged here (C24 judges it)."

func TestVerifC19(t *testing.T) {
	r := verifkit.Start(t, "C19", "lease")
	defer r.Finish(c19Rule+" || CONCURRENT PART: "+c19ConcRule,
		"'Otherwise' in the statement is read as 'when the broker does not hold the lease': a partition whose lease the broker holds but which fails for another reason (unknown topic with auto-create off, partition beyond the count) is not judged here",
		"holding the lease = the etcd key /kafscale/partition-leases/<topic>/<p> has this broker's id as value",
		"if the lease key changed while the request ran and does not name this broker afterwards the entry is not judged",
		"in the expired-but-unnoticed window only successes and S3 writes are judged, not which error code a failing request carries",
		"lease TTLs are replaced by 3600 s so that only the harness expires leases; retriable = kerr.IsRetriable(kerr.ErrorForCode(code))",
		"concurrent part: lease state changes (Release, expiry, restart) of a broker happen only while none of its requests is in flight, so C18's known same-broker Release/Acquire races are not re-derived here; requests themselves race freely (AcquireAll, singleflight, session creation, partition log init)",
		"concurrent part: another owner for the whole request => the code only has to be retriable (NOT_LEADER_OR_FOLLOWER is counted); the strict form is judged by the sequential part")
	env := newC19Env(t, r)
	defer env.wcancel()
	c19SeqCases(env, r)
	c19ConcCases(env, r)
}

func c19SeqCases(env *c19Env, r *verifkit.Run) {
	n := r.N(80, 1000)
	nACL := r.N(40, 500)
	troubles := 0
	var tSetup, tRun, tClose time.Duration
	defer func() {
		r.Note("diag_wall_split_s", map[string]float64{"setup": tSetup.Seconds(), "steps": tRun.Seconds(), "close": tClose.Seconds()})
	}()
	for ci := 0; ci < n+nACL; ci++ {
		rng := r.Rand(ci)
		t0 := time.Now()
		// cases n .. n+nACL-1 are the ACL cases (own PRNG streams: the first n cases are what they were without them)
		aclCase := ci >= n
		var w *c19World
		if aclCase {
			rng = r.Rand(2000000 + ci - n)
			w = env.newWorld(2000000+ci-n, rng.Intn(2) == 0, 2+int32(rng.Intn(2)), 1+int32(rng.Intn(2)), rng)
		} else {
			w = env.newWorld(ci, rng.Intn(2) == 0, 2+int32(rng.Intn(2)), 1+int32(rng.Intn(2)), nil)
		}
		tSetup += time.Since(t0)
		t0 = time.Now()
		opening := w.script
		if aclCase && rng.Intn(4) > 0 {
			opening = w.scriptACL // the other ACL cases run the ordinary openings with PRNG principals
		}
		if w.trouble == "" && opening(rng) {
			tail := 3 + rng.Intn(7)
			for i := 0; i < tail && w.trouble == ""; i++ {
				if !w.randomStep(rng) {
					break
				}
			}
		}
		if w.trouble == "" {
			w.endOfCase()
		}
		tRun += time.Since(t0)
		t0 = time.Now()
		w.close()
		tClose += time.Since(t0)
		if w.trouble != "" {
			troubles++
			r.Inconclusive(fmt.Sprintf("case %d: %s", ci, w.trouble))
			r.Evals(1)
			if troubles >= 3 {
				break
			}
			continue
		}
		nontrivial := w.nMixed > 0 && w.nAckHeld > 0 && w.nForeignRej > 0
		r.Case(c19Sig(w), nontrivial)
		for k := range w.kinds {
			r.Seen("ownership_kinds_requested", k)
		}
		if w.nUnnoticed > 0 {
			r.Count("cases_with_expired_unnoticed_window", 1)
		}
		if w.nHandover > 0 {
			r.Count("cases_with_partition_acked_by_two_brokers", 1)
		}
		if ci < 2 || ci == n {
			r.Sample(w.witness())
		}
		if aclCase {
			r.Count("acl_cases", 1)
		}
	}
	r.Floor("acl_requests_mixing_denied_and_allowed_topics", 40)
	r.Floor("acl_requests_foreign_partition_after_first_denied_topic", 10)
	r.Floor("acl_requests_foreign_partition_before_first_denied_topic", 10)
	r.Floor("acl_requests_own_partition_after_first_denied_topic", 10)
	r.Floor("acl_requests_unowned_partition_after_first_denied_topic", 10)
	r.Floor("success_lease_held", 100)
	r.Floor("foreign_rejected_not_leader", 50)
	r.Floor("requests_mixing_ownership_kinds", 50)
	r.Floor("cases_with_partition_acked_by_two_brokers", 5)
}

// ---------------------------------------------------------------------------
// concurrent leg: real goroutines, several requests in flight on every broker

type c19ConcRec struct {
	client  int
	seq     int
	broker  *c19Inst
	r0, r1  int64
	s0, s1  int
	entries []c19Entry
	replies map[c19Part]c19Reply
}

func (w *c19World) concWitness(rec *c19ConcRec, extra map[string]any) map[string]any {
	var parts []map[string]any
	for _, e := range rec.entries {
		evs := w.e.watch.eventsOn(e.part.key(), 0, rec.r1)
		parts = append(parts, map[string]any{
			"partition":                  w.label(fmt.Sprintf("%s/%d", e.part.Topic, e.part.P)),
			"code":                       rec.replies[e.part].code,
			"base_offset":                rec.replies[e.part].base,
			"lease_key_history_to_after": w.evStrings(evs),
			"s3_writes_by_this_instance": w.writesBy(rec.broker.instID, e.part, rec.s0, rec.s1),
		})
	}
	out := map[string]any{"case": w.ci, "seed": w.r.Seed, "tier": w.r.Tier, "leg": "conc", "broker": rec.broker.name(), "client": rec.client, "request": rec.seq,
		"etcd_revision_before": rec.r0, "etcd_revision_after": rec.r1, "partitions": parts, "chaos_steps": w.steps,
		"legend": "the request ran entirely between the two etcd transactions at etcd_revision_before/after; lease_key_history lists every event on the partition's lease key up to etcd_revision_after"}
	for k, v := range extra {
		out[k] = v
	}
	return out
}

const c19ConcRule = "same 3 real brokers, but 4 client goroutines keep several produce requests in flight on every broker (1-3 partitions of 3 contended partitions plus an out-of-range one) while a chaos goroutine, holding the target broker's gate exclusively (no request of that broker in flight), does Release / lease expiry+notice / crash+restart. Every request is bracketed by its own etcd barrier transactions (revisions R0,R1) and S3 event-log positions; judged afterwards against the WithPrevKV watch log: code 0 => this broker's id was the lease key's value at some revision in [R0,R1]; never the value in [R0,R1] => kerr-retriable code and no S3 upload by this broker instance under the partition's prefix while the request ran. Non-trivial case = had successes, foreign rejections and at least one partition acknowledged by two different brokers in turn."

func c19ConcCases(env *c19Env, r *verifkit.Run) {
	n := r.N(10, 150)
	troubles := 0
	for ci := 0; ci < n; ci++ {
		rng := r.Rand(1000000 + ci)
		w := env.newWorld(1000000+ci, false, 2, 1, nil)
		if w.trouble == "" {
			c19ConcCase(w, rng)
		}
		w.close()
		if w.trouble != "" {
			troubles++
			r.Inconclusive(fmt.Sprintf("conc case %d: %s", ci, w.trouble))
			r.Evals(1)
			if troubles >= 3 {
				break
			}
		}
	}
	r.Floor("conc_success_owner_in_window", 80)
	r.Floor("conc_never_owner_rejected", 80)
}

func c19ConcCase(w *c19World, rng *rand.Rand) {
	ta, tb := w.tag+"a", w.tag+"b"
	uni := []c19Part{{ta, 0}, {ta, 1}, {tb, 0}, {ta, 0}, {ta, 1}, {tb, 0}, {ta, 5}}
	const clients, perClient = 4, 7
	var gates [3]sync.RWMutex
	var mu sync.Mutex
	var recs []*c19ConcRec
	var wg sync.WaitGroup
	var inflight, maxInflight, completed atomic.Int64
	seeds := make([]int64, clients+1)
	for i := range seeds {
		seeds[i] = rng.Int63()
	}
	stop := make(chan struct{})
	for c := 0; c < clients; c++ {
		wg.Add(1)
		go func(c int) {
			defer wg.Done()
			lr := rand.New(rand.NewSource(seeds[c]))
			for q := 0; q < perClient; q++ {
				idx := lr.Intn(3)
				k := 1 + lr.Intn(3)
				seen := map[c19Part]bool{}
				var entries []c19Entry
				for len(entries) < k {
					p := uni[lr.Intn(len(uni))]
					if seen[p] {
						continue
					}
					seen[p] = true
					id := fmt.Sprintf("%s-c%d-q%d-e%d", w.tag, c, q, len(entries))
					entries = append(entries, c19Entry{part: p, batch: id, raw: mkBatch(lr, id, 1+lr.Intn(2), 8+lr.Intn(24)), nrec: 1})
				}
				gates[idx].RLock()
				b := w.cur[idx]
				rec := &c19ConcRec{client: c, seq: q, broker: b, entries: entries}
				var err error
				if rec.r0, _, err = w.e.barrier(w.tag); err != nil {
					w.fail(err.Error())
					gates[idx].RUnlock()
					return
				}
				rec.s0 = w.s3.eventCount()
				if x := inflight.Add(1); x > maxInflight.Load() {
					maxInflight.Store(x)
				}
				payload, ok := w.call(b, c19BuildReq(entries, -1), int32(c*100+q), nil)
				inflight.Add(-1)
				rec.s1 = w.s3.eventCount()
				if ok {
					rec.r1, _, err = w.e.barrier(w.tag)
					if err != nil {
						w.fail(err.Error())
						ok = false
					}
				}
				gates[idx].RUnlock()
				if !ok {
					return
				}
				if rec.replies, err = c19Decode(payload, entries); err != nil {
					w.fail(err.Error())
					return
				}
				mu.Lock()
				recs = append(recs, rec)
				mu.Unlock()
				completed.Add(1)
			}
		}(c)
	}
	// chaos
	chaosDone := make(chan struct{})
	go func() {
		defer close(chaosDone)
		lr := rand.New(rand.NewSource(seeds[clients]))
		nops := 5 + lr.Intn(6)
		for i := 0; i < nops; i++ {
			select {
			case <-stop:
				return
			default:
			}
			// let some requests through between two lease-state changes (progress-paced, not timed)
			want := int64((i + 1) * clients * perClient / (nops + 1))
			for completed.Load() < want {
				select {
				case <-stop:
					return
				default:
				}
				time.Sleep(100 * time.Microsecond)
			}
			idx := lr.Intn(3)
			gates[idx].Lock()
			b := w.cur[idx]
			ok := true
			switch x := lr.Intn(10); {
			case x < 5:
				bel := w.believed(b)
				if len(bel) > 0 {
					ok = w.release(b, bel[lr.Intn(len(bel))])
				}
			case x < 8:
				ok = w.expire(b, true)
			default:
				ok = w.restart(idx, lr.Intn(2) == 0)
			}
			gates[idx].Unlock()
			if !ok {
				return
			}
		}
	}()
	wg.Wait()
	close(stop)
	<-chaosDone
	if w.trouble != "" {
		return
	}
	// a final barrier so that the watch log covers every request
	if _, _, err := w.e.barrier(w.tag); err != nil {
		w.fail(err.Error())
		return
	}
	if m := maxInflight.Load(); m >= 2 {
		w.r.Count("conc_cases_with_overlapping_requests", 1)
	}
	succ, rej, changed := 0, 0, 0
	var sig []string
	for _, rec := range recs {
		me := rec.broker.id
		for _, e := range rec.entries {
			rep := rec.replies[e.part]
			owners := w.e.watch.ownersIn(e.part.key(), rec.r0, rec.r1)
			pname := w.label(fmt.Sprintf("%s/%d", e.part.Topic, e.part.P))
			var os []string
			for o := range owners {
				if o == "" {
					o = "absent"
				}
				os = append(os, o)
			}
			sort.Strings(os)
			ostr := strings.Join(os, ",")
			writes := w.writesBy(rec.broker.instID, e.part, rec.s0, rec.s1)
			w.r.Count("conc_partition_entries", 1)
			if rep.code == 0 {
				if owners[me] {
					succ++
					w.r.Count("conc_success_owner_in_window", 1)
					if len(owners) > 1 {
						changed++
						w.r.Count("conc_success_lease_acquired_during_request", 1)
					}
					w.acked = append(w.acked, c19Acked{part: e.part, batch: e.batch, inst: rec.broker.instID, base: rep.base, broker: me})
				} else {
					w.violated = true
					w.r.Violation("conc_ack_never_owner_during_request",
						fmt.Sprintf("[conc case %d] %s answered code 0 (base offset %d) for %s although the lease key's values between the etcd transactions before and after the request were only {%s}", w.ci, rec.broker.name(), rep.base, pname, ostr),
						w.concWitness(rec, map[string]any{"partition_judged": pname, "owners_during_request": ostr}))
				}
				continue
			}
			if owners[me] {
				w.r.Count("conc_failed_while_owner_in_window_"+c19CodeName(rep.code), 1)
				continue
			}
			rej++
			w.r.Count("conc_never_owner_rejected", 1)
			if writes > 0 {
				w.violated = true
				w.r.Violation("conc_write_never_owner_during_request",
					fmt.Sprintf("[conc case %d] %s answered %s for %s but uploaded %d S3 objects for it while the request ran; lease key values in that span: {%s}", w.ci, rec.broker.name(), c19CodeName(rep.code), pname, writes, ostr),
					w.concWitness(rec, map[string]any{"partition_judged": pname, "owners_during_request": ostr}))
			}
			if !c19Retriable(rep.code) {
				w.violated = true
				w.r.Violation("conc_no_lease_answered_nonretriable_"+c19CodeName(rep.code),
					fmt.Sprintf("[conc case %d] %s answered %s (not retriable) for %s; lease key values while the request ran: {%s}", w.ci, rec.broker.name(), c19CodeName(rep.code), pname, ostr),
					w.concWitness(rec, map[string]any{"partition_judged": pname, "owners_during_request": ostr}))
			}
			if len(owners) == 1 && !owners[""] {
				if rep.code == protocol.NOT_LEADER_OR_FOLLOWER {
					w.r.Count("conc_foreign_whole_request_not_leader", 1)
				} else {
					w.r.Count("conc_foreign_whole_request_other_retriable_"+c19CodeName(rep.code), 1)
				}
			}
		}
		sig = append(sig, fmt.Sprintf("%d/%d:%s", rec.client, rec.seq, rec.broker.id))
	}
	w.endOfCase()
	sort.Strings(sig)
	w.r.Case(verifkit.Hash(w.ci, len(recs), succ, rej, changed, c19Sig(w), strings.Join(sig, " ")), succ > 0 && rej > 0 && w.nHandover > 0)
	if w.nHandover > 0 {
		w.r.Count("conc_cases_with_partition_acked_by_two_brokers", 1)
	}
	w.r.Count("conc_requests", int64(len(recs)))
	if w.ci == 1000000 {
		var rs []map[string]any
		for i, rec := range recs {
			if i >= 6 {
				break
			}
			rs = append(rs, w.concWitness(rec, nil))
		}
		w.r.Sample(map[string]any{"case": w.ci, "part": "concurrent", "first_requests": rs})
	}
}
